package main

import (
	"encoding/json"
	"errors"
	"fmt"
	"math/big"
	"os"
	"reflect"
	"runtime/debug"
	"sort"
	"strconv"
	"strings"
	"sync"
	"time"

	"github.com/getkin/kin-openapi/openapi3"
	"github.com/getkin/kin-openapi/openapi3gen"
)

// C18: a case is an abstract Go type (spec/GoTypes.tla), a generator option set and a list of
// abstract Go values, all chosen by TLC.  The driver realises the type (reflect, or one of the
// declared types of c18_types.go), generates the schema with openapi3gen.NewSchemaRefForValue,
// loads schema + component map through the real loader, encodes every value with
// encoding/json and lets the loaded schema visit the decoded JSON.  Logged: the type as
// realised, the generated schema and components (abstract form), every encoding (tagged JSON)
// and the validator's verdicts.  No oracle here: TLC judges the line (spec/Trace_C18.tla).

// ---------------------------------------------------------------------------------------------
// numbers: codes <-> decimal texts, from the table TLC wrote (spec/GoTypes.tla Points/Halves)

type c18PointTable struct {
	texts  []string
	rats   []*big.Rat
	zero   int // 1-based index of "0"
	halves map[int]string
}

var c18Points = sync.OnceValue(func() *c18PointTable {
	path := os.Getenv("VERIF_POINTS")
	if path == "" {
		panic("harness: VERIF_POINTS not set")
	}
	raws, err := readCases(path)
	if err != nil || len(raws) != 1 {
		panic(fmt.Sprintf("harness: cannot read point table %s: %v", path, err))
	}
	var in struct {
		Points []string `json:"points"`
		Zero   int      `json:"zero"`
		Halves []struct {
			Q int    `json:"q"`
			D string `json:"d"`
		} `json:"halves"`
	}
	if err := json.Unmarshal(raws[0], &in); err != nil {
		panic(err)
	}
	pt := &c18PointTable{texts: in.Points, zero: in.Zero, halves: map[int]string{}}
	for i, d := range in.Points {
		r, ok := new(big.Rat).SetString(d)
		if !ok {
			panic("harness: bad point " + d)
		}
		if i > 0 && pt.rats[i-1].Cmp(r) >= 0 {
			panic("harness: point table not increasing at " + d)
		}
		pt.rats = append(pt.rats, r)
	}
	for _, h := range in.Halves {
		pt.halves[h.Q] = h.D
	}
	return pt
})

func (pt *c18PointTable) textOf(q int) string {
	if q%4 == 0 {
		i := q/4 + pt.zero - 1
		if i < 0 || i >= len(pt.texts) {
			panic(fmt.Sprintf("harness: code %d outside the point table", q))
		}
		return pt.texts[i]
	}
	if d, ok := pt.halves[q]; ok {
		return d
	}
	panic(fmt.Sprintf("harness: code %d has no decimal text", q))
}

// codeOf maps a JSON number text to its code: the point it equals, or lower neighbour + 2.
func (pt *c18PointTable) codeOf(text string) (int, bool) {
	r, ok := new(big.Rat).SetString(text)
	if !ok {
		return 0, false
	}
	// largest i with rats[i] <= r
	i := sort.Search(len(pt.rats), func(i int) bool { return pt.rats[i].Cmp(r) > 0 }) - 1
	if i >= 0 && pt.rats[i].Cmp(r) == 0 {
		return 4 * (i + 1 - pt.zero), true
	}
	return 4*(i+1-pt.zero) + 2, true
}

// ---------------------------------------------------------------------------------------------
// types

var c18TimeType = reflect.TypeOf(time.Time{})

var c18BaseKinds = map[string]reflect.Type{
	"bool": reflect.TypeOf(false), "string": reflect.TypeOf(""),
	"int": reflect.TypeOf(int(0)), "int8": reflect.TypeOf(int8(0)), "int16": reflect.TypeOf(int16(0)),
	"int32": reflect.TypeOf(int32(0)), "int64": reflect.TypeOf(int64(0)),
	"uint": reflect.TypeOf(uint(0)), "uint8": reflect.TypeOf(uint8(0)), "uint16": reflect.TypeOf(uint16(0)),
	"uint32": reflect.TypeOf(uint32(0)), "uint64": reflect.TypeOf(uint64(0)),
	"float32": reflect.TypeOf(float32(0)), "float64": reflect.TypeOf(float64(0)),
	"bytes": reflect.TypeOf([]byte(nil)), "time": c18TimeType,
}

func c18Type(a any) reflect.Type {
	m := a.(map[string]any)
	k := m["k"].(string)
	switch k {
	case "ptr":
		return reflect.PointerTo(c18Type(m["e"]))
	case "slice":
		return reflect.SliceOf(c18Type(m["e"]))
	case "map":
		return reflect.MapOf(reflect.TypeOf(""), c18Type(m["e"]))
	case "named":
		t, ok := c18Named[m["n"].(string)]
		if !ok {
			panic("harness: no declared type " + m["n"].(string))
		}
		return t
	case "struct":
		var fs []reflect.StructField
		for _, fa := range asSlice(m["f"]) {
			fm := fa.(map[string]any)
			sf := reflect.StructField{Name: fm["n"].(string), Type: c18Type(fm["t"])}
			if j, ok := fm["j"].(string); ok {
				tag := j
				if oe, _ := fm["oe"].(bool); oe {
					tag += ",omitempty"
				}
				if qs, _ := fm["qs"].(bool); qs {
					tag += ",string"
				}
				sf.Tag = reflect.StructTag(`json:"` + tag + `"`)
			}
			if emb, _ := fm["emb"].(bool); emb {
				sf.Anonymous = true
			}
			fs = append(fs, sf)
		}
		return reflect.StructOf(fs)
	}
	if t, ok := c18BaseKinds[k]; ok {
		return t
	}
	panic("harness: unknown kind " + k)
}

// c18ProjectType reads a reflect.Type back into the abstract grammar (declared types by name,
// unless top asks for the definition itself).
func c18ProjectType(t reflect.Type, top bool) any {
	if !top {
		if n, ok := c18NameOf[t]; ok {
			return T{"k": "named", "n": n}
		}
	}
	switch t.Kind() {
	case reflect.Ptr:
		return T{"k": "ptr", "e": c18ProjectType(t.Elem(), false)}
	case reflect.Slice:
		if t.Elem().Kind() == reflect.Uint8 {
			return T{"k": "bytes"}
		}
		return T{"k": "slice", "e": c18ProjectType(t.Elem(), false)}
	case reflect.Map:
		if t.Key().Kind() != reflect.String {
			return T{"k": "unsupported:" + t.String()}
		}
		return T{"k": "map", "e": c18ProjectType(t.Elem(), false)}
	case reflect.Struct:
		if t == c18TimeType {
			return T{"k": "time"}
		}
		fs := []any{}
		for i := 0; i < t.NumField(); i++ {
			sf := t.Field(i)
			f := T{"n": sf.Name}
			if !sf.IsExported() {
				f["x"] = true
			}
			if !sf.IsExported() && !sf.Anonymous {
				f["t"] = T{"k": "opaque"} // neither encoding/json nor the generator looks at its type
			} else {
				f["t"] = c18ProjectType(sf.Type, false)
			}
			if tag, ok := sf.Tag.Lookup("json"); ok {
				parts := strings.Split(tag, ",")
				f["j"] = parts[0]
				for _, p := range parts[1:] {
					if p == "omitempty" {
						f["oe"] = true
					} else if p == "string" {
						f["qs"] = true
					} else {
						f["tagopt"] = p
					}
				}
			}
			if sf.Anonymous {
				f["emb"] = true
			}
			fs = append(fs, f)
		}
		return T{"k": "struct", "f": fs}
	case reflect.Bool, reflect.String, reflect.Int, reflect.Int8, reflect.Int16, reflect.Int32, reflect.Int64,
		reflect.Uint, reflect.Uint8, reflect.Uint16, reflect.Uint32, reflect.Uint64, reflect.Float32, reflect.Float64:
		return T{"k": t.Kind().String()}
	}
	return T{"k": "unsupported:" + t.String()}
}

// declared types mentioned anywhere in the abstract type
func c18NamesIn(a any, into map[string]bool) {
	m := a.(map[string]any)
	switch m["k"] {
	case "named":
		into[m["n"].(string)] = true
	case "ptr", "slice", "map":
		c18NamesIn(m["e"], into)
	case "struct":
		for _, fa := range asSlice(m["f"]) {
			c18NamesIn(fa.(map[string]any)["t"], into)
		}
	}
}

// ---------------------------------------------------------------------------------------------
// values

var c18Bytes = map[string][]byte{"empty": {}, "fbff": {0xfb, 0xff}, "a": []byte("a")}
var c18Times = map[string]time.Time{
	"zero": {},
	"t1":   time.Date(2024, 2, 29, 23, 59, 59, 123456789, time.FixedZone("", 5*3600+30*60)),
}

// c18Value builds the Go value of type t that the abstract value gv denotes.
func c18Value(t reflect.Type, gv any) reflect.Value {
	v := reflect.New(t).Elem()
	c18Fill(v, gv)
	return v
}

// c18Fill sets the addressable value v (of a type of any name: kinds decide) to what gv denotes.
func c18Fill(v reflect.Value, gv any) {
	m := gv.(map[string]any)
	t := v.Type()
	switch m["g"] {
	case "nil":
		if t.Kind() != reflect.Ptr {
			panic("harness: nil for non-pointer " + t.String())
		}
	case "ptr":
		p := reflect.New(t.Elem())
		c18Fill(p.Elem(), m["e"])
		v.Set(p.Convert(t)) // t may be a defined pointer type
	case "bool":
		v.SetBool(m["b"].(bool))
	case "num":
		text := c18Points().textOf(asInt(m["q"]))
		switch t.Kind() {
		case reflect.Int, reflect.Int8, reflect.Int16, reflect.Int32, reflect.Int64:
			n, err := strconv.ParseInt(text, 10, t.Bits())
			if err != nil {
				panic(err)
			}
			v.SetInt(n)
		case reflect.Uint, reflect.Uint8, reflect.Uint16, reflect.Uint32, reflect.Uint64:
			n, err := strconv.ParseUint(text, 10, t.Bits())
			if err != nil {
				panic(err)
			}
			v.SetUint(n)
		case reflect.Float32, reflect.Float64:
			f, err := strconv.ParseFloat(text, t.Bits())
			if err != nil {
				panic(err)
			}
			v.SetFloat(f)
		default:
			panic("harness: number for " + t.String())
		}
	case "str":
		v.SetString(csToString(m["cs"]))
	case "bytes":
		b, ok := c18Bytes[m["id"].(string)]
		if !ok {
			panic("harness: unknown bytes id")
		}
		v.SetBytes(append(make([]byte, 0, len(b)), b...))
	case "time":
		tv, ok := c18Times[m["id"].(string)]
		if !ok {
			panic("harness: unknown time id")
		}
		v.Set(reflect.ValueOf(tv))
	case "slice":
		es := asSlice(m["a"])
		s := reflect.MakeSlice(t, len(es), len(es))
		for i, e := range es {
			s.Index(i).Set(c18Value(t.Elem(), e))
		}
		v.Set(s)
	case "map":
		ks, vs := asSlice(m["k"]), asSlice(m["v"])
		mp := reflect.MakeMapWithSize(t, len(ks))
		for i := range ks {
			mp.SetMapIndex(reflect.ValueOf(ks[i].(string)), c18Value(t.Elem(), vs[i]))
		}
		v.Set(mp)
	case "struct":
		fs := asSlice(m["f"])
		if len(fs) != t.NumField() {
			panic(fmt.Sprintf("harness: %d field values for %s", len(fs), t))
		}
		for i, f := range fs {
			sf := t.Field(i)
			if !sf.IsExported() && !sf.Anonymous {
				// reflection cannot set it: its only value is the zero value
				if g := f.(map[string]any)["g"]; g != "zero" {
					panic(fmt.Sprintf("harness: value %v for unexported field %s.%s", g, t, sf.Name))
				}
				continue
			}
			// (the exported fields of an embedded struct of an unexported type can be set in place)
			c18Fill(v.Field(i), f)
		}
	default:
		panic(fmt.Sprintf("harness: bad abstract value %#v", gv))
	}
}

// c18JSONToTagged projects decoded JSON (UseNumber) to tagged form with number codes.
func c18JSONToTagged(v any) any {
	switch x := v.(type) {
	case nil:
		return T{"t": "null"}
	case bool:
		return T{"t": "bool", "b": x}
	case json.Number:
		q, ok := c18Points().codeOf(x.String())
		if !ok {
			return T{"t": "badnum", "text": x.String()}
		}
		return T{"t": "num", "q": q}
	case string:
		return T{"t": "str", "cs": stringToCs(x)}
	case []any:
		a := []any{}
		for _, e := range x {
			a = append(a, c18JSONToTagged(e))
		}
		return T{"t": "arr", "a": a}
	case map[string]any:
		keys := make([]string, 0, len(x))
		for k := range x {
			keys = append(keys, k)
		}
		sort.Strings(keys)
		ks, vs := []any{}, []any{}
		for _, k := range keys {
			ks = append(ks, k)
			vs = append(vs, c18JSONToTagged(x[k]))
		}
		return T{"t": "obj", "k": ks, "v": vs}
	}
	panic(fmt.Sprintf("harness: unexpected decoded JSON %#v", v))
}

// ---------------------------------------------------------------------------------------------
// schemas: OpenAPI JSON (as marshalled by the library) -> abstract schema of spec/GoSchema.tla

const c18RefPrefix = "#/components/schemas/"

func c18SchemaToAbs(o any) any {
	m, ok := o.(map[string]any)
	if !ok {
		return T{"unsupported": []any{"non-object schema"}}
	}
	if r, ok := m["$ref"]; ok {
		rs, _ := r.(string)
		if strings.HasPrefix(rs, c18RefPrefix) && !strings.Contains(rs[len(c18RefPrefix):], "/") {
			return T{"ref": rs[len(c18RefPrefix):]}
		}
		return T{"refraw": rs}
	}
	out := T{}
	var unsupported []any
	for f, x := range m {
		switch f {
		case "type", "format":
			if s, ok := x.(string); ok {
				out[f] = s
			} else {
				unsupported = append(unsupported, f)
			}
		case "nullable", "uniqueItems", "exclusiveMinimum", "exclusiveMaximum":
			if b, ok := x.(bool); ok {
				if b {
					out[f] = true
				}
			} else {
				unsupported = append(unsupported, f)
			}
		case "minimum", "maximum":
			n, ok := x.(json.Number)
			if !ok {
				unsupported = append(unsupported, f)
				continue
			}
			q, ok := c18Points().codeOf(n.String())
			if !ok {
				unsupported = append(unsupported, f)
				continue
			}
			out[f] = q
		case "minLength", "maxLength", "minItems", "maxItems", "minProperties", "maxProperties":
			out[f] = asInt(x)
		case "required":
			out[f] = x
		case "items":
			out[f] = c18SchemaToAbs(x)
		case "additionalProperties":
			if b, isb := x.(bool); isb {
				if !b {
					out["apFalse"] = true
				}
			} else {
				out["apSchema"] = c18SchemaToAbs(x)
			}
		case "properties":
			props, ok := x.(map[string]any)
			if !ok {
				unsupported = append(unsupported, f)
				continue
			}
			keys := make([]string, 0, len(props))
			for k := range props {
				keys = append(keys, k)
			}
			sort.Strings(keys)
			pk, ps := []any{}, []any{}
			for _, k := range keys {
				pk = append(pk, k)
				ps = append(ps, c18SchemaToAbs(props[k]))
			}
			out["pk"], out["ps"] = pk, ps
		default:
			unsupported = append(unsupported, f)
		}
	}
	if unsupported != nil {
		out["unsupported"] = unsupported
	}
	if len(out) == 0 {
		return []any{}
	}
	return out
}

func c18DecodeNumber(b []byte) (any, error) {
	d := json.NewDecoder(bytesReader(b))
	d.UseNumber()
	var v any
	err := d.Decode(&v)
	return v, err
}

// ---------------------------------------------------------------------------------------------

func c18Options(opt string) []openapi3gen.Option {
	switch opt {
	case "default":
		return nil
	case "useall":
		return []openapi3gen.Option{openapi3gen.UseAllExportedFields()}
	case "export":
		return []openapi3gen.Option{openapi3gen.CreateComponentSchemas(openapi3gen.ExportComponentSchemasOptions{
			ExportComponentSchemas: true})}
	case "exporttop":
		return []openapi3gen.Option{openapi3gen.CreateComponentSchemas(openapi3gen.ExportComponentSchemasOptions{
			ExportComponentSchemas: true, ExportTopLevelSchema: true})}
	case "throw":
		return []openapi3gen.Option{openapi3gen.ThrowErrorOnCycle()}
	case "custom":
		// a customizer that changes nothing; its presence alone switches the generator's type table off
		return []openapi3gen.Option{openapi3gen.SchemaCustomizer(
			func(name string, t reflect.Type, tag reflect.StructTag, schema *openapi3.Schema) error { return nil })}
	case "useall_export":
		return []openapi3gen.Option{openapi3gen.UseAllExportedFields(),
			openapi3gen.CreateComponentSchemas(openapi3gen.ExportComponentSchemasOptions{ExportComponentSchemas: true})}
	}
	// a caller-supplied type-name function whose result differs from reflect.Type.Name()
	tng := openapi3gen.CreateTypeNameGenerator(c18TypeName)
	switch opt {
	case "tng":
		return []openapi3gen.Option{tng}
	case "tng_export":
		return []openapi3gen.Option{tng, openapi3gen.CreateComponentSchemas(openapi3gen.ExportComponentSchemasOptions{
			ExportComponentSchemas: true})}
	case "tng_exporttop":
		return []openapi3gen.Option{tng, openapi3gen.CreateComponentSchemas(openapi3gen.ExportComponentSchemasOptions{
			ExportComponentSchemas: true, ExportTopLevelSchema: true})}
	}
	panic("harness: unknown option set " + opt)
}

func c18TypeName(t reflect.Type) string { return "T_" + t.Name() }

type c18Case struct {
	T    any    `json:"T"`
	Opt  string `json:"opt"`
	Vals []any  `json:"vals"`
	Reps any    `json:"reps"` // optional: number of repetitions with fresh generators
	// optional history: the same Generator has generated First before, and the judged call gets the
	// same component map (Share) or a new one
	First any  `json:"first"`
	Share bool `json:"share"`
}

const c18RootName = "VerifRootSchema"

// Circuit breaker: every case that hung or killed the child costs a watchdog period and a fresh
// child; the shared runner gives up (exit 2) after 200 of them.  When generation stops
// terminating for a whole family of types, the first c18BreakerLimit abnormal cases are recorded
// as observed and the remaining cases are recorded as not run, so that the run ends with TLC's
// verdict on the recorded hangs instead of an infrastructure failure.  The counter lives in the
// file named by VERIF_C18_BREAKER (set by the pipeline for the main driver run).
const c18BreakerLimit = 5

func c18BreakerOpen() bool {
	path := os.Getenv("VERIF_C18_BREAKER")
	if path == "" {
		return false
	}
	st, err := os.Stat(path)
	return err == nil && st.Size() >= c18BreakerLimit
}

func c18BreakerCount() {
	if path := os.Getenv("VERIF_C18_BREAKER"); path != "" {
		if f, err := os.OpenFile(path, os.O_APPEND|os.O_CREATE|os.O_WRONLY, 0o644); err == nil {
			f.Write([]byte{'x'})
			f.Close()
		}
	}
}

func c18Run(c *Case) []any {
	if strconv.IntSize != 64 {
		panic("harness: C18 assumes a 64-bit int")
	}
	var tc c18Case
	c.Decode(&tc)
	line := map[string]any{"case": c.Idx, "T": tc.T, "opt": tc.Opt, "gvs": tc.Vals}
	if tc.Vals == nil {
		line["gvs"] = []any{}
	}
	if c18BreakerOpen() {
		// not an observation of the code: TLC rejects the line like a failed generation
		line["gen"] = "not_run_after_repeated_hangs"
		return []any{line}
	}
	t := c18Type(tc.T)
	line["rt"] = c18ProjectType(t, false)
	names := map[string]bool{}
	c18NamesIn(tc.T, names)
	if tc.First != nil {
		line["first"], line["share"] = tc.First, tc.Share
		line["rfirst"] = c18ProjectType(c18Type(tc.First), false)
		c18NamesIn(tc.First, names)
	}
	// close under the declared types' own mentions
	for changed := true; changed; {
		changed = false
		for n := range names {
			more := map[string]bool{}
			c18NamesIn(c18ProjectType(c18Named[n], true), more)
			for k := range more {
				if !names[k] {
					names[k] = true
					changed = true
				}
			}
		}
	}
	dk, dv := []any{}, []any{}
	sorted := make([]string, 0, len(names))
	for n := range names {
		sorted = append(sorted, n)
	}
	sort.Strings(sorted)
	for _, n := range sorted {
		dk = append(dk, n)
		dv = append(dv, c18ProjectType(c18Named[n], true))
	}
	line["rdefs"] = T{"k": dk, "v": dv}
	if strings.HasPrefix(tc.Opt, "tng") {
		// what the installed type-name function answers for the declared types (checked by TLC)
		tv := []any{}
		for _, n := range sorted {
			tv = append(tv, c18TypeName(c18Named[n]))
		}
		line["tng"] = T{"k": dk, "v": tv}
	}

	// One line per repetition, each with a fresh generator: what ends up in the component map can
	// depend on map iteration order inside the generator, so TLC asks for the types concerned to be
	// generated several times and judges every run.
	reps := 1
	if tc.Reps != nil {
		reps = asInt(tc.Reps)
	}
	// Runs with the same observation are logged as one line (rep = the first such run, nrep = how
	// many): TLC's verdict on a line is its verdict on each of those runs.
	lines := []any{}
	index := map[string]map[string]any{}
	for r := 0; r < reps; r++ {
		l := map[string]any{}
		for k, v := range line {
			l[k] = v
		}
		c18GenerateAndVisit(l, t, &tc)
		key, err := json.Marshal(l)
		if err != nil {
			panic(err)
		}
		if first, ok := index[string(key)]; ok {
			first["nrep"] = first["nrep"].(int) + 1
			continue
		}
		l["rep"], l["nrep"] = r, 1
		index[string(key)] = l
		lines = append(lines, l)
	}
	return lines
}

// c18GenerateAndVisit runs the generator once for type t and fills in the observations.
func c18GenerateAndVisit(line map[string]any, t reflect.Type, tc *c18Case) any {
	schemas := openapi3.Schemas{}
	var ref *openapi3.SchemaRef
	var err error
	gen := openapi3gen.NewGenerator(c18Options(tc.Opt)...)
	if tc.First != nil {
		// history: the generator has been used before
		first := c18Type(tc.First)
		var err1 error
		if p, msg := guard(func() { _, err1 = gen.NewSchemaRefForValue(reflect.Zero(first).Interface(), schemas) }); p {
			line["gen1"] = "panic: " + msg
		} else if err1 != nil {
			line["gen1"] = "error: " + err1.Error()
		} else {
			line["gen1"] = "ok"
		}
		if !tc.Share {
			schemas = openapi3.Schemas{}
		}
	}
	if p, msg := guard(func() {
		if tc.First != nil {
			ref, err = gen.NewSchemaRefForValue(reflect.Zero(t).Interface(), schemas)
		} else { // the package-level entry point (a generator of its own)
			ref, err = openapi3gen.NewSchemaRefForValue(reflect.Zero(t).Interface(), schemas, c18Options(tc.Opt)...)
		}
	}); p {
		line["gen"] = "panic"
		line["generr"] = msg
		return line
	}
	var cycleErr *openapi3gen.CycleError
	if errors.As(err, &cycleErr) {
		line["gen"] = "cycle_error"
		return line
	}
	if err != nil || ref == nil {
		line["gen"] = "error"
		line["generr"] = fmt.Sprint(err)
		return line
	}
	line["gen"] = "ok"
	rootJSON, err1 := json.Marshal(ref)
	compJSON := map[string]json.RawMessage{}
	var err2 error
	for n, s := range schemas {
		b, e := json.Marshal(s)
		if e != nil {
			err2 = e
		}
		compJSON[n] = b
	}
	if err1 != nil || err2 != nil {
		line["gen"] = "unmarshalable"
		line["generr"] = fmt.Sprint(err1, err2)
		return line
	}
	rootDec, _ := c18DecodeNumber(rootJSON)
	line["S"] = c18SchemaToAbs(rootDec)
	ck, cv := []any{}, []any{}
	cnames := make([]string, 0, len(compJSON))
	for n := range compJSON {
		cnames = append(cnames, n)
	}
	sort.Strings(cnames)
	for _, n := range cnames {
		d, _ := c18DecodeNumber(compJSON[n])
		ck = append(ck, n)
		cv = append(cv, c18SchemaToAbs(d))
	}
	line["comps"] = T{"k": ck, "v": cv}

	// load schema + components through the real loader
	all := map[string]json.RawMessage{}
	for n, b := range compJSON {
		all[n] = b
	}
	all[c18RootName] = rootJSON
	docJSON, err := json.Marshal(map[string]any{
		"openapi":    "3.0.3",
		"info":       map[string]any{"title": "t", "version": "1"},
		"paths":      map[string]any{},
		"components": map[string]any{"schemas": all},
	})
	if err != nil {
		panic(err)
	}
	var doc *openapi3.T
	if p, msg := guard(func() { doc, err = openapi3.NewLoader().LoadFromData(docJSON) }); p {
		line["load"] = "panic"
		line["loaderr"] = msg
		return line
	}
	if err != nil {
		line["load"] = "error"
		line["loaderr"] = err.Error()
		return line
	}
	rootRef := doc.Components.Schemas[c18RootName]
	if rootRef == nil || rootRef.Value == nil {
		line["load"] = "error"
		line["loaderr"] = "root schema not resolved"
		return line
	}
	line["load"] = "ok"
	root := rootRef.Value

	vals := []any{}
	for _, gv := range tc.Vals {
		ent := T{}
		val := c18Value(t, gv)
		b, err := json.Marshal(val.Interface())
		if err != nil {
			ent["enc"] = "error"
			ent["encerr"] = err.Error()
			vals = append(vals, ent)
			continue
		}
		ent["enc"] = "ok"
		dn, err := c18DecodeNumber(b)
		if err != nil {
			panic(err)
		}
		ent["json"] = c18JSONToTagged(dn)
		f64 := decodeJSONText(string(b), false)
		ent["of"] = verdict(func() error { return root.VisitJSON(f64) })
		ent["on"] = verdict(func() error { return root.VisitJSON(dn) })
		vals = append(vals, ent)
	}
	line["vals"] = vals
	return line
}

func init() {
	// Watchdog: a generous wall-clock limit for the ordinary cases (a loaded machine must not turn
	// a slow case into a "hang" observation); the pipeline runs the witness of the listed
	// non-termination finding in a driver process of its own with a short limit
	// (VERIF_C18_TIMEOUT_MS), because that generation allocates quadratically (10 GB in 10 s).
	timeout := 20000
	if v, err := strconv.Atoi(os.Getenv("VERIF_C18_TIMEOUT_MS")); err == nil && v > 0 {
		timeout = v
	}
	// The witness of the listed non-termination (field discovery recursing forever) allocates
	// quadratically in the recursion depth; in its own driver process the pipeline caps the stack
	// (VERIF_C18_MAXSTACK_KB) so that the run ends at once with Go's fatal "stack overflow", which
	// the runner records as the observation "crash".
	if kb, err := strconv.Atoi(os.Getenv("VERIF_C18_MAXSTACK_KB")); err == nil && kb > 0 {
		debug.SetMaxStack(kb << 10)
	}
	drivers["C18"] = &Driver{
		Run:              c18Run,
		PerCaseTimeoutMs: timeout,
		Abnormal: func(c *Case, kind string) []any {
			var tc c18Case
			c.Decode(&tc)
			c18BreakerCount()
			gvs := tc.Vals
			if gvs == nil {
				gvs = []any{}
			}
			return []any{map[string]any{"case": c.Idx, "T": tc.T, "opt": tc.Opt, "gvs": gvs, "gen": kind}}
		},
	}
}
