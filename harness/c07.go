package main

import (
	"context"
	"encoding/json"
	"errors"
	"io"
	"net/http"
	"net/http/httptest"
	"net/url"
	"strconv"
	"strings"

	"github.com/getkin/kin-openapi/openapi3"
	"github.com/getkin/kin-openapi/openapi3filter"
	"github.com/getkin/kin-openapi/routers/gorillamux"
)

// C07: ValidateRequest as a whole: security (operation/document level, scripted callback),
// path-level and operation-level parameters with overrides, body, options.  Logged: verdict,
// the failing parts named by the returned error(s), the callback's call sequence.

type c07Param struct {
	In   string `json:"in"`
	Name string `json:"name"`
	Kind string `json:"kind"`
	Text string `json:"text"`
}

type c07SecList struct {
	Absent bool       `json:"absent"`
	List   [][]string `json:"list"`
}

// c07Step: a further validation in the same process (RequestCheck!View): through an alias path item holding the same
// Operation value ("share"), a sibling operation of the same path item ("sibling"), the same route after the document
// was edited in place ("edit"), the first route with its original content restored ("back")
type c07Step struct {
	Via     string     `json:"via"`
	Method  string     `json:"method"` // the method of the operation this step validates (a sibling's differs from the case's)
	PParams []c07Param `json:"pparams"`
	OParams []c07Param `json:"oparams"`
	OpSec   c07SecList `json:"opSec"`
	DocSec  [][]string `json:"docSec"`
	BDecl   string     `json:"bdecl"`
}

type c07Case struct {
	OpSec   c07SecList `json:"opSec"`
	DocSec  [][]string `json:"docSec"`
	Accepts []string   `json:"accepts"`
	PParams []c07Param `json:"pparams"`
	OParams []c07Param `json:"oparams"`
	Values  []c07Param `json:"values"`
	// BDecl: what the operation declares ("none": no requestBody, "optional", "required"); Body: what the request
	// carries ("none": no body, "empty": a body of length 0, "pass" / "fail": JSON valid / invalid against the schema,
	// "otherct": bytes under an undeclared content type, "badjson": not JSON)
	BDecl         string `json:"bdecl"`
	Body          string `json:"body"`
	Multi         bool   `json:"multi"`
	ExclBody      bool   `json:"exclBody"`
	ExclQuery     bool   `json:"exclQuery"`
	AuthReadsBody bool   `json:"authReadsBody"`
	// Unsized: the body comes from a reader net/http cannot size (ContentLength 0 = unknown, as for a
	// request built around a pipe or a MultiReader)
	Unsized bool `json:"unsized"`
	// NilSec: the operation's empty security list is built in code: a non-nil pointer to a nil slice
	NilSec bool      `json:"nilsec"`
	Hist   []c07Step `json:"hist"`
	// Opts: "skipdefaults" / "exclreadonly": an option the statement does not mention is set; "nil": no Options at all
	Opts string `json:"opts"`
	// Method: the HTTP method under which the path item holds the operation (lower case, as the document spells it)
	Method string `json:"method"`
	// PRefs: "path" / "op" / "both": the parameters of that level are $refs to components.parameters
	PRefs string `json:"prefs"`
}

func c07Sec(reqs [][]string) []any {
	out := []any{}
	for _, r := range reqs {
		m := map[string]any{}
		for _, s := range r { // an atom "A+r+w" is scheme A with the scopes r, w
			f := strings.Split(s, "+")
			scopes := []any{}
			for _, sc := range f[1:] {
				scopes = append(scopes, sc)
			}
			m[f[0]] = scopes
		}
		out = append(out, m)
	}
	return out
}

// c07ParamJSON renders the parameters of one level; with comps != nil every parameter is declared under
// components.parameters and the level holds a $ref to it
func c07ParamJSON(ps []c07Param, level string, comps map[string]any) []any {
	out := []any{}
	for _, p := range ps {
		sch := map[string]any{"type": "integer"}
		if p.Kind == "strx" {
			sch = map[string]any{"type": "string", "pattern": "^x"}
		}
		m := map[string]any{"name": p.Name, "in": p.In, "schema": sch}
		if p.Kind == "cint" { // described by content instead of schema
			delete(m, "schema")
			m["content"] = map[string]any{"application/json": map[string]any{"schema": sch}}
		}
		if p.In == "path" {
			m["required"] = true
		}
		switch p.Kind {
		case "reqint":
			m["required"] = true
		case "reqintd":
			m["required"] = true
			sch["default"] = 1
		}
		if comps != nil {
			name := level + "_" + p.In + "_" + p.Name
			comps[name] = m
			out = append(out, map[string]any{"$ref": "#/components/parameters/" + name})
			continue
		}
		out = append(out, m)
	}
	return out
}

func c07Part(e error) string {
	var sre *openapi3filter.SecurityRequirementsError
	if errors.As(e, &sre) {
		return "security"
	}
	var re *openapi3filter.RequestError
	if errors.As(e, &re) {
		switch {
		case re.Parameter != nil:
			return "param:" + re.Parameter.In + ":" + re.Parameter.Name
		case re.RequestBody != nil:
			return "body"
		}
	}
	return "other"
}

func c07Op(oparams []c07Param, sec c07SecList, bdecl string, comps map[string]any) map[string]any {
	op := map[string]any{"responses": map[string]any{"200": map[string]any{"description": "ok"}}}
	if !sec.Absent {
		op["security"] = c07Sec(sec.List)
	}
	if len(oparams) > 0 {
		op["parameters"] = c07ParamJSON(oparams, "op", comps)
	}
	if bdecl != "none" && bdecl != "" {
		op["requestBody"] = map[string]any{"required": bdecl == "required", "content": map[string]any{"application/json": map[string]any{
			"schema": map[string]any{"type": "object", "required": []any{"k"}}}}}
	}
	return op
}

// c07Load builds the document of one view (path item /t: path-level parameters, the POST operation, sibling operations
// under other methods) and loads it through the real loader
func c07Load(tpath string, pparams []c07Param, ops map[string]any, docSec [][]string, pcomps, comps map[string]any) (*openapi3.T, error) {
	pathItem := map[string]any{}
	for m, op := range ops {
		pathItem[m] = op
	}
	if len(pparams) > 0 {
		pathItem["parameters"] = c07ParamJSON(pparams, "path", pcomps)
	}
	schemes := map[string]any{}
	for _, s := range []string{"A", "B", "C"} {
		schemes[s] = map[string]any{"type": "apiKey", "in": "header", "name": "X-" + s}
	}
	doc := map[string]any{"openapi": "3.0.3", "info": map[string]any{"title": "t", "version": "1"},
		"components": map[string]any{"securitySchemes": schemes, "parameters": comps},
		"paths":      map[string]any{tpath: pathItem}}
	if len(docSec) > 0 {
		doc["security"] = c07Sec(docSec)
	}
	data, _ := json.Marshal(doc)
	d, err := openapi3.NewLoader().LoadFromData(data)
	if err == nil {
		err = d.Validate(context.Background())
	}
	return d, err
}

var c07SiblingMethods = []string{"put", "patch", "delete"}

func c07Project(verr error, panicked bool) (string, []any) {
	parts := []any{}
	switch {
	case panicked:
		return "panic", parts
	case verr == nil:
		return "ok", parts
	}
	if me, ok := verr.(openapi3.MultiError); ok {
		for _, e := range me {
			parts = append(parts, c07Part(e))
		}
	} else {
		parts = append(parts, c07Part(verr))
	}
	return "error", parts
}

func c07Run(c *Case) []any {
	var tc c07Case
	c.Decode(&tc)
	var raw map[string]any
	c.Decode(&raw)
	line := map[string]any{"case": c.Idx, "c": raw}
	if tc.BDecl == "" { // a case recorded before the declaration became a dimension of its own
		tc.BDecl = "none"
		if tc.Body != "none" {
			tc.BDecl = "required"
		}
		raw["bdecl"] = tc.BDecl
	}
	if _, ok := raw["hist"]; !ok {
		raw["hist"] = []any{}
	}
	// a parameter in the path makes the path a template; the request then carries the value as a segment
	tpath, rpath := "/t", "/t"
	for _, ps := range [][]c07Param{tc.PParams, tc.OParams} {
		for _, p := range ps {
			if p.In == "path" {
				tpath = "/t/{" + p.Name + "}"
			}
		}
	}
	for _, v := range tc.Values {
		if v.In == "path" {
			rpath = "/t/" + v.Text
		}
	}
	// PRefs: the parameters of that level are $refs into components.parameters
	comps := map[string]any{}
	var pcomps, ocomps map[string]any
	if tc.PRefs == "path" || tc.PRefs == "both" {
		pcomps = comps
	}
	if tc.PRefs == "op" || tc.PRefs == "both" {
		ocomps = comps
	}
	if tc.Method == "" { // a case recorded before the method became a dimension
		tc.Method = "post"
		raw["method"] = "post"
	}
	METHOD := strings.ToUpper(tc.Method)
	ops := map[string]any{tc.Method: c07Op(tc.OParams, tc.OpSec, tc.BDecl, ocomps)}
	stepMethod := map[int]string{}
	for i, s := range tc.Hist {
		if s.Via == "sibling" {
			m := s.Method
			if m == "" {
				m = c07SiblingMethods[len(stepMethod)%len(c07SiblingMethods)]
			}
			stepMethod[i] = m
			ops[m] = c07Op(s.OParams, s.OpSec, s.BDecl, nil)
		}
	}
	d, err := c07Load(tpath, tc.PParams, ops, tc.DocSec, pcomps, comps)
	if err != nil {
		line["doc"] = "error"
		line["docErr"] = err.Error()
		return []any{line}
	}
	// the documents of the other views: their loaded parts are what an alias path item holds / what an edit installs
	views := map[int]*openapi3.T{}
	for i, s := range tc.Hist {
		if s.Via == "share" || s.Via == "edit" {
			dv, err := c07Load(tpath, s.PParams, map[string]any{tc.Method: c07Op(s.OParams, s.OpSec, s.BDecl, nil)}, s.DocSec, nil, map[string]any{})
			if err != nil {
				line["doc"] = "error"
				line["docErr"] = err.Error()
				return []any{line}
			}
			views[i] = dv
			if s.Via == "share" { // an alias path: another path item around the SAME Operation value
				alias := &openapi3.PathItem{Parameters: dv.Paths.Value(tpath).Parameters}
				alias.SetOperation(METHOD, d.Paths.Value(tpath).GetOperation(METHOD))
				d.Paths.Set("/u"+strconv.Itoa(i), alias)
			}
		}
	}
	line["doc"] = "ok"
	router, err := gorillamux.NewRouter(d)
	if err != nil {
		panic(err)
	}
	q := url.Values{}
	for _, v := range tc.Values {
		if v.In == "query" {
			q.Set(v.Name, v.Text)
		}
	}
	mkReqTo := func(method, path string) *http.Request {
		target := path
		if len(q) > 0 {
			target += "?" + q.Encode()
		}
		var body io.Reader
		ct := "application/json"
		switch tc.Body {
		case "empty":
			body = strings.NewReader("")
		case "pass":
			body = strings.NewReader(`{"k":1}`)
		case "fail":
			body = strings.NewReader(`{}`)
		case "otherct":
			body, ct = strings.NewReader(`hello`), "text/plain"
		case "badjson":
			body = strings.NewReader(`{"k":`)
		}
		req := httptest.NewRequest(method, target, body)
		if tc.Unsized && body != nil {
			req.Body = io.NopCloser(io.MultiReader(body))
			req.ContentLength = 0
			req.GetBody = nil
		}
		if body != nil {
			req.Header.Set("Content-Type", ct)
		}
		for _, v := range tc.Values {
			switch v.In {
			case "header":
				req.Header.Set(v.Name, v.Text)
			case "cookie":
				req.AddCookie(&http.Cookie{Name: v.Name, Value: v.Text})
			}
		}
		return req
	}
	mkReq := func() *http.Request { return mkReqTo(METHOD, rpath) }
	req := mkReq()
	route, pp, err := router.FindRoute(req)
	if err != nil {
		panic("harness: c07 route: " + err.Error())
	}
	if tc.NilSec {
		var own openapi3.SecurityRequirements // nil slice: the operation declares no alternative at all
		route.Operation.Security = &own
	}
	accepts := map[string]bool{}
	for _, a := range tc.Accepts {
		accepts[a] = true
	}
	calls := []any{}
	opts := &openapi3filter.Options{MultiError: tc.Multi, ExcludeRequestBody: tc.ExclBody, ExcludeRequestQueryParams: tc.ExclQuery,
		AuthenticationFunc: func(_ context.Context, in *openapi3filter.AuthenticationInput) error {
			atom := strings.Join(append([]string{in.SecuritySchemeName}, in.Scopes...), "+")
			calls = append(calls, atom)
			if tc.AuthReadsBody && in.RequestValidationInput.Request.Body != nil {
				io.ReadAll(in.RequestValidationInput.Request.Body)
			}
			if accepts[atom] {
				return nil
			}
			return errors.New("rejected")
		}}
	switch tc.Opts {
	case "skipdefaults":
		opts.SkipSettingDefaults = true
	case "exclreadonly":
		opts.ExcludeReadOnlyValidations = true
	case "nocallback": // Options without an AuthenticationFunc
		opts.AuthenticationFunc = nil
	case "nil": // no Options value at all
		opts = nil
	}
	input := &openapi3filter.RequestValidationInput{Request: req, PathParams: pp, Route: route, Options: opts}
	var verr error
	p, _ := guard(func() { verr = openapi3filter.ValidateRequest(context.Background(), input) })
	line["verdict"], line["parts"] = c07Project(verr, p)
	if verr != nil && !p {
		_, ismulti := verr.(openapi3.MultiError)
		line["ismulti"] = ismulti
	}
	line["calls"] = calls
	if line["verdict"] != "panic" {
		// history: the same document serves a validation of the same request with every exclusion option on, then the
		// case again: the third answer is judged like the first, and the document must not have changed
		before := docDigest(d)
		var other openapi3filter.Options
		if opts != nil {
			other = *opts
		}
		other.ExcludeRequestBody, other.ExcludeRequestQueryParams, other.MultiError = true, true, !tc.Multi
		guard(func() {
			openapi3filter.ValidateRequest(context.Background(), &openapi3filter.RequestValidationInput{Request: mkReq(), PathParams: pp, Route: route, Options: &other})
		})
		var verr3 error
		p3, _ := guard(func() {
			verr3 = openapi3filter.ValidateRequest(context.Background(), &openapi3filter.RequestValidationInput{Request: mkReq(), PathParams: pp, Route: route, Options: opts})
		})
		line["verdict3"], line["parts3"] = c07Project(verr3, p3)
		line["docSame"] = before == docDigest(d) || tc.NilSec // (a nil slice marshals as null: the digest is taken after it was set)
	}
	// the further validations of the history, in order
	steps := []any{}
	orig := struct {
		pp   openapi3.Parameters
		op   openapi3.Parameters
		sec  *openapi3.SecurityRequirements
		body *openapi3.RequestBodyRef
		dsec openapi3.SecurityRequirements
	}{route.PathItem.Parameters, route.Operation.Parameters, route.Operation.Security, route.Operation.RequestBody, d.Security}
	for i, s := range tc.Hist {
		method, path := METHOD, rpath
		switch s.Via {
		case "share":
			path = "/u" + strconv.Itoa(i)
		case "sibling":
			method = strings.ToUpper(stepMethod[i])
		case "edit": // the document is edited in place: the parts of the loaded view document are installed
			vpi := views[i].Paths.Value(tpath)
			vop := vpi.GetOperation(METHOD)
			route.PathItem.Parameters = vpi.Parameters
			route.Operation.Parameters = vop.Parameters
			route.Operation.Security = vop.Security
			route.Operation.RequestBody = vop.RequestBody
			d.Security = views[i].Security
		case "back":
			route.PathItem.Parameters, route.Operation.Parameters, route.Operation.Security, route.Operation.RequestBody, d.Security =
				orig.pp, orig.op, orig.sec, orig.body, orig.dsec
		}
		sreq := mkReqTo(method, path)
		sroute, spp, err := router.FindRoute(sreq)
		if err != nil {
			panic("harness: c07 step route: " + err.Error())
		}
		calls = []any{}
		var serr error
		sp, _ := guard(func() {
			serr = openapi3filter.ValidateRequest(context.Background(), &openapi3filter.RequestValidationInput{Request: sreq, PathParams: spp, Route: sroute, Options: opts})
		})
		v, parts := c07Project(serr, sp)
		steps = append(steps, map[string]any{"verdict": v, "parts": parts, "calls": calls})
	}
	line["steps"] = steps
	return []any{line}
}

func init() {
	drivers["C07"] = &Driver{Run: c07Run, Abnormal: func(c *Case, kind string) []any {
		var raw map[string]any
		c.Decode(&raw)
		return []any{map[string]any{"case": c.Idx, "c": raw, "doc": "ok", "verdict": kind, "parts": []any{}, "calls": []any{}, "steps": []any{}}}
	}}
}
