package main

import (
	"context"
	"encoding/json"
	"errors"
	"io"
	"net/http"
	"net/http/httptest"
	"net/url"
	"strings"

	"github.com/getkin/kin-openapi/openapi3"
	"github.com/getkin/kin-openapi/openapi3filter"
	"github.com/getkin/kin-openapi/routers/gorillamux"
)

// C07: ValidateRequest as a whole: security (operation/document level, scripted callback),
// path-level and operation-level parameters with overrides, body, options.  Logged: verdict,
// the failing parts named by the returned error(s), the callback's call sequence.

type c07Param struct {
	In   string `json:"in"`
	Name string `json:"name"`
	Kind string `json:"kind"`
	Text string `json:"text"`
}

type c07Case struct {
	OpSec struct {
		Absent bool       `json:"absent"`
		List   [][]string `json:"list"`
	} `json:"opSec"`
	DocSec        [][]string `json:"docSec"`
	Accepts       []string   `json:"accepts"`
	PParams       []c07Param `json:"pparams"`
	OParams       []c07Param `json:"oparams"`
	Values        []c07Param `json:"values"`
	Body          string     `json:"body"`
	Multi         bool       `json:"multi"`
	ExclBody      bool       `json:"exclBody"`
	ExclQuery     bool       `json:"exclQuery"`
	AuthReadsBody bool       `json:"authReadsBody"`
	// Unsized: the body comes from a reader net/http cannot size (ContentLength 0 = unknown, as for a
	// request built around a pipe or a MultiReader)
	Unsized bool `json:"unsized"`
	// NilSec: the operation's empty security list is built in code: a non-nil pointer to a nil slice
	NilSec bool `json:"nilsec"`
}

func c07Sec(reqs [][]string) []any {
	out := []any{}
	for _, r := range reqs {
		m := map[string]any{}
		for _, s := range r {
			m[s] = []any{}
		}
		out = append(out, m)
	}
	return out
}

func c07ParamJSON(ps []c07Param) []any {
	out := []any{}
	for _, p := range ps {
		sch := map[string]any{"type": "integer"}
		if p.Kind == "strx" {
			sch = map[string]any{"type": "string", "pattern": "^x"}
		}
		m := map[string]any{"name": p.Name, "in": p.In, "schema": sch}
		switch p.Kind {
		case "reqint":
			m["required"] = true
		case "reqintd":
			m["required"] = true
			sch["default"] = 1
		}
		out = append(out, m)
	}
	return out
}

func c07Part(e error) string {
	var sre *openapi3filter.SecurityRequirementsError
	if errors.As(e, &sre) {
		return "security"
	}
	var re *openapi3filter.RequestError
	if errors.As(e, &re) {
		switch {
		case re.Parameter != nil:
			return "param:" + re.Parameter.In + ":" + re.Parameter.Name
		case re.RequestBody != nil:
			return "body"
		}
	}
	return "other"
}

func c07Run(c *Case) []any {
	var tc c07Case
	c.Decode(&tc)
	var raw map[string]any
	c.Decode(&raw)
	line := map[string]any{"case": c.Idx, "c": raw}
	op := map[string]any{"responses": map[string]any{"200": map[string]any{"description": "ok"}}}
	if !tc.OpSec.Absent {
		op["security"] = c07Sec(tc.OpSec.List)
	}
	if len(tc.OParams) > 0 {
		op["parameters"] = c07ParamJSON(tc.OParams)
	}
	if tc.Body != "none" {
		op["requestBody"] = map[string]any{"required": true, "content": map[string]any{"application/json": map[string]any{
			"schema": map[string]any{"type": "object", "required": []any{"k"}}}}}
	}
	pathItem := map[string]any{"post": op}
	if len(tc.PParams) > 0 {
		pathItem["parameters"] = c07ParamJSON(tc.PParams)
	}
	schemes := map[string]any{}
	for _, s := range []string{"A", "B", "C"} {
		schemes[s] = map[string]any{"type": "apiKey", "in": "header", "name": "X-" + s}
	}
	doc := map[string]any{"openapi": "3.0.3", "info": map[string]any{"title": "t", "version": "1"},
		"components": map[string]any{"securitySchemes": schemes},
		"paths":      map[string]any{"/t": pathItem}}
	if len(tc.DocSec) > 0 {
		doc["security"] = c07Sec(tc.DocSec)
	}
	data, _ := json.Marshal(doc)
	d, err := openapi3.NewLoader().LoadFromData(data)
	if err == nil {
		err = d.Validate(context.Background())
	}
	if err != nil {
		line["doc"] = "error"
		line["docErr"] = err.Error()
		return []any{line}
	}
	line["doc"] = "ok"
	router, err := gorillamux.NewRouter(d)
	if err != nil {
		panic(err)
	}
	q := url.Values{}
	for _, v := range tc.Values {
		if v.In == "query" {
			q.Set(v.Name, v.Text)
		}
	}
	target := "/t"
	if len(q) > 0 {
		target += "?" + q.Encode()
	}
	mkReq := func() *http.Request {
		var body io.Reader
		switch tc.Body {
		case "pass":
			body = strings.NewReader(`{"k":1}`)
		case "fail":
			body = strings.NewReader(`{}`)
		}
		req := httptest.NewRequest("POST", target, body)
		if tc.Unsized && body != nil {
			req.Body = io.NopCloser(io.MultiReader(body))
			req.ContentLength = 0
			req.GetBody = nil
		}
		if body != nil {
			req.Header.Set("Content-Type", "application/json")
		}
		for _, v := range tc.Values {
			if v.In == "header" {
				req.Header.Set(v.Name, v.Text)
			}
		}
		return req
	}
	req := mkReq()
	route, pp, err := router.FindRoute(req)
	if err != nil {
		panic("harness: c07 route: " + err.Error())
	}
	if tc.NilSec {
		var own openapi3.SecurityRequirements // nil slice: the operation declares no alternative at all
		route.Operation.Security = &own
	}
	accepts := map[string]bool{}
	for _, a := range tc.Accepts {
		accepts[a] = true
	}
	calls := []any{}
	opts := &openapi3filter.Options{MultiError: tc.Multi, ExcludeRequestBody: tc.ExclBody, ExcludeRequestQueryParams: tc.ExclQuery,
		AuthenticationFunc: func(_ context.Context, in *openapi3filter.AuthenticationInput) error {
			calls = append(calls, in.SecuritySchemeName)
			if tc.AuthReadsBody && in.RequestValidationInput.Request.Body != nil {
				io.ReadAll(in.RequestValidationInput.Request.Body)
			}
			if accepts[in.SecuritySchemeName] {
				return nil
			}
			return errors.New("rejected")
		}}
	input := &openapi3filter.RequestValidationInput{Request: req, PathParams: pp, Route: route, Options: opts}
	var verr error
	if p, _ := guard(func() { verr = openapi3filter.ValidateRequest(context.Background(), input) }); p {
		line["verdict"] = "panic"
		line["parts"] = []any{}
	} else if verr == nil {
		line["verdict"] = "ok"
		line["parts"] = []any{}
	} else {
		line["verdict"] = "error"
		parts := []any{}
		if me, ok := verr.(openapi3.MultiError); ok {
			line["ismulti"] = true
			for _, e := range me {
				parts = append(parts, c07Part(e))
			}
		} else {
			line["ismulti"] = false
			parts = append(parts, c07Part(verr))
		}
		line["parts"] = parts
	}
	line["calls"] = calls
	if line["verdict"] != "panic" {
		// history: the same document serves a validation of the same request with every exclusion option on, then the
		// case again: the third answer is judged like the first, and the document must not have changed
		before := docDigest(d)
		callsSoFar := calls
		other := *opts
		other.ExcludeRequestBody, other.ExcludeRequestQueryParams, other.MultiError = true, true, !tc.Multi
		guard(func() {
			openapi3filter.ValidateRequest(context.Background(), &openapi3filter.RequestValidationInput{Request: mkReq(), PathParams: pp, Route: route, Options: &other})
		})
		var verr3 error
		if p, _ := guard(func() {
			verr3 = openapi3filter.ValidateRequest(context.Background(), &openapi3filter.RequestValidationInput{Request: mkReq(), PathParams: pp, Route: route, Options: opts})
		}); p {
			line["verdict3"], line["parts3"] = "panic", []any{}
		} else if verr3 == nil {
			line["verdict3"], line["parts3"] = "ok", []any{}
		} else {
			parts := []any{}
			if me, ok := verr3.(openapi3.MultiError); ok {
				for _, e := range me {
					parts = append(parts, c07Part(e))
				}
			} else {
				parts = append(parts, c07Part(verr3))
			}
			line["verdict3"], line["parts3"] = "error", parts
		}
		line["calls"] = callsSoFar
		line["docSame"] = before == docDigest(d) || tc.NilSec // (a nil slice marshals as null: the digest is taken after it was set)
	}
	return []any{line}
}

func init() {
	drivers["C07"] = &Driver{Run: c07Run, Abnormal: func(c *Case, kind string) []any {
		var raw map[string]any
		c.Decode(&raw)
		return []any{map[string]any{"case": c.Idx, "c": raw, "doc": "ok", "verdict": kind, "parts": []any{}, "calls": []any{}}}
	}}
}
