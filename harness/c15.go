package main

import (
	"bytes"
	"context"
	"fmt"
	"io"
	"mime/multipart"
	"net/http"
	"net/http/httptest"
	"reflect"
	"regexp"
	"sort"
	"strings"
	"sync"

	"github.com/getkin/kin-openapi/openapi3"
	"github.com/getkin/kin-openapi/openapi3filter"
	"github.com/getkin/kin-openapi/openapi3gen"
	"github.com/getkin/kin-openapi/routers"
	"github.com/getkin/kin-openapi/routers/gorillamux"
	"github.com/getkin/kin-openapi/routers/legacy"
)

// C15: the operations of a case run concurrently (8 goroutines per operation, released by a
// barrier, many iterations) against one shared document and its routers; the binary is built with
// -race and GORACE=halt_on_error=1 exitcode=66, so a reported data race ends the process and the
// runner records outcome "race".  Logged otherwise: per operation, the verdicts when run alone
// and the set of verdicts observed under concurrency.

type c15Case struct {
	Ops []string `json:"ops"`
}

type c15World struct {
	// opts: ONE Options value used by every request of the "*_sharedopts" operations, as a server configures it once
	opts   *openapi3filter.Options
	doc    *openapi3.T
	mux    routers.Router
	legacy routers.Router
	typ    reflect.Type
}

func c15Doc(idx int) string {
	return fmt.Sprintf(`{"openapi":"3.0.3","info":{"title":"t","version":"1"},
"paths":{"/items/{id}":{
 "parameters":[{"name":"id","in":"path","required":true,"schema":{"type":"integer"}},
   {"name":"X-A","in":"header","schema":{"type":"string"}},{"name":"X-B","in":"header","schema":{"type":"string"}}],
 "delete":{"parameters":[{"name":"confirm","in":"query","required":true,"schema":{"type":"boolean"}}],"responses":{"204":{"description":"gone"}}},
 "get":{"parameters":[{"name":"q","in":"query","schema":{"type":"array","items":{"type":"integer"}},"explode":false}],
        "responses":{"200":{"description":"ok","content":{"application/json":{"schema":{"$ref":"#/components/schemas/Item"}}}}}},
 "post":{"requestBody":{"required":true,"content":{"application/json":{"schema":{"$ref":"#/components/schemas/Item"}}}},
         "responses":{"200":{"description":"ok"}}},
 "put":{"requestBody":{"required":true,"content":{"application/json":{"schema":{"$ref":"#/components/schemas/Dflt"}}}},
         "responses":{"200":{"description":"ok"}}}},
 "/mp":{"post":{"requestBody":{"required":true,"content":{
           "multipart/form-data":{"schema":{"$ref":"#/components/schemas/MP"}},
           "application/json":{"schema":{"$ref":"#/components/schemas/MP"}}}},
         "responses":{"200":{"description":"ok"}}}},
 "/form":{"post":{"requestBody":{"required":true,"content":{
           "application/x-www-form-urlencoded":{"schema":{"$ref":"#/components/schemas/FD"}},
           "application/json":{"schema":{"$ref":"#/components/schemas/FD"}}}},
         "responses":{"200":{"description":"ok"}}}},
 "/secure":{"post":{"security":[{"key":[]}],
         "requestBody":{"required":true,"content":{"application/json":{"schema":{"$ref":"#/components/schemas/Item"}}}},
         "responses":{"200":{"description":"ok"}}}}},
"components":{"securitySchemes":{"key":{"type":"apiKey","in":"header","name":"X-Key"}},"schemas":{
 "MP":{"type":"object","properties":{"name":{"type":"string"}},"additionalProperties":{"properties":{"tag":{"type":"string"}}}},
 "FD":{"type":"object","required":["kind"],"properties":{"name":{"type":"string"},"kind":{"type":"string","default":"cat"}}},
 "Item":{"type":"object","required":["id"],"properties":{"id":{"type":"integer"},
   "tags":{"type":"array","uniqueItems":true,"items":{"type":"string","pattern":"^c%dp[a-z]*$"}}}},
 "Dflt":{"type":"object","properties":{"o":{"type":"object","default":{},"properties":{"z":{"type":"integer","default":3},
   "w":{"type":"object","default":{},"properties":{"v":{"type":"string","default":"d"}}}}}}}}}}`, idx)
}

func c15NewWorld(idx int) *c15World {
	d, err := openapi3.NewLoader().LoadFromData([]byte(c15Doc(idx)))
	if err != nil {
		panic("harness: c15 doc: " + err.Error())
	}
	if err := d.Validate(context.Background()); err != nil {
		panic("harness: c15 doc: " + err.Error())
	}
	w := &c15World{doc: d, opts: &openapi3filter.Options{}}
	if w.mux, err = gorillamux.NewRouter(d); err != nil {
		panic(err)
	}
	if w.legacy, err = legacy.NewRouter(d); err != nil {
		panic(err)
	}
	// a struct type no earlier case has used, so that type-info generation is a first use
	fields := []reflect.StructField{}
	for i := 0; i < 40; i++ {
		fields = append(fields, reflect.StructField{Name: fmt.Sprintf("F%dC%d", i, idx), Type: reflect.TypeOf(0),
			Tag: reflect.StructTag(fmt.Sprintf(`json:"f%d"`, i))})
	}
	w.typ = reflect.StructOf(fields)
	return w
}

type c15Fixed struct {
	A int    `json:"a"`
	B string `json:"b"`
}

// c15Call performs one call of op in variant v (0/1) and returns its verdict.
func c15Call(w *c15World, op string, v int, idx int) string {
	mkReq := func(method, target, body string) *http.Request {
		var r io.Reader
		if body != "" {
			r = strings.NewReader(body)
		}
		req := httptest.NewRequest(method, target, r)
		if body != "" {
			req.Header.Set("Content-Type", "application/json")
		}
		return req
	}
	validateReq := func(router routers.Router, req *http.Request) string {
		route, pp, err := router.FindRoute(req)
		if err != nil {
			return "noroute"
		}
		err = openapi3filter.ValidateRequest(context.Background(), &openapi3filter.RequestValidationInput{Request: req, PathParams: pp, Route: route})
		if err != nil {
			return "reject"
		}
		b, _ := io.ReadAll(req.Body)
		return "ok:" + string(b)
	}
	find := func(router routers.Router) string {
		method := []string{"GET", "POST"}[v%2]
		route, pp, err := router.FindRoute(mkReq(method, "/items/7", ""))
		if err != nil {
			return "err"
		}
		hasBody := route.Operation.RequestBody != nil
		return fmt.Sprintf("%s %s id=%s body=%v", route.Method, route.Path, pp["id"], hasBody)
	}
	switch op {
	case "find_mux":
		return find(w.mux)
	case "find_legacy":
		return find(w.legacy)
	case "vreq_params":
		return validateReq(w.mux, mkReq("GET", []string{"/items/5?q=1,2", "/items/5?q=x"}[v%2], ""))
	case "vreq_params_delete":
		// another operation of the same path item with parameters of its own (the path item's list is shared)
		return validateReq(w.mux, mkReq("DELETE", []string{"/items/5?confirm=true", "/items/5", "/items/5?confirm=false"}[v], ""))
	case "vreq_body_pattern":
		return validateReq(w.mux, mkReq("POST", "/items/5", []string{fmt.Sprintf(`{"id":1,"tags":["c%dpab"]}`, idx), `{"id":1,"tags":["zz"]}`, fmt.Sprintf(`{"id":1,"tags":["C%dPAB"]}`, idx)}[v]))
	case "vreq_body_pattern_customregex":
		// the same schema and pattern string, validated by a caller that configured its own (case-insensitive) engine
		req := mkReq("POST", "/items/5", []string{fmt.Sprintf(`{"id":1,"tags":["C%dPAB"]}`, idx), `{"id":1,"tags":["zz"]}`, fmt.Sprintf(`{"id":1,"tags":["c%dpab"]}`, idx)}[v])
		route, pp, err := w.mux.FindRoute(req)
		if err != nil {
			return "noroute"
		}
		opts := &openapi3filter.Options{RegexCompiler: func(expr string) (openapi3.RegexMatcher, error) {
			return regexp.Compile("(?i)" + expr)
		}}
		if err := openapi3filter.ValidateRequest(context.Background(), &openapi3filter.RequestValidationInput{Request: req, PathParams: pp, Route: route, Options: opts}); err != nil {
			return "reject"
		}
		return "ok"
	case "vreq_multipart_addprops", "vreq_json_addprops":
		// one component schema (own properties + additionalProperties with properties of its own) behind a multipart and a JSON body
		var req *http.Request
		if op == "vreq_multipart_addprops" {
			var buf bytes.Buffer
			mw := multipart.NewWriter(&buf)
			mw.SetBoundary("verifboundary")
			mw.WriteField("name", []string{"n", "m", "o"}[v])
			mw.Close()
			req = httptest.NewRequest("POST", "/mp", &buf)
			req.Header.Set("Content-Type", mw.FormDataContentType())
		} else {
			req = mkReq("POST", "/mp", []string{`{"name":"n","tag":5}`, `{"name":7}`, `{"name":"n","tag":{"tag":"t"}}`}[v])
		}
		return validateReq(w.mux, req)
	case "vreq_form_sharedopts", "vreq_json_defaults_sharedopts":
		// every request of these two operations is validated with the SAME *Options (defaults are to be installed)
		var req *http.Request
		if op == "vreq_form_sharedopts" {
			req = httptest.NewRequest("POST", "/form", strings.NewReader([]string{"name=tom&kind=dog", "kind=cat", "name=a&kind=b"}[v]))
			req.Header.Set("Content-Type", "application/x-www-form-urlencoded")
		} else {
			req = mkReq("POST", "/form", []string{`{"name":"tom"}`, `{"name":5}`, `{"kind":"dog"}`}[v])
		}
		route, pp, err := w.mux.FindRoute(req)
		if err != nil {
			return "noroute"
		}
		if err := openapi3filter.ValidateRequest(context.Background(), &openapi3filter.RequestValidationInput{Request: req, PathParams: pp, Route: route, Options: w.opts}); err != nil {
			return "reject"
		}
		return "ok"
	case "vreq_secure_body":
		// security requirement + body, as a server sees the request (no GetBody); the authentication callback reads the
		// body (a signature check would); bodies of equal length, valid / invalid / valid
		req := mkReq("POST", "/secure", []string{`{"id":11,"tags":[]}`, `{"id":"x","tags":[]}`, `{"id":22,"tags":[]}`}[v])
		req.Header.Set("X-Key", "k")
		route, pp, err := w.mux.FindRoute(req)
		if err != nil {
			return "noroute"
		}
		opts := &openapi3filter.Options{AuthenticationFunc: func(_ context.Context, in *openapi3filter.AuthenticationInput) error {
			io.ReadAll(in.RequestValidationInput.Request.Body)
			return nil
		}}
		if err := openapi3filter.ValidateRequest(context.Background(), &openapi3filter.RequestValidationInput{Request: req, PathParams: pp, Route: route, Options: opts}); err != nil {
			return "reject"
		}
		b, _ := io.ReadAll(req.Body)
		return "ok:" + string(b)
	case "vreq_body_unique":
		return validateReq(w.mux, mkReq("POST", "/items/5", []string{fmt.Sprintf(`{"id":1,"tags":["c%dpa","c%dpa"]}`, idx, idx), fmt.Sprintf(`{"id":2,"tags":["c%dpa","c%dpb"]}`, idx, idx)}[v%2]))
	case "vreq_body_defaults":
		return validateReq(w.mux, mkReq("PUT", "/items/5", []string{`{}`, `{"o":{"z":1}}`}[v%2]))
	case "vresp":
		req := mkReq("GET", "/items/5", "")
		route, pp, err := w.mux.FindRoute(req)
		if err != nil {
			return "noroute"
		}
		body := []string{`{"id":1}`, `{"id":"x"}`}[v%2]
		err = openapi3filter.ValidateResponse(context.Background(), &openapi3filter.ResponseValidationInput{
			RequestValidationInput: &openapi3filter.RequestValidationInput{Request: req, PathParams: pp, Route: route},
			Status:                 200, Header: http.Header{"Content-Type": []string{"application/json"}},
			Body: io.NopCloser(bytes.NewReader([]byte(body)))})
		if err != nil {
			return "reject"
		}
		return "ok"
	case "visitjson":
		s := w.doc.Components.Schemas["Item"].Value
		val := []any{map[string]any{"id": 1.0}, map[string]any{"id": "x"}}[v%2]
		if err := s.VisitJSON(val); err != nil {
			return "reject"
		}
		return "ok"
	case "gen_newtype", "gen_sametype":
		var x any = &c15Fixed{}
		if op == "gen_newtype" {
			x = reflect.New(w.typ).Interface()
		}
		ref, err := openapi3gen.NewSchemaRefForValue(x, nil)
		if err != nil {
			return "err"
		}
		names := make([]string, 0, len(ref.Value.Properties))
		for k := range ref.Value.Properties {
			names = append(names, k)
		}
		sort.Strings(names)
		return fmt.Sprintf("%d props %s", len(names), strings.Join(names[:min(3, len(names))], ","))
	}
	panic("harness: c15 op " + op)
}

func c15Run(c *Case) []any {
	var tc c15Case
	c.Decode(&tc)
	var raw map[string]any
	c.Decode(&raw)
	line := map[string]any{"case": c.Idx, "c": raw}
	goroutines, iters := 8, 100
	if c.Tier == "thorough" {
		iters = 300
	}
	// alone: a world of its own (so that "first use" is still a first use in the concurrent run)
	alone := c15NewWorld(c.Idx*2 + 1)
	type run struct {
		Op    string `json:"op"`
		Alone []any  `json:"alone"`
		// Verdicts[v] = ok / reject / other for variant v run alone; conc entries are "v<k>=<result>"
		Verdicts []any `json:"verdicts"`
		Conc     []any `json:"conc"`
	}
	runs := make([]*run, len(tc.Ops))
	norm := func(v string, idx int) string {
		return strings.ReplaceAll(strings.ReplaceAll(v, fmt.Sprintf("c%dp", idx), "cNp"), fmt.Sprintf("C%dP", idx), "CNP")
	}
	class := func(v string) string {
		switch {
		case strings.HasPrefix(v, "ok"):
			return "ok"
		case strings.HasPrefix(v, "reject"):
			return "reject"
		}
		return "other"
	}
	for i, op := range tc.Ops {
		r := &run{Op: op}
		for v := 0; v < 3; v++ {
			a := c15Call(alone, op, v, c.Idx*2+1)
			r.Alone = append(r.Alone, fmt.Sprintf("v%d=%s", v, norm(a, c.Idx*2+1)))
			r.Verdicts = append(r.Verdicts, class(a))
		}
		runs[i] = r
	}
	w := c15NewWorld(c.Idx * 2)
	var mu sync.Mutex
	seen := make([]map[string]bool, len(tc.Ops))
	for i := range seen {
		seen[i] = map[string]bool{}
	}
	start := make(chan struct{})
	var wg sync.WaitGroup
	panicked := false
	for i, op := range tc.Ops {
		for g := 0; g < goroutines; g++ {
			wg.Add(1)
			go func(i int, op string, g int) {
				defer wg.Done()
				defer func() {
					if r := recover(); r != nil {
						mu.Lock()
						panicked = true
						mu.Unlock()
					}
				}()
				<-start
				local := map[string]bool{}
				for it := 0; it < iters; it++ {
					vi := (g + it) % 3
					v := c15Call(w, op, vi, c.Idx*2)
					local[fmt.Sprintf("v%d=%s", vi, norm(v, c.Idx*2))] = true
				}
				mu.Lock()
				for k := range local {
					seen[i][k] = true
				}
				mu.Unlock()
			}(i, op, g)
		}
	}
	close(start)
	wg.Wait()
	out := []any{}
	for i, r := range runs {
		ks := make([]string, 0, len(seen[i]))
		for k := range seen[i] {
			ks = append(ks, k)
		}
		sort.Strings(ks)
		for _, k := range ks {
			r.Conc = append(r.Conc, k)
		}
		if r.Conc == nil {
			r.Conc = []any{}
		}
		out = append(out, r)
	}
	line["runs"] = out
	line["outcome"] = "done"
	if panicked {
		line["outcome"] = "panic"
	}
	return []any{line}
}

func init() {
	drivers["C15"] = &Driver{Run: c15Run, PerCaseTimeoutMs: 60000, Abnormal: func(c *Case, kind string) []any {
		var raw map[string]any
		c.Decode(&raw)
		return []any{map[string]any{"case": c.Idx, "c": raw, "outcome": kind, "runs": []any{}}}
	}}
}
