package main

import (
	"bytes"
	"context"
	"crypto/sha256"
	"encoding/json"
	"errors"
	"fmt"
	"io"
	"mime/multipart"
	"net/http"
	"net/http/httptest"
	"net/url"
	"os"
	"path/filepath"
	"reflect"
	"regexp"
	"sort"
	"strings"
	"sync"

	"github.com/getkin/kin-openapi/openapi3"
	"github.com/getkin/kin-openapi/openapi3filter"
	"github.com/getkin/kin-openapi/openapi3gen"
	"github.com/getkin/kin-openapi/routers"
	"github.com/getkin/kin-openapi/routers/gorillamux"
	"github.com/getkin/kin-openapi/routers/legacy"
)

// C15: the operations of a case run concurrently (8 goroutines per operation, released by a
// barrier, many iterations) against one shared document and its routers; the binary is built with
// -race and GORACE=halt_on_error=1 exitcode=66, so a reported data race ends the process and the
// runner records outcome "race".  Logged otherwise: per operation, the verdicts when run alone
// and the set of verdicts observed under concurrency.

// An operation is a pair: e = entry point (or the name of a flat operation), f = the schema feature / media type it meets
// in the shared document ("-" for flat operations).  See spec/SharedState.tla.
type c15Op struct {
	E string `json:"e"`
	F string `json:"f"`
}

type c15Case struct {
	Ops  []c15Op `json:"ops"`
	Init string  `json:"init"`
}

type c15World struct {
	// opts: ONE Options value used by every request of the "*_sharedopts" operations, as a server configures it once
	opts   *openapi3filter.Options
	doc    *openapi3.T
	mux    routers.Router
	legacy routers.Router
	typ    reflect.Type
	// a second document, with server templates, and its routers
	docS    *openapi3.T
	muxS    routers.Router
	legacyS routers.Router
	// one middleware instance serving every request of the "middleware" entry
	mw http.Handler
	// types for gen_nested (a new outer type around a type every case shares)
	typNested reflect.Type
	idx       int
	// the overlap document (RouteOrder.tla) and its routers, for the route-shape operations
	ov *c15Overlap
}

// c15Overlap: a document in which one request is matched by several (path, server) pairs, its two routers and one
// middleware over the gorillamux router.
type c15Overlap struct {
	doc    *openapi3.T
	mux    routers.Router
	legacy routers.Router
	mw     http.Handler
}

const c15OverlapDoc = `{"openapi":"3.0.3","info":{"title":"o","version":"1"},
"servers":[{"url":"https://api.example.com/v1"},{"url":"https://{tenant}.example.com/v1","variables":{"tenant":{"default":"acme"}}}],
"paths":{
 "/pets/{petId}":{"get":{"parameters":[{"name":"petId","in":"path","required":true,"schema":{"type":"integer"}}],"responses":{"200":{"description":"ok"}}}},
 "/pets/mine":{"get":{"responses":{"200":{"description":"ok"}}}},
 "/a/{x}/{y}":{"get":{"parameters":[{"name":"x","in":"path","required":true,"schema":{"type":"integer"}},{"name":"y","in":"path","required":true,"schema":{"type":"integer"}}],"responses":{"200":{"description":"ok"}}}},
 "/a/{x}/c":{"get":{"parameters":[{"name":"x","in":"path","required":true,"schema":{"type":"integer"}}],"responses":{"200":{"description":"ok"}}}}}}`

func c15NewOverlap() *c15Overlap {
	d, err := openapi3.NewLoader().LoadFromData([]byte(c15OverlapDoc))
	if err != nil {
		panic("harness: c15 overlap doc: " + err.Error())
	}
	if err := d.Validate(context.Background()); err != nil {
		panic("harness: c15 overlap doc: " + err.Error())
	}
	o := &c15Overlap{doc: d}
	if o.mux, err = gorillamux.NewRouter(d); err != nil {
		panic(err)
	}
	if o.legacy, err = legacy.NewRouter(d); err != nil {
		panic(err)
	}
	o.mw = openapi3filter.NewValidator(o.mux).Middleware(http.HandlerFunc(func(rw http.ResponseWriter, r *http.Request) {
		rw.WriteHeader(200)
	}))
	return o
}

// the requests of the three variants of a route shape (RouteOrder!ShapeRequests)
func c15ShapeURL(shape string, v int) string {
	switch shape {
	case "overlap_sibling":
		return []string{"https://api.example.com/v1/pets/mine", "https://api.example.com/v1/pets/7", "https://api.example.com/v1/pets/mine"}[v]
	case "overlap_deep":
		return []string{"https://api.example.com/v1/a/1/c", "https://api.example.com/v1/a/1/d", "https://api.example.com/v1/a/1/c"}[v]
	case "overlap_servers":
		return []string{"https://api.example.com/v1/pets/7", "https://acme.example.com/v1/pets/7", "https://api.example.com/v1/pets/7"}[v]
	}
	panic("harness: c15 route shape " + shape)
}

// c15Route performs one call of a route-shape operation; the result is "<verdict> <path>@<server>" (the legacy
// router's Route carries no server).
func c15Route(o *c15Overlap, entry, shape string, v int) string {
	req := httptest.NewRequest("GET", c15ShapeURL(shape, v), nil)
	if entry == "middleware_route" {
		rec := httptest.NewRecorder()
		o.mw.ServeHTTP(rec, req)
		if rec.Code == 200 {
			return "ok -"
		}
		return fmt.Sprintf("reject:%d -", rec.Code)
	}
	router := o.mux
	if strings.HasSuffix(entry, "_legacy") {
		router = o.legacy
	}
	route, pp, err := router.FindRoute(req)
	if err != nil {
		return "noroute -"
	}
	name := route.Path
	if route.Server != nil {
		name += "@" + route.Server.URL
	}
	if strings.HasPrefix(entry, "route_") {
		return "route " + name
	}
	if err := openapi3filter.ValidateRequest(context.Background(), &openapi3filter.RequestValidationInput{Request: req, PathParams: pp, Route: route}); err != nil {
		return c15Kind(err) + " " + name
	}
	return "ok " + name
}

func c15IsRouteOp(o c15Op) bool {
	return strings.HasPrefix(o.F, "overlap_")
}

// ---------------------------------------------------------------- the product catalogue: schema features
// Each feature: a component schema and three values (conforming, violating, conforming).
type c15Feature struct {
	name   string
	schema string    // may contain %d (case-fresh pattern text)
	vals   [3]string // JSON texts (may contain %d)
	scalar bool      // usable as a styled query / header value
}

var c15Features = []c15Feature{
	{"not", `{"type":"string","not":{"type":"string","enum":["bad"]}}`, [3]string{`"good"`, `"bad"`, `"fine"`}, true},
	{"anyof", `{"type":"string","anyOf":[{"type":"string","enum":["aa"]},{"type":"string","minLength":5}]}`, [3]string{`"aa"`, `"bbb"`, `"ccccc"`}, true},
	{"oneof", `{"type":"string","oneOf":[{"type":"string","maxLength":3},{"type":"string","minLength":3}]}`, [3]string{`"ab"`, `"abc"`, `"abcd"`}, true},
	{"allof", `{"type":"string","allOf":[{"type":"string","minLength":2},{"type":"string","maxLength":4}]}`, [3]string{`"abc"`, `"a"`, `"abcd"`}, true},
	{"pattern", `{"type":"string","pattern":"^c%dq[a-z]*$"}`, [3]string{`"c%dqab"`, `"zz"`, `"c%dq"`}, true},
	{"format_date", `{"type":"string","format":"date"}`, [3]string{`"2020-01-31"`, `"2020-13-01"`, `"1999-12-01"`}, true},
	{"format_custom", `{"type":"string","format":"x-verif-even"}`, [3]string{`"ab"`, `"abc"`, `"abcd"`}, true},
	{"format_int32", `{"type":"integer","format":"int32"}`, [3]string{`5`, `3000000000`, `-7`}, true},
	{"number", `{"type":"number","format":"float","maximum":10}`, [3]string{`1.5`, `11`, `10`}, true},
	{"enum", `{"type":"string","enum":["a","b"]}`, [3]string{`"a"`, `"c"`, `"b"`}, true},
	{"minmax", `{"type":"integer","minimum":1,"maximum":9,"multipleOf":2}`, [3]string{`2`, `3`, `8`}, true},
	{"unique", `{"type":"array","uniqueItems":true,"items":{"type":"string"}}`, [3]string{`["a","b"]`, `["a","a"]`, `["c"]`}, true},
	{"object", `{"type":"object","required":["k"],"additionalProperties":false,"properties":{"k":{"type":"string"},"n":{"type":"integer"}}}`,
		[3]string{`{"k":"x"}`, `{"k":"x","z":1}`, `{"k":"y","n":2}`}, false},
	{"discriminator", `{"oneOf":[{"$ref":"#/components/schemas/Cat"},{"$ref":"#/components/schemas/Dog"}],"discriminator":{"propertyName":"kind","mapping":{"cat":"#/components/schemas/Cat","dog":"#/components/schemas/Dog"}}}`,
		[3]string{`{"kind":"cat","lives":9}`, `{"kind":"dog","lives":9}`, `{"kind":"dog","bark":true}`}, false},
}

func c15FeatureByName(n string) *c15Feature {
	for i := range c15Features {
		if c15Features[i].name == n {
			return &c15Features[i]
		}
	}
	panic("harness: c15 feature " + n)
}

// media types of the catalogue (SharedState!MtPairs): what is sent for each abstract name
const c15VendorReg = "application/vnd.verif.reg+json" // registered by this process at init time, as the documentation asks

func c15VendorNew(idx int) string { return fmt.Sprintf("application/vnd.verif.c%d+json", idx) }

func c15Sent(name string, idx, g int) string {
	switch name {
	case "json":
		return "application/json"
	case "problem":
		return "application/problem+json"
	case "vendor_new":
		return c15VendorNew(idx)
	case "vendor_reg":
		return c15VendorReg
	case "yaml":
		return "application/yaml"
	case "plain":
		return "text/plain"
	case "octet":
		return "application/octet-stream"
	}
	panic("harness: c15 media type " + name)
}

func init() {
	// init-time configuration of the process (before any goroutine validates): a vendor media type decoded as JSON,
	// a caller-defined string format
	openapi3filter.RegisterBodyDecoder(c15VendorReg, openapi3filter.JSONBodyDecoder)
	openapi3.DefineStringFormatValidator("x-verif-even", openapi3.NewCallbackValidator(func(v string) error {
		if len(v)%2 != 0 {
			return errors.New("odd length")
		}
		return nil
	}))
}

func c15Doc(idx int) string {
	paths, schemas := c15ProductDoc(idx)
	return fmt.Sprintf(`{"openapi":"3.0.3","info":{"title":"t","version":"1"},
"paths":{`+paths+`"/items/{id}":{
 "parameters":[{"name":"id","in":"path","required":true,"schema":{"type":"integer"}},
   {"name":"X-A","in":"header","schema":{"type":"string"}},{"name":"X-B","in":"header","schema":{"type":"string"}}],
 "delete":{"parameters":[{"name":"confirm","in":"query","required":true,"schema":{"type":"boolean"}}],"responses":{"204":{"description":"gone"}}},
 "get":{"parameters":[{"name":"q","in":"query","schema":{"type":"array","items":{"type":"integer"}},"explode":false}],
        "responses":{"200":{"description":"ok","content":{"application/json":{"schema":{"$ref":"#/components/schemas/Item"}}}}}},
 "post":{"requestBody":{"required":true,"content":{"application/json":{"schema":{"$ref":"#/components/schemas/Item"}}}},
         "responses":{"200":{"description":"ok"}}},
 "put":{"requestBody":{"required":true,"content":{"application/json":{"schema":{"$ref":"#/components/schemas/Dflt"}}}},
         "responses":{"200":{"description":"ok"}}}},
 "/mp":{"post":{"requestBody":{"required":true,"content":{
           "multipart/form-data":{"schema":{"$ref":"#/components/schemas/MP"}},
           "application/json":{"schema":{"$ref":"#/components/schemas/MP"}}}},
         "responses":{"200":{"description":"ok"}}}},
 "/form":{"post":{"requestBody":{"required":true,"content":{
           "application/x-www-form-urlencoded":{"schema":{"$ref":"#/components/schemas/FD"}},
           "application/json":{"schema":{"$ref":"#/components/schemas/FD"}}}},
         "responses":{"200":{"description":"ok"}}}},
 "/secure":{"post":{"security":[{"key":[]}],
         "requestBody":{"required":true,"content":{"application/json":{"schema":{"$ref":"#/components/schemas/Item"}}}},
         "responses":{"200":{"description":"ok"}}}}},
"components":{"securitySchemes":{"key":{"type":"apiKey","in":"header","name":"X-Key"}},"schemas":{`+schemas+`
 "MP":{"type":"object","properties":{"name":{"type":"string"}},"additionalProperties":{"properties":{"tag":{"type":"string"}}}},
 "FD":{"type":"object","required":["kind"],"properties":{"name":{"type":"string"},"kind":{"type":"string","default":"cat"}}},
 "Item":{"type":"object","required":["id"],"properties":{"id":{"type":"integer"},
   "tags":{"type":"array","uniqueItems":true,"items":{"type":"string","pattern":"^c%dp[a-z]*$"}}}},
 "Dflt":{"type":"object","properties":{"o":{"type":"object","default":{},"properties":{"z":{"type":"integer","default":3},
   "w":{"type":"object","default":{},"properties":{"v":{"type":"string","default":"d"}}}}}}}}}}`, idx)
}

// c15ProductDoc: per feature F a component schema F_<f>, a wrapper W_<f> = {p: F}, and the paths
//
//	/f/<f>  get: query parameter p of F, 200 with a JSON body W;  post: JSON body W, 200 with a JSON body W
//	/h/<f>  get: header parameter X-P of F, 200 with a response header X-P of F and no content
//
// and the media-type paths /mt/exact (every media type of the catalogue declared by name), /mt/appstar (application/*),
// /mt/any (*/*), request body and 200 response alike.
func c15ProductDoc(idx int) (string, string) {
	var paths, schemas strings.Builder
	for _, f := range c15Features {
		sch := f.schema
		if strings.Contains(sch, "%d") {
			sch = fmt.Sprintf(sch, idx)
		}
		fmt.Fprintf(&schemas, `"F_%s":%s,"W_%s":{"type":"object","required":["p"],"properties":{"p":{"$ref":"#/components/schemas/F_%s"}}},`, f.name, sch, f.name, f.name)
		body := fmt.Sprintf(`"content":{"application/json":{"schema":{"$ref":"#/components/schemas/W_%s"}}}`, f.name)
		get := ""
		if f.scalar {
			explode := ""
			if f.name == "unique" {
				explode = `,"explode":false`
			}
			get = fmt.Sprintf(`"get":{"parameters":[{"name":"p","in":"query","schema":{"$ref":"#/components/schemas/F_%s"}%s}],"responses":{"200":{"description":"ok",%s}}},`, f.name, explode, body)
			fmt.Fprintf(&paths, `"/h/%s":{"get":{"parameters":[{"name":"X-P","in":"header","schema":{"$ref":"#/components/schemas/F_%s"}}],
  "responses":{"200":{"description":"ok","headers":{"X-P":{"schema":{"$ref":"#/components/schemas/F_%s"}}}}}}},`, f.name, f.name, f.name)
		} else {
			get = fmt.Sprintf(`"get":{"responses":{"200":{"description":"ok",%s}}},`, body)
		}
		fmt.Fprintf(&paths, `"/f/%s":{%s"post":{"requestBody":{"required":true,%s},"responses":{"200":{"description":"ok",%s}}}},`, f.name, get, body, body)
	}
	schemas.WriteString(`"Cat":{"type":"object","required":["kind"],"additionalProperties":false,"properties":{"kind":{"type":"string"},"lives":{"type":"integer"}}},
 "Dog":{"type":"object","required":["kind"],"additionalProperties":false,"properties":{"kind":{"type":"string"},"bark":{"type":"boolean"}}},
 "MtS":{"type":"object","required":["p"],"properties":{"p":{"type":"integer"}}},"MtT":{"type":"string","minLength":2},`)
	S, T := `{"schema":{"$ref":"#/components/schemas/MtS"}}`, `{"schema":{"$ref":"#/components/schemas/MtT"}}`
	exact := fmt.Sprintf(`"content":{"application/json":%s,"application/problem+json":%s,%q:%s,%q:%s,"application/yaml":%s,"text/plain":%s,"application/octet-stream":%s}`,
		S, S, c15VendorNew(idx), S, c15VendorReg, S, S, T, T)
	for name, content := range map[string]string{"exact": exact, "appstar": `"content":{"application/*":` + S + `}`, "any": `"content":{"*/*":` + S + `}`} {
		fmt.Fprintf(&paths, `"/mt/%s":{"post":{"requestBody":{"required":true,%s},"responses":{"200":{"description":"ok",%s}}}},`, name, content, content)
	}
	return paths.String(), schemas.String()
}

// a second document: server templates with variables (both routers match them per request)
const c15ServersDoc = `{"openapi":"3.0.3","info":{"title":"s","version":"1"},
"servers":[{"url":"https://{tenant}.example.com/v{ver}","variables":{"tenant":{"default":"a"},"ver":{"default":"1","enum":["1","2"]}}},
           {"url":"https://api.example.com/base"}],
"paths":{"/things/{id}":{"parameters":[{"name":"id","in":"path","required":true,"schema":{"type":"integer"}}],
                         "get":{"responses":{"200":{"description":"ok"}}},"post":{"responses":{"200":{"description":"ok"}}}},
         "/things":{"get":{"responses":{"200":{"description":"ok"}}}}}}`

func c15NewWorld(idx int, main, servers, legacyToo bool) *c15World {
	if !main { // (a case of route-shape operations only: they have their own document)
		return &c15World{idx: idx}
	}
	d, err := openapi3.NewLoader().LoadFromData([]byte(c15Doc(idx)))
	if err != nil {
		panic("harness: c15 doc: " + err.Error())
	}
	if err := d.Validate(context.Background()); err != nil {
		panic("harness: c15 doc: " + err.Error())
	}
	w := &c15World{doc: d, opts: &openapi3filter.Options{}, idx: idx}
	if w.mux, err = gorillamux.NewRouter(d); err != nil {
		panic(err)
	}
	if legacyToo { // (the legacy router validates the document once more: only the cases that use it pay for it)
		if w.legacy, err = legacy.NewRouter(d); err != nil {
			panic(err)
		}
	}
	if servers { // (only the cases that route through server templates pay for the second document)
		if w.docS, err = openapi3.NewLoader().LoadFromData([]byte(c15ServersDoc)); err != nil {
			panic("harness: c15 servers doc: " + err.Error())
		}
		if err := w.docS.Validate(context.Background()); err != nil {
			panic("harness: c15 servers doc: " + err.Error())
		}
		if w.muxS, err = gorillamux.NewRouter(w.docS); err != nil {
			panic(err)
		}
		if w.legacyS, err = legacy.NewRouter(w.docS); err != nil {
			panic(err)
		}
	}
	// one middleware for all requests; the handler answers with the conforming body of the feature it is asked for
	w.mw = openapi3filter.NewValidator(w.mux).Middleware(http.HandlerFunc(func(rw http.ResponseWriter, r *http.Request) {
		f := c15FeatureByName(strings.TrimPrefix(r.URL.Path, "/f/"))
		rw.Header().Set("Content-Type", "application/json")
		rw.WriteHeader(200)
		io.WriteString(rw, `{"p":`+c15Val(f, 0, idx)+`}`)
	}))
	// a struct type no earlier case has used, so that type-info generation is a first use
	fields := []reflect.StructField{}
	for i := 0; i < 40; i++ {
		fields = append(fields, reflect.StructField{Name: fmt.Sprintf("F%dC%d", i, idx), Type: reflect.TypeOf(0),
			Tag: reflect.StructTag(fmt.Sprintf(`json:"f%d"`, i))})
	}
	w.typ = reflect.StructOf(fields)
	// a new outer type around types other cases (and gen_sametype) use as well
	inner := reflect.StructOf([]reflect.StructField{{Name: fmt.Sprintf("I%d", idx), Type: reflect.TypeOf(""), Tag: `json:"i"`}})
	w.typNested = reflect.StructOf([]reflect.StructField{
		{Name: fmt.Sprintf("Fixed%d", idx), Type: reflect.TypeOf(c15Fixed{}), Tag: `json:"fixed"`},
		{Name: "Inner", Type: reflect.SliceOf(inner), Tag: `json:"inner"`},
		{Name: "Ptr", Type: reflect.PointerTo(reflect.TypeOf(c15Fixed{})), Tag: `json:"ptr"`}})
	return w
}

func c15Val(f *c15Feature, v, idx int) string {
	s := f.vals[v]
	if strings.Contains(s, "%d") {
		s = fmt.Sprintf(s, idx)
	}
	return s
}

// c15Kind classifies an error by TYPE (never by text); Error() is called as a server that logs it would.
func c15Kind(err error) string {
	_ = err.Error()
	var me openapi3.MultiError
	var se *openapi3.SchemaError
	var pe *openapi3filter.ParseError
	var sec *openapi3filter.SecurityRequirementsError
	switch {
	case errors.As(err, &sec):
		return "reject:security"
	case errors.As(err, &pe):
		return "reject:parse"
	case errors.As(err, &se):
		return "reject:schema"
	case errors.As(err, &me):
		return "reject:multi"
	}
	return "reject:untyped"
}

// the file pair of load_cached (written once per process)
var c15LoadOnce sync.Once
var c15LoadRoot string

func c15LoadFiles() string {
	c15LoadOnce.Do(func() {
		dir, err := os.MkdirTemp("", "c15load")
		if err != nil {
			panic(err)
		}
		os.WriteFile(filepath.Join(dir, "ext.json"), []byte(`{"components":{"schemas":{"X":{"type":"object","properties":{"a":{"type":"integer"}}}}}}`), 0o644)
		c15LoadRoot = filepath.Join(dir, "root.json")
		os.WriteFile(c15LoadRoot, []byte(`{"openapi":"3.0.3","info":{"title":"l","version":"1"},"paths":{"/x":{"get":{"responses":{"200":{"description":"ok",
 "content":{"application/json":{"schema":{"$ref":"ext.json#/components/schemas/X"}}}}}}}}}`), 0o644)
	})
	return c15LoadRoot
}

// c15Product performs one call of the product operation <<entry, feature>> in variant v.
func c15Product(w *c15World, entry, feature string, v int) string {
	f := c15FeatureByName(feature)
	valText := c15Val(f, v, w.idx)
	var val any
	if err := json.Unmarshal([]byte(valText), &val); err != nil {
		panic(err)
	}
	// the wire form of a styled value: strings bare, arrays comma-joined
	wire := func() string {
		switch x := val.(type) {
		case string:
			return x
		case []any:
			parts := make([]string, len(x))
			for i := range x {
				parts[i] = fmt.Sprint(x[i])
			}
			return strings.Join(parts, ",")
		}
		return valText
	}
	schema := w.doc.Components.Schemas["F_"+feature].Value
	verdict := func(err error) string {
		if err == nil {
			return "ok"
		}
		return c15Kind(err)
	}
	router := w.mux
	if strings.HasSuffix(entry, "_legacy") {
		router, entry = w.legacy, strings.TrimSuffix(entry, "_legacy")
	}
	route := func(req *http.Request) (*routers.Route, map[string]string) {
		r, pp, err := router.FindRoute(req)
		if err != nil {
			panic("harness: c15 no route for " + req.Method + " " + req.URL.String())
		}
		return r, pp
	}
	switch entry {
	case "visit":
		return verdict(schema.VisitJSON(val))
	case "visit_typed":
		switch x := val.(type) {
		case string:
			return verdict(schema.VisitJSONString(x))
		case float64:
			return verdict(schema.VisitJSONNumber(x))
		case []any:
			return verdict(schema.VisitJSONArray(x))
		case map[string]any:
			return verdict(schema.VisitJSONObject(x))
		}
		panic("harness: c15 visit_typed value")
	case "visit_opts":
		return verdict(schema.VisitJSON(val, openapi3.MultiErrors(), openapi3.EnableFormatValidation(),
			openapi3.SetSchemaErrorMessageCustomizer(func(*openapi3.SchemaError) string { return "custom" })))
	case "param_query", "param_multi":
		req := httptest.NewRequest("GET", "/f/"+feature+"?p="+url.QueryEscape(wire()), nil)
		r, pp := route(req)
		in := &openapi3filter.RequestValidationInput{Request: req, PathParams: pp, Route: r}
		if entry == "param_multi" {
			in.Options = &openapi3filter.Options{MultiError: true}
		}
		return verdict(openapi3filter.ValidateRequest(context.Background(), in))
	case "param_header":
		req := httptest.NewRequest("GET", "/h/"+feature, nil)
		req.Header.Set("X-P", wire())
		r, pp := route(req)
		return verdict(openapi3filter.ValidateRequest(context.Background(), &openapi3filter.RequestValidationInput{Request: req, PathParams: pp, Route: r}))
	case "req_body":
		req := httptest.NewRequest("POST", "/f/"+feature, strings.NewReader(`{"p":`+valText+`}`))
		req.Header.Set("Content-Type", "application/json")
		r, pp := route(req)
		return verdict(openapi3filter.ValidateRequest(context.Background(), &openapi3filter.RequestValidationInput{Request: req, PathParams: pp, Route: r}))
	case "resp_body", "resp_header":
		path, hdr, body := "/f/"+feature, http.Header{"Content-Type": []string{"application/json"}}, `{"p":`+valText+`}`
		if entry == "resp_header" {
			path, hdr, body = "/h/"+feature, http.Header{"X-P": []string{wire()}}, ""
		}
		req := httptest.NewRequest("GET", path, nil)
		r, pp := route(req)
		return verdict(openapi3filter.ValidateResponse(context.Background(), &openapi3filter.ResponseValidationInput{
			RequestValidationInput: &openapi3filter.RequestValidationInput{Request: req, PathParams: pp, Route: r},
			Status:                 200, Header: hdr, Body: io.NopCloser(strings.NewReader(body))}))
	case "middleware":
		req := httptest.NewRequest("POST", "/f/"+feature, strings.NewReader(`{"p":`+valText+`}`))
		req.Header.Set("Content-Type", "application/json")
		rec := httptest.NewRecorder()
		w.mw.ServeHTTP(rec, req)
		switch rec.Code {
		case 200:
			return "ok:" + rec.Body.String()
		case 400:
			return "reject:400"
		}
		return fmt.Sprintf("other:%d", rec.Code)
	}
	panic("harness: c15 entry " + entry)
}

// c15Media performs one body validation: side mt_req / mt_resp, feature "<declared>.<sent>".
func c15Media(w *c15World, side, feature string, v, g int) string {
	declared, sent, _ := strings.Cut(feature, ".")
	mt := c15Sent(sent, w.idx, g)
	if sent == "vendor_new" && declared != "exact" && g > 0 {
		// behind a wildcard entry a client may vary the vendor type: every goroutine brings one nobody has seen
		mt = strings.Replace(mt, "+json", fmt.Sprintf(".g%d+json", g), 1)
	}
	var body string
	switch sent {
	case "yaml":
		body = []string{"p: 1\n", "p: x\n", "p: 2\nq: z\n"}[v]
	case "plain", "octet":
		body = []string{"ab", "a", "abc"}[v]
	default:
		body = []string{`{"p":1}`, `{"p":"x"}`, `{"p":2,"q":"z"}`}[v]
	}
	req := httptest.NewRequest("POST", "/mt/"+declared, strings.NewReader(body))
	req.Header.Set("Content-Type", mt)
	r, pp, err := w.mux.FindRoute(req)
	if err != nil {
		panic("harness: c15 no route for /mt/" + declared)
	}
	in := &openapi3filter.RequestValidationInput{Request: req, PathParams: pp, Route: r}
	if side == "mt_req" {
		err = openapi3filter.ValidateRequest(context.Background(), in)
	} else {
		req.Body = http.NoBody
		err = openapi3filter.ValidateResponse(context.Background(), &openapi3filter.ResponseValidationInput{RequestValidationInput: in,
			Status: 200, Header: http.Header{"Content-Type": []string{mt}}, Body: io.NopCloser(strings.NewReader(body))})
	}
	if err != nil {
		return c15Kind(err)
	}
	return "ok"
}

type c15Fixed struct {
	A int    `json:"a"`
	B string `json:"b"`
}

// c15Call performs one call of op in variant v (0/1) and returns its verdict.
func c15Call(w *c15World, o c15Op, v int, idx int, g int) string {
	if c15IsRouteOp(o) {
		return c15Route(w.ov, o.E, o.F, v)
	}
	if o.F != "-" {
		if o.E == "mt_req" || o.E == "mt_resp" {
			return c15Media(w, o.E, o.F, v, g)
		}
		return c15Product(w, o.E, o.F, v)
	}
	op := o.E
	mkReq := func(method, target, body string) *http.Request {
		var r io.Reader
		if body != "" {
			r = strings.NewReader(body)
		}
		req := httptest.NewRequest(method, target, r)
		if body != "" {
			req.Header.Set("Content-Type", "application/json")
		}
		return req
	}
	validateReq := func(router routers.Router, req *http.Request) string {
		route, pp, err := router.FindRoute(req)
		if err != nil {
			return "noroute"
		}
		err = openapi3filter.ValidateRequest(context.Background(), &openapi3filter.RequestValidationInput{Request: req, PathParams: pp, Route: route})
		if err != nil {
			return "reject"
		}
		b, _ := io.ReadAll(req.Body)
		return "ok:" + string(b)
	}
	find := func(router routers.Router) string {
		method := []string{"GET", "POST"}[v%2]
		route, pp, err := router.FindRoute(mkReq(method, "/items/7", ""))
		if err != nil {
			return "err"
		}
		hasBody := route.Operation.RequestBody != nil
		return fmt.Sprintf("%s %s id=%s body=%v", route.Method, route.Path, pp["id"], hasBody)
	}
	switch op {
	case "find_mux":
		return find(w.mux)
	case "find_legacy":
		return find(w.legacy)
	case "find_mux_servers", "find_legacy_servers":
		// server templates with variables: matched per request by both routers
		router := w.muxS
		if op == "find_legacy_servers" {
			router = w.legacyS
		}
		target := []string{"https://acme.example.com/v2/things/7", "https://api.example.com/base/things", "https://acme.example.com/v3/things/7"}[v]
		route, pp, err := router.FindRoute(httptest.NewRequest("GET", target, nil))
		if err != nil {
			return "err"
		}
		return fmt.Sprintf("%s %s id=%s tenant=%s ver=%s", route.Method, route.Path, pp["id"], pp["tenant"], pp["ver"])
	case "doc_marshal":
		// the document served as JSON while it is used for validation
		b, err := w.doc.MarshalJSON()
		if err != nil {
			return "err"
		}
		return fmt.Sprintf("json valid=%v", json.Valid(b))
	case "load_cached":
		// a Loader of its own with the default reader: the external file comes through the process-wide URI cache
		l := openapi3.NewLoader()
		l.IsExternalRefsAllowed = true
		d, err := l.LoadFromFile(c15LoadFiles())
		if err != nil {
			return "reject"
		}
		if err := d.Validate(context.Background()); err != nil {
			return "reject"
		}
		x := d.Paths.Value("/x").Get.Responses.Value("200").Value.Content["application/json"].Schema.Value
		return fmt.Sprintf("ok:%d", len(x.Properties))
	case "vreq_params":
		return validateReq(w.mux, mkReq("GET", []string{"/items/5?q=1,2", "/items/5?q=x"}[v%2], ""))
	case "vreq_params_delete":
		// another operation of the same path item with parameters of its own (the path item's list is shared)
		return validateReq(w.mux, mkReq("DELETE", []string{"/items/5?confirm=true", "/items/5", "/items/5?confirm=false"}[v], ""))
	case "vreq_body_pattern":
		return validateReq(w.mux, mkReq("POST", "/items/5", []string{fmt.Sprintf(`{"id":1,"tags":["c%dpab"]}`, idx), `{"id":1,"tags":["zz"]}`, fmt.Sprintf(`{"id":1,"tags":["C%dPAB"]}`, idx)}[v]))
	case "vreq_body_pattern_customregex":
		// the same schema and pattern string, validated by a caller that configured its own (case-insensitive) engine
		req := mkReq("POST", "/items/5", []string{fmt.Sprintf(`{"id":1,"tags":["C%dPAB"]}`, idx), `{"id":1,"tags":["zz"]}`, fmt.Sprintf(`{"id":1,"tags":["c%dpab"]}`, idx)}[v])
		route, pp, err := w.mux.FindRoute(req)
		if err != nil {
			return "noroute"
		}
		opts := &openapi3filter.Options{RegexCompiler: func(expr string) (openapi3.RegexMatcher, error) {
			return regexp.Compile("(?i)" + expr)
		}}
		if err := openapi3filter.ValidateRequest(context.Background(), &openapi3filter.RequestValidationInput{Request: req, PathParams: pp, Route: route, Options: opts}); err != nil {
			return "reject"
		}
		return "ok"
	case "vreq_multipart_addprops", "vreq_json_addprops":
		// one component schema (own properties + additionalProperties with properties of its own) behind a multipart and a JSON body
		var req *http.Request
		if op == "vreq_multipart_addprops" {
			var buf bytes.Buffer
			mw := multipart.NewWriter(&buf)
			mw.SetBoundary("verifboundary")
			mw.WriteField("name", []string{"n", "m", "o"}[v])
			mw.Close()
			req = httptest.NewRequest("POST", "/mp", &buf)
			req.Header.Set("Content-Type", mw.FormDataContentType())
		} else {
			req = mkReq("POST", "/mp", []string{`{"name":"n","tag":5}`, `{"name":7}`, `{"name":"n","tag":{"tag":"t"}}`}[v])
		}
		return validateReq(w.mux, req)
	case "vreq_form_sharedopts", "vreq_json_defaults_sharedopts":
		// every request of these two operations is validated with the SAME *Options (defaults are to be installed)
		var req *http.Request
		if op == "vreq_form_sharedopts" {
			req = httptest.NewRequest("POST", "/form", strings.NewReader([]string{"name=tom&kind=dog", "kind=cat", "name=a&kind=b"}[v]))
			req.Header.Set("Content-Type", "application/x-www-form-urlencoded")
		} else {
			req = mkReq("POST", "/form", []string{`{"name":"tom"}`, `{"name":5}`, `{"kind":"dog"}`}[v])
		}
		route, pp, err := w.mux.FindRoute(req)
		if err != nil {
			return "noroute"
		}
		if err := openapi3filter.ValidateRequest(context.Background(), &openapi3filter.RequestValidationInput{Request: req, PathParams: pp, Route: route, Options: w.opts}); err != nil {
			return "reject"
		}
		return "ok"
	case "vreq_secure_body":
		// security requirement + body, as a server sees the request (no GetBody); the authentication callback reads the
		// body (a signature check would); bodies of equal length, valid / invalid / valid
		req := mkReq("POST", "/secure", []string{`{"id":11,"tags":[]}`, `{"id":"x","tags":[]}`, `{"id":22,"tags":[]}`}[v])
		req.Header.Set("X-Key", "k")
		route, pp, err := w.mux.FindRoute(req)
		if err != nil {
			return "noroute"
		}
		opts := &openapi3filter.Options{AuthenticationFunc: func(_ context.Context, in *openapi3filter.AuthenticationInput) error {
			io.ReadAll(in.RequestValidationInput.Request.Body)
			return nil
		}}
		if err := openapi3filter.ValidateRequest(context.Background(), &openapi3filter.RequestValidationInput{Request: req, PathParams: pp, Route: route, Options: opts}); err != nil {
			return "reject"
		}
		b, _ := io.ReadAll(req.Body)
		return "ok:" + string(b)
	case "vreq_body_unique":
		return validateReq(w.mux, mkReq("POST", "/items/5", []string{fmt.Sprintf(`{"id":1,"tags":["c%dpa","c%dpa"]}`, idx, idx), fmt.Sprintf(`{"id":2,"tags":["c%dpa","c%dpb"]}`, idx, idx)}[v%2]))
	case "vreq_body_defaults":
		return validateReq(w.mux, mkReq("PUT", "/items/5", []string{`{}`, `{"o":{"z":1}}`}[v%2]))
	case "vresp":
		req := mkReq("GET", "/items/5", "")
		route, pp, err := w.mux.FindRoute(req)
		if err != nil {
			return "noroute"
		}
		body := []string{`{"id":1}`, `{"id":"x"}`}[v%2]
		err = openapi3filter.ValidateResponse(context.Background(), &openapi3filter.ResponseValidationInput{
			RequestValidationInput: &openapi3filter.RequestValidationInput{Request: req, PathParams: pp, Route: route},
			Status:                 200, Header: http.Header{"Content-Type": []string{"application/json"}},
			Body: io.NopCloser(bytes.NewReader([]byte(body)))})
		if err != nil {
			return "reject"
		}
		return "ok"
	case "visitjson":
		s := w.doc.Components.Schemas["Item"].Value
		val := []any{map[string]any{"id": 1.0}, map[string]any{"id": "x"}}[v%2]
		if err := s.VisitJSON(val); err != nil {
			return "reject"
		}
		return "ok"
	case "gen_newtype", "gen_sametype", "gen_nested", "gen_customizer":
		var x any = &c15Fixed{}
		var opts []openapi3gen.Option
		switch op {
		case "gen_newtype":
			x = reflect.New(w.typ).Interface()
		case "gen_nested":
			x = reflect.New(w.typNested).Interface()
		case "gen_customizer":
			opts = append(opts, openapi3gen.UseAllExportedFields(), openapi3gen.SchemaCustomizer(
				func(name string, t reflect.Type, tag reflect.StructTag, schema *openapi3.Schema) error {
					if name == "b" {
						schema.Description = "customised"
					}
					return nil
				}))
		}
		ref, err := openapi3gen.NewSchemaRefForValue(x, nil, opts...)
		if err != nil {
			return "err"
		}
		names := make([]string, 0, len(ref.Value.Properties))
		for k := range ref.Value.Properties {
			names = append(names, k)
		}
		sort.Strings(names)
		return fmt.Sprintf("%d props %s", len(names), strings.Join(names[:min(3, len(names))], ","))
	}
	panic("harness: c15 op " + op)
}

// c15Snapshot: what a caller can observe of the shared state without hooks (SharedState!Observable): the documents (by
// the hash of their JSON form), which of the case's media types have a decoder / an encoder, the sizes of the format
// tables, the error-details switch.  Taken while no goroutine runs.
func c15Snapshot(ws ...*c15World) map[string]any {
	docs := []any{}
	types := []string{"application/json", "application/problem+json", "application/yaml", "text/plain", "application/octet-stream",
		"application/x-www-form-urlencoded", "multipart/form-data", "text/csv", c15VendorReg, "application/vnd.verif.cN+json"}
	dec, enc := []any{}, []any{}
	for _, w := range ws {
		for _, d := range []*openapi3.T{w.doc, w.docS} {
			if d == nil {
				continue
			}
			b, err := d.MarshalJSON()
			if err != nil {
				panic(err)
			}
			docs = append(docs, fmt.Sprintf("%x", sha256.Sum256(b))[:16])
		}
	}
	for _, t := range types {
		names := []string{t}
		if strings.Contains(t, "cN+") {
			names = names[:0]
			for _, w := range ws {
				names = append(names, c15VendorNew(w.idx))
			}
		}
		for _, n := range names {
			if openapi3filter.RegisteredBodyDecoder(n) != nil {
				dec = append(dec, t)
			}
			if openapi3filter.RegisteredBodyEncoder(n) != nil {
				enc = append(enc, t)
			}
		}
	}
	return map[string]any{"docs": docs, "decoders": dec, "encoders": enc,
		"formats":     []any{len(openapi3.SchemaStringFormats), len(openapi3.SchemaNumberFormats), len(openapi3.SchemaIntegerFormats)},
		"details_off": openapi3.SchemaErrorDetailsDisabled}
}

// c15Configure puts the process into the configuration `init` names (done by the only goroutine there is, before the
// validations start, as the documentation of these switches asks).
func c15Configure(init string) {
	switch init {
	case "default", "":
	case "unique_nil":
		openapi3.RegisterArrayUniqueItemsChecker(nil) // "reset": the library's own tests do this
	case "unique_custom":
		openapi3.RegisterArrayUniqueItemsChecker(func(items []any) bool {
			seen := map[string]bool{}
			for _, it := range items {
				k := fmt.Sprintf("%T:%v", it, it)
				if seen[k] {
					return false
				}
				seen[k] = true
			}
			return true
		})
	case "details_off":
		openapi3.SchemaErrorDetailsDisabled = true
	default:
		panic("harness: c15 init " + init)
	}
}

// c15Restore returns the process to its default configuration (sequentially: the nil checker is replaced by the
// library's own on the next array validation).
func c15Restore(init string) {
	switch init {
	case "unique_nil", "unique_custom":
		openapi3.RegisterArrayUniqueItemsChecker(nil)
		openapi3.NewArraySchema().WithUniqueItems(true).VisitJSON([]any{})
	case "details_off":
		openapi3.SchemaErrorDetailsDisabled = false
	}
}

func c15Run(c *Case) []any {
	var tc c15Case
	c.Decode(&tc)
	var raw map[string]any
	c.Decode(&raw)
	line := map[string]any{"case": c.Idx, "c": raw}
	goroutines, iters := 8, 100
	// thorough has ~20 times the cases of quick (every pair of product operations, every flat triple); its strength is in
	// the operation pairs, so each goroutine iterates half as often (measured on a loaded machine: 35 min at 200
	// iterations, 24 min at 100)
	if c.Tier == "thorough" {
		iters = 50
	}
	c15Configure(tc.Init)
	defer c15Restore(tc.Init)
	// alone: a world of its own (so that "first use" is still a first use in the concurrent run)
	main, servers, legacyToo, overlap := false, false, false, false
	for _, op := range tc.Ops {
		if c15IsRouteOp(op) {
			overlap = true
			continue
		}
		main = true
		servers = servers || strings.HasSuffix(op.E, "_servers")
		legacyToo = legacyToo || strings.Contains(op.E, "legacy")
	}
	alone := c15NewWorld(c.Idx*2+1, main, servers, legacyToo)
	w := c15NewWorld(c.Idx*2, main, servers, legacyToo)
	if overlap {
		w.ov = c15NewOverlap() // ONE router pair for all concurrent callers of the case
	}
	line["before"] = c15Snapshot(alone, w)
	type run struct {
		Op    c15Op `json:"op"`
		Alone []any `json:"alone"`
		// Verdicts[v] = ok / reject / other for variant v run alone; conc entries are "v<k>=<result>"
		Verdicts []any `json:"verdicts"`
		Conc     []any `json:"conc"`
		// Routes[v] (route-shape operations): "<path>@<server>" the call found when run alone
		Routes []any `json:"routes"`
	}
	runs := make([]*run, len(tc.Ops))
	norm := func(v string, idx int) string {
		for _, p := range [][2]string{{"c%dp", "cNp"}, {"C%dP", "CNP"}, {"c%dq", "cNq"}} {
			v = strings.ReplaceAll(v, fmt.Sprintf(p[0], idx), p[1])
		}
		return v
	}
	class := func(v string) string {
		switch {
		case strings.HasPrefix(v, "ok"):
			return "ok"
		case strings.HasPrefix(v, "reject"):
			return "reject"
		}
		return "other"
	}
	for i, op := range tc.Ops {
		r := &run{Op: op, Routes: []any{}}
		for v := 0; v < 3; v++ {
			if c15IsRouteOp(op) {
				alone.ov = c15NewOverlap() // "run alone": on routers nobody else has used, not even this caller
			}
			a := c15Call(alone, op, v, c.Idx*2+1, 0)
			if c15IsRouteOp(op) {
				_, name, _ := strings.Cut(a, " ")
				r.Routes = append(r.Routes, name)
			}
			r.Alone = append(r.Alone, fmt.Sprintf("v%d=%s", v, norm(a, c.Idx*2+1)))
			r.Verdicts = append(r.Verdicts, class(a))
		}
		runs[i] = r
	}
	// (the sequential calls above may have completed a lazy initialisation: the configuration is that of `init` again)
	c15Configure(tc.Init)
	var mu sync.Mutex
	seen := make([]map[string]bool, len(tc.Ops))
	for i := range seen {
		seen[i] = map[string]bool{}
	}
	start := make(chan struct{})
	var wg sync.WaitGroup
	panicked := false
	for i, op := range tc.Ops {
		for g := 0; g < goroutines; g++ {
			wg.Add(1)
			go func(i int, op c15Op, g int) {
				defer wg.Done()
				defer func() {
					if r := recover(); r != nil {
						mu.Lock()
						panicked = true
						mu.Unlock()
					}
				}()
				<-start
				local := map[string]bool{}
				n := iters
				if op.E == "doc_marshal" || op.E == "load_cached" {
					n = iters / 10 // (whole-document operations: two orders of magnitude more work per call)
				}
				for it := 0; it < n; it++ {
					vi := (g + it) % 3
					v := c15Call(w, op, vi, c.Idx*2, g)
					local[fmt.Sprintf("v%d=%s", vi, norm(v, c.Idx*2))] = true
				}
				mu.Lock()
				for k := range local {
					seen[i][k] = true
				}
				mu.Unlock()
			}(i, op, g)
		}
	}
	close(start)
	wg.Wait()
	line["after"] = c15Snapshot(alone, w)
	out := []any{}
	for i, r := range runs {
		ks := make([]string, 0, len(seen[i]))
		for k := range seen[i] {
			ks = append(ks, k)
		}
		sort.Strings(ks)
		for _, k := range ks {
			r.Conc = append(r.Conc, k)
		}
		if r.Conc == nil {
			r.Conc = []any{}
		}
		out = append(out, r)
	}
	line["runs"] = out
	line["outcome"] = "done"
	line["racefns"] = []any{}
	if panicked {
		line["outcome"] = "panic"
	}
	return []any{line}
}

// c15RaceFns projects the race detector's report (the dead child's stderr) to the library functions on top of the two
// conflicting stacks: the first frame inside kin-openapi of each of the first two stacks, without package path.
func c15RaceFns(report string) []any {
	fns := []any{}
	i := strings.Index(report, "WARNING: DATA RACE")
	if i < 0 {
		return fns
	}
	blocks := strings.Split(report[i:], "\n\n")
	for _, b := range blocks {
		if len(fns) == 2 || strings.HasPrefix(strings.TrimSpace(b), "Goroutine") {
			break
		}
		for _, l := range strings.Split(b, "\n") {
			l = strings.TrimSpace(l)
			if k := strings.Index(l, "github.com/getkin/kin-openapi/"); k == 0 && strings.HasSuffix(l, "()") {
				fns = append(fns, strings.TrimSuffix(strings.TrimPrefix(l, "github.com/getkin/kin-openapi/"), "()"))
				break
			}
		}
	}
	return fns
}

func init() {
	drivers["C15"] = &Driver{Run: c15Run, PerCaseTimeoutMs: 300000, // (a run is 8-16 goroutines under -race: slow on a loaded machine is not a hang)
		Abnormal: func(c *Case, kind string) []any {
			var raw map[string]any
			c.Decode(&raw)
			return []any{map[string]any{"case": c.Idx, "c": raw, "outcome": kind, "runs": []any{}, "racefns": c15RaceFns(lastChildStderr)}}
		}}
}
