package main

import (
	"archive/zip"
	"bytes"
	"context"
	"encoding/json"
	"errors"
	"fmt"
	"io"
	"mime/multipart"
	"net/http"
	"net/http/httptest"
	"net/textproto"
	"net/url"
	"strings"
	"unicode/utf16"

	"github.com/getkin/kin-openapi/openapi3"
	"github.com/getkin/kin-openapi/openapi3filter"
	"github.com/getkin/kin-openapi/routers/gorillamux"
)

// C06: request bodies -- media type selection (part "select") and decoding + request-side schema
// reading per decoder family (part "decode").

type c06Case struct {
	Part        string   `json:"part"`
	DeclText    []string `json:"declText"`
	HdrText     string   `json:"hdrText"`
	Required    bool     `json:"required"`
	BodyKey     any      `json:"bodyKey"`
	Empty       bool     `json:"empty"`
	Family      string   `json:"family"`
	Schema      string   `json:"schema"`
	V           any      `json:"v"`
	ExcludeRO   bool     `json:"excludeRO"`
	Enc         string   `json:"enc"`
	Clen        string   `json:"clen"`
	SetDefaults bool     `json:"setDefaults"`
	Sch         any      `json:"sch"`
	// BodyRequired: requestBody.required of a decode case (absent = true)
	BodyRequired *bool `json:"bodyRequired"`
	// PartCT: Content-Type of every part of a multipart body ("" / "none" = no header, "text" = text/plain)
	PartCT string `json:"partCT"`
	// round 6b
	Bare      any     `json:"bare"`      // select: the entry declared without a schema (a media type record) or {none: true}
	EmptyForm string  `json:"emptyForm"` // select, empty body: nil | nobody (http.NoBody) | reader (empty reader, length 0) | unsized (empty reader, length unknown)
	DeclPar   *string `json:"declPar"`   // decode: parameter on the declared media type key
	HdrPar    *string `json:"hdrPar"`    // decode: parameter on the Content-Type header
	Spell     string  `json:"spell"`     // form: "pct" = every byte outside [A-Za-z0-9] percent-escaped (a space is %20)
	Boundary  string  `json:"boundary"`  // multipart: default | quoted | short
	Kind      string  `json:"kind"`      // malformed: which way the text fails to be an encoding
	TextForm  string  `json:"textForm"`  // json: pretty | escaped; yaml: flow -- another spelling of the same value
	MtName    string  `json:"mtName"`    // json / yaml: another media type name the library registers the decoder under
	EncCT     bool    `json:"encCT"`     // multipart: the media type declares encoding.<property>.contentType for every property
	Entry     string  `json:"entry"`     // "request": ValidateRequest instead of ValidateRequestBody
	// enc "obj": the Encoding Object of every array property gives style / explode, each possibly absent ("none"); the wire form
	// (one field per item, or one field joined by wireDelim) is computed by the specification
	EncStyle    string `json:"encStyle"`
	EncExplode  string `json:"encExplode"`
	WireExplode bool   `json:"wireExplode"`
	WireDelim   string `json:"wireDelim"`
	// malformed kind "tail": a complete JSON value (lead) + sep + tail
	Lead string `json:"lead"`
	Sep  string `json:"sep"`
	Tail string `json:"tail"`
}

// c06Tail: the body of a "tail" case.
func c06Tail(tc *c06Case) []byte {
	lead := `{"n":1}`
	if tc.Lead == "arr" {
		lead = `[1,2]`
	}
	return []byte(lead + tc.Sep + tc.Tail)
}

// c06JSONEscaped renders a tagged value as JSON with every character of every string and key written as a \uXXXX escape.
func c06JSONEscaped(t any, sb *strings.Builder) {
	esc := func(x string) {
		sb.WriteByte('"')
		for _, r := range x {
			if r > 0xFFFF {
				r1, r2 := utf16.EncodeRune(r)
				fmt.Fprintf(sb, "\\u%04x\\u%04x", r1, r2)
			} else {
				fmt.Fprintf(sb, "\\u%04x", r)
			}
		}
		sb.WriteByte('"')
	}
	m := t.(map[string]any)
	switch m["t"] {
	case "str":
		esc(csToString(m["cs"]))
	case "arr":
		sb.WriteByte('[')
		for i, it := range asSlice(m["a"]) {
			if i > 0 {
				sb.WriteByte(',')
			}
			c06JSONEscaped(it, sb)
		}
		sb.WriteByte(']')
	case "obj":
		sb.WriteByte('{')
		vs := asSlice(m["v"])
		for i, k := range asSlice(m["k"]) {
			if i > 0 {
				sb.WriteByte(',')
			}
			esc(k.(string))
			sb.WriteByte(':')
			c06JSONEscaped(vs[i], sb)
		}
		sb.WriteByte('}')
	default:
		sb.WriteString(taggedToJSONText(t))
	}
}

// c06YAML renders a tagged value as block-style YAML (strings that a YAML reader would take for something else are double-quoted).
func c06YAML(t any, indent string, sb *strings.Builder, top bool) {
	m := t.(map[string]any)
	scalar := func(x map[string]any) string {
		switch x["t"] {
		case "null":
			return "null"
		case "str":
			str := csToString(x["cs"])
			plain := str != ""
			for _, r := range str {
				if !(r >= 'a' && r <= 'z') {
					plain = false
				}
			}
			switch str {
			case "null", "true", "false", "yes", "no", "on", "off", "y", "n":
				plain = false
			}
			if plain {
				return str
			}
			b, _ := json.Marshal(str)
			return string(b)
		default:
			return taggedToJSONText(x)
		}
	}
	switch m["t"] {
	case "obj":
		ks, vs := asSlice(m["k"]), asSlice(m["v"])
		if len(ks) == 0 {
			sb.WriteString(indent + "{}\n")
			return
		}
		for i, k := range ks {
			v := vs[i].(map[string]any)
			switch {
			case v["t"] == "obj" && len(asSlice(v["k"])) > 0:
				sb.WriteString(indent + k.(string) + ":\n")
				c06YAML(v, indent+"  ", sb, false)
			case v["t"] == "arr" && len(asSlice(v["a"])) > 0:
				sb.WriteString(indent + k.(string) + ":\n")
				for _, it := range asSlice(v["a"]) {
					sb.WriteString(indent + "- " + scalar(it.(map[string]any)) + "\n")
				}
			case v["t"] == "obj":
				sb.WriteString(indent + k.(string) + ": {}\n")
			case v["t"] == "arr":
				sb.WriteString(indent + k.(string) + ": []\n")
			default:
				sb.WriteString(indent + k.(string) + ": " + scalar(v) + "\n")
			}
		}
	default:
		sb.WriteString(indent + scalar(m) + "\n")
	}
}

// c06PctEscape escapes every byte outside [A-Za-z0-9] as %XX.
func c06PctEscape(x string) string {
	var sb strings.Builder
	for i := 0; i < len(x); i++ {
		b := x[i]
		if b >= 'a' && b <= 'z' || b >= 'A' && b <= 'Z' || b >= '0' && b <= '9' {
			sb.WriteByte(b)
		} else {
			fmt.Fprintf(&sb, "%%%02X", b)
		}
	}
	return sb.String()
}

// c06Malformed: the Content-Type and body text of a "malformed" case.
func c06Malformed(family, kind string) (ct string, body []byte) {
	switch family {
	case "json":
		ct = "application/json"
		body = []byte(map[string]string{"truncated": `{"n":1`, "trailing": `{"n":1} x`, "two": `{"n":1}{"n":1}`, "bareword": `abc`,
			"trailcomma": `{"n":1,}`, "empty_ws": "  \n"}[kind])
	case "form":
		ct = "application/x-www-form-urlencoded"
		body = []byte(map[string]string{"badpct": "n=1&s=%zz", "badpct_end": "n=1&s=a%"}[kind])
	case "yaml":
		ct = "application/yaml"
		body = []byte(map[string]string{"unclosed": "n: 1\nl: [1, 2\n", "tabindent": "n: 1\nl:\n\t- 1\n"}[kind])
	case "multipart":
		good := "--b\r\nContent-Disposition: form-data; name=\"s\"\r\n\r\na\r\n--b--\r\n"
		switch kind {
		case "noboundary":
			ct, body = "multipart/form-data", []byte(good)
		case "nofinal":
			ct, body = "multipart/form-data; boundary=b", []byte("--b\r\nContent-Disposition: form-data; name=\"s\"\r\n\r\na")
		case "nodisp":
			ct, body = "multipart/form-data; boundary=b", []byte("--b\r\nContent-Type: text/plain\r\n\r\na\r\n--b--\r\n")
		case "notmultipart":
			ct, body = "multipart/form-data; boundary=b", []byte("s=a")
		}
	}
	if body == nil {
		panic("harness: c06 malformed kind " + family + "/" + kind)
	}
	return
}

func renderMT(m any) string {
	mm := m.(map[string]any)
	s := mm["ty"].(string) + "/" + mm["sub"].(string)
	if p, _ := mm["par"].(string); p != "" {
		s += "; " + p
	}
	return s
}

func primText(t any) string {
	m := t.(map[string]any)
	if m["t"] == "str" {
		return csToString(m["cs"])
	}
	return taggedToJSONText(t)
}

func c06Run(c *Case) []any {
	var tc c06Case
	c.Decode(&tc)
	var raw map[string]any
	c.Decode(&raw)
	line := map[string]any{"case": c.Idx, "c": raw}
	content := map[string]any{}
	var body []byte
	ct := ""
	required := tc.Required
	intS := map[string]any{"type": "integer"}
	if tc.Part == "malformed" {
		if tc.Kind == "tail" {
			ct, body = "application/json", c06Tail(&tc)
		} else {
			ct, body = c06Malformed(tc.Family, tc.Kind)
		}
		content[strings.SplitN(ct, ";", 2)[0]] = map[string]any{"schema": absSchemaToOpenAPI(tc.Sch)}
		required = true
	} else if tc.Part == "select" {
		sel := renderMT(tc.BodyKey)
		bare := ""
		if bm, ok := tc.Bare.(map[string]any); ok && bm["ty"] != nil {
			bare = renderMT(tc.Bare)
		}
		for i, d := range tc.DeclText {
			// entry i accepts exactly the bodies carrying its own marker: the JSON object {"e<i>": 1} or the text e<i>
			mark := fmt.Sprintf("e%d", i)
			content[d] = map[string]any{"schema": map[string]any{"anyOf": []any{
				map[string]any{"type": "object", "required": []any{mark}}, map[string]any{"type": "string", "enum": []any{mark}}}}}
			if d == bare {
				content[d] = map[string]any{} // declared without a schema
			}
			if d == sel {
				if strings.HasPrefix(tc.HdrText, "text/") {
					body = []byte(mark)
				} else {
					body = []byte(fmt.Sprintf(`{"%s":1}`, mark))
				}
			}
		}
		if tc.Empty {
			body = nil
		}
		ct = tc.HdrText
	} else {
		props := map[string]any{"l": map[string]any{"type": "array", "items": intS}, "ls": map[string]any{"type": "array", "items": map[string]any{"type": "string"}}, "n": intS,
			"ro": map[string]any{"type": "string", "readOnly": true}, "s": map[string]any{"type": "string"},
			"u1": map[string]any{"allOf": []any{intS}}, "u3": map[string]any{"enum": []any{"a", "b"}}}
		if tc.Schema == "S3" {
			props["ro"] = map[string]any{"type": "string", "readOnly": true, "default": "d"}
		}
		req := []any{"ro"}
		if tc.Schema == "S1" {
			req = []any{"n", "ro"}
		}
		var schema any = map[string]any{"type": "object", "required": req, "properties": props}
		if tc.Sch != nil && tc.Family != "text" {
			schema = absSchemaToOpenAPI(tc.Sch) // the abstract schema TLC judged the body against
		}
		v := tc.V.(map[string]any)
		fields := func() (keys []string, vals [][]string) {
			ks, vs := asSlice(v["k"]), asSlice(v["v"])
			for i := range ks {
				keys = append(keys, ks[i].(string))
				fv := vs[i].(map[string]any)
				if fv["t"] == "arr" {
					var items []string
					for _, it := range asSlice(fv["a"]) {
						items = append(items, primText(it))
					}
					vals = append(vals, items)
				} else {
					vals = append(vals, []string{primText(vs[i])})
				}
			}
			return
		}
		// declared key and Content-Type header of the decoder families that take parameters
		declKey := func(base string) string {
			if tc.DeclPar != nil && *tc.DeclPar != "" {
				return base + "; " + *tc.DeclPar
			}
			return base
		}
		hdrOf := func(base string) string {
			if tc.HdrPar != nil && *tc.HdrPar != "" {
				return base + "; " + *tc.HdrPar
			}
			return base
		}
		switch tc.Family {
		case "json":
			name := "application/json"
			if tc.MtName != "" {
				name = tc.MtName
			}
			content[declKey(name)] = map[string]any{"schema": schema}
			ct = hdrOf(name)
			body = []byte(taggedToJSONText(tc.V))
			switch tc.TextForm {
			case "pretty":
				var ib bytes.Buffer
				json.Indent(&ib, body, " ", "\t")
				body = []byte(" \r\n\t" + ib.String() + "\n \n")
			case "escaped":
				var sb strings.Builder
				c06JSONEscaped(tc.V, &sb)
				body = []byte(sb.String())
			}
		case "yaml":
			name := "application/yaml"
			if tc.MtName != "" {
				name = tc.MtName
			}
			content[declKey(name)] = map[string]any{"schema": schema}
			ct = hdrOf(name)
			var sb strings.Builder
			c06YAML(tc.V, "", &sb, true)
			body = []byte(sb.String())
			if tc.TextForm == "flow" {
				body = []byte(taggedToJSONText(tc.V) + "\n") // a JSON text is a YAML flow collection
			}
		case "form":
			mt := map[string]any{"schema": schema}
			delim := map[string]string{"pipe": "|", "space": " "}[tc.Enc]
			if tc.Enc == "lNonExplode" {
				mt["encoding"] = map[string]any{"l": map[string]any{"style": "form", "explode": false}}
			} else if delim != "" {
				e := map[string]any{"style": tc.Enc + "Delimited", "explode": false}
				mt["encoding"] = map[string]any{"l": e, "ls": e}
			} else if tc.Enc == "obj" {
				e := map[string]any{}
				if tc.EncStyle != "none" {
					e["style"] = tc.EncStyle
				}
				if tc.EncExplode != "none" {
					e["explode"] = tc.EncExplode == "true"
				}
				mt["encoding"] = map[string]any{"l": e, "lb": e, "lf": e, "ls": e}
			} else if tc.Enc == "deep" {
				mt["encoding"] = map[string]any{"o": map[string]any{"style": "deepObject", "explode": true}}
			}
			content[declKey("application/x-www-form-urlencoded")] = mt
			ct = hdrOf("application/x-www-form-urlencoded")
			q := url.Values{}
			var pairs []string // spelling "pct"
			ks, vs := fields()
			for i, k := range ks {
				if fv := asSlice(v["v"])[i].(map[string]any); fv["t"] == "obj" {
					// an object-valued property in deepObject style: k[sub]=text
					subv := asSlice(fv["v"])
					for j, sub := range asSlice(fv["k"]) {
						q.Add(k+"["+sub.(string)+"]", primText(subv[j]))
					}
					continue
				}
				if tc.Enc == "obj" && !tc.WireExplode {
					q.Set(k, strings.Join(vs[i], tc.WireDelim))
				} else if tc.Enc == "lNonExplode" && k == "l" {
					q.Set(k, strings.Join(vs[i], ","))
				} else if delim != "" && (k == "l" || k == "ls") {
					q.Set(k, strings.Join(vs[i], delim))
				} else {
					for _, x := range vs[i] {
						q.Add(k, x)
						pairs = append(pairs, k+"="+c06PctEscape(x))
					}
				}
			}
			body = []byte(q.Encode())
			if tc.Spell == "pct" {
				body = []byte(strings.Join(pairs, "&"))
			}
		case "multipart":
			mmt := map[string]any{"schema": schema}
			if tc.EncCT {
				pct := map[string]string{"json": "application/json", "file": "application/octet-stream"}[tc.PartCT]
				encs := map[string]any{}
				for _, k := range []string{"l", "ls", "n", "o", "ro", "s"} {
					encs[k] = map[string]any{"contentType": pct}
				}
				mmt["encoding"] = encs
			}
			content["multipart/form-data"] = mmt
			var buf bytes.Buffer
			w := multipart.NewWriter(&buf)
			switch tc.Boundary {
			case "quoted":
				w.SetBoundary("xx:yy") // has to be quoted in the Content-Type header
			case "short":
				w.SetBoundary("b")
			}
			ks, vs := fields()
			if tc.PartCT == "json" {
				// every part says application/json and carries the JSON text of the property (of the item, for an array)
				vvs := asSlice(v["v"])
				for i, k := range ks {
					items := []any{vvs[i]}
					if fv := vvs[i].(map[string]any); fv["t"] == "arr" {
						items = asSlice(fv["a"])
					}
					for _, it := range items {
						h := textproto.MIMEHeader{}
						h.Set("Content-Disposition", fmt.Sprintf(`form-data; name="%s"`, k))
						h.Set("Content-Type", "application/json")
						pw, _ := w.CreatePart(h)
						pw.Write([]byte(taggedToJSONText(it)))
					}
				}
				ks = nil
			}
			for i, k := range ks {
				for j, x := range vs[i] {
					if tc.PartCT == "file" {
						h := textproto.MIMEHeader{}
						h.Set("Content-Disposition", fmt.Sprintf(`form-data; name="%s"; filename="%s%d.bin"`, k, k, j))
						h.Set("Content-Type", "application/octet-stream")
						pw, _ := w.CreatePart(h)
						pw.Write([]byte(x))
					} else if tc.PartCT == "text" {
						h := textproto.MIMEHeader{}
						h.Set("Content-Disposition", fmt.Sprintf(`form-data; name="%s"`, k))
						h.Set("Content-Type", "text/plain")
						pw, _ := w.CreatePart(h)
						pw.Write([]byte(x))
					} else {
						w.WriteField(k, x)
					}
				}
			}
			w.Close()
			ct = w.FormDataContentType()
			body = buf.Bytes()
		case "text":
			var ts any = map[string]any{"type": "string", "minLength": 2}
			if tc.Sch != nil {
				ts = absSchemaToOpenAPI(tc.Sch) // the abstract text schema TLC judged the body against
			}
			content[declKey("text/plain")] = map[string]any{"schema": ts}
			ct = hdrOf("text/plain")
			body = []byte(csToString(v["cs"]))
		case "zip":
			// the library's opt-in decoder for archives, registered by the caller for application/zip; the body is an archive of one file
			openapi3filter.RegisterBodyDecoder("application/zip", openapi3filter.ZipFileBodyDecoder)
			defer openapi3filter.UnregisterBodyDecoder("application/zip")
			content["application/zip"] = map[string]any{"schema": absSchemaToOpenAPI(tc.Sch)}
			ct = "application/zip"
			var zb bytes.Buffer
			zw := zip.NewWriter(&zb)
			fw, _ := zw.Create("a.txt")
			fw.Write([]byte(csToString(v["cs"])))
			zw.Close()
			body = zb.Bytes()
		case "csv":
			content["text/csv"] = map[string]any{"schema": absSchemaToOpenAPI(tc.Sch)}
			ct = "text/csv"
			body = []byte(csToString(v["cs"]))
		case "octet":
			content[declKey("application/octet-stream")] = map[string]any{"schema": absSchemaToOpenAPI(tc.Sch)}
			ct = hdrOf("application/octet-stream")
			body = []byte(csToString(v["cs"]))
		}
		required = tc.BodyRequired == nil || *tc.BodyRequired
	}
	doc := map[string]any{"openapi": "3.0.3", "info": map[string]any{"title": "t", "version": "1"},
		"paths": map[string]any{"/t": map[string]any{"post": map[string]any{
			"requestBody": map[string]any{"required": required, "content": content},
			"responses":   map[string]any{"200": map[string]any{"description": "ok"}}}}}}
	data, _ := json.Marshal(doc)
	d, err := openapi3.NewLoader().LoadFromData(data)
	if err == nil {
		err = d.Validate(context.Background())
	}
	if err != nil {
		line["doc"] = "error"
		line["docErr"] = err.Error()
		return []any{line}
	}
	line["doc"] = "ok"
	router, err := gorillamux.NewRouter(d)
	if err != nil {
		panic(err)
	}
	mkReq := func() *http.Request {
		var r *http.Request
		if body == nil {
			r = httptest.NewRequest("POST", "/t", nil)
			switch tc.EmptyForm {
			case "nil":
				r.Body = nil
			case "reader":
				r.Body = io.NopCloser(bytes.NewReader(nil))
			case "unsized":
				r.Body = io.NopCloser(io.MultiReader(bytes.NewReader(nil)))
				r.ContentLength = -1
			}
		} else {
			r = httptest.NewRequest("POST", "/t", bytes.NewReader(body))
		}
		if ct != "" {
			r.Header.Set("Content-Type", ct)
		}
		if tc.Clen == "unknown" && body != nil {
			// what net/http gives a handler-built / proxied request whose body is a pipe or a MultiReader
			r.Body = io.NopCloser(io.MultiReader(bytes.NewReader(body)))
			r.ContentLength = 0
			r.GetBody = nil
		}
		return r
	}
	req := mkReq()
	route, pp, err := router.FindRoute(req)
	if err != nil {
		panic("harness: c06 route: " + err.Error())
	}
	input := &openapi3filter.RequestValidationInput{Request: req, PathParams: pp, Route: route,
		Options: &openapi3filter.Options{ExcludeReadOnlyValidations: tc.ExcludeRO, SkipSettingDefaults: !tc.SetDefaults}}
	var verr error
	if p, _ := guard(func() {
		if tc.Entry == "request" {
			verr = openapi3filter.ValidateRequest(context.Background(), input)
		} else {
			verr = openapi3filter.ValidateRequestBody(context.Background(), input, route.Operation.RequestBody.Value)
		}
	}); p {
		line["verdict"] = "panic"
	} else {
		line["verdict"] = errClass(verr)
		line["reason"] = ""
		var re *openapi3filter.RequestError
		if errors.As(verr, &re) {
			line["reason"] = re.Reason // the library's own fixed reason strings ("rewriting failed", "doesn't match schema", ...)
		}
	}
	// the decoded value, through the public decoder registry
	if tc.Part == "decode" {
		mtName := strings.SplitN(ct, ";", 2)[0]
		dec := openapi3filter.RegisteredBodyDecoder(mtName)
		mt := route.Operation.RequestBody.Value.Content.Get(ct)
		if dec != nil && mt != nil {
			hdr := http.Header{"Content-Type": []string{ct}}
			var val any
			var derr error
			encFn := func(name string) *openapi3.Encoding { return mt.Encoding[name] }
			if p, _ := guard(func() { val, derr = dec(bytes.NewReader(body), hdr, mt.Schema, encFn) }); p {
				line["dec"] = map[string]any{"err": "panic"}
			} else if derr != nil {
				line["dec"] = map[string]any{"err": errClass(derr)}
			} else if t, ok := goToTagged(val); ok {
				line["dec"] = map[string]any{"err": "ok", "val": t}
			} else {
				line["dec"] = map[string]any{"err": "ok", "valkind": "untaggable"}
			}
		}
	}
	return []any{line}
}

func init() {
	drivers["C06"] = &Driver{Run: c06Run, Abnormal: func(c *Case, kind string) []any {
		var raw map[string]any
		c.Decode(&raw)
		return []any{map[string]any{"case": c.Idx, "c": raw, "doc": "ok", "verdict": kind}}
	}}
}
