package main

import (
	"bytes"
	"context"
	"encoding/json"
	"errors"
	"fmt"
	"io"
	"mime/multipart"
	"net/http"
	"net/http/httptest"
	"net/textproto"
	"net/url"
	"strings"

	"github.com/getkin/kin-openapi/openapi3"
	"github.com/getkin/kin-openapi/openapi3filter"
	"github.com/getkin/kin-openapi/routers/gorillamux"
)

// C06: request bodies -- media type selection (part "select") and decoding + request-side schema
// reading per decoder family (part "decode").

type c06Case struct {
	Part        string   `json:"part"`
	DeclText    []string `json:"declText"`
	HdrText     string   `json:"hdrText"`
	Required    bool     `json:"required"`
	BodyKey     any      `json:"bodyKey"`
	Empty       bool     `json:"empty"`
	Family      string   `json:"family"`
	Schema      string   `json:"schema"`
	V           any      `json:"v"`
	ExcludeRO   bool     `json:"excludeRO"`
	Enc         string   `json:"enc"`
	Clen        string   `json:"clen"`
	SetDefaults bool     `json:"setDefaults"`
	Sch         any      `json:"sch"`
	// BodyRequired: requestBody.required of a decode case (absent = true)
	BodyRequired *bool `json:"bodyRequired"`
	// PartCT: Content-Type of every part of a multipart body ("" / "none" = no header, "text" = text/plain)
	PartCT string `json:"partCT"`
}

func renderMT(m any) string {
	mm := m.(map[string]any)
	s := mm["ty"].(string) + "/" + mm["sub"].(string)
	if p, _ := mm["par"].(string); p != "" {
		s += "; " + p
	}
	return s
}

func primText(t any) string {
	m := t.(map[string]any)
	if m["t"] == "str" {
		return csToString(m["cs"])
	}
	return taggedToJSONText(t)
}

func c06Run(c *Case) []any {
	var tc c06Case
	c.Decode(&tc)
	var raw map[string]any
	c.Decode(&raw)
	line := map[string]any{"case": c.Idx, "c": raw}
	content := map[string]any{}
	var body []byte
	ct := ""
	required := tc.Required
	intS := map[string]any{"type": "integer"}
	if tc.Part == "select" {
		sel := renderMT(tc.BodyKey)
		for i, d := range tc.DeclText {
			content[d] = map[string]any{"schema": map[string]any{"type": "object", "required": []any{fmt.Sprintf("e%d", i)}}}
			if d == sel {
				body = []byte(fmt.Sprintf(`{"e%d":1}`, i))
			}
		}
		if tc.Empty {
			body = nil
		}
		ct = tc.HdrText
	} else {
		props := map[string]any{"l": map[string]any{"type": "array", "items": intS}, "ls": map[string]any{"type": "array", "items": map[string]any{"type": "string"}}, "n": intS,
			"ro": map[string]any{"type": "string", "readOnly": true}, "s": map[string]any{"type": "string"},
			"u1": map[string]any{"allOf": []any{intS}}, "u3": map[string]any{"enum": []any{"a", "b"}}}
		if tc.Schema == "S3" {
			props["ro"] = map[string]any{"type": "string", "readOnly": true, "default": "d"}
		}
		req := []any{"ro"}
		if tc.Schema == "S1" {
			req = []any{"n", "ro"}
		}
		var schema any = map[string]any{"type": "object", "required": req, "properties": props}
		if tc.Sch != nil && tc.Family != "text" {
			schema = absSchemaToOpenAPI(tc.Sch) // the abstract schema TLC judged the body against
		}
		v := tc.V.(map[string]any)
		fields := func() (keys []string, vals [][]string) {
			ks, vs := asSlice(v["k"]), asSlice(v["v"])
			for i := range ks {
				keys = append(keys, ks[i].(string))
				fv := vs[i].(map[string]any)
				if fv["t"] == "arr" {
					var items []string
					for _, it := range asSlice(fv["a"]) {
						items = append(items, primText(it))
					}
					vals = append(vals, items)
				} else {
					vals = append(vals, []string{primText(vs[i])})
				}
			}
			return
		}
		switch tc.Family {
		case "json":
			content["application/json"] = map[string]any{"schema": schema}
			ct = "application/json"
			body = []byte(taggedToJSONText(tc.V))
		case "form":
			mt := map[string]any{"schema": schema}
			if tc.Enc == "lNonExplode" {
				mt["encoding"] = map[string]any{"l": map[string]any{"style": "form", "explode": false}}
			}
			content["application/x-www-form-urlencoded"] = mt
			ct = "application/x-www-form-urlencoded"
			q := url.Values{}
			ks, vs := fields()
			for i, k := range ks {
				if tc.Enc == "lNonExplode" && k == "l" {
					q.Set(k, strings.Join(vs[i], ","))
				} else {
					for _, x := range vs[i] {
						q.Add(k, x)
					}
				}
			}
			body = []byte(q.Encode())
		case "multipart":
			content["multipart/form-data"] = map[string]any{"schema": schema}
			var buf bytes.Buffer
			w := multipart.NewWriter(&buf)
			ks, vs := fields()
			for i, k := range ks {
				for _, x := range vs[i] {
					if tc.PartCT == "text" {
						h := textproto.MIMEHeader{}
						h.Set("Content-Disposition", fmt.Sprintf(`form-data; name="%s"`, k))
						h.Set("Content-Type", "text/plain")
						pw, _ := w.CreatePart(h)
						pw.Write([]byte(x))
					} else {
						w.WriteField(k, x)
					}
				}
			}
			w.Close()
			ct = w.FormDataContentType()
			body = buf.Bytes()
		case "text":
			var ts any = map[string]any{"type": "string", "minLength": 2}
			if tc.Sch != nil {
				ts = absSchemaToOpenAPI(tc.Sch) // the abstract text schema TLC judged the body against
			}
			content["text/plain"] = map[string]any{"schema": ts}
			ct = "text/plain"
			body = []byte(csToString(v["cs"]))
		}
		required = tc.BodyRequired == nil || *tc.BodyRequired
	}
	doc := map[string]any{"openapi": "3.0.3", "info": map[string]any{"title": "t", "version": "1"},
		"paths": map[string]any{"/t": map[string]any{"post": map[string]any{
			"requestBody": map[string]any{"required": required, "content": content},
			"responses":   map[string]any{"200": map[string]any{"description": "ok"}}}}}}
	data, _ := json.Marshal(doc)
	d, err := openapi3.NewLoader().LoadFromData(data)
	if err == nil {
		err = d.Validate(context.Background())
	}
	if err != nil {
		line["doc"] = "error"
		line["docErr"] = err.Error()
		return []any{line}
	}
	line["doc"] = "ok"
	router, err := gorillamux.NewRouter(d)
	if err != nil {
		panic(err)
	}
	mkReq := func() *http.Request {
		var r *http.Request
		if body == nil {
			r = httptest.NewRequest("POST", "/t", nil)
		} else {
			r = httptest.NewRequest("POST", "/t", bytes.NewReader(body))
		}
		if ct != "" {
			r.Header.Set("Content-Type", ct)
		}
		if tc.Clen == "unknown" && body != nil {
			// what net/http gives a handler-built / proxied request whose body is a pipe or a MultiReader
			r.Body = io.NopCloser(io.MultiReader(bytes.NewReader(body)))
			r.ContentLength = 0
			r.GetBody = nil
		}
		return r
	}
	req := mkReq()
	route, pp, err := router.FindRoute(req)
	if err != nil {
		panic("harness: c06 route: " + err.Error())
	}
	input := &openapi3filter.RequestValidationInput{Request: req, PathParams: pp, Route: route,
		Options: &openapi3filter.Options{ExcludeReadOnlyValidations: tc.ExcludeRO, SkipSettingDefaults: !tc.SetDefaults}}
	var verr error
	if p, _ := guard(func() {
		verr = openapi3filter.ValidateRequestBody(context.Background(), input, route.Operation.RequestBody.Value)
	}); p {
		line["verdict"] = "panic"
	} else {
		line["verdict"] = errClass(verr)
		line["reason"] = ""
		var re *openapi3filter.RequestError
		if errors.As(verr, &re) {
			line["reason"] = re.Reason // the library's own fixed reason strings ("rewriting failed", "doesn't match schema", ...)
		}
	}
	// the decoded value, through the public decoder registry
	if tc.Part == "decode" {
		mtName := strings.SplitN(ct, ";", 2)[0]
		dec := openapi3filter.RegisteredBodyDecoder(mtName)
		mt := route.Operation.RequestBody.Value.Content.Get(ct)
		if dec != nil && mt != nil {
			hdr := http.Header{"Content-Type": []string{ct}}
			var val any
			var derr error
			encFn := func(name string) *openapi3.Encoding { return mt.Encoding[name] }
			if p, _ := guard(func() { val, derr = dec(bytes.NewReader(body), hdr, mt.Schema, encFn) }); p {
				line["dec"] = map[string]any{"err": "panic"}
			} else if derr != nil {
				line["dec"] = map[string]any{"err": errClass(derr)}
			} else if t, ok := goToTagged(val); ok {
				line["dec"] = map[string]any{"err": "ok", "val": t}
			} else {
				line["dec"] = map[string]any{"err": "ok", "valkind": "untaggable"}
			}
		}
	}
	return []any{line}
}

func init() {
	drivers["C06"] = &Driver{Run: c06Run, Abnormal: func(c *Case, kind string) []any {
		var raw map[string]any
		c.Decode(&raw)
		return []any{map[string]any{"case": c.Idx, "c": raw, "doc": "ok", "verdict": kind}}
	}}
}
