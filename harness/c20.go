package main

import (
	"context"
	_ "embed"
	"encoding/json"
	"fmt"
	"math/rand"
	"net/url"
	"os"
	"path/filepath"
	"sort"
	"strconv"
	"strings"

	"github.com/getkin/kin-openapi/openapi3"
	"github.com/oasdiff/yaml"
)

// C20: near-valid documents.  The base document (c20_doc.json) is mutated at the node and in the
// way the case says (spec/Robust.tla), rendered as JSON or YAML and pushed through every load entry
// point; a loaded document is then validated, serialised and internalised.  Logged: the outcome of
// each stage in the alphabet ok / error / panic / skipped (hang and crash come from the runner).

//go:embed c20_doc.json
var c20Base []byte

type c20Mut struct {
	Op   string `json:"op"`
	Node int    `json:"node"`
}

type c20Case struct {
	Muts  []c20Mut `json:"muts"`
	Entry string   `json:"entry"`
	Allow bool     `json:"allow"`
	Yaml  bool     `json:"yaml"`
	Base  struct {
		Kind  string `json:"kind"`
		Comps string `json:"comps"`
	} `json:"base"`
	G *c20gGraph `json:"g,omitempty"` // base kind "graph": the reference graph (spec/RefGraph.tla)
}

// c20Sparse builds a sparse base (spec/Robust.tla): the root refers to component X of the kind in
// ext.json, X's child sites refer on to components Y of ext.json, and the root's own components
// section has the given layout.  ext.json is written into dir.
func c20Sparse(kind, comps, dir string) any {
	sites := map[string][][2]string{
		"schemas":       {{"properties", "schemas"}, {"allOf", "schemas"}, {"not", "schemas"}, {"additionalProperties", "schemas"}},
		"parameters":    {{"schema", "schemas"}, {"examples", "examples"}},
		"headers":       {{"schema", "schemas"}, {"examples", "examples"}},
		"requestBodies": {{"content.examples", "examples"}}, // (encoding headers are a position the loader does not visit: C02's finding)
		"responses":     {{"headers", "headers"}, {"content.schema", "schemas"}, {"links", "links"}},
		"callbacks":     {{"post.requestBody", "requestBodies"}, {"post.responses", "responses"}, {"parameters", "parameters"}},
	}
	extComps := map[string]any{}
	put := func(k, name string, o any) {
		if extComps[k] == nil {
			extComps[k] = map[string]any{}
		}
		extComps[k].(map[string]any)[name] = o
	}
	x := c02Content{ID: "X"}
	for _, s := range sites[kind] {
		x.Ch = append(x.Ch, c02Child{Site: s[0], Kind: s[1], Ref: "#/components/" + s[1] + "/Y"})
		put(s[1], "Y", c02Concrete(s[1], c02Content{ID: "Y" + s[1]}))
	}
	put(kind, "X", c02Concrete(kind, x))
	ext := map[string]any{"openapi": "3.0.3", "info": map[string]any{"title": "ext", "version": "1"}, "paths": map[string]any{}, "components": extComps}
	b, _ := json.Marshal(ext)
	os.WriteFile(filepath.Join(dir, "ext.json"), b, 0o644)
	root := map[string]any{"openapi": "3.0.3", "info": map[string]any{"title": "root", "version": "1"},
		"paths": c02UseInOp(kind, "ext.json#/components/"+kind+"/X")}
	other := "schemas"
	if kind == "schemas" {
		other = "parameters"
	}
	switch comps {
	case "none":
	case "empty":
		root["components"] = map[string]any{}
	case "other_only":
		root["components"] = map[string]any{other: map[string]any{"Z": c02Concrete(other, c02Content{ID: "Z"})}}
	case "same_only":
		root["components"] = map[string]any{kind: map[string]any{"Z": c02Concrete(kind, c02Content{ID: "Z"})}}
	default:
		panic("harness: c20 layout " + comps)
	}
	// through the same decoder as the full base (json.Number leaves)
	rb, _ := json.Marshal(root)
	dec := json.NewDecoder(strings.NewReader(string(rb)))
	dec.UseNumber()
	var v any
	dec.Decode(&v)
	return v
}

type c20Node struct {
	path []any // string keys / int indices
}

func c20Enumerate(v any, p []any, out *[]c20Node) {
	cp := append([]any(nil), p...)
	*out = append(*out, c20Node{path: cp})
	switch x := v.(type) {
	case map[string]any:
		keys := make([]string, 0, len(x))
		for k := range x {
			keys = append(keys, k)
		}
		sort.Strings(keys)
		for _, k := range keys {
			c20Enumerate(x[k], append(cp, k), out)
		}
	case []any:
		for i, e := range x {
			c20Enumerate(e, append(cp, i), out)
		}
	}
}

func c20Get(root any, p []any) any {
	cur := root
	for _, s := range p {
		switch k := s.(type) {
		case string:
			cur = cur.(map[string]any)[k]
		case int:
			cur = cur.([]any)[k]
		}
	}
	return cur
}

// c20Set replaces the node at p (del=true removes it from its parent) and returns the new root.
func c20Set(root any, p []any, val any, del bool) any {
	if len(p) == 0 {
		if del {
			return nil
		}
		return val
	}
	parent := c20Get(root, p[:len(p)-1])
	switch k := p[len(p)-1].(type) {
	case string:
		m := parent.(map[string]any)
		if del {
			delete(m, k)
		} else {
			m[k] = val
		}
	case int:
		a := parent.([]any)
		if del {
			na := append(append([]any{}, a[:k]...), a[k+1:]...)
			return c20Set(root, p[:len(p)-1], na, false)
		}
		a[k] = val
	}
	return root
}

func c20Pointer(p []any) string {
	var b strings.Builder
	b.WriteString("#")
	for _, s := range p {
		b.WriteString("/")
		seg := fmt.Sprint(s)
		seg = strings.ReplaceAll(strings.ReplaceAll(seg, "~", "~0"), "/", "~1")
		b.WriteString(url.PathEscape(seg))
	}
	return b.String()
}

// c20Deep renders an n-deep nest as raw JSON text: it is one opaque node for later mutations (walking
// a 10^4-deep tree to enumerate nodes would make the harness, not the library, slow)
func c20Deep(n int, obj bool) any {
	if obj {
		return json.RawMessage(strings.Repeat(`{"a":`, n) + "1" + strings.Repeat("}", n))
	}
	return json.RawMessage(strings.Repeat("[", n) + "1" + strings.Repeat("]", n))
}

// c20IsSchemaPath: the node at this path is a position that holds a Schema Object
func c20IsSchemaPath(p []any) bool {
	if len(p) == 0 {
		return false
	}
	last := fmt.Sprint(p[len(p)-1])
	prev := ""
	if len(p) >= 2 {
		prev = fmt.Sprint(p[len(p)-2])
	}
	switch {
	case last == "schema" || last == "items" || last == "not":
		return true
	case prev == "schemas" || prev == "properties":
		return true
	case prev == "allOf" || prev == "anyOf" || prev == "oneOf":
		return true
	}
	return false
}

func c20At(root any, p []any) any {
	cur := root
	for _, s := range p {
		switch x := cur.(type) {
		case map[string]any:
			cur = x[fmt.Sprint(s)]
		case []any:
			i, ok := s.(int)
			if !ok || i < 0 || i >= len(x) {
				return nil
			}
			cur = x[i]
		default:
			return nil
		}
	}
	return cur
}

const c20DupMarker = "\x00dup:"

type c20Render struct {
	truncateAt float64 // fraction of the rendering to keep, <0: keep all
	noise      bool
	lex        c20Lex // lexical operators (c20lex.go)
}

// c20Applied records, per mutation, the path of the node it was applied to (node indices are
// re-enumerated after every mutation, paths stay meaningful)
var c20Applied []any

func c20PathString(p []any) string {
	parts := make([]string, len(p))
	for i, s := range p {
		parts[i] = fmt.Sprint(s)
	}
	return strings.Join(parts, "/")
}

func c20Apply(root any, m c20Mut, idx int, dir string, r *c20Render) any {
	var nodes []c20Node
	c20Enumerate(root, nil, &nodes)
	n := nodes[(m.Node-1)%len(nodes)]
	c20Applied = append(c20Applied, map[string]any{"op": m.Op, "path": c20PathString(n.path)})
	ref := func(s string) any { return map[string]any{"$ref": s} }
	underSchemas := false
	for _, s := range n.path {
		if s == "schemas" || s == "schema" {
			underSchemas = true
		}
	}
	if c20LexIs(m.Op) {
		return c20LexApply(root, m.Op, n.path, len(c20Applied), &r.lex)
	}
	if strings.HasPrefix(m.Op, "schema_") {
		// keyword injections go to the (index mod count)-th schema object of the document
		var ss []c20Node
		for _, x := range nodes {
			if c20IsSchemaPath(x.path) {
				if _, ok := c20At(root, x.path).(map[string]any); ok {
					ss = append(ss, x)
				}
			}
		}
		if len(ss) == 0 {
			return root
		}
		n = ss[(m.Node-1)%len(ss)]
		c20Applied[len(c20Applied)-1] = map[string]any{"op": m.Op, "path": c20PathString(n.path)}
		old := c20At(root, n.path).(map[string]any)
		o := map[string]any{}
		for k, v := range old {
			o[k] = v
		}
		switch m.Op {
		case "schema_bad_pattern_example":
			delete(o, "type")
			o["pattern"], o["example"] = "(?!x)", "abc"
		case "schema_type_empty_list":
			o["type"] = []any{}
		case "schema_type_list":
			o["type"] = []any{"string", "integer"}
		case "schema_multipleof_zero_default":
			o["type"], o["multipleOf"], o["default"] = "number", json.Number("0"), json.Number("0")
		case "schema_minmax_inverted_example":
			o["type"], o["minimum"], o["maximum"], o["example"] = "integer", json.Number("5"), json.Number("1"), json.Number("3")
		case "schema_enum_empty":
			o["enum"] = []any{}
		case "schema_default_wrong_type":
			o["default"] = map[string]any{"a": []any{nil, json.Number("1")}}
		case "schema_example_wrong_type":
			o["example"] = []any{map[string]any{"a": nil}}
		case "schema_discriminator_empty":
			o["discriminator"] = map[string]any{}
			o["oneOf"] = []any{map[string]any{"type": "object"}}
		case "schema_format_unknown_example":
			o["type"], o["format"], o["example"] = "string", "no-such-format", "x"
		case "schema_properties_null_entry":
			o["type"], o["properties"] = "object", map[string]any{"p": nil}
		case "schema_items_list":
			o["type"], o["items"] = "array", []any{map[string]any{"type": "string"}}
		case "schema_additional_props_string":
			o["additionalProperties"] = "yes"
		case "schema_required_unknown_and_dup":
			o["type"], o["required"] = "object", []any{"zz", "zz", ""}
		case "schema_allof_empty":
			o["allOf"], o["anyOf"], o["oneOf"] = []any{}, []any{}, []any{}
		case "schema_oneof_null_member":
			o["oneOf"] = []any{nil, map[string]any{"type": "string"}}
		case "schema_self_allof_default", "schema_self_anyof_example", "schema_self_not_default":
			// a component schema that is a composition of ITSELF and carries a value to be checked against it
			if len(n.path) != 3 || n.path[0] != "components" || n.path[1] != "schemas" {
				return root
			}
			self := map[string]any{"$ref": "#/components/schemas/" + fmt.Sprint(n.path[2])}
			switch m.Op {
			case "schema_self_allof_default":
				o = map[string]any{"allOf": []any{self}, "default": json.Number("1")}
			case "schema_self_anyof_example":
				o = map[string]any{"anyOf": []any{self, map[string]any{"type": "string"}}, "example": json.Number("1")}
			default:
				o = map[string]any{"not": self, "default": "x"}
			}
		default:
			panic("harness: c20 op " + m.Op)
		}
		return c20Set(root, n.path, o, false)
	}
	switch m.Op {
	case "to_null":
		return c20Set(root, n.path, nil, false)
	case "to_bool":
		return c20Set(root, n.path, true, false)
	case "to_num":
		return c20Set(root, n.path, json.Number("7"), false)
	case "to_str":
		return c20Set(root, n.path, "zz", false)
	case "to_str_braces":
		return c20Set(root, n.path, "https://h.example/v1}/{version", false)
	case "to_arr":
		return c20Set(root, n.path, []any{"zz", json.Number("1")}, false)
	case "to_obj":
		return c20Set(root, n.path, map[string]any{"zz": json.Number("1")}, false)
	case "to_empty_obj":
		return c20Set(root, n.path, map[string]any{}, false)
	case "to_empty_str":
		return c20Set(root, n.path, "", false)
	case "delete":
		return c20Set(root, n.path, nil, true)
	case "dup_key_other_type":
		if len(n.path) > 0 {
			if k, ok := n.path[len(n.path)-1].(string); ok {
				parent := c20Get(root, n.path[:len(n.path)-1]).(map[string]any)
				var other any = "dup"
				if _, isStr := parent[k].(string); isStr {
					other = []any{json.Number("1")}
				}
				parent[c20DupMarker+k] = other
				return root
			}
		}
		return c20Set(root, n.path, []any{}, false)
	case "nest_deep":
		depth := 1000
		if m.Node%2 == 0 {
			depth = 10000
		}
		return c20Set(root, n.path, c20Deep(depth, m.Node%3 == 0), false)
	case "huge_number":
		if m.Node%2 == 0 {
			return c20Set(root, n.path, json.Number("1e400"), false)
		}
		return c20Set(root, n.path, json.Number("123456789012345678901234567890123456789"), false)
	case "truncate_here":
		r.truncateAt = float64((m.Node-1)%len(nodes)+1) / float64(len(nodes)+1)
		return root
	case "byte_noise":
		r.noise = true
		return root
	case "ref_dangling":
		return c20Set(root, n.path, ref("#/components/schemas/Missing"), false)
	case "ref_self":
		return c20Set(root, n.path, ref(c20Pointer(n.path)), false)
	case "ref_parent":
		pp := n.path
		if len(pp) > 0 {
			pp = pp[:len(pp)-1]
		}
		return c20Set(root, n.path, ref(c20Pointer(pp)), false)
	case "ref_wrong_kind":
		if underSchemas {
			return c20Set(root, n.path, ref("#/components/parameters/Id"), false)
		}
		return c20Set(root, n.path, ref("#/components/schemas/Item"), false)
	case "ref_scalar":
		return c20Set(root, n.path, ref("#/info/title"), false)
	case "ref_array_elem":
		return c20Set(root, n.path, ref("#/servers/0"), false)
	case "ref_array_len": // index == length of the array
		return c20Set(root, n.path, ref("#/servers/1"), false)
	case "ref_array_beyond":
		return c20Set(root, n.path, ref("#/servers/7"), false)
	case "ref_array_neg":
		return c20Set(root, n.path, ref("#/servers/-1"), false)
	case "ref_array_nonnum":
		return c20Set(root, n.path, ref("#/servers/x"), false)
	case "ref_deep_array_len":
		return c20Set(root, n.path, ref("#/components/schemas/Err/allOf/2"), false)
	case "ref_escaped_ptr":
		return c20Set(root, n.path, ref("#/paths/~1items~1%7Bid%7D/get/responses/4XX"), false)
	case "ref_hash_only":
		return c20Set(root, n.path, ref("#"), false)
	case "ref_empty":
		return c20Set(root, n.path, ref(""), false)
	case "ref_ext_scalar", "ref_ext_array", "ref_ext_empty", "ref_ext_nonjson", "ref_ext_missing", "ref_ext_tab", "ref_ext_bom", "ref_ext_null", "ref_ext_yamlsep":
		name := strings.TrimPrefix(m.Op, "ref_") + ".json"
		content := map[string]string{"ref_ext_scalar": "42", "ref_ext_array": "[1]", "ref_ext_empty": "", "ref_ext_nonjson": "<<<",
			"ref_ext_tab": "\n\t\n", "ref_ext_bom": "\xef\xbb\xbf", "ref_ext_null": "null", "ref_ext_yamlsep": "---\n"}[m.Op]
		if m.Op != "ref_ext_missing" {
			os.WriteFile(filepath.Join(dir, name), []byte(content), 0o644)
		}
		if m.Node%2 == 0 {
			return c20Set(root, n.path, ref(name+"#/components/schemas/X"), false)
		}
		return c20Set(root, n.path, ref(name), false)
	case "ref_absent_subfield":
		// Item has neither of these keywords
		return c20Set(root, n.path, ref("#/components/schemas/Item/"+[]string{"not", "items", "additionalProperties"}[m.Node%3]), false)
	case "ref_through_unresolved_ref":
		sub := []string{"additionalProperties", "items", "properties/p", "not", "allOf/0"}[m.Node%5]
		root = c20Set(root, n.path, ref("#/components/schemas/Aaa0"), false)
		if rm, ok := root.(map[string]any); ok {
			if comps, ok := rm["components"].(map[string]any); ok {
				if sch, ok := comps["schemas"].(map[string]any); ok {
					// resolved in name order: Aaa0 is reached while Bbb0 is still an unresolved reference
					sch["Aaa0"] = ref("#/components/schemas/Bbb0/" + sub)
					sch["Bbb0"] = ref("#/components/schemas/Ccc0")
					sch["Ccc0"] = map[string]any{"type": "object", "additionalProperties": map[string]any{"type": "string"},
						"items": map[string]any{"type": "string"}, "properties": map[string]any{"p": map[string]any{"type": "string"}},
						"not": map[string]any{"type": "integer"}, "allOf": []any{map[string]any{"type": "object"}}}
				}
			}
		}
		return root
	case "ref_callback_self":
		root = c20Set(root, n.path, ref("#/components/callbacks/SelfCb"), false)
		if rm, ok := root.(map[string]any); ok {
			if comps, ok := rm["components"].(map[string]any); ok {
				if cbs, ok := comps["callbacks"].(map[string]any); ok {
					cbs["SelfCb"] = map[string]any{"{$request.body#/u}": map[string]any{"post": map[string]any{
						"responses": map[string]any{"200": map[string]any{"description": "d"}},
						"callbacks": map[string]any{"again": ref("#/components/callbacks/SelfCb")}}}}
				}
			}
		}
		return root
	case "ref_cycle_two":
		root = c20Set(root, n.path, ref("#/components/schemas/CycA"), false)
		if rm, ok := root.(map[string]any); ok {
			if comps, ok := rm["components"].(map[string]any); ok {
				if sch, ok := comps["schemas"].(map[string]any); ok {
					sch["CycA"] = ref("#/components/schemas/CycB")
					sch["CycB"] = ref("#/components/schemas/CycA")
				}
			}
		}
		return root
	}
	panic("harness: c20 op " + m.Op)
}

var c20Msgs []any

// The stage in progress is kept where the process that reports an abnormal end can find it: in memory (a hang is
// reported by the child itself) and in a file named after the driver process (a crash is reported by the child's parent).
var c20CurStage string

func c20StageFile(driverPid int) string {
	return filepath.Join(os.TempDir(), fmt.Sprintf("verif-c20-stage-%d", driverPid))
}

func c20Stage(name string, f func() error) string {
	c20CurStage = name
	os.WriteFile(c20StageFile(os.Getppid()), []byte(name), 0o644)
	var err error
	if p, msg := guard(func() { err = f() }); p {
		c20Msgs = append(c20Msgs, msg)
		return "panic"
	}
	if err != nil {
		return "error"
	}
	return "ok"
}

func c20Run(c *Case) []any {
	var tc c20Case
	c.Decode(&tc)
	var raw map[string]any
	c.Decode(&raw)
	line := map[string]any{"case": c.Idx, "c": raw}
	obs := map[string]any{"load": "skipped", "validate": "skipped", "marshal_json": "skipped", "marshal_yaml": "skipped",
		"internalize": "skipped", "validate_after": "skipped"}
	line["obs"] = obs
	c20Msgs = nil
	c20CurStage = ""
	os.Remove(c20StageFile(os.Getppid()))
	defer func() {
		if len(c20Msgs) > 0 {
			line["msg"] = fmt.Sprint(c20Msgs[0])
		}
	}()

	dir, err := os.MkdirTemp("", "verif-c20-")
	if err != nil {
		panic(err)
	}
	defer os.RemoveAll(dir)
	dec := json.NewDecoder(strings.NewReader(string(c20Base)))
	dec.UseNumber()
	var root any
	if err := dec.Decode(&root); err != nil {
		panic(err)
	}
	if tc.Base.Comps != "" && tc.Base.Comps != "full" && tc.Base.Kind != "blob" && tc.Base.Kind != "graph" {
		root = c20Sparse(tc.Base.Kind, tc.Base.Comps, dir)
	}
	rootName := "root.json"
	if tc.Yaml {
		rootName = "root.yaml"
	}
	if tc.Base.Kind == "graph" {
		if tc.G == nil {
			panic("harness: c20 graph case without g")
		}
		root = c20gBuild(*tc.G, dir, rootName)
	}
	r := &c20Render{truncateAt: -1}
	c20Applied = []any{}
	for _, m := range tc.Muts {
		root = c20Apply(root, m, c.Idx, dir, r)
	}
	line["applied"] = c20Applied
	data, err := json.Marshal(root)
	if err != nil {
		panic("harness: c20 render: " + err.Error())
	}
	if tc.Yaml {
		// (the duplicate of a key survives the conversion under its marked name and gets its real name in the YAML text)
		if y, err := yaml.JSONToYAML(data); err == nil {
			data = []byte(strings.ReplaceAll(string(y), `"\0dup:`, `"`))
		} else {
			data = []byte(strings.ReplaceAll(string(data), `"\u0000dup:`, `"`))
		}
	} else {
		data = []byte(strings.ReplaceAll(string(data), `"\u0000dup:`, `"`))
	}
	data = c20LexRender(data, tc.Yaml, &r.lex)
	if r.truncateAt >= 0 {
		data = data[:int(float64(len(data))*r.truncateAt)]
	}
	if r.noise {
		rng := rand.New(rand.NewSource(c.Seed*1000003 + int64(tc.Muts[len(tc.Muts)-1].Node)))
		for i := 0; i < 3 && len(data) > 0; i++ {
			data[rng.Intn(len(data))] = byte(rng.Intn(256))
		}
	}
	if tc.Base.Kind == "blob" {
		b, ok := c20Blobs[tc.Base.Comps]
		if !ok {
			panic("harness: c20 blob " + tc.Base.Comps)
		}
		data = []byte(b)
	}
	line["bytes"] = len(data)
	rootPath := filepath.Join(dir, rootName)
	if tc.Base.Kind == "graph" {
		// a reference from ext.json back into the root file finds it on disk under every entry point
		os.WriteFile(rootPath, data, 0o644)
	}
	loader := openapi3.NewLoader()
	loader.IsExternalRefsAllowed = tc.Allow
	var doc *openapi3.T
	obs["load"] = c20Stage("load", func() error {
		var e error
		switch tc.Entry {
		case "data":
			wd, _ := os.Getwd()
			os.Chdir(dir)
			defer os.Chdir(wd)
			doc, e = loader.LoadFromData(data)
		case "datapath":
			doc, e = loader.LoadFromDataWithPath(data, &url.URL{Path: rootPath})
		case "file":
			os.WriteFile(rootPath, data, 0o644)
			doc, e = loader.LoadFromFile(rootPath)
		}
		return e
	})
	if obs["load"] != "ok" || doc == nil {
		if obs["load"] == "ok" {
			obs["load"] = "error"
		}
		return []any{line}
	}
	obs["validate"] = c20Stage("validate", func() error { return doc.Validate(context.Background()) })
	obs["marshal_json"] = c20Stage("marshal_json", func() error { _, e := json.Marshal(doc); return e })
	obs["marshal_yaml"] = c20Stage("marshal_yaml", func() error { _, e := yaml.Marshal(doc); return e })
	if tc.Base.Kind == "graph" {
		// every further validator / serialiser / resolver entry point of a loaded document (spec/RefGraph.tla GStages)
		obs["validate_enabled"] = c20Stage("validate_enabled", func() error {
			return doc.Validate(context.Background(), openapi3.EnableSchemaFormatValidation(), openapi3.EnableSchemaPatternValidation(),
				openapi3.EnableSchemaDefaultsValidation(), openapi3.EnableExamplesValidation(), openapi3.AllowExtensionsWithRef())
		})
		obs["validate_disabled"] = c20Stage("validate_disabled", func() error {
			return doc.Validate(context.Background(), openapi3.DisableSchemaFormatValidation(), openapi3.DisableSchemaPatternValidation(),
				openapi3.DisableSchemaDefaultsValidation(), openapi3.DisableExamplesValidation(), openapi3.ProhibitExtensionsWithRef())
		})
		obs["validate_parts"] = c20Stage("validate_parts", func() error { return c20ValidateParts(doc) })
		obs["marshal_parts"] = c20Stage("marshal_parts", func() error { return c20MarshalParts(doc) })
		obs["resolve_again"] = c20Stage("resolve_again", func() error {
			l := openapi3.NewLoader()
			l.IsExternalRefsAllowed = tc.Allow
			wd, _ := os.Getwd()
			os.Chdir(dir)
			defer os.Chdir(wd)
			var loc *url.URL
			if tc.Entry != "data" {
				loc = &url.URL{Path: rootPath}
			}
			return l.ResolveRefsIn(doc, loc)
		})
	}
	obs["internalize"] = c20Stage("internalize", func() error { doc.InternalizeRefs(context.Background(), nil); return nil })
	if obs["internalize"] == "ok" {
		obs["validate_after"] = c20Stage("validate_after", func() error { return doc.Validate(context.Background()) })
		if tc.Base.Kind == "graph" {
			obs["marshal_after"] = c20Stage("marshal_after", func() error { _, e := json.Marshal(doc); return e })
			obs["internalize_again"] = c20Stage("internalize_again", func() error { doc.InternalizeRefs(context.Background(), nil); return nil })
		}
	}
	return []any{line}
}

// c20Blobs: the bytes of the blob bases of spec/Robust.tla
var c20Blobs = map[string]string{
	"empty": "", "space": " ", "tab": "\t", "nl_tab_nl": "\n\t\n", "sp_tab_sp": " \t ", "crlf": "\r\n", "crlf_tab": "\r\n\t\r\n",
	"bom": "\xef\xbb\xbf", "bom_tab": "\xef\xbb\xbf\t", "null": "null", "arr": "[]", "obj": "{}", "str": "\"openapi\"", "num": "3.0", "true": "true",
	"tilde": "~", "yaml_sep": "---\n", "yaml_sep_end": "---\n...\n", "yaml_tab_indent": "openapi: 3.0.3\ninfo:\n\ttitle: t\n", "nul_byte": "\x00",
	"ff_bytes": "\xff\xfe\xff", "brace_open": "{", "bracket_open": "[", "colon": ":", "dash": "- ", "quote_open": "\"",
	"anchor_loop": "a: &a [*a]\n", "merge_key_scalar": "<<: 1\nopenapi: 3.0.3\n",
}

func init() {
	drivers["C20"] = &Driver{Run: c20Run, PerCaseTimeoutMs: 5000, Abnormal: func(c *Case, kind string) []any {
		var raw map[string]any
		c.Decode(&raw)
		// the stage that did not return: obs[stage] = kind; a stage after load implies that load returned a document;
		// what the stages in between returned is lost with the process ("skipped")
		stage := c20CurStage
		if kind == "crash" {
			stage = ""
			if b, err := os.ReadFile(c20StageFile(os.Getpid())); err == nil {
				stage = string(b)
			}
		}
		obs := map[string]any{"load": "ok", "validate": "skipped",
			"marshal_json": "skipped", "marshal_yaml": "skipped", "internalize": "skipped", "validate_after": "skipped"}
		if stage == "" || stage == "load" {
			stage = "load"
		}
		obs[stage] = kind
		return []any{map[string]any{"case": c.Idx, "c": raw, "obs": obs, "died_in": stage}}
	}}
	_ = strconv.Itoa
}
