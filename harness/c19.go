package main

import (
	"bytes"
	"context"
	"encoding/json"
	"fmt"
	"io"
	"net/http"
	"net/http/httptest"
	"strings"

	"github.com/getkin/kin-openapi/openapi3"
	"github.com/getkin/kin-openapi/openapi3filter"
	"github.com/getkin/kin-openapi/routers/gorillamux"
)

// C19, request/response part: a schema violation carried by a marker string at one location,
// validated with a reason-only custom schema-error function or with schema error details
// disabled; logged: the assembled error text as a character sequence.

type c19ReqCase struct {
	Kind string `json:"kind"`
	C    struct {
		Loc   string `json:"loc"`
		Kw    string `json:"kw"`
		Multi  bool   `json:"multi"`
		Hide   string `json:"hide"`
		OptsAt string `json:"optsat"`
	} `json:"c"`
}

const c19Marker = "Mq7zzq"

func c19Schema(kw string) map[string]any {
	switch kw {
	case "maxLength":
		return map[string]any{"type": "string", "maxLength": 2}
	case "minLength":
		return map[string]any{"type": "string", "minLength": 20}
	case "pattern":
		return map[string]any{"type": "string", "pattern": "^a"}
	case "enum":
		return map[string]any{"type": "string", "enum": []any{"a", "b"}}
	case "format":
		return map[string]any{"type": "string", "format": "date"}
	case "type":
		return map[string]any{"type": "integer"}
	case "oneOf":
		return map[string]any{"oneOf": []any{map[string]any{"type": "integer"}, map[string]any{"type": "string", "maxLength": 2}}}
	case "anyOf":
		return map[string]any{"anyOf": []any{map[string]any{"type": "boolean"}, map[string]any{"type": "string", "pattern": "^a"}}}
	case "not":
		return map[string]any{"not": map[string]any{"type": "string"}}
	case "uniqueItems":
		return map[string]any{"type": "array", "items": map[string]any{"type": "string"}, "uniqueItems": true}
	case "maxItems":
		return map[string]any{"type": "array", "items": map[string]any{"type": "string"}, "maxItems": 1}
	case "required":
		return map[string]any{"type": "object", "required": []any{"q"}}
	case "additionalProperties":
		return map[string]any{"type": "object", "properties": map[string]any{"q": map[string]any{"type": "string"}}, "additionalProperties": false}
	}
	panic("harness: c19 keyword " + kw)
}

// c19Value: the JSON text of the value that violates c19Schema(kw) and carries the marker.
func c19Value(kw string) string {
	switch kw {
	case "uniqueItems", "maxItems":
		return fmt.Sprintf(`[%q,%q]`, c19Marker, c19Marker)
	case "required", "additionalProperties":
		return fmt.Sprintf(`{"r":%q}`, c19Marker)
	}
	return fmt.Sprintf(`%q`, c19Marker)
}

func c19Run(c *Case) []any {
	var probe struct {
		Kind string `json:"kind"`
	}
	c.Decode(&probe)
	if probe.Kind != "req" {
		openapi3.SchemaErrorDetailsDisabled = true
		return c12RunWith(c, true)
	}
	var tc c19ReqCase
	c.Decode(&tc)
	sch := c19Schema(tc.C.Kw)
	op := map[string]any{"responses": map[string]any{"200": map[string]any{"description": "ok"}}}
	path := "/t"
	switch tc.C.Loc {
	case "query", "header", "cookie":
		op["parameters"] = []any{map[string]any{"name": "p", "in": tc.C.Loc, "schema": sch}}
	case "path":
		path = "/t/{p}"
		op["parameters"] = []any{map[string]any{"name": "p", "in": "path", "required": true, "schema": sch}}
	case "body":
		op["requestBody"] = map[string]any{"content": map[string]any{"application/json": map[string]any{"schema": map[string]any{
			"type": "object", "properties": map[string]any{"p": sch}}}}}
	case "bodyitem":
		op["requestBody"] = map[string]any{"content": map[string]any{"application/json": map[string]any{"schema": map[string]any{
			"type": "object", "properties": map[string]any{"l": map[string]any{"type": "array", "items": sch}}}}}}
	case "respbody":
		op["responses"] = map[string]any{"200": map[string]any{"description": "ok", "content": map[string]any{"application/json": map[string]any{"schema": map[string]any{
			"type": "object", "properties": map[string]any{"p": sch}}}}}}
	case "respheader":
		op["responses"] = map[string]any{"200": map[string]any{"description": "ok", "headers": map[string]any{"X-P": map[string]any{"schema": sch}}}}
	}
	method := "get"
	if tc.C.Loc == "body" || tc.C.Loc == "bodyitem" {
		method = "post"
	}
	doc := map[string]any{"openapi": "3.0.3", "info": map[string]any{"title": "t", "version": "1"},
		"paths": map[string]any{path: map[string]any{method: op}}}
	data, _ := json.Marshal(doc)
	line := map[string]any{"case": c.Idx, "kind": "req", "c": tc.C, "marker": runeSeq(c19Marker)}
	d, err := openapi3.NewLoader().LoadFromData(data)
	if err == nil {
		err = d.Validate(context.Background())
	}
	if err != nil {
		line["verdict"] = "docerror"
		line["texts"] = []any{runeSeq(err.Error())}
		return []any{line}
	}
	router, err := gorillamux.NewRouter(d)
	if err != nil {
		panic(err)
	}
	url := "/t"
	var body io.Reader
	switch tc.C.Loc {
	case "query":
		url = "/t?p=" + c19Marker
	case "path":
		url = "/t/" + c19Marker
	case "body":
		body = strings.NewReader(fmt.Sprintf(`{"p":%s}`, c19Value(tc.C.Kw)))
	case "bodyitem":
		body = strings.NewReader(fmt.Sprintf(`{"l":["a",%s]}`, c19Value(tc.C.Kw)))
	}
	req := httptest.NewRequest(strings.ToUpper(method), url, body)
	if body != nil {
		req.Header.Set("Content-Type", "application/json")
	}
	switch tc.C.Loc {
	case "header":
		req.Header.Set("p", c19Marker)
	case "cookie":
		req.AddCookie(&http.Cookie{Name: "p", Value: c19Marker})
	}
	opts := &openapi3filter.Options{MultiError: tc.C.Multi}
	openapi3.SchemaErrorDetailsDisabled = tc.C.Hide == "nodetails"
	defer func() { openapi3.SchemaErrorDetailsDisabled = true }()
	if tc.C.Hide == "custom" {
		opts.WithCustomSchemaErrorFunc(func(e *openapi3.SchemaError) string {
			if e.Reason == "" {
				return "schema error"
			}
			return e.Reason
		})
	}
	route, pathParams, err := router.FindRoute(req)
	if err != nil {
		line["verdict"] = "noroute"
		line["texts"] = []any{}
		return []any{line}
	}
	rvi := &openapi3filter.RequestValidationInput{Request: req, PathParams: pathParams, Route: route, Options: opts}
	if tc.C.OptsAt == "resp" {
		// the request input carries other, non-nil options (without the message function); the response input its own
		rvi.Options = &openapi3filter.Options{MultiError: !tc.C.Multi}
	}
	late := tc.C.Hide == "nodetails_late"
	if late {
		openapi3.SchemaErrorDetailsDisabled = false
	}
	var verr error
	p, msg := guard(func() {
		if tc.C.Loc == "respbody" || tc.C.Loc == "respheader" {
			h := http.Header{}
			var rb []byte
			if tc.C.Loc == "respbody" {
				h.Set("Content-Type", "application/json")
				rb = []byte(fmt.Sprintf(`{"p":%s}`, c19Value(tc.C.Kw)))
			} else {
				h.Set("X-P", c19Marker)
			}
			verr = openapi3filter.ValidateResponse(context.Background(), &openapi3filter.ResponseValidationInput{
				RequestValidationInput: rvi, Status: 200, Header: h, Body: io.NopCloser(bytes.NewReader(rb)), Options: opts})
		} else {
			verr = openapi3filter.ValidateRequest(context.Background(), rvi)
		}
	})
	switch {
	case p:
		line["verdict"] = "P"
		line["texts"] = []any{runeSeq(msg)}
	case verr == nil:
		line["verdict"] = "A"
		line["texts"] = []any{}
	default:
		line["verdict"] = "R"
		if late {
			// rendered once while details were enabled; from here on they are disabled
			guard(func() { _ = verr.Error() })
			openapi3.SchemaErrorDetailsDisabled = true
		}
		texts := []any{runeSeq(verr.Error())}
		if me, ok := verr.(openapi3.MultiError); ok {
			for _, e := range me {
				texts = append(texts, runeSeq(e.Error()))
			}
		}
		line["texts"] = texts
	}
	return []any{line}
}

func init() {
	drivers["C19"].Run = c19Run
	old := drivers["C19"].Abnormal
	drivers["C19"].Abnormal = func(c *Case, kind string) []any {
		var probe struct {
			Kind string `json:"kind"`
		}
		c.Decode(&probe)
		if probe.Kind == "req" {
			var tc c19ReqCase
			c.Decode(&tc)
			return []any{map[string]any{"case": c.Idx, "kind": "req", "c": tc.C, "marker": runeSeq(c19Marker), "verdict": kind, "texts": []any{}}}
		}
		return old(c, kind)
	}
}
