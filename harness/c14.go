package main

import (
	"context"
	"errors"
	"net/http"
	"net/http/httptest"
	"os"
	"strings"
	"sync"

	"github.com/getkin/kin-openapi/openapi3"
	"github.com/getkin/kin-openapi/openapi3filter"
	"github.com/getkin/kin-openapi/routers"
	"github.com/getkin/kin-openapi/routers/gorillamux"
)

// C14: scripted handler behaviours replayed through openapi3filter.Validator.Middleware.
// The log of one case is the event trace of one run: cfg, handler calls (H), raw calls on the
// client's ResponseWriter (C), errFunc / logFunc calls, end.

const c14Doc = `{
 "openapi": "3.0.3",
 "info": {"title": "t", "version": "1"},
 "components": {"securitySchemes": {"key": {"type": "apiKey", "in": "header", "name": "X-Key"}}},
 "paths": {
  "/items": {"post": {
    "parameters": [{"name": "n", "in": "query", "required": true, "schema": {"type": "integer"}}],
    "requestBody": {"required": true, "content": {"application/json": {"schema":
        {"type": "object", "required": ["name"], "properties": {"name": {"type": "string"}}}}}},
    "responses": {
      "200": {"description": "ok", "content": {"application/json": {"schema":
        {"type": "object", "required": ["id"], "properties": {"id": {"type": "integer"}}}}}},
      "201": {"description": "created"}}}},
  "/plain/{id}": {
    "parameters": [{"name": "id", "in": "path", "required": true, "schema": {"type": "integer"}}],
    "get": {"responses": {
      "200": {"description": "ok", "content": {"application/json": {"schema":
        {"type": "object", "required": ["id"], "properties": {"id": {"type": "integer"}}}}}},
      "201": {"description": "created"}}}},
  "/secure": {"get": {
    "security": [{"key": []}],
    "responses": {
      "200": {"description": "ok", "content": {"application/json": {"schema":
        {"type": "object", "required": ["id"], "properties": {"id": {"type": "integer"}}}}}},
      "201": {"description": "created"}}}}
 }
}`

var c14Router = sync.OnceValue(func() routers.Router {
	loader := openapi3.NewLoader()
	doc, err := loader.LoadFromData([]byte(c14Doc))
	if err != nil {
		panic("harness: c14 doc does not load: " + err.Error())
	}
	if err := doc.Validate(context.Background()); err != nil {
		panic("harness: c14 doc does not validate: " + err.Error())
	}
	r, err := gorillamux.NewRouter(doc)
	if err != nil {
		panic("harness: c14 router: " + err.Error())
	}
	return r
})

var c14DocFile = sync.OnceValue(func() string {
	f, err := os.CreateTemp(".", "verif-c14-*.json")
	if err != nil {
		panic(err)
	}
	f.WriteString(c14Doc)
	f.Close()
	return f.Name()
})

type c14Call struct {
	C   string `json:"c"`
	Ct  string `json:"ct,omitempty"`
	S   int    `json:"s,omitempty"`
	Tok string `json:"tok,omitempty"`
}

type c14Case struct {
	Cfg struct {
		Strict   bool   `json:"strict"`
		ReqClass string `json:"reqClass"`
		ErrMode  string `json:"errMode"`
		Gate     string `json:"gate"`
		Opt      string `json:"opt"`
		Primer   string `json:"primer"`
	} `json:"cfg"`
	Script []c14Call `json:"script"`
}

var c14Bytes = map[string]string{"A": `{"id":1}`, "B": `{"id":"x"}`, "N": "oops", "P1": `{"id":`, "P2": "1}", "E": ""}
var c14CT = map[string]string{"json": "application/json", "text": "text/plain"}

func c14AbsCT(h http.Header) string {
	switch v := h.Get("Content-Type"); v {
	case "":
		return "none"
	case "application/json":
		return "json"
	case "text/plain":
		return "text"
	case "text/plain; charset=utf-8":
		return "errtext"
	case "application/json; charset=utf-8":
		return "errjson"
	default:
		return "other:" + v
	}
}

// c14Client is the client-side http.ResponseWriter: it records every raw call together with
// the Content-Type in the header map at that instant, and, like net/http, panics on an
// invalid status code.
type c14Client struct {
	h   http.Header
	log *[]any
}

func (c *c14Client) Header() http.Header { return c.h }
func (c *c14Client) WriteHeader(s int) {
	*c.log = append(*c.log, map[string]any{"ev": "C", "e": "WH", "s": s, "ct": c14AbsCT(c.h)})
	if s < 100 || s > 999 {
		panic("invalid WriteHeader code")
	}
}
func (c *c14Client) Write(b []byte) (int, error) {
	*c.log = append(*c.log, map[string]any{"ev": "C", "e": "W", "data": string(b), "ct": c14AbsCT(c.h)})
	return len(b), nil
}
func (c *c14Client) Flush() {
	*c.log = append(*c.log, map[string]any{"ev": "C", "e": "F", "ct": c14AbsCT(c.h)})
}

func c14Request(class string) *http.Request {
	mk := func(method, url, body string) *http.Request {
		var r *http.Request
		if body != "" {
			r = httptest.NewRequest(method, url, strings.NewReader(body))
			r.Header.Set("Content-Type", "application/json")
		} else {
			r = httptest.NewRequest(method, url, nil)
		}
		return r
	}
	switch class {
	case "valid_post":
		return mk("POST", "/items?n=1", `{"name":"a"}`)
	case "valid_upgrade":
		r := mk("POST", "/items?n=1", `{"name":"a"}`)
		r.Header.Set("Connection", "keep-alive, Upgrade")
		r.Header.Set("Upgrade", "websocket")
		return r
	case "valid_plain":
		return mk("GET", "/plain/5", "")
	case "valid_secure":
		r := mk("GET", "/secure", "")
		r.Header.Set("X-Key", "good")
		return r
	case "nf_path":
		return mk("GET", "/nope", "")
	case "nf_method":
		return mk("DELETE", "/items", "")
	case "inv_body":
		return mk("POST", "/items?n=1", `{"name":1}`)
	case "inv_param":
		return mk("POST", "/items?n=x", `{"name":"a"}`)
	case "inv_pathlevel":
		return mk("GET", "/plain/abc", "")
	case "inv_security":
		r := mk("GET", "/secure", "")
		r.Header.Set("X-Key", "bad")
		return r
	}
	panic("harness: unknown request class " + class)
}

func c14Run(c *Case) []any {
	var tc c14Case
	c.Decode(&tc)
	var log []any
	log = append(log, map[string]any{"ev": "cfg", "case": c.Idx, "cfg": tc.Cfg, "script": c14Script(tc.Script)})

	opts := []openapi3filter.ValidatorOption{
		openapi3filter.Strict(tc.Cfg.Strict),
		openapi3filter.ValidationOptions(openapi3filter.Options{
			IncludeResponseStatus: tc.Cfg.Opt == "include_status",
			ExcludeResponseBody:   tc.Cfg.Opt == "exclude_body",
			AuthenticationFunc: func(_ context.Context, in *openapi3filter.AuthenticationInput) error {
				if in.RequestValidationInput.Request.Header.Get("X-Key") == "good" {
					return nil
				}
				return errors.New("rejected")
			},
		}),
		openapi3filter.OnLog(func(_ context.Context, msg string, _ error) {
			cls := "other"
			switch {
			case strings.HasPrefix(msg, "validation error: failed to find route"):
				cls = "noroute"
			case msg == "invalid request":
				cls = "badreq"
			case msg == "invalid response":
				cls = "badresp"
			case msg == "failed to write response":
				cls = "writefail"
			}
			log = append(log, map[string]any{"ev": "Log", "msg": cls})
		}),
	}
	if tc.Cfg.ErrMode == "custom" {
		opts = append(opts, openapi3filter.OnErr(func(_ context.Context, w http.ResponseWriter, status int, code openapi3filter.ErrCode, _ error) {
			log = append(log, map[string]any{"ev": "Err", "status": status, "code": int(code)})
			w.WriteHeader(status)
			w.Write([]byte("X"))
		}))
	}
	priming := false
	handler := http.HandlerFunc(func(w http.ResponseWriter, _ *http.Request) {
		if priming {
			switch tc.Cfg.Primer {
			case "p204":
				w.WriteHeader(204)
			case "pbadresp":
				w.Header().Set("Content-Type", "application/json")
				w.Write([]byte("oops"))
			}
			return
		}
		log = append(log, map[string]any{"ev": "Enter"})
		// like io.CopyBuffer: every piece goes through one reused buffer (io.Writer implementations must not retain p)
		chunk := make([]byte, 64)
		for _, call := range tc.Script {
			log = append(log, map[string]any{"ev": "H", "c": c14CallJSON(call)})
			switch call.C {
			case "SetCT":
				w.Header().Set("Content-Type", c14CT[call.Ct])
			case "WH":
				w.WriteHeader(call.S)
			case "W":
				n := copy(chunk, c14Bytes[call.Tok])
				w.Write(chunk[:n])
			case "F":
				if f, ok := w.(http.Flusher); ok {
					f.Flush()
				}
			}
		}
	})
	client := &c14Client{h: http.Header{}, log: &log}
	var sink http.ResponseWriter = client
	if tc.Cfg.ErrMode == "default" {
		// the default errFunc cannot be observed directly: observe it through a writer that
		// reports http.Error's signature (status + text/plain body) as an Err event
		sink = client
	}
	var gate http.Handler
	if tc.Cfg.Gate == "vhandler" || tc.Cfg.Gate == "vhandler_mw" {
		other := http.HandlerFunc(func(w http.ResponseWriter, _ *http.Request) {
			log = append(log, map[string]any{"ev": "Other"}) // the handler behind the OTHER wrapper must never run
			w.WriteHeader(299)
		})
		var base http.Handler = handler
		if tc.Cfg.Gate == "vhandler_mw" {
			base = other
		}
		vh := &openapi3filter.ValidationHandler{
			Handler: base,
			File:    c14DocFile(),
			AuthenticationFunc: func(_ context.Context, in *openapi3filter.AuthenticationInput) error {
				if in.RequestValidationInput.Request.Header.Get("X-Key") == "good" {
					return nil
				}
				return errors.New("rejected")
			},
			ErrorEncoder: (&openapi3filter.ValidationErrorEncoder{Encoder: openapi3filter.DefaultErrorEncoder}).Encode,
		}
		if err := vh.Load(); err != nil {
			panic("harness: c14 ValidationHandler.Load: " + err.Error())
		}
		gate = vh
		if tc.Cfg.Gate == "vhandler_mw" {
			// one ValidationHandler, two wrappers: the request goes through the wrapper of the handler under test
			gate = vh.Middleware(handler)
			_ = vh.Middleware(other)
		}
	} else {
		gate = openapi3filter.NewValidator(c14Router(), opts...).Middleware(handler)
	}
	if tc.Cfg.Primer != "" && tc.Cfg.Primer != "none" {
		// an earlier request on the same middleware instance; what it did is not part of this run's trace
		priming = true
		class := "valid_post"
		if tc.Cfg.Primer == "pbadreq" {
			class = "inv_body"
		}
		guard(func() { gate.ServeHTTP(httptest.NewRecorder(), c14Request(class)) })
		priming = false
		log = log[:1]
	}
	panicked, msg := guard(func() { gate.ServeHTTP(sink, c14Request(tc.Cfg.ReqClass)) })
	end := map[string]any{"ev": "end", "panic": panicked, "finalCt": c14AbsCT(client.h)}
	if panicked {
		end["panicMsg"] = msg
	}
	log = append(log, end)
	return log
}

func c14CallJSON(c c14Call) map[string]any {
	m := map[string]any{"c": c.C}
	switch c.C {
	case "SetCT":
		m["ct"] = c.Ct
	case "WH":
		m["s"] = c.S
	case "W":
		m["tok"] = c.Tok
	}
	return m
}

func c14Script(s []c14Call) []any {
	r := make([]any, 0, len(s))
	for _, c := range s {
		r = append(r, c14CallJSON(c))
	}
	return r
}

func init() {
	drivers["C14"] = &Driver{
		Run: c14Run,
		Abnormal: func(c *Case, kind string) []any {
			var tc c14Case
			c.Decode(&tc)
			return []any{
				map[string]any{"ev": "cfg", "case": c.Idx, "cfg": tc.Cfg, "script": c14Script(tc.Script)},
				map[string]any{"ev": "end", "panic": true, "finalCt": "none", "panicMsg": kind},
			}
		},
	}
}
