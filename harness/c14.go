package main

import (
	"bufio"
	"context"
	"errors"
	"io"
	stdlog "log"
	"net"
	"net/http"
	"net/http/httptest"
	"os"
	"strings"
	"sync"

	"github.com/getkin/kin-openapi/openapi3"
	"github.com/getkin/kin-openapi/openapi3filter"
	"github.com/getkin/kin-openapi/routers"
	"github.com/getkin/kin-openapi/routers/gorillamux"
)

// C14: scripted handler behaviours replayed through openapi3filter.Validator.Middleware.
// The log of one case is the event trace of one run: cfg, handler calls (H), raw calls on the
// client's ResponseWriter (C), errFunc / logFunc calls, end.

const c14Doc = `{
 "openapi": "3.0.3",
 "info": {"title": "t", "version": "1"},
 "components": {"securitySchemes": {"key": {"type": "apiKey", "in": "header", "name": "X-Key"}}},
 "paths": {
  "/items": {"post": {
    "parameters": [{"name": "n", "in": "query", "required": true, "schema": {"type": "integer"}}],
    "requestBody": {"required": true, "content": {"application/json": {"schema":
        {"type": "object", "required": ["name"], "properties": {"name": {"type": "string"}}}}}},
    "responses": {
      "200": {"description": "ok", "content": {"application/json": {"schema":
        {"type": "object", "required": ["id"], "properties": {"id": {"type": "integer"}}}}}},
      "201": {"description": "created"}}}},
  "/plain/{id}": {
    "parameters": [{"name": "id", "in": "path", "required": true, "schema": {"type": "integer"}}],
    "get": {"responses": {
      "200": {"description": "ok", "content": {"application/json": {"schema":
        {"type": "object", "required": ["id"], "properties": {"id": {"type": "integer"}}}}}},
      "201": {"description": "created"}}}},
  "/secure": {"get": {
    "security": [{"key": []}],
    "responses": {
      "200": {"description": "ok", "content": {"application/json": {"schema":
        {"type": "object", "required": ["id"], "properties": {"id": {"type": "integer"}}}}}},
      "201": {"description": "created"}}}},
  "/optional": {"get": {
    "security": [{"key": []}, {}],
    "responses": {
      "200": {"description": "ok", "content": {"application/json": {"schema":
        {"type": "object", "required": ["id"], "properties": {"id": {"type": "integer"}}}}}},
      "201": {"description": "created"}}}}
 }
}`

// the second document: a global security requirement, inherited by /g and switched off by /gopen
const c14DocG = `{
 "openapi": "3.0.3",
 "info": {"title": "g", "version": "1"},
 "components": {"securitySchemes": {"key": {"type": "apiKey", "in": "header", "name": "X-Key"}}},
 "security": [{"key": []}],
 "paths": {
  "/g": {"get": {"responses": {
      "200": {"description": "ok", "content": {"application/json": {"schema":
        {"type": "object", "required": ["id"], "properties": {"id": {"type": "integer"}}}}}},
      "201": {"description": "created"}}}},
  "/gopen": {"get": {
    "security": [],
    "responses": {
      "200": {"description": "ok", "content": {"application/json": {"schema":
        {"type": "object", "required": ["id"], "properties": {"id": {"type": "integer"}}}}}},
      "201": {"description": "created"}}}}
 }
}`

func c14MkRouter(src string) routers.Router {
	loader := openapi3.NewLoader()
	doc, err := loader.LoadFromData([]byte(src))
	if err != nil {
		panic("harness: c14 doc does not load: " + err.Error())
	}
	if err := doc.Validate(context.Background()); err != nil {
		panic("harness: c14 doc does not validate: " + err.Error())
	}
	r, err := gorillamux.NewRouter(doc)
	if err != nil {
		panic("harness: c14 router: " + err.Error())
	}
	return r
}

var c14Router = sync.OnceValue(func() routers.Router { return c14MkRouter(c14Doc) })
var c14RouterG = sync.OnceValue(func() routers.Router { return c14MkRouter(c14DocG) })

func c14MkFile(src string) string {
	f, err := os.CreateTemp(".", "verif-c14-*.json")
	if err != nil {
		panic(err)
	}
	f.WriteString(src)
	f.Close()
	return f.Name()
}

var c14DocFile = sync.OnceValue(func() string { return c14MkFile(c14Doc) })
var c14DocFileG = sync.OnceValue(func() string { return c14MkFile(c14DocG) })

// classes g_* are requests against the second document, classes s_* against the third
func c14IsG(class string) bool { return strings.HasPrefix(class, "g_") }
func c14IsS(class string) bool { return strings.HasPrefix(class, "s_") }

// the third document: its server carries scheme, host and base path, all of which the routers match
const c14DocS = `{
 "openapi": "3.0.3",
 "info": {"title": "s", "version": "1"},
 "servers": [{"url": "http://api.example.com:8080/v1"}],
 "paths": {
  "/s": {"get": {"responses": {
      "200": {"description": "ok", "content": {"application/json": {"schema":
        {"type": "object", "required": ["id"], "properties": {"id": {"type": "integer"}}}}}},
      "201": {"description": "created"}}}}
 }
}`

var c14RouterS = sync.OnceValue(func() routers.Router { return c14MkRouter(c14DocS) })
var c14DocFileS = sync.OnceValue(func() string { return c14MkFile(c14DocS) })

// the handler currently registered behind http.DefaultServeMux (gate "vhandler_def": ValidationHandler.Load's default Handler)
var c14MuxHandler http.Handler
var c14MuxOnce sync.Once

type c14PrimerKey struct{}

// c14Sentinel is the value a scripted handler panics with
type c14Sentinel struct{}

type c14Call struct {
	C   string `json:"c"`
	Ct  string `json:"ct,omitempty"`
	S   int    `json:"s,omitempty"`
	Tok string `json:"tok,omitempty"`
}

type c14Case struct {
	Cfg struct {
		Strict   bool   `json:"strict"`
		ReqClass string `json:"reqClass"`
		ErrMode  string `json:"errMode"`
		Gate     string `json:"gate"`
		Opt      string `json:"opt"`
		Primer   string `json:"primer"`
		Auth     string `json:"auth"`
		Prior    string `json:"prior"`
	} `json:"cfg"`
	Script []c14Call `json:"script"`
}

var c14Bytes = map[string]string{"A": `{"id":1}`, "B": `{"id":"x"}`, "N": "oops", "P1": `{"id":`, "P2": "1}", "E": ""}
var c14CT = map[string]string{"json": "application/json", "text": "text/plain"}

func c14AbsCT(h http.Header) string {
	switch v := h.Get("Content-Type"); v {
	case "":
		return "none"
	case "application/json":
		return "json"
	case "text/plain":
		return "text"
	case "text/plain; charset=utf-8":
		return "errtext"
	case "application/json; charset=utf-8":
		return "errjson"
	default:
		return "other:" + v
	}
}

// c14Client is the client-side http.ResponseWriter: it records every raw call together with
// the Content-Type in the header map at that instant, and, like net/http, panics on an
// invalid status code.
type c14Client struct {
	h   http.Header
	log *[]any
}

func (c *c14Client) Header() http.Header { return c.h }
func (c *c14Client) WriteHeader(s int) {
	*c.log = append(*c.log, map[string]any{"ev": "C", "e": "WH", "s": s, "ct": c14AbsCT(c.h)})
	if s < 100 || s > 999 {
		panic("invalid WriteHeader code")
	}
}
func (c *c14Client) Write(b []byte) (int, error) {
	*c.log = append(*c.log, map[string]any{"ev": "C", "e": "W", "data": string(b), "ct": c14AbsCT(c.h)})
	return len(b), nil
}
func (c *c14Client) Flush() {
	*c.log = append(*c.log, map[string]any{"ev": "C", "e": "F", "ct": c14AbsCT(c.h)})
}

// Hijack makes the client's writer an http.Hijacker (as net/http's HTTP/1 writer is); no scripted handler calls it
func (c *c14Client) Hijack() (net.Conn, *bufio.ReadWriter, error) {
	return nil, nil, errors.New("harness: not hijackable")
}

// c14Probe: the optional interfaces a handler finds on the writer it was given
func c14Probe(w http.ResponseWriter) []any {
	caps := []any{}
	if _, ok := w.(http.Flusher); ok {
		caps = append(caps, "flusher")
	}
	if _, ok := w.(http.Hijacker); ok {
		caps = append(caps, "hijacker")
	}
	if _, ok := w.(io.ReaderFrom); ok {
		caps = append(caps, "readerfrom")
	}
	if _, ok := w.(http.Pusher); ok {
		caps = append(caps, "pusher")
	}
	if _, ok := w.(interface{ Unwrap() http.ResponseWriter }); ok {
		caps = append(caps, "unwrap")
	}
	return caps
}

func c14Request(class string) *http.Request {
	r, _ := c14RequestBody(class)
	return r
}

func c14RequestBody(class string) (*http.Request, string) {
	sent := ""
	mk := func(method, url, body string) *http.Request {
		sent = body
		var r *http.Request
		if body != "" {
			r = httptest.NewRequest(method, url, strings.NewReader(body))
			r.Header.Set("Content-Type", "application/json")
		} else {
			r = httptest.NewRequest(method, url, nil)
		}
		return r
	}
	r := c14RequestOf(class, mk)
	return r, sent
}

func c14RequestOf(class string, mk func(method, url, body string) *http.Request) *http.Request {
	switch class {
	case "valid_post":
		return mk("POST", "/items?n=1", `{"name":"a"}`)
	case "valid_upgrade":
		r := mk("POST", "/items?n=1", `{"name":"a"}`)
		r.Header.Set("Connection", "keep-alive, Upgrade")
		r.Header.Set("Upgrade", "websocket")
		return r
	case "valid_plain":
		return mk("GET", "/plain/5", "")
	case "valid_secure":
		r := mk("GET", "/secure", "")
		r.Header.Set("X-Key", "good")
		return r
	case "nf_path":
		return mk("GET", "/nope", "")
	case "nf_method":
		return mk("DELETE", "/items", "")
	case "nf_options":
		return mk("OPTIONS", "/items", "")
	case "nf_head":
		return mk("HEAD", "/items?n=1", "")
	case "inv_nobody":
		return mk("POST", "/items?n=1", "")
	case "inv_ctype":
		r := mk("POST", "/items?n=1", `{"name":"a"}`)
		r.Header.Set("Content-Type", "text/plain")
		return r
	case "inv_noparam":
		return mk("POST", "/items", `{"name":"a"}`)
	case "inv_body":
		return mk("POST", "/items?n=1", `{"name":1}`)
	case "inv_param":
		return mk("POST", "/items?n=x", `{"name":"a"}`)
	case "inv_pathlevel":
		return mk("GET", "/plain/abc", "")
	case "inv_security":
		r := mk("GET", "/secure", "")
		r.Header.Set("X-Key", "bad")
		return r
	case "sec_nokey":
		return mk("GET", "/secure", "")
	case "opt_anon":
		return mk("GET", "/optional", "")
	case "g_good":
		r := mk("GET", "/g", "")
		r.Header.Set("X-Key", "good")
		return r
	case "g_bad":
		r := mk("GET", "/g", "")
		r.Header.Set("X-Key", "bad")
		return r
	case "g_open":
		return mk("GET", "/gopen", "")
	case "s_ok":
		return mk("GET", "http://api.example.com:8080/v1/s", "")
	case "s_host":
		return mk("GET", "http://other.example.com:8080/v1/s", "")
	case "s_scheme":
		return mk("GET", "https://api.example.com:8080/v1/s", "")
	case "s_port":
		return mk("GET", "http://api.example.com:9090/v1/s", "")
	case "s_base":
		return mk("GET", "http://api.example.com:8080/s", "")
	}
	panic("harness: unknown request class " + class)
}

var c14RealHandler http.Handler

var c14Server = sync.OnceValue(func() *httptest.Server {
	s := httptest.NewUnstartedServer(http.HandlerFunc(func(w http.ResponseWriter, r *http.Request) { c14RealHandler.ServeHTTP(w, r) }))
	s.Config.ErrorLog = stdlog.New(io.Discard, "", 0)
	s.Start()
	return s
})

// c14Real sends the request of the case through a real HTTP client to a real net/http server running the gate
func c14Real(gate http.Handler, req *http.Request, sent string) map[string]any {
	srv := c14Server()
	c14RealHandler = gate
	var body io.Reader
	if sent != "" {
		body = strings.NewReader(sent)
	}
	r, err := http.NewRequest(req.Method, srv.URL+req.URL.RequestURI(), body)
	if err != nil {
		return map[string]any{"ev": "Real", "err": true, "status": 0, "body": ""}
	}
	for k, vs := range req.Header {
		for _, v := range vs {
			r.Header.Add(k, v)
		}
	}
	resp, err := srv.Client().Do(r)
	if err != nil {
		return map[string]any{"ev": "Real", "err": true, "status": 0, "body": ""}
	}
	defer resp.Body.Close()
	b, err := io.ReadAll(resp.Body)
	if err != nil {
		return map[string]any{"ev": "Real", "err": true, "status": 0, "body": ""}
	}
	return map[string]any{"ev": "Real", "err": false, "status": resp.StatusCode, "body": string(b)}
}

func c14KeyAuth(_ context.Context, in *openapi3filter.AuthenticationInput) error {
	if in.RequestValidationInput.Request.Header.Get("X-Key") == "good" {
		return nil
	}
	return errors.New("rejected")
}

func c14Run(c *Case) []any {
	var tc c14Case
	c.Decode(&tc)
	if tc.Cfg.Auth == "" {
		tc.Cfg.Auth = "callback" // cases recorded before the dimension existed
	}
	if tc.Cfg.Primer == "" {
		tc.Cfg.Primer = "none"
	}
	if tc.Cfg.Prior == "" {
		tc.Cfg.Prior = "none"
	}
	var log []any
	log = append(log, map[string]any{"ev": "cfg", "case": c.Idx, "cfg": tc.Cfg, "script": c14Script(tc.Script)})
	muted := false // the second pass (real net/http transport) records its response only
	put := func(m map[string]any) {
		if !muted {
			log = append(log, m)
		}
	}
	primer := func(ctx context.Context) bool { return ctx.Value(c14PrimerKey{}) != nil } // callbacks of the OTHER requests are not this run's

	var authFn openapi3filter.AuthenticationFunc // "nofunc" / "noopts": none
	switch tc.Cfg.Auth {
	case "callback":
		authFn = c14KeyAuth
	case "noop":
		authFn = openapi3filter.NoopAuthenticationFunc
	}
	opts := []openapi3filter.ValidatorOption{openapi3filter.Strict(tc.Cfg.Strict)}
	if tc.Cfg.ErrMode == "custom" {
		opts = append(opts, openapi3filter.OnLog(func(ctx context.Context, msg string, _ error) {
			if primer(ctx) {
				return
			}
			cls := "other"
			switch {
			case strings.HasPrefix(msg, "validation error: failed to find route"):
				cls = "noroute"
			case msg == "invalid request":
				cls = "badreq"
			case msg == "invalid response":
				cls = "badresp"
			case msg == "failed to write response":
				cls = "writefail"
			}
			put(map[string]any{"ev": "Log", "msg": cls})
		}))
	} else {
		// errMode "default": neither OnErr nor OnLog -- the Validator's own errFunc (http.Error) and logFunc (log.Printf)
		stdlog.SetOutput(io.Discard)
	}
	if tc.Cfg.Auth != "noopts" {
		opts = append(opts, openapi3filter.ValidationOptions(openapi3filter.Options{
			IncludeResponseStatus:     tc.Cfg.Opt == "include_status",
			ExcludeResponseBody:       tc.Cfg.Opt == "exclude_body",
			MultiError:                tc.Cfg.Opt == "multi_error",
			ExcludeRequestBody:        tc.Cfg.Opt == "excl_req_body",
			ExcludeRequestQueryParams: tc.Cfg.Opt == "excl_query",
			AuthenticationFunc:        authFn,
		}))
	}
	if tc.Cfg.ErrMode == "custom" {
		opts = append(opts, openapi3filter.OnErr(func(ctx context.Context, w http.ResponseWriter, status int, code openapi3filter.ErrCode, _ error) {
			if !primer(ctx) {
				put(map[string]any{"ev": "Err", "status": status, "code": int(code)})
			}
			w.WriteHeader(status)
			w.Write([]byte("X"))
		}))
	}
	req, sent := c14RequestBody(tc.Cfg.ReqClass)
	handler := http.HandlerFunc(func(w http.ResponseWriter, r *http.Request) {
		if primer(r.Context()) {
			switch tc.Cfg.Primer {
			case "p204":
				w.WriteHeader(204)
			case "pbadresp", "cbadresp":
				w.Header().Set("Content-Type", "application/json")
				w.Write([]byte("oops"))
			}
			if tc.Cfg.Prior != "none" {
				w.Header().Set("Content-Type", "application/json")
				w.Write([]byte(`{"id":1}`))
			}
			return
		}
		put(map[string]any{"ev": "Enter"})
		// like io.CopyBuffer: every piece goes through one reused buffer (io.Writer implementations must not retain p)
		chunk := make([]byte, 64)
		for _, call := range tc.Script {
			h := map[string]any{"ev": "H", "c": c14CallJSON(call)}
			switch call.C {
			case "Probe":
				h["caps"] = c14Probe(w)
			case "RB":
				var b []byte
				if r.Body != nil {
					b, _ = io.ReadAll(r.Body)
					r.Body.Close()
				}
				h["read"], h["sent"] = string(b), sent
			}
			put(h)
			switch call.C {
			case "SetCT":
				w.Header().Set("Content-Type", c14CT[call.Ct])
			case "WH":
				w.WriteHeader(call.S)
			case "W":
				n := copy(chunk, c14Bytes[call.Tok])
				w.Write(chunk[:n])
			case "Copy":
				// a plain io.Reader (no WriterTo): io.Copy looks for ReaderFrom on w, then falls back to Read/Write rounds
				io.Copy(w, struct{ io.Reader }{strings.NewReader(c14Bytes[call.Tok])})
			case "F":
				if f, ok := w.(http.Flusher); ok {
					f.Flush()
				}
			case "FC":
				http.NewResponseController(w).Flush()
			case "Panic":
				panic(c14Sentinel{})
			}
		}
	})
	client := &c14Client{h: http.Header{}, log: &log}
	var gate http.Handler
	if tc.Cfg.Gate == "vhandler" || tc.Cfg.Gate == "vhandler_mw" || tc.Cfg.Gate == "vhandler_def" {
		other := http.HandlerFunc(func(w http.ResponseWriter, _ *http.Request) {
			put(map[string]any{"ev": "Other"}) // the handler behind the OTHER wrapper must never run
			w.WriteHeader(299)
		})
		var base http.Handler = handler
		if tc.Cfg.Gate == "vhandler_mw" {
			base = other
		}
		file := c14DocFile()
		if c14IsG(tc.Cfg.ReqClass) {
			file = c14DocFileG()
		} else if c14IsS(tc.Cfg.ReqClass) {
			file = c14DocFileS()
		}
		vh := &openapi3filter.ValidationHandler{
			Handler:            base,
			File:               file,
			AuthenticationFunc: authFn,
			ErrorEncoder:       (&openapi3filter.ValidationErrorEncoder{Encoder: openapi3filter.DefaultErrorEncoder}).Encode,
		}
		if tc.Cfg.ErrMode == "custom" {
			vh.ErrorEncoder = func(ctx context.Context, _ error, w http.ResponseWriter) {
				if !primer(ctx) {
					put(map[string]any{"ev": "Err", "status": 499, "code": 0})
				}
				w.WriteHeader(499)
				w.Write([]byte("X"))
			}
		}
		if tc.Cfg.Gate == "vhandler_def" {
			// nothing but the document: Load supplies http.DefaultServeMux, NoopAuthenticationFunc, DefaultErrorEncoder
			vh = &openapi3filter.ValidationHandler{File: file}
			c14MuxOnce.Do(func() {
				http.DefaultServeMux.HandleFunc("/", func(w http.ResponseWriter, r *http.Request) { c14MuxHandler.ServeHTTP(w, r) })
			})
			c14MuxHandler = handler
		}
		if err := vh.Load(); err != nil {
			panic("harness: c14 ValidationHandler.Load: " + err.Error())
		}
		gate = vh
		if tc.Cfg.Gate == "vhandler_mw" {
			// one ValidationHandler, two wrappers: the request goes through the wrapper of the handler under test
			gate = vh.Middleware(handler)
			_ = vh.Middleware(other)
		}
	} else {
		router := c14Router()
		if c14IsG(tc.Cfg.ReqClass) {
			router = c14RouterG()
		} else if c14IsS(tc.Cfg.ReqClass) {
			router = c14RouterS()
		}
		v := openapi3filter.NewValidator(router, opts...)
		gate = v.Middleware(handler)
		// one Validator, two wrappers: the request goes through the wrapper of the handler under test
		_ = v.Middleware(http.HandlerFunc(func(w http.ResponseWriter, _ *http.Request) {
			put(map[string]any{"ev": "Other"})
			w.WriteHeader(299)
		}))
	}
	primerReq := func() *http.Request {
		class := "valid_post"
		if tc.Cfg.Primer == "pbadreq" || tc.Cfg.Primer == "cbadreq" {
			class = "inv_body"
		}
		r := c14Request(class)
		return r.WithContext(context.WithValue(r.Context(), c14PrimerKey{}, true))
	}
	if tc.Cfg.Prior != "none" {
		// another request served by the same gate instance just before; what it did is not part of this run's trace
		pr := c14Request(tc.Cfg.Prior)
		pr = pr.WithContext(context.WithValue(pr.Context(), c14PrimerKey{}, true))
		guard(func() { gate.ServeHTTP(httptest.NewRecorder(), pr) })
		log = log[:1]
	}
	stop := make(chan struct{})
	var wg sync.WaitGroup
	switch tc.Cfg.Primer {
	case "p204", "pbadresp", "pbadreq":
		// an earlier request on the same middleware instance; what it did is not part of this run's trace
		guard(func() { gate.ServeHTTP(httptest.NewRecorder(), primerReq()) })
		log = log[:1]
	case "cbadresp", "cbadreq":
		// other requests on the same middleware instance at the same time (each with its own client)
		started := make(chan struct{}, 2)
		for g := 0; g < 2; g++ {
			wg.Add(1)
			go func() {
				defer wg.Done()
				first := true
				for {
					select {
					case <-stop:
						return
					default:
					}
					func() {
						defer func() { recover() }()
						gate.ServeHTTP(httptest.NewRecorder(), primerReq())
					}()
					if first {
						started <- struct{}{}
						first = false
					}
				}
			}()
		}
		<-started
		<-started
	}
	var pv any
	panicked, msg := guard(func() {
		defer func() {
			if pv = recover(); pv != nil {
				panic(pv)
			}
		}()
		gate.ServeHTTP(client, req)
	})
	close(stop)
	wg.Wait()
	_, hpanic := pv.(c14Sentinel)
	// Second pass: the same gate and handler behind a real net/http server, asked by a real client.  What that client
	// receives is logged next to the raw calls of the first pass, so that the specification's ClientModel (its reading of
	// raw ResponseWriter calls) is itself judged against net/http.  Short behaviours and all with an informational status.
	// (not for the classes that are about the server part of the URL: the real server has its own address)
	realPass := tc.Cfg.Primer == "none" && tc.Cfg.ReqClass != "valid_upgrade" && tc.Cfg.ReqClass != "nf_head" && !panicked && !c14IsS(tc.Cfg.ReqClass)
	if realPass && len(tc.Script) > 2 {
		realPass = false
		for _, call := range tc.Script {
			if call.C == "WH" && call.S < 200 {
				realPass = true
			}
		}
	}
	if realPass {
		muted = true
		log = append(log, c14Real(gate, req, sent))
		muted = false
	}
	end := map[string]any{"ev": "end", "panic": panicked, "hpanic": hpanic, "finalCt": c14AbsCT(client.h)}
	if panicked {
		end["panicMsg"] = msg
	}
	log = append(log, end)
	return log
}

func c14CallJSON(c c14Call) map[string]any {
	m := map[string]any{"c": c.C}
	switch c.C {
	case "SetCT":
		m["ct"] = c.Ct
	case "WH":
		m["s"] = c.S
	case "W", "Copy":
		m["tok"] = c.Tok
	}
	return m
}

func c14Script(s []c14Call) []any {
	r := make([]any, 0, len(s))
	for _, c := range s {
		r = append(r, c14CallJSON(c))
	}
	return r
}

func init() {
	drivers["C14"] = &Driver{
		Run: c14Run,
		Abnormal: func(c *Case, kind string) []any {
			var tc c14Case
			c.Decode(&tc)
			if tc.Cfg.Auth == "" {
				tc.Cfg.Auth = "callback"
			}
			if tc.Cfg.Primer == "" {
				tc.Cfg.Primer = "none"
			}
			if tc.Cfg.Prior == "" {
				tc.Cfg.Prior = "none"
			}
			return []any{
				map[string]any{"ev": "cfg", "case": c.Idx, "cfg": tc.Cfg, "script": c14Script(tc.Script)},
				map[string]any{"ev": "end", "panic": true, "hpanic": false, "finalCt": "none", "panicMsg": kind},
			}
		},
	}
}
