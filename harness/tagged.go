package main

import (
	"encoding/json"
	"fmt"
	"math"
	"sort"
	"strconv"
	"strings"
)

// Tagged JSON values (spec/JsonValue.tla) <-> Go values / JSON text.
//   {"t":"null"} {"t":"bool","b":true} {"t":"num","q":6[,"dec":true]} {"t":"str","cs":["a","b"]}
//   {"t":"arr","a":[...]} {"t":"obj","k":["x"],"v":[...]}
// "U" in cs stands for one astral rune.

const astral = "\U0001F600"

type T = map[string]any

func asInt(x any) int {
	switch n := x.(type) {
	case json.Number:
		i, err := n.Int64()
		if err != nil {
			panic("harness: not an int: " + n.String())
		}
		return int(i)
	case float64:
		return int(n)
	case int:
		return n
	}
	panic(fmt.Sprintf("harness: not a number: %#v", x))
}

func asSlice(x any) []any {
	if x == nil {
		return nil
	}
	if s, ok := x.([]any); ok {
		return s
	}
	// TLC renders an empty record/sequence ambiguously; an empty object means empty sequence
	if m, ok := x.(map[string]any); ok && len(m) == 0 {
		return nil
	}
	panic(fmt.Sprintf("harness: not a sequence: %#v", x))
}

func csToString(cs any) string {
	var b strings.Builder
	for _, c := range asSlice(cs) {
		s := c.(string)
		if s == "U" {
			b.WriteString(astral)
		} else {
			b.WriteString(s)
		}
	}
	return b.String()
}

func stringToCs(s string) []any {
	cs := []any{}
	for _, r := range s {
		if r == []rune(astral)[0] {
			cs = append(cs, "U")
		} else {
			cs = append(cs, string(r))
		}
	}
	return cs
}

func quarterText(q int, dec bool) string {
	neg := q < 0
	if neg {
		q = -q
	}
	whole, frac := q/4, q%4
	s := strconv.Itoa(whole)
	switch frac {
	case 1:
		s += ".25"
	case 2:
		s += ".5"
	case 3:
		s += ".75"
	default:
		if dec {
			s += ".0"
		}
	}
	if neg {
		s = "-" + s
	}
	return s
}

// taggedToJSONText renders a tagged value as JSON text.
func taggedToJSONText(t any) string {
	m := t.(map[string]any)
	switch m["t"] {
	case "null":
		return "null"
	case "bool":
		if m["b"].(bool) {
			return "true"
		}
		return "false"
	case "num":
		if big, _ := m["big"].(bool); big {
			return "10000000000000000000" // 10^19: beyond int64, exact in float64 (spec/SchemaUniverse.tla Big)
		}
		dec, _ := m["dec"].(bool)
		return quarterText(asInt(m["q"]), dec)
	case "str":
		b, _ := json.Marshal(csToString(m["cs"]))
		return string(b)
	case "arr":
		parts := []string{}
		for _, x := range asSlice(m["a"]) {
			parts = append(parts, taggedToJSONText(x))
		}
		return "[" + strings.Join(parts, ",") + "]"
	case "obj":
		ks, vs := asSlice(m["k"]), asSlice(m["v"])
		parts := []string{}
		for i := range ks {
			kb, _ := json.Marshal(ks[i].(string))
			parts = append(parts, string(kb)+":"+taggedToJSONText(vs[i]))
		}
		return "{" + strings.Join(parts, ",") + "}"
	}
	panic(fmt.Sprintf("harness: bad tagged value %#v", t))
}

// decodeJSONText decodes JSON text the two ways the library's API is fed.
func decodeJSONText(text string, useNumber bool) any {
	dec := json.NewDecoder(strings.NewReader(text))
	if useNumber {
		dec.UseNumber()
	}
	var v any
	if err := dec.Decode(&v); err != nil {
		panic("harness: cannot decode own JSON text " + text + ": " + err.Error())
	}
	return v
}

// goToTagged projects a decoded JSON value (float64 / json.Number / int forms) to tagged form.
// ok=false when the value has no tagged representation (non-quarter number etc).
func goToTagged(v any) (t any, ok bool) {
	switch x := v.(type) {
	case nil:
		return T{"t": "null"}, true
	case bool:
		return T{"t": "bool", "b": x}, true
	case float64:
		if x == 1e19 {
			return T{"t": "num", "q": 2000000000, "big": true}, true
		}
		q := x * 4
		if q != math.Trunc(q) || math.Abs(q) > 1e9 {
			return nil, false
		}
		return T{"t": "num", "q": int(q)}, true
	case float32:
		return goToTagged(float64(x))
	case int:
		return T{"t": "num", "q": x * 4}, true
	case int64:
		return T{"t": "num", "q": int(x) * 4}, true
	case int32:
		return T{"t": "num", "q": int(x) * 4}, true
	case uint64:
		return T{"t": "num", "q": int(x) * 4}, true
	case json.Number:
		f, err := x.Float64()
		if err != nil {
			return nil, false
		}
		return goToTagged(f)
	case string:
		return T{"t": "str", "cs": stringToCs(x)}, true
	case []any:
		a := []any{}
		for _, e := range x {
			te, ok := goToTagged(e)
			if !ok {
				return nil, false
			}
			a = append(a, te)
		}
		return T{"t": "arr", "a": a}, true
	case []string:
		a := []any{}
		for _, e := range x {
			a = append(a, T{"t": "str", "cs": stringToCs(e)})
		}
		return T{"t": "arr", "a": a}, true
	case map[string]any:
		keys := make([]string, 0, len(x))
		for k := range x {
			keys = append(keys, k)
		}
		sort.Strings(keys)
		ks, vs := []any{}, []any{}
		for _, k := range keys {
			te, ok := goToTagged(x[k])
			if !ok {
				return nil, false
			}
			ks = append(ks, k)
			vs = append(vs, te)
		}
		return T{"t": "obj", "k": ks, "v": vs}, true
	}
	return nil, false
}

// ---------------------------------------------------------------------------------------------
// Abstract schema (spec/SchemaSem.tla) -> OpenAPI schema JSON object.

func absSchemaToOpenAPI(a any) map[string]any {
	out := map[string]any{}
	m, ok := a.(map[string]any)
	if !ok { // [] = the empty schema
		return out
	}
	subs := func(x any) []any {
		r := []any{}
		for _, s := range asSlice(x) {
			r = append(r, absSchemaToOpenAPI(s))
		}
		return r
	}
	for f, x := range m {
		switch f {
		case "type", "pattern", "format":
			out[f] = x
		case "ref": // a reference to a shared component (harness/c01.go shareAbs)
			out["$ref"] = "#/components/schemas/" + x.(string)
		case "types":
			out["type"] = asSlice(x)
		case "nullable", "uniqueItems", "exclusiveMinimum", "exclusiveMaximum", "readOnly", "writeOnly":
			out[f] = x
		case "disc":
			out["discriminator"] = map[string]any{"propertyName": x}
		case "discref":
			// oneOf over a component reference, the discriminator's mapping designates it for the value "k"
			out["oneOf"] = []any{map[string]any{"$ref": "#/components/schemas/D"}}
			out["discriminator"] = map[string]any{"propertyName": x, "mapping": map[string]any{"k": "#/components/schemas/D"}}
		case "discmap":
			out["discriminator"] = map[string]any{"propertyName": x, "mapping": map[string]any{"k": "#/components/schemas/S"}}
		case "apFalse":
			out["additionalProperties"] = false
		case "apSchema":
			out["additionalProperties"] = absSchemaToOpenAPI(x)
		case "enum":
			vals := []any{}
			for _, v := range asSlice(x) {
				vals = append(vals, json.RawMessage(taggedToJSONText(v)))
			}
			out["enum"] = vals
		case "default":
			out["default"] = json.RawMessage(taggedToJSONText(x))
		case "minimum", "maximum", "multipleOf":
			out[f] = json.RawMessage(quarterText(asInt(x), false))
		case "minLength", "maxLength", "minItems", "maxItems", "minProperties", "maxProperties":
			out[f] = asInt(x)
		case "required":
			out[f] = asSlice(x)
		case "items", "not":
			out[f] = absSchemaToOpenAPI(x)
		case "allOf", "anyOf", "oneOf":
			out[f] = subs(x)
		case "pk":
			props := map[string]any{}
			ps := asSlice(m["ps"])
			for i, k := range asSlice(x) {
				props[k.(string)] = absSchemaToOpenAPI(ps[i])
			}
			out["properties"] = props
		case "ps":
		default:
			panic("harness: unknown abstract schema field " + f)
		}
	}
	return out
}

// openAPIToAbsSchema projects an OpenAPI schema JSON object (as produced by json.Marshal of the
// loaded *openapi3.Schema) back to the abstract form, for the realiser round trip.
func openAPIToAbsSchema(o map[string]any) (any, bool) {
	out := map[string]any{}
	okAll := true
	sub := func(x any) any {
		m, _ := x.(map[string]any)
		a, ok := openAPIToAbsSchema(m)
		if !ok {
			okAll = false
		}
		return a
	}
	for f, x := range o {
		switch f {
		case "type", "pattern", "nullable", "uniqueItems", "exclusiveMinimum", "exclusiveMaximum", "readOnly", "writeOnly", "format":
			out[f] = x
		case "$ref":
			out["ref"] = strings.TrimPrefix(x.(string), "#/components/schemas/")
		case "discriminator":
			if dm, ok := x.(map[string]any); ok {
				if _, hasMap := dm["mapping"]; hasMap {
					out["discmap"] = dm["propertyName"]
				} else {
					out["disc"] = dm["propertyName"]
				}
			}
		case "additionalProperties":
			if b, isb := x.(bool); isb {
				if !b {
					out["apFalse"] = true
				}
			} else {
				out["apSchema"] = sub(x)
			}
		case "enum":
			vals := []any{}
			for _, v := range x.([]any) {
				t, ok := goToTagged(v)
				if !ok {
					okAll = false
				}
				vals = append(vals, t)
			}
			out["enum"] = vals
		case "default":
			t, ok := goToTagged(x)
			if !ok {
				okAll = false
			}
			out["default"] = t
		case "minimum", "maximum", "multipleOf":
			t, ok := goToTagged(x)
			if !ok {
				okAll = false
				continue
			}
			out[f] = t.(T)["q"]
		case "minLength", "maxLength", "minItems", "maxItems", "minProperties", "maxProperties":
			out[f] = asInt(x)
		case "required":
			out[f] = x
		case "items", "not":
			out[f] = sub(x)
		case "allOf", "anyOf", "oneOf":
			r := []any{}
			for _, s := range x.([]any) {
				r = append(r, sub(s))
			}
			out[f] = r
		case "properties":
			props := x.(map[string]any)
			keys := make([]string, 0, len(props))
			for k := range props {
				keys = append(keys, k)
			}
			sort.Strings(keys)
			pk, ps := []any{}, []any{}
			for _, k := range keys {
				pk = append(pk, k)
				ps = append(ps, sub(props[k]))
			}
			out["pk"], out["ps"] = pk, ps
		default:
			okAll = false
		}
	}
	if len(out) == 0 {
		return []any{}, okAll
	}
	return out, okAll
}
