package main

import (
	"context"
	"crypto/tls"
	"encoding/json"
	"errors"
	"net/http"
	"sort"
	"strings"

	"github.com/getkin/kin-openapi/openapi3"
	"github.com/getkin/kin-openapi/routers"
	"github.com/getkin/kin-openapi/routers/gorillamux"
	"github.com/getkin/kin-openapi/routers/legacy"
)

// C09: an abstract document (template family with method sets, server shape; spec/Router.tla)
// is rendered as OpenAPI JSON, loaded through the real loader, validated, and handed to both
// router constructors; every abstract request of the case becomes an *http.Request
// (http.NewRequest) and goes through FindRoute of both routers.  Logged: the document and the
// requests as the library shows them (realiser round trip) and, per request and router, the
// projected result.  No oracle here: nothing below knows which template should match.

type c09Part struct {
	L  *string   `json:"l"`
	V  *string   `json:"v"`
	D  *string   `json:"d"`
	E  []string  `json:"enum"` // server variable: the declared set of values (optional)
	Mx []c09Part `json:"mx"`   // mixed path segment: literal text and variables inside one segment
}

func (p c09Part) text() string {
	if p.V != nil {
		return "{" + *p.V + "}"
	}
	if p.Mx != nil {
		var b strings.Builder
		for _, q := range p.Mx {
			b.WriteString(q.text())
		}
		return b.String()
	}
	if p.L == nil {
		panic("harness: c09 part without l or v")
	}
	return *p.L
}

type c09Op struct {
	M  string `json:"m"`
	ID string `json:"id"`
}

type c09Templ struct {
	Segs    []c09Part   `json:"segs"`
	Ops     []c09Op     `json:"ops"`
	Servers []c09Server `json:"servers"` // path-level servers (optional)
}

type c09Server struct {
	Abs    bool       `json:"abs"`
	Scheme string     `json:"scheme"`
	Host   []c09Part  `json:"host"`
	Port   []c09Part  `json:"port"`
	Base   []string   `json:"base"`
	Slash  bool       `json:"slash"`
	Sch    *c09SchVar `json:"sch"` // the scheme is the server variable {V} with the enum Enum and the default Scheme
	Bv     []c09BVar  `json:"bv"`  // base-path variables: segment I (1-based) of Base is the variable V, Base[I-1] its default
}

type c09SchVar struct {
	V    string   `json:"v"`
	Enum []string `json:"enum"`
}

type c09BVar struct {
	I int    `json:"i"`
	V string `json:"v"`
}

type c09Doc struct {
	Templates []c09Templ  `json:"templates"`
	Servers   []c09Server `json:"servers"`
}

type c09URL struct {
	Abs    bool     `json:"abs"`
	Scheme string   `json:"scheme"`
	Host   []string `json:"host"`
	Port   []string `json:"port"`
	Path   []string `json:"path"`
	Form   string   `json:"form"` // "server": path-only Request.URL, host[:port] in Request.Host, https as Request.TLS (optional)
	Tail   string   `json:"tail"` // what follows the path: "?", "?a=1", "?a=1#top", "#top" (optional)
}

type c09Req struct {
	M string `json:"m"`
	U c09URL `json:"u"`
}

type c09Case struct {
	Doc  c09Doc   `json:"doc"`
	Reqs []c09Req `json:"reqs"`
}

func c09PathText(segs []string) string {
	var b strings.Builder
	for _, s := range segs {
		b.WriteByte('/')
		b.WriteString(s)
	}
	return b.String()
}

func c09TemplateText(t c09Templ) string {
	segs := make([]string, len(t.Segs))
	for i, s := range t.Segs {
		segs[i] = s.text()
	}
	return c09PathText(segs)
}

func c09ServerJSON(s c09Server) map[string]any {
	var b strings.Builder
	vars := map[string]any{}
	note := func(p c09Part) {
		if p.V != nil {
			d := ""
			if p.D != nil {
				d = *p.D
			}
			v := map[string]any{"default": d}
			if len(p.E) > 0 {
				v["enum"] = p.E
			}
			vars[*p.V] = v
		}
	}
	if s.Abs {
		if s.Sch != nil {
			b.WriteString("{" + s.Sch.V + "}")
			vars[s.Sch.V] = map[string]any{"default": s.Scheme, "enum": s.Sch.Enum}
		} else {
			b.WriteString(s.Scheme)
		}
		b.WriteString("://")
		for i, p := range s.Host {
			if i > 0 {
				b.WriteByte('.')
			}
			b.WriteString(p.text())
			note(p)
		}
		for _, p := range s.Port {
			b.WriteByte(':')
			b.WriteString(p.text())
			note(p)
		}
	}
	base := append([]string{}, s.Base...)
	for _, bv := range s.Bv {
		if bv.I < 1 || bv.I > len(base) {
			panic("harness: c09 base-path variable outside the base path")
		}
		vars[bv.V] = map[string]any{"default": s.Base[bv.I-1]}
		base[bv.I-1] = "{" + bv.V + "}"
	}
	b.WriteString(c09PathText(base))
	if s.Slash {
		b.WriteByte('/')
	}
	m := map[string]any{"url": b.String()}
	if len(vars) > 0 {
		m["variables"] = vars
	}
	return m
}

func c09DocJSON(d c09Doc) []byte {
	paths := map[string]any{}
	for _, t := range d.Templates {
		item := map[string]any{}
		params := []any{}
		for _, s := range t.Segs {
			for _, q := range append([]c09Part{s}, s.Mx...) {
				if q.V != nil {
					params = append(params, map[string]any{"name": *q.V, "in": "path", "required": true,
						"schema": map[string]any{"type": "string"}})
				}
			}
		}
		if len(params) > 0 {
			item["parameters"] = params
		}
		for _, o := range t.Ops {
			item[strings.ToLower(o.M)] = map[string]any{"operationId": o.ID,
				"responses": map[string]any{"200": map[string]any{"description": "ok"}}}
		}
		if len(t.Servers) > 0 {
			srvs := []any{}
			for _, s := range t.Servers {
				srvs = append(srvs, c09ServerJSON(s))
			}
			item["servers"] = srvs
		}
		paths[c09TemplateText(t)] = item
	}
	doc := map[string]any{
		"openapi": "3.0.3",
		"info":    map[string]any{"title": "t", "version": "1"},
		"paths":   paths,
	}
	if len(d.Servers) > 0 {
		srvs := []any{}
		for _, s := range d.Servers {
			srvs = append(srvs, c09ServerJSON(s))
		}
		doc["servers"] = srvs
	}
	data, err := json.Marshal(doc)
	if err != nil {
		panic(err)
	}
	return data
}

func c09URLText(u c09URL) string {
	var b strings.Builder
	if u.Abs {
		b.WriteString(u.Scheme)
		b.WriteString("://")
		b.WriteString(strings.Join(u.Host, "."))
		for _, p := range u.Port {
			b.WriteByte(':')
			b.WriteString(p)
		}
	}
	b.WriteString(c09PathText(u.Path))
	b.WriteString(u.Tail)
	return b.String()
}

// c09ProjectDoc shows the loaded document in the vocabulary of the specification: path keys with
// their (method, operationId) pairs and path-level server URLs, server URLs with their variable defaults.
func c09ProjectDoc(doc *openapi3.T) map[string]any {
	paths := []any{}
	keys := []string{}
	for k := range doc.Paths.Map() {
		keys = append(keys, k)
	}
	sort.Strings(keys)
	for _, k := range keys {
		ops := []any{}
		item := doc.Paths.Value(k)
		ms := []string{}
		for m := range item.Operations() {
			ms = append(ms, m)
		}
		sort.Strings(ms)
		for _, m := range ms {
			ops = append(ops, map[string]any{"m": m, "id": item.Operations()[m].OperationID})
		}
		own := []any{}
		for _, s := range item.Servers {
			own = append(own, s.URL)
		}
		paths = append(paths, map[string]any{"p": k, "ops": ops, "srv": own})
	}
	srvs := []any{}
	for _, s := range doc.Servers {
		vars := []any{}
		names := []string{}
		for n := range s.Variables {
			names = append(names, n)
		}
		sort.Strings(names)
		for _, n := range names {
			vars = append(vars, map[string]any{"n": n, "d": s.Variables[n].Default})
		}
		srvs = append(srvs, map[string]any{"url": s.URL, "vars": vars})
	}
	return map[string]any{"paths": paths, "servers": srvs}
}

var (
	c09NotFoundReason   = routers.ErrPathNotFound.(*routers.RouteError).Reason
	c09NotAllowedReason = routers.ErrMethodNotAllowed.(*routers.RouteError).Reason
)

// c09Find calls FindRoute and projects the result; the returned route object (nil if none) is handed
// back so that the caller can keep holding it while further requests are routed.
func c09Find(r routers.Router, req *http.Request) (map[string]any, *routers.Route) {
	if r == nil {
		return map[string]any{"k": "unbuilt"}, nil
	}
	obs, route := c09FindObs(r, req)
	if obs["k"] != "route" {
		route = nil
	}
	return obs, route
}

// c09Held reads a route object the caller kept: its Method, Path and operation, as they are now.
func c09Held(route *routers.Route) map[string]any {
	if route == nil {
		return map[string]any{"k": "none"}
	}
	op := ""
	if route.Operation != nil {
		op = route.Operation.OperationID
	}
	return map[string]any{"k": "route", "path": route.Path, "m": route.Method, "op": op}
}

func c09FindObs(r routers.Router, req *http.Request) (map[string]any, *routers.Route) {
	var (
		route  *routers.Route
		params map[string]string
		err    error
	)
	if p, msg := guard(func() { route, params, err = r.FindRoute(req) }); p {
		return map[string]any{"k": "panic", "msg": msg}, nil
	}
	if err != nil {
		var re *routers.RouteError
		if errors.As(err, &re) {
			kind := "other"
			switch re.Reason {
			case c09NotFoundReason:
				kind = "notFound"
			case c09NotAllowedReason:
				kind = "methodNotAllowed"
			}
			return map[string]any{"k": "rerr", "kind": kind}, nil
		}
		return map[string]any{"k": "err", "msg": err.Error()}, nil
	}
	if route == nil {
		return map[string]any{"k": "nilroute"}, nil
	}
	names := make([]string, 0, len(params))
	for n := range params {
		names = append(names, n)
	}
	sort.Strings(names)
	ps := []any{}
	for _, n := range names {
		ps = append(ps, map[string]any{"n": n, "v": params[n]})
	}
	op := ""
	if route.Operation != nil {
		op = route.Operation.OperationID
	}
	obs := map[string]any{"k": "route", "path": route.Path, "m": route.Method, "op": op, "params": ps}
	if route.Server != nil {
		obs["srv"] = route.Server.URL
	}
	return obs, route
}

// c09Request builds the *http.Request of an abstract request: from its URL text (the form a client holds), or -- form
// "server" -- the way net/http hands a request to a handler: Request.URL is the path and query, the host is in
// Request.Host, and an https request shows as a non-nil Request.TLS.
func c09Request(r c09Req) *http.Request {
	u := r.U
	if u.Form == "server" {
		if !u.Abs || (u.Scheme != "http" && u.Scheme != "https") {
			panic("harness: c09 server-form request needs an absolute http(s) URL")
		}
		rel := c09URL{Path: u.Path, Tail: u.Tail}
		req, err := http.NewRequest(r.M, c09URLText(rel), nil)
		if err != nil {
			panic("harness: c09 request cannot be built: " + err.Error())
		}
		req.Host = strings.Join(u.Host, ".")
		for _, p := range u.Port {
			req.Host += ":" + p
		}
		req.RequestURI = req.URL.RequestURI()
		if u.Scheme == "https" {
			req.TLS = &tls.ConnectionState{}
		}
		return req
	}
	req, err := http.NewRequest(r.M, c09URLText(u), nil)
	if err != nil {
		panic("harness: c09 request cannot be built: " + err.Error())
	}
	return req
}

// c09RequestURL reads the request URL back from the request object, whatever its form.
func c09RequestURL(req *http.Request) string {
	if req.URL.IsAbs() || req.RequestURI == "" {
		return req.URL.String()
	}
	scheme := "http"
	if req.TLS != nil {
		scheme = "https"
	}
	return scheme + "://" + req.Host + req.URL.String()
}

func c09Run(c *Case) []any {
	var tc c09Case
	c.Decode(&tc)
	var echo map[string]any
	c.Decode(&echo)
	line := map[string]any{"case": c.Idx, "doc": echo["doc"], "reqs": echo["reqs"]}

	doc, err := openapi3.NewLoader().LoadFromData(c09DocJSON(tc.Doc))
	if err != nil {
		line["load"] = "load_error"
		line["msg"] = err.Error()
		return []any{line}
	}
	if err := doc.Validate(context.Background()); err != nil {
		line["load"] = "validate_error"
		line["msg"] = err.Error()
		return []any{line}
	}
	// construction is an observation of its own, per router: "ok" | "error" | "panic"; a router that was not built
	// observes nothing ("unbuilt"), the other one is still run
	var g, l routers.Router
	built := map[string]any{}
	build := func(key string, mk func() (routers.Router, error)) routers.Router {
		var r routers.Router
		var err error
		p, msg := guard(func() { r, err = mk() })
		switch {
		case p:
			built[key] = "panic"
			line[key+"msg"] = msg
			return nil
		case err != nil || r == nil:
			built[key] = "error"
			if err != nil {
				line[key+"msg"] = err.Error()
			}
			return nil
		}
		built[key] = "ok"
		return r
	}
	g = build("g", func() (routers.Router, error) { return gorillamux.NewRouter(doc) })
	l = build("l", func() (routers.Router, error) { return legacy.NewRouter(doc) })
	line["load"] = "ok"
	line["built"] = built
	line["rdoc"] = c09ProjectDoc(doc)

	ru, rm, og, ol := []any{}, []any{}, []any{}, []any{}
	var heldG, heldL []*routers.Route // every route object returned during this case, kept by the caller
	for _, r := range tc.Reqs {
		r := r
		mk := func() *http.Request { return c09Request(r) }
		req := mk()
		ru = append(ru, c09RequestURL(req))
		rm = append(rm, req.Method)
		o, rt := c09Find(g, req)
		og, heldG = append(og, o), append(heldG, rt)
		o, rt = c09Find(l, mk())
		ol, heldL = append(ol, o), append(heldL, rt)
	}
	// history: after the last request, read every route returned earlier again
	gh, lh := []any{}, []any{}
	for i := range heldG {
		gh = append(gh, c09Held(heldG[i]))
		lh = append(lh, c09Held(heldL[i]))
	}
	line["ru"], line["rm"], line["g"], line["l"], line["gh"], line["lh"] = ru, rm, og, ol, gh, lh
	return []any{line}
}

func init() {
	drivers["C09"] = &Driver{
		Run: c09Run,
		Abnormal: func(c *Case, kind string) []any {
			var echo map[string]any
			c.Decode(&echo)
			return []any{map[string]any{"case": c.Idx, "doc": echo["doc"], "reqs": echo["reqs"], "load": kind}}
		},
	}
}
