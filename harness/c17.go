package main

import (
	"context"
	"encoding/json"
	"fmt"
	"math"
	"os"
	"path/filepath"
	"sort"
	"strconv"

	"github.com/getkin/kin-openapi/openapi2"
	"github.com/getkin/kin-openapi/openapi2conv"
	"github.com/getkin/kin-openapi/openapi3"
)

// C17: a case is an OpenAPI 2 document in document-tagged JSON (spec/DocJson.tla), built by TLC.
// The driver renders it as JSON text, unmarshals it into openapi2.T, converts it with
// openapi2conv.ToV3, validates the result (as returned, and again after marshalling it and loading
// it with the real loader), converts back with openapi2conv.FromV3, converts that document to OpenAPI 3 once
// more (and validates it) and logs the documents
// (json.Marshal of what the library returned, projected mechanically to tagged JSON) and the
// outcomes.  What the documents say - and whether they say the same - is decided by TLC
// (spec/Api23.tla, spec/Trace_C17.tla).  No oracle here.

// ---- document-tagged JSON: objects as {"t":"obj","m":{key: value}}, strings as {"t":"str","s":"..."}

func c17Render(t any) any {
	m, ok := t.(map[string]any)
	if !ok {
		panic(fmt.Sprintf("harness: bad document-tagged value %#v", t))
	}
	switch m["t"] {
	case "null":
		return nil
	case "bool":
		return m["b"].(bool)
	case "num":
		return json.RawMessage(quarterText(asInt(m["q"]), false))
	case "str":
		return m["s"].(string)
	case "arr":
		out := []any{}
		for _, x := range asSlice(m["a"]) {
			out = append(out, c17Render(x))
		}
		return out
	case "obj":
		out := map[string]any{}
		if mm, ok := m["m"].(map[string]any); ok { // an empty object arrives as []
			for k, v := range mm {
				out[k] = c17Render(v)
			}
		}
		return out
	}
	panic(fmt.Sprintf("harness: bad document-tagged value %#v", t))
}

func c17Tag(v any) any {
	switch x := v.(type) {
	case nil:
		return T{"t": "null"}
	case bool:
		return T{"t": "bool", "b": x}
	case json.Number:
		f, err := x.Float64()
		if err == nil {
			q := f * 4
			if q == math.Trunc(q) && math.Abs(q) < 1e12 {
				return T{"t": "num", "q": int64(q)}
			}
		}
		return T{"t": "numx", "s": x.String()}
	case float64:
		return c17Tag(json.Number(strconv.FormatFloat(x, 'g', -1, 64)))
	case string:
		return T{"t": "str", "s": x}
	case []any:
		a := []any{}
		for _, e := range x {
			a = append(a, c17Tag(e))
		}
		return T{"t": "arr", "a": a}
	case map[string]any:
		keys := make([]string, 0, len(x))
		for k := range x {
			keys = append(keys, k)
		}
		sort.Strings(keys)
		m := map[string]any{}
		for _, k := range keys {
			m[k] = c17Tag(x[k])
		}
		return T{"t": "obj", "m": m}
	}
	panic(fmt.Sprintf("harness: cannot tag %#v", v))
}

// c17TagJSON marshals v with the library's own marshallers and projects the JSON text.
func c17TagJSON(v any) (tagged any, text []byte, err error) {
	text, err = json.Marshal(v)
	if err != nil {
		return nil, nil, err
	}
	dec := json.NewDecoder(bytesReader(text))
	dec.UseNumber()
	var g any
	if err = dec.Decode(&g); err != nil {
		return nil, text, err
	}
	return c17Tag(g), text, nil
}

// c17After logs under key the document v as it is marshalled now, or only "<key>Same": true when its JSON text is
// the text it had before (a compression of the log: TLC then has nothing to compare).
func c17After(line map[string]any, key string, v any, before []byte) {
	tagged, text, err := c17TagJSON(v)
	if err != nil {
		line[key+"Err"] = err.Error()
		return
	}
	if string(text) == string(before) {
		line[key+"Same"] = true
		return
	}
	line[key] = tagged
}

type c17Case struct {
	D   any `json:"d"`
	Ids any `json:"ids"`
}

func c17Outcome(panicked bool, err error) string {
	switch {
	case panicked:
		return "panic"
	case err != nil:
		return "error"
	}
	return "ok"
}

func c17Run(c *Case) []any {
	var tc c17Case
	c.Decode(&tc)
	line := map[string]any{"case": c.Idx, "d": tc.D}
	if tc.Ids != nil {
		line["ids"] = tc.Ids
	}
	fail := func(step, outcome, msg string) []any {
		line[step] = outcome
		line[step+"Msg"] = msg
		return []any{line}
	}

	data, err := json.Marshal(c17Render(tc.D))
	if err != nil {
		panic("harness: cannot render case: " + err.Error())
	}

	// 1. the v2 document as the library reads it
	var doc2 openapi2.T
	p, msg := guard(func() { err = json.Unmarshal(data, &doc2) })
	if p || err != nil {
		if err != nil {
			msg = err.Error()
		}
		return fail("un", c17Outcome(p, err), msg)
	}
	line["un"] = "ok"
	rd, textRd, err := c17TagJSON(&doc2) // before ToV3, which edits its argument in places
	if err != nil {
		return fail("un", "error", "marshal of the unmarshalled document: "+err.Error())
	}
	line["rd"] = rd

	// 2. v2 -> v3
	var doc3 *openapi3.T
	p, msg = guard(func() { doc3, err = openapi2conv.ToV3(&doc2) })
	if p || err != nil || doc3 == nil {
		if err != nil {
			msg = err.Error()
		} else if !p {
			err = fmt.Errorf("nil document")
			msg = err.Error()
		}
		c17After(line, "rd2", &doc2, textRd) // the input after the call
		return fail("to3", c17Outcome(p, err), msg)
	}
	line["to3"] = "ok"
	c17After(line, "rd2", &doc2, textRd) // the input after the call: a conversion must not edit its argument
	d3, text3, err := c17TagJSON(doc3) // before FromV3, which edits its argument in places
	if err != nil {
		return fail("to3", "error", "marshal of the converted document: "+err.Error())
	}
	line["d3"] = d3

	// 3. validation of the converted document: as returned, and as reloaded from its JSON
	p, msg = guard(func() { err = doc3.Validate(context.Background()) })
	line["val"] = c17Outcome(p, err)
	if err != nil {
		line["valMsg"] = err.Error()
	} else if p {
		line["valMsg"] = msg
	}
	p, msg = guard(func() {
		var re *openapi3.T
		re, err = openapi3.NewLoader().LoadFromData(text3)
		if err == nil {
			err = re.Validate(context.Background())
		}
	})
	line["lval"] = c17Outcome(p, err)
	if err != nil {
		line["lvalMsg"] = err.Error()
	} else if p {
		line["lvalMsg"] = msg
	}

	// 4. v3 -> v2
	var doc2b *openapi2.T
	p, msg = guard(func() { doc2b, err = openapi2conv.FromV3(doc3) })
	if p || err != nil || doc2b == nil {
		if err != nil {
			msg = err.Error()
		} else if !p {
			err = fmt.Errorf("nil document")
			msg = err.Error()
		}
		return fail("from3", c17Outcome(p, err), msg)
	}
	line["from3"] = "ok"
	c17After(line, "d3b", doc3, text3)   // the input of FromV3 after the call
	c17After(line, "rd3", &doc2, textRd) // the caller's OpenAPI 2 document after FromV3 (doc3 shares parts of it)
	d2b, _, err := c17TagJSON(doc2b)
	if err != nil {
		return fail("from3", "error", "marshal of the document converted back: "+err.Error())
	}
	line["d2b"] = d2b

	// 5. the document converted back is an OpenAPI 2 document again: v2 -> v3 once more, validated.  When the JSON
	// text of the second OpenAPI 3 document is the text of the first, it is logged as "same" instead of a second
	// time (a compression of the log: TLC then reads d3 for d3a).
	var doc3a *openapi3.T
	p, msg = guard(func() { doc3a, err = openapi2conv.ToV3(doc2b) })
	if p || err != nil || doc3a == nil {
		if err != nil {
			msg = err.Error()
		} else if !p {
			err = fmt.Errorf("nil document")
			msg = err.Error()
		}
		return fail("again", c17Outcome(p, err), msg)
	}
	line["again"] = "ok"
	d3a, text3a, err := c17TagJSON(doc3a)
	if err != nil {
		return fail("again", "error", "marshal of the document converted again: "+err.Error())
	}
	if string(text3a) == string(text3) {
		line["d3aSame"] = true
	} else {
		line["d3aSame"] = false
		line["d3a"] = d3a
	}
	p, msg = guard(func() { err = doc3a.Validate(context.Background()) })
	line["vala"] = c17Outcome(p, err)
	if err != nil {
		line["valaMsg"] = err.Error()
	} else if p {
		line["valaMsg"] = msg
	}
	return []any{line}
}

// c17Extra replays the repository's own conversion fixture (openapi2conv/testdata/*.json) through the
// same pipeline: each file becomes one more case, projected mechanically to document-tagged JSON.
func c17Extra(seed int64, tier string) []json_RawMessage {
	dir := os.Getenv("VERIF_C17_FIXTURES")
	if dir == "" {
		return nil
	}
	names, _ := filepath.Glob(filepath.Join(dir, "*.json"))
	sort.Strings(names)
	var res []json_RawMessage
	for _, name := range names {
		data, err := os.ReadFile(name)
		if err != nil {
			continue
		}
		dec := json.NewDecoder(bytesReader(data))
		dec.UseNumber()
		var g any
		if dec.Decode(&g) != nil {
			continue
		}
		b, err := json.Marshal(map[string]any{"d": c17Tag(g), "ids": []any{"fixture:" + filepath.Base(name)}})
		if err == nil {
			res = append(res, b)
		}
	}
	return res
}

func init() {
	drivers["C17"] = &Driver{
		Run:   c17Run,
		Extra: c17Extra,
		Abnormal: func(c *Case, kind string) []any {
			var tc c17Case
			c.Decode(&tc)
			return []any{map[string]any{"case": c.Idx, "d": tc.D, "un": kind}}
		},
	}
}
