package main

import (
	"encoding/json"
	"io"
	"sync"

	"github.com/getkin/kin-openapi/openapi3filter"
)

// C08H: the clause "the response body stays readable afterwards" over histories (spec/BodyKeep.tla).
// A case is a list of abstract responses (ordinary C08 cases, realised by c08Build) and a list of calls
//   validate(r)   openapi3filter.ValidateResponse on input r
//   read(r, n)    read n bytes (n = 0: up to EOF) from input r's Body
// replayed in this order in ONE process.  Logged: what each call reported ({v: verdict} / {b: bytes read}), the bytes
// supplied for every response, and -- after the last call -- the rest of every body.  No oracle here.

type c08hStep struct {
	Op string `json:"op"`
	R  int    `json:"r"`
	N  int    `json:"n"`
}

func c08hRead(in *openapi3filter.ResponseValidationInput, n int) map[string]any {
	if in.Body == nil {
		return map[string]any{"x": "nil_body"}
	}
	var b []byte
	var err error
	if n == 0 {
		b, err = io.ReadAll(in.Body)
	} else {
		b = make([]byte, n)
		var k int
		k, err = io.ReadFull(in.Body, b)
		b = b[:k]
		if err == io.EOF || err == io.ErrUnexpectedEOF {
			err = nil
		}
	}
	if err != nil {
		return map[string]any{"x": "read_error"}
	}
	return map[string]any{"b": stringToCs(string(b))}
}

func c08hRun(c *Case) []any {
	var tc struct {
		Resps []c08Case  `json:"resps"`
		Steps []c08hStep `json:"steps"`
		Conc  bool       `json:"conc"`
	}
	c.Decode(&tc)
	var raw map[string]any
	c.Decode(&raw)
	line := map[string]any{"case": c.Idx, "c": raw}
	ins := make([]*openapi3filter.ResponseValidationInput, len(tc.Resps))
	sent := []any{}
	for i := range tc.Resps {
		in, body, err := c08Build(&tc.Resps[i])
		if err != nil {
			line["doc"] = "error"
			line["docErr"] = err.Error()
			return []any{line}
		}
		ins[i] = in
		sent = append(sent, stringToCs(string(body)))
	}
	line["doc"] = "ok"
	line["sent"] = sent
	if tc.Conc {
		line["conc"] = c08hConcurrent(tc.Resps)
		return []any{line}
	}
	obs := []any{}
	for _, st := range tc.Steps {
		if st.R < 1 || st.R > len(ins) {
			obs = append(obs, map[string]any{"x": "harness:no such response"})
			continue
		}
		in := ins[st.R-1]
		var o map[string]any
		switch st.Op {
		case "validate":
			o = map[string]any{"v": c08Validate(in)}
		case "read":
			if p, _ := guard(func() { o = c08hRead(in, st.N) }); p {
				o = map[string]any{"x": "panic"}
			}
		default:
			o = map[string]any{"x": "harness:unknown op " + st.Op}
		}
		obs = append(obs, o)
	}
	line["obs"] = obs
	// epilogue: whatever is still unread of every body
	rest := []any{}
	for _, in := range ins {
		var o map[string]any
		if p, _ := guard(func() { o = c08hRead(in, 0) }); p {
			o = map[string]any{"x": "panic"}
		}
		rest = append(rest, o)
	}
	line["rest"] = rest
	return []any{line}
}

// c08hConcurrent validates the responses concurrently for a number of rounds -- one goroutine per response, released
// together; in round k goroutine i validates a fresh input of response i and then reads back the body of ITS input of
// round k-1 (a handler still streaming one body while other responses are being validated).  It returns per response the
// DISTINCT outcomes {v: verdict, b: bytes read back} in order of first appearance.
func c08hConcurrent(resps []c08Case) []any {
	const rounds = 40
	seen := make([][]any, len(resps))
	keys := make([]map[string]bool, len(resps))
	for i := range keys {
		keys[i] = map[string]bool{}
	}
	var mu sync.Mutex
	record := func(i int, o map[string]any) {
		kb, _ := json.Marshal(o)
		mu.Lock()
		if !keys[i][string(kb)] {
			keys[i][string(kb)] = true
			seen[i] = append(seen[i], o)
		}
		mu.Unlock()
	}
	readBack := func(in *openapi3filter.ResponseValidationInput) map[string]any {
		var rd map[string]any
		if p, _ := guard(func() { rd = c08hRead(in, 0) }); p {
			rd = map[string]any{"x": "panic"}
		}
		return rd
	}
	var prev []*openapi3filter.ResponseValidationInput
	var prevV []string
	for round := 0; round <= rounds; round++ {
		var ins []*openapi3filter.ResponseValidationInput
		if round < rounds {
			ins = make([]*openapi3filter.ResponseValidationInput, len(resps))
			for i := range resps {
				in, _, err := c08Build(&resps[i])
				if err != nil {
					return []any{[]any{map[string]any{"x": "doc_error"}}}
				}
				ins[i] = in
			}
		}
		vs := make([]string, len(resps))
		start := make(chan struct{})
		var wg sync.WaitGroup
		for i := range resps {
			wg.Add(1)
			go func(i int) {
				defer wg.Done()
				<-start
				if ins != nil {
					vs[i] = c08Validate(ins[i])
				}
				if prev != nil {
					o := map[string]any{"v": prevV[i]}
					for k, v := range readBack(prev[i]) {
						o[k] = v
					}
					record(i, o)
				}
			}(i)
		}
		close(start)
		wg.Wait()
		prev, prevV = ins, vs
	}
	out := []any{}
	for i := range seen {
		out = append(out, seen[i])
	}
	return out
}

func init() {
	drivers["C08H"] = &Driver{
		Run: c08hRun,
		Abnormal: func(c *Case, kind string) []any {
			var raw map[string]any
			c.Decode(&raw)
			return []any{map[string]any{"case": c.Idx, "c": raw, "doc": "ok", "sent": []any{}, "obs": []any{map[string]any{"x": kind}}, "rest": []any{}}}
		},
	}
}
