package main

import (
	"io"

	"github.com/getkin/kin-openapi/openapi3filter"
)

// C08H: the clause "the response body stays readable afterwards" over histories (spec/BodyKeep.tla).
// A case is a list of abstract responses (ordinary C08 cases, realised by c08Build) and a list of calls
//   validate(r)   openapi3filter.ValidateResponse on input r
//   read(r, n)    read n bytes (n = 0: up to EOF) from input r's Body
// replayed in this order in ONE process.  Logged: what each call reported ({v: verdict} / {b: bytes read}), the bytes
// supplied for every response, and -- after the last call -- the rest of every body.  No oracle here.

type c08hStep struct {
	Op string `json:"op"`
	R  int    `json:"r"`
	N  int    `json:"n"`
}

func c08hRead(in *openapi3filter.ResponseValidationInput, n int) map[string]any {
	if in.Body == nil {
		return map[string]any{"x": "nil_body"}
	}
	var b []byte
	var err error
	if n == 0 {
		b, err = io.ReadAll(in.Body)
	} else {
		b = make([]byte, n)
		var k int
		k, err = io.ReadFull(in.Body, b)
		b = b[:k]
		if err == io.EOF || err == io.ErrUnexpectedEOF {
			err = nil
		}
	}
	if err != nil {
		return map[string]any{"x": "read_error"}
	}
	return map[string]any{"b": stringToCs(string(b))}
}

func c08hRun(c *Case) []any {
	var tc struct {
		Resps []c08Case  `json:"resps"`
		Steps []c08hStep `json:"steps"`
	}
	c.Decode(&tc)
	var raw map[string]any
	c.Decode(&raw)
	line := map[string]any{"case": c.Idx, "c": raw}
	ins := make([]*openapi3filter.ResponseValidationInput, len(tc.Resps))
	sent := []any{}
	for i := range tc.Resps {
		in, body, err := c08Build(&tc.Resps[i])
		if err != nil {
			line["doc"] = "error"
			line["docErr"] = err.Error()
			return []any{line}
		}
		ins[i] = in
		sent = append(sent, stringToCs(string(body)))
	}
	line["doc"] = "ok"
	line["sent"] = sent
	obs := []any{}
	for _, st := range tc.Steps {
		if st.R < 1 || st.R > len(ins) {
			obs = append(obs, map[string]any{"x": "harness:no such response"})
			continue
		}
		in := ins[st.R-1]
		var o map[string]any
		switch st.Op {
		case "validate":
			o = map[string]any{"v": c08Validate(in)}
		case "read":
			if p, _ := guard(func() { o = c08hRead(in, st.N) }); p {
				o = map[string]any{"x": "panic"}
			}
		default:
			o = map[string]any{"x": "harness:unknown op " + st.Op}
		}
		obs = append(obs, o)
	}
	line["obs"] = obs
	// epilogue: whatever is still unread of every body
	rest := []any{}
	for _, in := range ins {
		var o map[string]any
		if p, _ := guard(func() { o = c08hRead(in, 0) }); p {
			o = map[string]any{"x": "panic"}
		}
		rest = append(rest, o)
	}
	line["rest"] = rest
	return []any{line}
}

func init() {
	drivers["C08H"] = &Driver{
		Run: c08hRun,
		Abnormal: func(c *Case, kind string) []any {
			var raw map[string]any
			c.Decode(&raw)
			return []any{map[string]any{"case": c.Idx, "c": raw, "doc": "ok", "sent": []any{}, "obs": []any{map[string]any{"x": kind}}, "rest": []any{}}}
		},
	}
}
