package main

import (
	"archive/zip"
	"bytes"
	"encoding/json"
	"fmt"
	"io"
	"net/url"
	"sort"
	"strings"
	"sync"

	"github.com/getkin/kin-openapi/openapi3filter"
)

// C10, structured universe (spec/RobustShapes.tla): a leaf schema inside a wrap at a site of a document with a
// document-level modifier, meeting a value and traffic mutations under an option set.  Everything here is a
// realiser: the spec owns the keywords and the texts, this file assembles documents and byte-level traffic.

type c10Site struct {
	N       string `json:"n"`
	Kind    string `json:"kind"`
	In      string `json:"in"`
	Style   string `json:"style"`
	Explode bool   `json:"explode"`
	Mt      string `json:"mt"`
	Enc     string `json:"enc"`
	Status  string `json:"status"`
}

type c10Shape struct {
	Kind string  `json:"kind"`
	Site c10Site `json:"site"`
	Leaf struct {
		N   string     `json:"n"`
		Fam string     `json:"fam"`
		Kws [][]string `json:"kws"`
	} `json:"leaf"`
	Value struct {
		N    string `json:"n"`
		Kind string `json:"kind"`
		Text string `json:"text"`
	} `json:"value"`
	Wrap   string   `json:"wrap"`
	Mode   string   `json:"mode"`
	Dmod   []string `json:"dmod"`
	Murl   []string `json:"murl"`
	Mhdr   []string `json:"mhdr"`
	Mbody  []string `json:"mbody"`
	Mrhead []string `json:"mrhead"`
	Mrbody []string `json:"mrbody"`
	Opts   []string `json:"opts"`
	Feat   []string `json:"feat"`
	Server []struct {
		N     string  `json:"n"`
		URL   string  `json:"url"`
		Vars  [][]any `json:"vars"`
		First string  `json:"first"`
		Level string  `json:"level"`
		Base  string  `json:"base"`
	} `json:"server"`
}

type M = map[string]any

const c10Hole = "@@V@@"

var c10ZipOnce sync.Once

func (s *c10Shape) dm(x string) bool { return has(s.Dmod, x) }

func (s *c10Shape) valueText() string {
	switch s.Value.Text {
	case "LONG9":
		return strings.Repeat("9", 400)
	case "ARABIC12":
		return "١٢"
	}
	return s.Value.Text
}

func (s *c10Shape) leafSchema() M {
	m := M{}
	for _, kv := range s.Leaf.Kws {
		m[kv[0]] = json.RawMessage(kv[1])
	}
	return m
}

// wrapped returns the schema of the site (components get the named schemas) and the value container as JSON
// text with c10Hole where the value goes.
func (s *c10Shape) wrapped(comps M) (M, string) {
	leaf := s.leafSchema
	schemas := comps["schemas"].(M)
	ref := func(n string) M { return M{"$ref": "#/components/schemas/" + n} }
	h := `"` + c10Hole + `"`
	switch s.Wrap {
	case "direct":
		return leaf(), h
	case "array":
		return M{"type": "array", "items": leaf()}, "[" + h + "," + h + "]"
	case "array_unique":
		return M{"type": "array", "items": leaf(), "uniqueItems": true}, "[" + h + "," + h + "," + h + "]"
	case "array_minmax_unique":
		return M{"type": "array", "items": leaf(), "minItems": 3, "maxItems": 1, "uniqueItems": true}, "[" + h + "," + h + "]"
	case "array_of_array":
		return M{"type": "array", "items": M{"type": "array", "items": leaf()}}, "[[" + h + "],[" + h + "," + h + "]]"
	case "object":
		return M{"type": "object", "properties": M{"p": leaf()}}, `{"p":` + h + `}`
	case "object_closed_required":
		return M{"type": "object", "properties": M{"p": leaf()}, "required": []any{"p", "ghost"}, "additionalProperties": false,
			"minProperties": 2, "maxProperties": 1}, `{"p":` + h + `,"other":` + h + `}`
	case "addprops":
		return M{"type": "object", "additionalProperties": leaf()}, `{"zz":` + h + `,"yy":` + h + `}`
	case "oneof":
		return M{"oneOf": []any{leaf(), M{"type": "boolean"}}}, h
	case "anyof":
		return M{"anyOf": []any{leaf(), M{"type": "string", "maxLength": 1}}}, h
	case "allof":
		return M{"allOf": []any{leaf(), M{"description": "x"}}}, h
	case "not_not":
		return M{"not": M{"not": leaf()}}, h
	case "ref":
		schemas["Leaf"] = leaf()
		return ref("Leaf"), h
	case "recursive":
		schemas["Rec"] = M{"type": "object", "properties": M{"v": leaf(), "next": ref("Rec")}}
		return ref("Rec"), `{"v":` + h + `,"next":{"v":` + h + `,"next":{"v":` + h + `}}}`
	case "oneof_discriminator":
		schemas["CatS"] = M{"type": "object", "required": []any{"kind"}, "properties": M{"kind": M{"type": "string"}, "v": leaf()}}
		schemas["DogS"] = M{"type": "object", "properties": M{"kind": M{"type": "string"}, "w": leaf()}}
		return M{"oneOf": []any{ref("CatS"), ref("DogS")}, "discriminator": M{"propertyName": "kind",
			"mapping": M{"cat": "#/components/schemas/CatS", "dog": "#/components/schemas/DogS"}}}, `{"kind":"cat","v":` + h + `}`
	case "nullable_object":
		return M{"type": "object", "nullable": true, "properties": M{"p": leaf()}}, `{"p":` + h + `}`
	case "array_of_object":
		return M{"type": "array", "items": M{"type": "object", "properties": M{"p": leaf()}}}, `[{"p":` + h + `},{"p":` + h + `}]`
	case "allof_object_merge":
		return M{"allOf": []any{M{"type": "object", "properties": M{"p": leaf()}}, M{"type": "object", "required": []any{"p"}}}}, `{"p":` + h + `}`
	case "anyof_array_or_leaf":
		return M{"anyOf": []any{M{"type": "array", "items": leaf()}, leaf()}}, h
	}
	panic("harness: c10 wrap " + s.Wrap)
}

// jsonText: the container with the value spliced in as JSON text (raw values are spliced as they are)
func (s *c10Shape) jsonText(container string) string {
	return strings.ReplaceAll(container, `"`+c10Hole+`"`, s.valueText())
}

// structure: the container as a Go value; for a JSON value the real value, for a raw one the hole (a string)
func (s *c10Shape) structure(container string) any {
	txt := container
	if s.Value.Kind == "json" {
		txt = s.jsonText(container)
	}
	dec := json.NewDecoder(strings.NewReader(txt))
	dec.UseNumber()
	var v any
	if err := dec.Decode(&v); err != nil {
		panic("harness: c10 container " + txt + ": " + err.Error())
	}
	return v
}

type c10Esc func(string) string

// prim renders a primitive (or, nested too deep for the style, a compound as compact JSON)
func (s *c10Shape) prim(v any, esc c10Esc) string {
	switch x := v.(type) {
	case nil:
		return ""
	case string:
		if x == c10Hole {
			return s.valueText() // raw: no escaping at all
		}
		return esc(x)
	case json.Number:
		return esc(x.String())
	case bool:
		if x {
			return "true"
		}
		return "false"
	}
	b, _ := json.Marshal(v)
	return strings.ReplaceAll(esc(string(b)), esc(`"`+c10Hole+`"`), s.valueText())
}

func sortedKeys(m map[string]any) []string {
	ks := make([]string, 0, len(m))
	for k := range m {
		ks = append(ks, k)
	}
	sort.Strings(ks)
	return ks
}

// styled serialises v as the parameter `name` and returns the list of key=value pairs (query / form / cookie),
// or for path / header the single text (in pairs[0], without key).
func (s *c10Shape) styled(name, in, style string, explode bool, v any, esc c10Esc) []string {
	p := func(x any) string { return s.prim(x, esc) }
	join := func(xs []any, sep string) string {
		out := make([]string, len(xs))
		for i, x := range xs {
			out[i] = p(x)
		}
		return strings.Join(out, sep)
	}
	kv := func(m map[string]any, kvsep, sep string) string {
		var out []string
		for _, k := range sortedKeys(m) {
			out = append(out, esc(k)+kvsep+p(m[k]))
		}
		return strings.Join(out, sep)
	}
	arr, isArr := v.([]any)
	obj, isObj := v.(map[string]any)
	switch in {
	case "path", "header":
		pre, sep := "", ","
		switch style {
		case "label":
			pre = "."
			if explode {
				sep = "."
			}
		case "matrix":
			pre = ";" + name + "="
			if explode {
				sep = ";" + name + "="
			}
		}
		switch {
		case isArr:
			return []string{pre + join(arr, sep)}
		case isObj && explode:
			if style == "matrix" {
				return []string{";" + kv(obj, "=", ";")}
			}
			return []string{pre + kv(obj, "=", sep)}
		case isObj:
			return []string{pre + kv(obj, ",", ",")}
		}
		return []string{pre + p(v)}
	}
	// query, cookie, form body
	switch style {
	case "deepObject":
		var out []string
		var walk func(prefix string, x any)
		walk = func(prefix string, x any) {
			switch y := x.(type) {
			case map[string]any:
				for _, k := range sortedKeys(y) {
					walk(prefix+"["+esc(k)+"]", y[k])
				}
			case []any:
				for i, e := range y {
					walk(fmt.Sprintf("%s[%d]", prefix, i), e)
				}
			default:
				out = append(out, prefix+"="+p(x))
			}
		}
		walk(name, v)
		return out
	}
	sep := ","
	switch style {
	case "spaceDelimited":
		sep = "%20"
	case "pipeDelimited":
		sep = "|"
	}
	switch {
	case isArr && explode:
		var out []string
		for _, x := range arr {
			out = append(out, name+"="+p(x))
		}
		return out
	case isArr:
		return []string{name + "=" + join(arr, sep)}
	case isObj && explode:
		var out []string
		for _, k := range sortedKeys(obj) {
			out = append(out, esc(k)+"="+p(obj[k]))
		}
		return out
	case isObj:
		return []string{name + "=" + kv(obj, sep, sep)}
	}
	return []string{name + "=" + p(v)}
}

// escaped JSON text of the container, the raw value left unescaped
func (s *c10Shape) escJSON(container string, esc c10Esc) string {
	if s.Value.Kind == "json" {
		return esc(s.jsonText(container))
	}
	parts := strings.Split(container, `"`+c10Hole+`"`)
	for i := range parts {
		parts[i] = esc(parts[i])
	}
	return strings.Join(parts, s.valueText())
}

func c10Zip(files map[string]string) []byte {
	var buf bytes.Buffer
	w := zip.NewWriter(&buf)
	for _, n := range sortedKeys(func() map[string]any {
		m := map[string]any{}
		for k := range files {
			m[k] = nil
		}
		return m
	}()) {
		f, _ := w.Create(n)
		f.Write([]byte(files[n]))
	}
	w.Close()
	return buf.Bytes()
}

type c10Part struct {
	name, ct, data string
	hdr           [][2]string
}

func c10Multipart(boundary string, parts []c10Part, final bool) []byte {
	var b strings.Builder
	for _, p := range parts {
		b.WriteString("--" + boundary + "\r\n")
		if p.name != "\x00" {
			b.WriteString("Content-Disposition: form-data; name=\"" + p.name + "\"\r\n")
		}
		if p.ct != "" {
			b.WriteString("Content-Type: " + p.ct + "\r\n")
		}
		for _, h := range p.hdr {
			b.WriteString(h[0] + ": " + h[1] + "\r\n")
		}
		b.WriteString("\r\n" + p.data + "\r\n")
	}
	if final {
		b.WriteString("--" + boundary + "--\r\n")
	}
	return []byte(b.String())
}

// bodyFor renders the bytes (and the Content-Type to send) of a body of media type mt whose schema under test
// is the wrapped leaf (for form / multipart: the property "x" of the root object).
func (s *c10Shape) bodyFor(mt, enc, container string) ([]byte, string) {
	base := strings.TrimSpace(strings.SplitN(mt, ";", 2)[0])
	switch {
	case base == "application/x-www-form-urlencoded":
		style, explode := "form", true
		switch enc {
		case "form_nonexploded":
			explode = false
		case "pipe":
			style, explode = "pipeDelimited", false
		case "deep":
			style = "deepObject"
		case "ct_json":
			return []byte("x=" + s.escJSON(container, url.QueryEscape)), base
		}
		return []byte(strings.Join(s.styled("x", "query", style, explode, s.structure(container), url.QueryEscape), "&")), base
	case base == "multipart/form-data":
		v := s.structure(container)
		id := func(x string) string { return x }
		var parts []c10Part
		one := func(x any) c10Part {
			p := c10Part{name: "x"}
			switch x.(type) {
			case []any, map[string]any:
				p.ct = "application/json"
			}
			p.data = s.prim(x, id)
			switch enc {
			case "ct_json":
				p.ct = "application/json"
				if str, ok := x.(string); ok && str != c10Hole {
					b, _ := json.Marshal(str)
					p.data = string(b)
				}
			case "headers":
				p.hdr = [][2]string{{"X-Part", s.prim(x, id)}, {"Content-Transfer-Encoding", "base64"}}
			case "ct_multipart":
				p.ct = "multipart/form-data; boundary=inner"
				p.data = string(c10Multipart("inner", []c10Part{{name: "p", data: s.prim(x, id)}, {name: "zz", data: s.prim(x, id)}}, true))
			case "ct_csv":
				p.ct = "text/csv"
				p.data = "a,b\n" + s.prim(x, id) + ",\"q\"\n"
			case "ct_yaml":
				p.ct = "application/yaml"
			}
			return p
		}
		if arr, ok := v.([]any); ok && enc != "ct_json" {
			for _, e := range arr {
				parts = append(parts, one(e))
			}
		} else {
			parts = append(parts, one(v))
		}
		parts = append(parts, c10Part{name: "f", ct: "application/octet-stream", data: "\x00\x01binary"})
		return c10Multipart("BOUND", parts, true), "multipart/form-data; boundary=BOUND"
	case base == "application/zip":
		return c10Zip(map[string]string{"a.txt": s.prim(s.structure(container), func(x string) string { return x })}), base
	case base == "text/csv" || base == "text/plain" || base == "application/octet-stream" || base == "application/xml":
		return []byte(s.prim(s.structure(container), func(x string) string { return x })), mt
	case base == "application/*" || base == "*/*":
		return []byte(s.jsonText(container)), "application/json"
	}
	// JSON and YAML families: the JSON text (a YAML flow document as well)
	return []byte(s.jsonText(container)), mt
}

func c10FindParam(list []any, name string) (int, M) {
	for i, p := range list {
		if m, ok := p.(M); ok && m["name"] == name {
			return i, m
		}
	}
	return -1, nil
}

// c10ShapeDoc builds the document of a shape case on top of the legacy base document (with the legacy feature,
// if the case has one) and the well-formed traffic that reaches the site.
func c10ShapeDoc(s *c10Shape) (M, []string, *c10Req, *c10Resp) {
	c10ZipOnce.Do(func() { openapi3filter.RegisterBodyDecoder("application/zip", openapi3filter.ZipFileBodyDecoder) })
	doc := c10Build(s.Feat)
	req := c10Request(s.Feat, nil)
	resp := c10Response(nil)
	var vopts []string
	comps := doc["components"].(M)
	pathItem := doc["paths"].(M)["/items/{id}"].(M)
	op := pathItem["post"].(M)
	responses := op["responses"].(M)
	schema, container := s.wrapped(comps)
	if s.Leaf.N == "str_pattern_uncompilable" || has(s.Feat, "uncompilable_pattern") {
		vopts = append(vopts, "no_pattern")
	}
	if s.dm("schema_ref_chain") {
		comps["schemas"].(M)["ChainB"] = schema
		comps["schemas"].(M)["ChainA"] = M{"$ref": "#/components/schemas/ChainB"}
		schema = M{"$ref": "#/components/schemas/ChainA"}
	}
	if s.dm("xml_externaldocs_extensions") {
		if _, isRef := schema["$ref"]; !isRef {
			schema["xml"] = M{"name": "n", "attribute": true, "wrapped": true}
			schema["x-foo"] = M{"a": []any{1}}
			schema["externalDocs"] = M{"url": "http://example.com/d"}
		}
		op["externalDocs"] = M{"url": "http://example.com/d", "x-e": 1}
		op["x-op"] = []any{nil}
	}
	// where the parameters of the operation live
	level, plist := op, []any{}
	if l, ok := op["parameters"].([]any); ok {
		plist = l
	} else if l, ok := pathItem["parameters"].([]any); ok {
		level, plist = pathItem, l
	}
	setParams := func() { level["parameters"] = plist }
	okKey := "200"
	if _, ok := responses["200"]; !ok {
		okKey = "default"
	}
	okResp, _ := responses[okKey].(M)
	if okResp == nil {
		okResp = M{"description": "ok"}
		responses[okKey] = okResp
	}
	var param M
	switch s.Site.Kind {
	case "param", "param_content":
		name := "x"
		if s.Site.In == "path" {
			name = "id"
			i, _ := c10FindParam(plist, "id")
			if i >= 0 {
				plist = append(plist[:i:i], plist[i+1:]...)
			}
		}
		if s.Site.In == "header" {
			name = "X-X"
		}
		param = M{"name": name, "in": s.Site.In}
		if s.Site.In == "path" {
			param["required"] = true
		}
		if s.Site.Kind == "param" {
			param["schema"] = schema
			if !s.dm("style_defaults_omitted") {
				param["style"], param["explode"] = s.Site.Style, s.Site.Explode
			}
		} else {
			param["content"] = M{s.Site.Mt: M{"schema": schema}}
		}
		if s.dm("required") {
			param["required"] = true
		}
		if s.dm("deprecated_allow_empty") {
			param["deprecated"] = true
			if s.Site.In == "query" {
				param["allowEmptyValue"] = true
			}
		}
		if s.dm("allow_reserved") && s.Site.In == "query" {
			param["allowReserved"] = true
		}
		if s.dm("examples_wrong_type") {
			param["example"] = M{"wrong": []any{1}}
			vopts = append(vopts, "no_examples")
		}
		var entry any = param
		if s.dm("param_ref") {
			comps["parameters"] = M{"PX": param}
			entry = M{"$ref": "#/components/parameters/PX"}
		}
		switch {
		case s.dm("path_level"):
			setParams()
			pl, _ := pathItem["parameters"].([]any)
			pathItem["parameters"] = append(pl, entry)
		case s.dm("op_overrides_path_level"):
			plist = append(plist, entry)
			setParams()
			pl, _ := pathItem["parameters"].([]any)
			over := M{"name": name, "in": s.Site.In, "schema": M{"type": "string", "maxLength": 1}}
			if s.Site.In == "path" {
				over["required"] = true
			}
			if _, already := op["parameters"]; already {
				pathItem["parameters"] = append(pl, over)
			}
		default:
			plist = append(plist, entry)
			setParams()
		}
		// the traffic
		v := s.structure(container)
		switch {
		case s.Site.Kind == "param_content":
			var txt string
			esc := url.QueryEscape
			if s.Site.In == "path" {
				esc = url.PathEscape
			}
			if s.Site.In == "header" {
				esc = func(x string) string { return x }
			}
			if s.Site.Mt == "text/plain" {
				txt = s.prim(v, esc)
			} else {
				txt = s.escJSON(container, esc)
			}
			switch s.Site.In {
			case "query":
				req.query = append(req.query, name+"="+txt)
			case "header":
				req.header[name] = []string{txt}
			case "cookie":
				req.header.Set("Cookie", "c=true; "+name+"="+txt)
			case "path":
				req.path = "/items/" + txt
			}
		case s.Site.In == "query":
			req.query = append(req.query, s.styled(name, "query", s.Site.Style, s.Site.Explode, v, url.QueryEscape)...)
		case s.Site.In == "cookie":
			req.header.Set("Cookie", "c=true; "+strings.Join(s.styled(name, "cookie", s.Site.Style, s.Site.Explode, v, url.QueryEscape), "; "))
		case s.Site.In == "header":
			req.header[name] = []string{s.styled(name, "header", s.Site.Style, s.Site.Explode, v, func(x string) string { return x })[0]}
		case s.Site.In == "path":
			req.path = "/items/" + s.styled(name, "path", s.Site.Style, s.Site.Explode, v, url.PathEscape)[0]
		}
	case "body":
		mtObj := M{"schema": schema}
		base := strings.TrimSpace(strings.SplitN(s.Site.Mt, ";", 2)[0])
		if base == "application/x-www-form-urlencoded" || base == "multipart/form-data" {
			mtObj["schema"] = M{"type": "object", "properties": M{"x": schema, "f": M{"type": "string", "format": "binary"}}}
			switch s.Site.Enc {
			case "form_nonexploded":
				mtObj["encoding"] = M{"x": M{"style": "form", "explode": false}}
			case "pipe":
				mtObj["encoding"] = M{"x": M{"style": "pipeDelimited", "explode": false}}
			case "deep":
				mtObj["encoding"] = M{"x": M{"style": "deepObject", "explode": true}}
			case "ct_json":
				mtObj["encoding"] = M{"x": M{"contentType": "application/json"}}
			case "headers":
				mtObj["encoding"] = M{"x": M{"headers": M{"X-Part": M{"schema": s.leafSchema()}}}}
			case "ct_multipart":
				mtObj["encoding"] = M{"x": M{"contentType": "multipart/form-data"}}
			case "ct_csv":
				mtObj["encoding"] = M{"x": M{"contentType": "text/csv, application/zip"}}
			case "ct_yaml":
				mtObj["encoding"] = M{"x": M{"contentType": "application/yaml"}}
			}
		}
		if s.dm("examples_wrong_type") {
			mtObj["example"] = M{"wrong": []any{1}}
			vopts = append(vopts, "no_examples")
		}
		if s.dm("encoding_for_unknown_property") {
			enc, _ := mtObj["encoding"].(M)
			if enc == nil {
				enc = M{}
			}
			enc["ghost"] = M{"contentType": "text/plain", "style": "form"}
			mtObj["encoding"] = enc
		}
		content := M{s.Site.Mt: mtObj}
		if s.dm("two_media_types") {
			content["text/plain"] = M{"schema": M{"type": "string"}}
			if s.Site.Mt != "application/json" {
				content["application/json"] = M{"schema": M{"$ref": "#/components/schemas/Item"}}
			}
		}
		body := M{"required": !s.dm("body_optional"), "content": content}
		op["requestBody"] = body
		if s.dm("body_ref") {
			comps["requestBodies"] = M{"RB": body}
			op["requestBody"] = M{"$ref": "#/components/requestBodies/RB"}
		}
		var ct string
		req.body, ct = s.bodyFor(s.Site.Mt, s.Site.Enc, container)
		req.header.Set("Content-Type", ct)
	case "resp_header", "resp_header_content":
		hdr := M{"schema": schema}
		if s.Site.Kind == "resp_header_content" {
			hdr = M{"content": M{s.Site.Mt: M{"schema": schema}}}
			resp.header.Set("X-R", s.jsonText(container))
		} else {
			hdr["style"] = "simple"
			resp.header["X-R"] = []string{s.styled("X-R", "header", "simple", false, s.structure(container), func(x string) string { return x })[0]}
		}
		if s.dm("required") {
			hdr["required"] = true
		}
		hs, _ := okResp["headers"].(M)
		if hs == nil {
			hs = M{}
			okResp["headers"] = hs
		}
		hs["X-R"] = hdr
		if s.dm("header_ref") {
			comps["headers"] = M{"HR": hdr}
			hs["X-R"] = M{"$ref": "#/components/headers/HR"}
		}
	case "resp_body":
		mtObj := M{"schema": schema}
		base := strings.TrimSpace(strings.SplitN(s.Site.Mt, ";", 2)[0])
		if base == "application/x-www-form-urlencoded" || base == "multipart/form-data" {
			mtObj["schema"] = M{"type": "object", "properties": M{"x": schema}}
		}
		content := M{s.Site.Mt: mtObj}
		if s.dm("two_media_types") {
			content["text/plain"] = M{"schema": M{"type": "string"}}
		}
		okResp["content"] = content
		if s.Site.Status != "200" && okKey == "200" {
			delete(responses, "200")
			if s.Site.Status == "default" {
				delete(responses, "4XX")
			}
			responses[s.Site.Status] = okResp
			okKey = s.Site.Status
		}
		var ct string
		resp.body, ct = s.bodyFor(s.Site.Mt, "none", container)
		resp.header.Set("Content-Type", ct)
	default:
		panic("harness: c10 site kind " + s.Site.Kind)
	}

	// the servers object and the request that matches it
	for _, sv := range s.Server {
		vars := M{}
		for _, v := range sv.Vars {
			o := M{"default": v[1]}
			if en := asSlice(v[2]); len(en) > 0 {
				o["enum"] = en
			}
			vars[v[0].(string)] = o
		}
		mk := func(u string) M {
			o := M{"url": u}
			if len(vars) > 0 {
				o["variables"] = vars
			}
			return o
		}
		list := []any{}
		if sv.First != "" {
			list = append(list, mk(sv.First))
		}
		list = append(list, mk(sv.URL))
		switch sv.Level {
		case "op":
			op["servers"] = list
		case "path":
			pathItem["servers"] = list
		default:
			doc["servers"] = list
		}
		req.base = sv.Base
	}

	// document-level modifiers that do not depend on the site
	sec := func(schemes M, reqs []any, global bool) {
		comps["securitySchemes"] = schemes
		if global {
			doc["security"] = reqs
		} else {
			op["security"] = reqs
		}
	}
	apikey := func(in, name string) M { return M{"type": "apiKey", "in": in, "name": name} }
	basic := M{"type": "http", "scheme": "basic"}
	for _, d := range s.Dmod {
		switch d {
		case "response_ref":
			comps["responses"] = M{"ROK": okResp}
			responses[okKey] = M{"$ref": "#/components/responses/ROK"}
		case "security_apikey_query":
			sec(M{"key": apikey("query", "api_key")}, []any{M{"key": []any{}}}, false)
			req.query = append(req.query, "api_key=k")
		case "security_apikey_cookie":
			sec(M{"key": apikey("cookie", "sid")}, []any{M{"key": []any{}}}, false)
		case "security_http_basic":
			sec(M{"basic": basic}, []any{M{"basic": []any{}}}, false)
			req.header.Set("Authorization", "Basic dXNlcjpwYXNz")
		case "security_http_bearer":
			sec(M{"bearer": M{"type": "http", "scheme": "bearer", "bearerFormat": "JWT"}}, []any{M{"bearer": []any{}}}, false)
			req.header.Set("Authorization", "Bearer a.b.c")
		case "security_oauth2_scopes":
			sec(M{"oauth": M{"type": "oauth2", "flows": M{"implicit": M{"authorizationUrl": "http://example.com/a", "scopes": M{"read": "r", "write": "w"}},
				"clientCredentials": M{"tokenUrl": "http://example.com/t", "scopes": M{}}}}}, []any{M{"oauth": []any{"read", "undeclared"}}}, false)
		case "security_openid":
			sec(M{"oidc": M{"type": "openIdConnect", "openIdConnectUrl": "http://example.com/.well-known/openid-configuration"}}, []any{M{"oidc": []any{"x"}}}, false)
		case "security_global":
			sec(M{"key": apikey("header", "X-Key")}, []any{M{"key": []any{}}}, true)
		case "security_empty_requirement":
			sec(M{"key": apikey("header", "X-Key")}, []any{M{}}, false)
		case "security_two_alternatives":
			sec(M{"key": apikey("header", "X-Key"), "basic": basic}, []any{M{"basic": []any{}}, M{"key": []any{}}}, false)
		case "security_and_of_two":
			sec(M{"key": apikey("header", "X-Key"), "basic": basic}, []any{M{"basic": []any{}, "key": []any{}}}, false)
		case "security_global_overridden_empty":
			sec(M{"key": apikey("header", "X-Key")}, []any{M{"key": []any{}}}, true)
			op["security"] = []any{}
		case "callbacks":
			op["callbacks"] = M{"onEvent": M{"{$request.body#/url}/cb?x={$request.query.q}": M{"post": M{
				"requestBody": M{"content": M{"application/json": M{"schema": M{"$ref": "#/components/schemas/Item"}}}},
				"parameters":  []any{M{"name": "cbp", "in": "query", "schema": M{"type": "integer"}}},
				"responses":   M{"200": M{"description": "ok"}}}}}}
		case "links":
			okResp["links"] = M{"next": M{"operationId": "post", "parameters": M{"id": "$response.body#/id", "q": []any{1}}, "requestBody": M{"id": 1}},
				"other": M{"operationRef": "#/paths/~1plain/get"}}
		case "servers_variables":
			doc["servers"] = []any{M{"url": "http://{sub}.example.com:{port}/v{n}", "variables": M{"sub": M{"default": "api", "enum": []any{"api", "www"}},
				"port": M{"default": "80"}, "n": M{"default": "1"}}}, M{"url": "/"}}
		case "servers_path_prefix":
			doc["servers"] = []any{M{"url": "http://example.com/api/"}, M{"url": "https://example.com:443/api"}}
			req.path = "/api" + req.path
		case "servers_op_level":
			op["servers"] = []any{M{"url": "http://example.com/"}}
			pathItem["servers"] = []any{M{"url": "http://other.example.com/base"}}
		case "response_headers_many":
			hs, _ := okResp["headers"].(M)
			if hs == nil {
				hs = M{}
				okResp["headers"] = hs
			}
			hs["X-A"] = M{"schema": M{"type": "array", "items": M{"type": "integer"}}, "required": true}
			hs["X-B"] = M{"schema": M{"type": "object", "properties": M{"a": M{"type": "integer"}}}, "explode": true, "style": "simple"}
			hs["X-C"] = M{"schema": M{"type": "boolean"}, "deprecated": true}
			resp.header["X-A"] = []string{"1,x,,3", "4"}
			resp.header["X-B"] = []string{"a=1,b", "=,"}
			resp.header["X-C"] = []string{"maybe"}
		case "content_type_header_declared":
			plist2, _ := level["parameters"].([]any)
			level["parameters"] = append(plist2, M{"name": "Content-Type", "in": "header", "schema": M{"type": "integer"}},
				M{"name": "Accept", "in": "header", "schema": M{"type": "boolean"}}, M{"name": "Authorization", "in": "header", "required": true, "schema": M{"type": "integer"}})
			hs, _ := okResp["headers"].(M)
			if hs != nil {
				hs["Content-Type"] = M{"schema": M{"type": "integer"}, "required": true}
			}
		case "trailing_slash_path":
			doc["paths"].(M)["/items/{id}/"] = M{"post": M{"responses": M{"200": M{"description": "ok"}},
				"parameters": []any{M{"name": "id", "in": "path", "required": true, "schema": M{"type": "boolean"}}}}}
		case "sibling_paths_conflict":
			ps := doc["paths"].(M)
			ps["/items/fixed"] = M{"post": M{"responses": M{"200": M{"description": "ok"}}}}
			ps["/items/{id}/sub"] = M{"post": M{"responses": M{"200": M{"description": "ok"}},
				"parameters": []any{M{"name": "id", "in": "path", "required": true, "schema": M{"type": "string", "maxLength": 1}}}}}
			ps["/{a}/{b}"] = M{"get": M{"responses": M{"200": M{"description": "ok"}}, "parameters": []any{
				M{"name": "a", "in": "path", "required": true, "schema": M{"type": "integer"}},
				M{"name": "b", "in": "path", "required": true, "style": "matrix", "explode": true, "schema": M{"type": "array", "items": M{"type": "integer"}}}}}}
		case "head_and_options_ops":
			for _, m := range []string{"head", "options", "trace", "patch"} {
				pathItem[m] = M{"responses": M{"default": M{"description": "d"}}, "operationId": m,
					"parameters": []any{M{"name": "id", "in": "path", "required": true, "schema": M{"type": "string"}}}}
			}
		case "default_response_only":
			for k := range responses {
				if k != okKey {
					delete(responses, k)
				}
			}
			if okKey != "default" {
				responses["default"] = responses[okKey]
				delete(responses, okKey)
				okKey = "default"
			}
		case "status_ranges_all":
			for _, k := range []string{"1XX", "3XX", "5XX"} {
				responses[k] = M{"description": k, "content": M{"application/json": M{"schema": M{"type": "integer"}}}}
			}
		case "readonly_required_prop":
			item := comps["schemas"].(M)["Item"].(M)
			item["properties"].(M)["ro"] = M{"type": "string", "readOnly": true}
			item["properties"].(M)["wo"] = M{"type": "string", "writeOnly": true}
			item["required"] = []any{"id", "ro", "wo"}
		}
	}
	return doc, vopts, req, resp
}

// ---- transport forms -------------------------------------------------------------------------------------

type c10Reader struct {
	data    []byte
	pos     int
	oneByte bool
	errAt   int // > 0: error after that many bytes; < 0: error at the first read
	closeE  bool
}

func (r *c10Reader) Read(p []byte) (int, error) {
	if r.errAt < 0 || (r.errAt > 0 && r.pos >= r.errAt) {
		return 0, fmt.Errorf("connection reset")
	}
	if r.pos >= len(r.data) {
		return 0, io.EOF
	}
	n := len(p)
	if r.oneByte && n > 1 {
		n = 1
	}
	if r.errAt > 0 && r.pos+n > r.errAt {
		n = r.errAt - r.pos
	}
	n = copy(p[:n], r.data[r.pos:])
	r.pos += n
	return n, nil
}

func (r *c10Reader) Close() error {
	if r.closeE {
		return fmt.Errorf("close failed")
	}
	return nil
}

func c10Repeat(n int, f func(i int) string, sep string) string {
	out := make([]string, n)
	for i := range out {
		out[i] = f(i)
	}
	return strings.Join(out, sep)
}

func c10AliasBomb() string {
	var b strings.Builder
	b.WriteString("a0: &a0 [x, x, x, x, x, x, x, x]\n")
	for i := 1; i <= 6; i++ {
		fmt.Fprintf(&b, "a%d: &a%d [%s]\n", i, i, c10Repeat(8, func(int) string { return fmt.Sprintf("*a%d", i-1) }, ", "))
	}
	b.WriteString("id: 1\n")
	return b.String()
}

// c10ReqMutNew applies a request mutation of the structured universe; false if the name is unknown
func c10ReqMutNew(r *c10Req, m string) bool {
	ct := r.header.Get("Content-Type")
	switch m {
	// URL and method
	case "method_head":
		r.method = "HEAD"
	case "method_options":
		r.method = "OPTIONS"
	case "method_connect":
		r.method = "CONNECT"
	case "method_trace":
		r.method = "TRACE"
	case "method_empty":
		r.emptyMethod = true
	case "method_get_with_body":
		r.method = "GET"
	case "path_encoded_slash":
		r.path = "/items/a%2Fb"
	case "path_encoded_nul":
		r.path = "/items/%00"
	case "path_dot_segments":
		r.path = "/items/../items/./5"
	case "path_double_slash":
		r.path = "//items//5"
	case "path_trailing_slash":
		r.path += "/"
	case "path_semicolon_params":
		r.path = "/items;v=1/5;id=7"
	case "query_semicolon_separator":
		r.query = append(r.query, "x=1;x=2;q=3")
	case "query_invalid_utf8":
		r.query = append(r.query, "x=%ff%fe", "q=%c0%af")
	case "query_plus_space":
		r.query = append(r.query, "x=+1+", "q=+")
	case "query_x_repeated":
		r.query = append(r.query, "x=1", "x=2", "x=", "x")
	case "query_x_bracketed":
		r.query = append(r.query, "x[]=1", "x[0]=2", "x[a][b]=3", "x[=4", "x]=5", "x[p]=6", "x[p][]=7")
	case "query_only_separators":
		r.query = []string{"&&&", "===", "&=&"}
	case "url_opaque":
		r.opaque = "opaque:thing"
	case "url_no_host":
		r.noHost = true
	case "url_fragment_userinfo":
		r.userinfo = true
	case "url_rawpath_mismatch":
		r.rawPath = "/items/%35%2F"
	case "url_rawquery_forced_garbage":
		g := "%%%&x=%zz;;&\x00=\xff&q"
		r.rawQuery = &g
	case "host_odd":
		r.host = "[::1]:99999"
	case "url_nil_like_star":
		r.star = true
	// headers, cookies, content type
	case "ct_repeated":
		r.header["Content-Type"] = []string{ct, "text/plain"}
	case "ct_huge":
		r.header.Set("Content-Type", ct+"; x="+strings.Repeat("a", 100000))
	case "ct_many_params":
		r.header.Set("Content-Type", ct+"; "+c10Repeat(2000, func(i int) string { return fmt.Sprintf("p%d=%d", i, i) }, "; "))
	case "ct_uppercase":
		r.header.Set("Content-Type", strings.ToUpper(ct))
	case "ct_spaces":
		r.header.Set("Content-Type", "  "+ct+"  ;  charset = utf-8 ")
	case "ct_dup_param":
		r.header.Set("Content-Type", ct+"; charset=a; charset=b")
	case "ct_suffix_json":
		r.header.Set("Content-Type", "application/vnd.whatever+json")
	case "ct_just_slash":
		r.header.Set("Content-Type", "/")
	case "ct_empty_boundary":
		r.header.Set("Content-Type", `multipart/form-data; boundary=""`)
	case "ct_long_boundary":
		r.header.Set("Content-Type", "multipart/form-data; boundary="+strings.Repeat("b", 200))
	case "ct_quoted_param_unterminated":
		r.header.Set("Content-Type", ct+`; a="b`)
	case "ct_noncanonical_key":
		r.header.Del("Content-Type")
		r.header["content-type"] = []string{ct}
	case "ct_yaml":
		r.header.Set("Content-Type", "application/yaml")
	case "ct_csv":
		r.header.Set("Content-Type", "text/csv")
	case "ct_zip":
		r.header.Set("Content-Type", "application/zip")
	case "ct_text":
		r.header.Set("Content-Type", "text/plain; charset=iso-8859-1")
	case "cookie_header_repeated":
		r.header["Cookie"] = []string{"c=true", "c=false; x=1", "x=2"}
	case "cookie_bad_escape":
		r.header.Set("Cookie", "c=%zz; x=%")
	case "cookie_quoted":
		r.header.Set("Cookie", `c="true"; x="1,2"`)
	case "cookie_many":
		r.header.Set("Cookie", c10Repeat(3000, func(i int) string { return fmt.Sprintf("k%d=%d", i, i) }, "; "))
	case "header_noncanonical_key":
		r.header.Del("X-H")
		r.header["x-h"] = []string{"h"}
		if v, ok := r.header["X-X"]; ok {
			delete(r.header, "X-X")
			r.header["x-x"] = v
		}
	case "header_empty_value":
		r.header["X-H"] = []string{""}
		r.header["X-X"] = []string{""}
	case "header_huge":
		r.header["X-X"] = []string{strings.Repeat("9", 1<<20)}
	case "headers_many":
		for i := 0; i < 5000; i++ {
			r.header[fmt.Sprintf("X-Many-%d", i)] = []string{"v"}
		}
	case "header_x_repeated":
		r.header["X-X"] = []string{"1", "2", ""}
	case "header_nil_map":
		r.nilHeader = true
	case "authorization_garbage":
		r.header.Set("Authorization", "\x00Basic ")
	case "authorization_basic_bad_base64":
		r.header.Set("Authorization", "Basic !!!")
	case "content_encoding_gzip":
		r.header.Set("Content-Encoding", "gzip")
	case "content_length_header_lies":
		r.header.Set("Content-Length", "3")
		n := int64(3)
		r.contentLength = &n
	// body
	case "body_chunked_one_byte_reads":
		r.chunked = true
	case "body_reader_error_midway":
		r.readErrAt = len(r.body)/2 + 1
	case "body_reader_error_at_start":
		r.readErrAt = -1
	case "body_nobody":
		r.noBody = true
	case "body_content_length_mismatch":
		n := int64(len(r.body) + 100)
		r.contentLength = &n
	case "body_bom":
		r.body = append([]byte("\xef\xbb\xbf"), r.body...)
	case "body_megabyte":
		r.body = []byte(`{"id":1,"name":"` + strings.Repeat("a", 1<<20) + `","p":"` + strings.Repeat("b", 1<<20) + `"}`)
	case "body_deep_arrays":
		r.body = []byte(strings.Repeat("[", 100000))
	case "body_duplicate_keys":
		r.body = []byte(`{"id":1,"id":"x","p":1,"p":[2],"x":1,"x":{}}`)
	case "body_only_whitespace":
		r.body = []byte("  \n\t ")
	case "body_two_documents":
		r.body = []byte(`{"id":1}{"id":2}`)
	case "body_multipart_no_final_boundary":
		r.header.Set("Content-Type", "multipart/form-data; boundary=BOUND")
		r.body = c10Multipart("BOUND", []c10Part{{name: "x", data: "1"}, {name: "id", data: "1"}}, false)
	case "body_multipart_part_without_name":
		r.header.Set("Content-Type", "multipart/form-data; boundary=BOUND")
		r.body = c10Multipart("BOUND", []c10Part{{name: "\x00", data: "1"}, {name: "", data: "2"}, {name: "x", data: "3"}}, true)
	case "body_multipart_duplicate_parts":
		r.header.Set("Content-Type", "multipart/form-data; boundary=BOUND")
		r.body = c10Multipart("BOUND", []c10Part{{name: "x", data: "1"}, {name: "x", data: "a"}, {name: "f", data: "1"}, {name: "f", data: "2"},
			{name: "id", data: "1"}, {name: "id", data: "2"}, {name: "meta", ct: "application/json", data: "{}"}, {name: "meta", ct: "application/json", data: "[]"}}, true)
	case "body_multipart_huge_part_header":
		r.header.Set("Content-Type", "multipart/form-data; boundary=BOUND")
		r.body = c10Multipart("BOUND", []c10Part{{name: "x", data: "1", hdr: [][2]string{{"X-Big", strings.Repeat("h", 200000)}}}}, true)
	case "body_multipart_part_ct_garbage":
		r.header.Set("Content-Type", "multipart/form-data; boundary=BOUND")
		r.body = c10Multipart("BOUND", []c10Part{{name: "x", ct: ";;/=", data: "1"}, {name: "id", ct: "multipart/form-data", data: "1"},
			{name: "meta", ct: "application/zip", data: "PK"}, {name: "f", ct: "text/csv", data: "\"a"}}, true)
	case "body_form_many_keys":
		r.header.Set("Content-Type", "application/x-www-form-urlencoded")
		r.body = []byte(c10Repeat(5000, func(i int) string { return fmt.Sprintf("k%d=%d", i, i) }, "&") + "&x=1&id=1")
	case "body_form_semicolons":
		r.header.Set("Content-Type", "application/x-www-form-urlencoded")
		r.body = []byte("x=1;x=2;id=3&x[a]=1&x[a][b]=2&x[0]=1")
	case "body_zip_garbage":
		r.header.Set("Content-Type", "application/zip")
		r.body = []byte("PK\x03\x04garbage-not-a-zip")
	case "body_zip_empty_archive":
		r.header.Set("Content-Type", "application/zip")
		r.body = c10Zip(map[string]string{})
	case "body_zip_many_files":
		r.header.Set("Content-Type", "application/zip")
		fs := map[string]string{"dir/": "", "zeros.bin": strings.Repeat("\x00", 1<<20), "../escape.txt": "x"}
		for i := 0; i < 300; i++ {
			fs[fmt.Sprintf("f%03d.txt", i)] = fmt.Sprint(i)
		}
		r.body = c10Zip(fs)
	case "body_csv_bare_quote":
		r.header.Set("Content-Type", "text/csv")
		r.body = []byte("a,\"b\nc\"d,e\n")
	case "body_csv_ragged":
		r.header.Set("Content-Type", "text/csv")
		r.body = []byte("a,b\nc\n\n,,,,\n\r\n\"\"")
	case "body_yaml_alias_bomb":
		r.header.Set("Content-Type", "application/yaml")
		r.body = []byte(c10AliasBomb())
	case "body_yaml_tabs":
		r.header.Set("Content-Type", "application/yaml")
		r.body = []byte("\tid: 1\n\t- x\n")
	case "body_yaml_multi_doc":
		r.header.Set("Content-Type", "application/yaml")
		r.body = []byte("id: 1\n---\nid: 2\n...\n%YAML 9.9\n---\n!!set {a}\n")
	case "body_close_panics_not":
		r.closeErr = true
	default:
		return false
	}
	return true
}

// c10RespMutNew applies a response mutation of the structured universe
func c10RespMutNew(r *c10Resp, m string) bool {
	ct := r.header.Get("Content-Type")
	switch m {
	case "status_negative":
		r.status = -1
	case "status_100":
		r.status = 100
	case "status_304":
		r.status = 304
	case "status_201_undeclared":
		r.status = 201
	case "status_maxint":
		r.status = int(^uint(0) >> 1)
	case "resp_ct_params":
		r.header.Set("Content-Type", ct+`; charset=utf-8; profile="x"`)
	case "resp_ct_repeated":
		r.header["Content-Type"] = []string{ct, "text/plain"}
	case "resp_ct_uppercase":
		r.header.Set("Content-Type", strings.ToUpper(ct))
	case "resp_ct_dup_param":
		r.header.Set("Content-Type", ct+"; a=1; a=2")
	case "resp_ct_huge":
		r.header.Set("Content-Type", ct+"; x="+strings.Repeat("a", 100000))
	case "resp_ct_multipart_no_boundary":
		r.header.Set("Content-Type", "multipart/form-data")
	case "resp_ct_noncanonical_key":
		r.header.Del("Content-Type")
		r.header["content-type"] = []string{ct}
	case "resp_header_dup":
		r.header["X-R"] = append(r.header["X-R"], "x", "")
	case "resp_header_noncanonical_key":
		v := r.header["X-R"]
		delete(r.header, "X-R")
		r.header["x-r"] = v
	case "resp_header_empty":
		r.header["X-R"] = []string{""}
	case "resp_header_nil_map":
		r.nilHeader = true
	case "resp_header_huge":
		r.header["X-R"] = []string{strings.Repeat("9", 1<<20)}
	case "resp_headers_many":
		for i := 0; i < 5000; i++ {
			r.header[fmt.Sprintf("X-Many-%d", i)] = []string{"v"}
		}
	case "resp_body_reader_error":
		r.readErrAt = len(r.body)/2 + 1
	case "resp_body_chunky_reader":
		r.oneByte = true
	case "resp_body_megabyte":
		r.body = []byte(`{"id":1,"name":"` + strings.Repeat("a", 1<<20) + `"}`)
	case "resp_body_bom":
		r.body = append([]byte("\xef\xbb\xbf"), r.body...)
	case "resp_body_null":
		r.body = []byte("null")
	case "resp_body_nan_token":
		r.body = []byte(`{"id":NaN,"p":-Infinity}`)
	case "resp_body_duplicate_keys":
		r.body = []byte(`{"id":1,"id":"x","p":1,"p":[2]}`)
	case "resp_body_two_documents":
		r.body = []byte(`{"id":1}{"id":2}`)
	case "resp_body_invalid_utf8":
		r.body = []byte("{\"id\":1,\"name\":\"\xff\xfe\x00\"}")
	case "resp_body_yaml_alias_bomb":
		r.header.Set("Content-Type", "application/yaml")
		r.body = []byte(c10AliasBomb())
	case "resp_body_close_error":
		r.closeErr = true
	default:
		return false
	}
	return true
}
