package main

import (
	"encoding/json"
	"fmt"
	"math/big"
	"sort"
	"strconv"
	"strings"
)

// Tagged JSON as used by spec/DocModel.tla (C03 needs equality only):
//   {"t":"null"} {"t":"bool","b":true} {"t":"num","lit":"2.5"} (canonical decimal literal)
//   {"t":"str","s":"abc"}            printable ASCII without " and \
//   {"t":"str","cs":["a","U+000A"]}  any other string: one token per rune, "U+XXXX" = that rune
//   {"t":"arr","a":[...]} {"t":"obj","k":[sorted keys],"v":[...]}
// Object keys must be plain (TLC keeps them as strings); a value with another key has no
// representation (ok=false).

func c03IsPlainRune(r rune) bool { return r >= 0x20 && r <= 0x7E && r != '"' && r != '\\' }

func c03IsPlain(s string) bool {
	for _, r := range s {
		if !c03IsPlainRune(r) {
			return false
		}
	}
	return true
}

func c03PlainOnly(s string) string {
	var b strings.Builder
	for _, r := range s {
		if c03IsPlainRune(r) {
			b.WriteRune(r)
		} else {
			b.WriteByte('?')
		}
	}
	return b.String()
}

func c03Str(s string) any {
	if c03IsPlain(s) {
		return T{"t": "str", "s": s}
	}
	cs := []any{}
	for _, r := range s {
		if c03IsPlainRune(r) {
			cs = append(cs, string(r))
		} else {
			cs = append(cs, fmt.Sprintf("U+%04X", r))
		}
	}
	return T{"t": "str", "cs": cs}
}

func c03StrOf(m map[string]any) string {
	if s, ok := m["s"].(string); ok {
		return s
	}
	var b strings.Builder
	for _, tok := range asSlice(m["cs"]) {
		t := tok.(string)
		if strings.HasPrefix(t, "U+") && len(t) > 2 {
			n, err := strconv.ParseInt(t[2:], 16, 32)
			if err != nil {
				panic("harness: bad rune token " + t)
			}
			b.WriteRune(rune(n))
		} else {
			b.WriteString(t)
		}
	}
	return b.String()
}

// c03CanonNum: the canonical decimal literal of a JSON number text: integers as plain digits
// (whatever their size or exponent spelling), everything else as the shortest float64 text.
func c03CanonNum(text string) (string, bool) {
	r, ok := new(big.Rat).SetString(text)
	if !ok {
		return "", false
	}
	if r.IsInt() {
		return r.Num().String(), true
	}
	f, _ := r.Float64()
	return strconv.FormatFloat(f, 'f', -1, 64), true
}

// c03Text renders a tagged value as JSON text.
func c03Text(t any) string {
	m, ok := t.(map[string]any)
	if !ok {
		panic(fmt.Sprintf("harness: bad tagged value %#v", t))
	}
	switch m["t"] {
	case "null":
		return "null"
	case "bool":
		if m["b"].(bool) {
			return "true"
		}
		return "false"
	case "num":
		return m["lit"].(string)
	case "str":
		b, _ := json.Marshal(c03StrOf(m))
		return string(b)
	case "arr":
		parts := []string{}
		for _, x := range asSlice(m["a"]) {
			parts = append(parts, c03Text(x))
		}
		return "[" + strings.Join(parts, ",") + "]"
	case "obj":
		ks, vs := asSlice(m["k"]), asSlice(m["v"])
		parts := []string{}
		for i := range ks {
			kb, _ := json.Marshal(ks[i].(string))
			parts = append(parts, string(kb)+":"+c03Text(vs[i]))
		}
		return "{" + strings.Join(parts, ",") + "}"
	}
	panic(fmt.Sprintf("harness: bad tagged value %#v", t))
}

// c03Project decodes JSON text (numbers kept as literals) and projects it to tagged form.
func c03Project(data []byte) (any, bool) {
	dec := json.NewDecoder(strings.NewReader(string(data)))
	dec.UseNumber()
	var v any
	if err := dec.Decode(&v); err != nil {
		return nil, false
	}
	if dec.More() {
		return nil, false
	}
	return c03Tag(v)
}

func c03Tag(v any) (any, bool) {
	switch x := v.(type) {
	case nil:
		return T{"t": "null"}, true
	case bool:
		return T{"t": "bool", "b": x}, true
	case json.Number:
		lit, ok := c03CanonNum(x.String())
		if !ok {
			return nil, false
		}
		return T{"t": "num", "lit": lit}, true
	case string:
		return c03Str(x), true
	case []any:
		a := []any{}
		for _, e := range x {
			te, ok := c03Tag(e)
			if !ok {
				return nil, false
			}
			a = append(a, te)
		}
		return T{"t": "arr", "a": a}, true
	case map[string]any:
		keys := make([]string, 0, len(x))
		for k := range x {
			if !c03IsPlain(k) {
				return nil, false
			}
			keys = append(keys, k)
		}
		sort.Strings(keys)
		ks, vs := []any{}, []any{}
		for _, k := range keys {
			te, ok := c03Tag(x[k])
			if !ok {
				return nil, false
			}
			ks = append(ks, k)
			vs = append(vs, te)
		}
		return T{"t": "obj", "k": ks, "v": vs}, true
	}
	return nil, false
}
