package main

import (
	"context"
	"encoding/json"
	"fmt"
	"os"
	"path/filepath"
	"reflect"
	"sort"
	"strings"

	"github.com/getkin/kin-openapi/openapi3"
)

// C20, reference graphs (spec/RefGraph.tla): the realiser of a lasso.  Node 0 is a named component of
// kind Root; every step hangs a new object of kind To below the previous node at Site, written in place
// ("inline") or as a named component reached by a $ref ("ref"); site "$ref" makes the previous node a pure
// alias of the new one.  The closing edge is a $ref from the last node back to node Close.Back.

type c20gStep struct {
	Site string `json:"site"`
	To   string `json:"to"`
	Mode string `json:"mode"`
}

type c20gGraph struct {
	Root  string     `json:"root"`
	Steps []c20gStep `json:"steps"`
	Close struct {
		Site string `json:"site"`
		Back int    `json:"back"`
	} `json:"close"`
	Used  bool `json:"used"`
	Split int  `json:"split"`
	Hop   bool `json:"hop"`
}

const c20gNoSplit = 99

var c20gSection = map[string]string{"schema": "schemas", "parameter": "parameters", "header": "headers", "requestBody": "requestBodies",
	"response": "responses", "link": "links", "callback": "callbacks", "example": "examples"}

func c20gTemplate(kind string, i int) map[string]any {
	switch kind {
	case "schema":
		return map[string]any{"type": "object"}
	case "parameter":
		return map[string]any{"name": fmt.Sprintf("q%d", i), "in": "query", "schema": map[string]any{"type": "string"}}
	case "header":
		return map[string]any{"schema": map[string]any{"type": "string"}}
	case "mediaType", "encoding", "pathItem", "callback":
		return map[string]any{}
	case "requestBody":
		return map[string]any{"content": map[string]any{"application/json": map[string]any{}}}
	case "response":
		return map[string]any{"description": "d"}
	case "link":
		return map[string]any{"operationId": "useOp"}
	case "operation":
		return map[string]any{"responses": map[string]any{"200": map[string]any{"description": "d"}}}
	case "example":
		return map[string]any{"value": json.Number("1")}
	}
	panic("harness: c20g kind " + kind)
}

const c20gExpr = "{$request.body#/u}"

// c20gSitePath: the keys below an object of kind `from` that lead to the child at `site`
func c20gSitePath(from, site string) []any {
	switch from + ":" + site {
	case "schema:properties":
		return []any{"properties", "p"}
	case "schema:items", "schema:additionalProperties", "schema:not":
		return []any{site}
	case "schema:allOf", "schema:anyOf", "schema:oneOf":
		return []any{site, 0}
	case "parameter:schema", "header:schema", "mediaType:schema":
		return []any{"schema"}
	case "parameter:content", "header:content", "response:content":
		return []any{"content", "application/json"}
	case "requestBody:content":
		return []any{"content", "multipart/form-data"}
	case "parameter:examples", "header:examples", "mediaType:examples":
		return []any{"examples", "e"}
	case "mediaType:encoding":
		return []any{"encoding", "f"}
	case "encoding:headers", "response:headers":
		return []any{"headers", "X-H"}
	case "response:links":
		return []any{"links", "l"}
	case "callback:expression":
		return []any{c20gExpr}
	case "pathItem:operation":
		return []any{"post"}
	case "pathItem:parameters", "operation:parameters":
		return []any{"parameters", 0}
	case "operation:requestBody":
		return []any{"requestBody"}
	case "operation:responses":
		return []any{"responses", "200"}
	case "operation:callbacks":
		return []any{"callbacks", "cb"}
	}
	panic("harness: c20g site " + from + ":" + site)
}

// c20gPlace writes child below obj at the site (creating the containers the site needs)
func c20gPlace(obj map[string]any, from, site string, child any) {
	switch from + ":" + site {
	case "schema:items":
		obj["type"] = "array"
	case "parameter:content", "header:content":
		delete(obj, "schema")
	case "requestBody:content":
		delete(obj["content"].(map[string]any), "application/json")
	}
	p := c20gSitePath(from, site)
	var cur any = obj
	for i, k := range p {
		last := i == len(p)-1
		switch key := k.(type) {
		case string:
			m := cur.(map[string]any)
			if last {
				m[key] = child
				return
			}
			if m[key] == nil {
				if _, isIdx := p[i+1].(int); isIdx {
					m[key] = []any{nil}
				} else {
					m[key] = map[string]any{}
				}
			}
			cur = m[key]
		case int:
			a := cur.([]any)
			if last {
				a[key] = child
				return
			}
			cur = a[key]
		}
	}
}

// c20gBuild returns the root document of the graph and writes ext.json into dir when the graph has a second file.
func c20gBuild(g c20gGraph, dir, rootName string) any {
	n := len(g.Steps)
	kind := make([]string, n+1)
	kind[0] = g.Root
	for i, s := range g.Steps {
		kind[i+1] = s.To
	}
	isComp := func(i int) bool { return i == 0 || g.Steps[i-1].Mode == "ref" }
	inExt := make([]bool, n+1)
	ptr := make([][]any, n+1) // pointer of node i within its file
	for i := 0; i <= n; i++ {
		if isComp(i) {
			inExt[i] = g.Split != c20gNoSplit && i >= g.Split
			if kind[i] == "pathItem" {
				ptr[i] = []any{"paths", fmt.Sprintf("/n%d", i)}
			} else {
				ptr[i] = []any{"components", c20gSection[kind[i]], fmt.Sprintf("N%d", i)}
			}
		} else {
			inExt[i] = inExt[i-1]
			ptr[i] = append(append([]any{}, ptr[i-1]...), c20gSitePath(kind[i-1], g.Steps[i-1].Site)...)
		}
	}
	fileOf := func(ext bool) string {
		if ext {
			return "ext.json"
		}
		return rootName
	}
	refTo := func(fromExt bool, toExt bool, p []any) any {
		s := c20Pointer(p)
		if fromExt != toExt {
			s = fileOf(toExt) + s
		}
		return map[string]any{"$ref": s}
	}
	obj := make([]any, n+1)
	for i := 0; i <= n; i++ {
		obj[i] = c20gTemplate(kind[i], i)
	}
	files := map[bool]map[string]any{}
	doc := func(ext bool) map[string]any {
		if files[ext] == nil {
			files[ext] = map[string]any{"openapi": "3.0.3", "info": map[string]any{"title": fileOf(ext), "version": "1"}, "paths": map[string]any{}}
		}
		return files[ext]
	}
	putAt := func(ext bool, p []any, v any) {
		var cur any = doc(ext)
		for i, k := range p {
			m := cur.(map[string]any)
			key := k.(string)
			if i == len(p)-1 {
				m[key] = v
				return
			}
			if m[key] == nil {
				m[key] = map[string]any{}
			}
			cur = m[key]
		}
	}
	// the closing edge (built first: the last node's body may become a pure reference)
	closeRef := refTo(inExt[n], inExt[g.Close.Back], ptr[g.Close.Back])
	if g.Hop {
		// one more alias component, in the file of the last node, between the last node and node Back
		var ap []any
		if kind[g.Close.Back] == "pathItem" {
			ap = []any{"paths", "/alias"}
		} else {
			ap = []any{"components", c20gSection[kind[g.Close.Back]], "Alias"}
		}
		putAt(inExt[n], ap, closeRef)
		closeRef = refTo(inExt[n], inExt[n], ap)
	}
	if g.Close.Site == "$ref" {
		obj[n] = closeRef
	} else {
		c20gPlace(obj[n].(map[string]any), kind[n], g.Close.Site, closeRef)
	}
	for i := n; i >= 1; i-- {
		var child any = obj[i]
		if isComp(i) {
			putAt(inExt[i], ptr[i], obj[i])
			child = refTo(inExt[i-1], inExt[i], ptr[i])
		}
		if g.Steps[i-1].Site == "$ref" {
			obj[i-1] = child
		} else {
			c20gPlace(obj[i-1].(map[string]any), kind[i-1], g.Steps[i-1].Site, child)
		}
	}
	putAt(inExt[0], ptr[0], obj[0])
	root := doc(false)
	if g.Used {
		r0 := refTo(false, inExt[0], ptr[0])
		op := map[string]any{"operationId": "useOp", "responses": map[string]any{"200": map[string]any{"description": "d"}}}
		resp := op["responses"].(map[string]any)["200"].(map[string]any)
		var item any = map[string]any{"get": op}
		switch g.Root {
		case "schema":
			resp["content"] = map[string]any{"application/json": map[string]any{"schema": r0}}
		case "example":
			resp["content"] = map[string]any{"application/json": map[string]any{"examples": map[string]any{"e": r0}}}
		case "header":
			resp["headers"] = map[string]any{"X-U": r0}
		case "link":
			resp["links"] = map[string]any{"l": r0}
		case "response":
			op["responses"].(map[string]any)["200"] = r0
		case "parameter":
			op["parameters"] = []any{r0}
		case "requestBody":
			op["requestBody"] = r0
		case "callback":
			op["callbacks"] = map[string]any{"cb": r0}
		case "pathItem":
			item = r0
		}
		root["paths"].(map[string]any)["/use"] = item
	}
	if e := files[true]; e != nil {
		b, _ := json.Marshal(e)
		os.WriteFile(filepath.Join(dir, "ext.json"), b, 0o644)
	}
	// through the same decoder as the other bases (json.Number leaves)
	rb, _ := json.Marshal(root)
	dec := json.NewDecoder(strings.NewReader(string(rb)))
	dec.UseNumber()
	var v any
	dec.Decode(&v)
	return v
}

// c20Parts: every part of a loaded document that has a Validate / MarshalJSON of its own, in a fixed order
func c20Parts(doc *openapi3.T) []any {
	var out []any
	add := func(v any) {
		if rv := reflect.ValueOf(v); !rv.IsValid() || (rv.Kind() == reflect.Ptr && rv.IsNil()) {
			return // a nil entry has no validator of its own to call
		}
		out = append(out, v)
	}
	if c := doc.Components; c != nil {
		add(c)
		for _, k := range c20Keys(c.Schemas) {
			add(c.Schemas[k])
		}
		for _, k := range c20Keys(c.Parameters) {
			add(c.Parameters[k])
		}
		for _, k := range c20Keys(c.Headers) {
			add(c.Headers[k])
		}
		for _, k := range c20Keys(c.RequestBodies) {
			add(c.RequestBodies[k])
		}
		for _, k := range c20Keys(c.Responses) {
			add(c.Responses[k])
		}
		for _, k := range c20Keys(c.SecuritySchemes) {
			add(c.SecuritySchemes[k])
		}
		for _, k := range c20Keys(c.Examples) {
			add(c.Examples[k])
		}
		for _, k := range c20Keys(c.Links) {
			add(c.Links[k])
		}
		for _, k := range c20Keys(c.Callbacks) {
			add(c.Callbacks[k])
		}
	}
	if doc.Paths != nil {
		add(doc.Paths)
		m := doc.Paths.Map()
		for _, k := range c20Keys(m) {
			add(m[k])
			if m[k] != nil {
				ops := m[k].Operations()
				for _, meth := range c20Keys(ops) {
					add(ops[meth])
				}
			}
		}
	}
	// the objects the document validator reaches only through others
	for _, rb := range func() []*openapi3.RequestBodyRef {
		if doc.Components == nil {
			return nil
		}
		var l []*openapi3.RequestBodyRef
		for _, k := range c20Keys(doc.Components.RequestBodies) {
			l = append(l, doc.Components.RequestBodies[k])
		}
		return l
	}() {
		if rb == nil || rb.Value == nil {
			continue
		}
		for _, ct := range c20Keys(rb.Value.Content) {
			mt := rb.Value.Content[ct]
			add(mt)
			if mt != nil {
				for _, en := range c20Keys(mt.Encoding) {
					add(mt.Encoding[en])
				}
			}
		}
	}
	if doc.Components != nil {
		for _, k := range c20Keys(doc.Components.Headers) {
			h := doc.Components.Headers[k]
			if h == nil || h.Value == nil {
				continue
			}
			for _, ct := range c20Keys(h.Value.Content) {
				mt := h.Value.Content[ct]
				add(mt)
				if mt != nil {
					for _, en := range c20Keys(mt.Encoding) {
						add(mt.Encoding[en])
					}
				}
			}
		}
	}
	return out
}

func c20Keys[V any](m map[string]V) []string {
	ks := make([]string, 0, len(m))
	for k := range m {
		ks = append(ks, k)
	}
	sort.Strings(ks)
	return ks
}

type c20Validator interface {
	Validate(ctx context.Context, opts ...openapi3.ValidationOption) error
}

// c20ValidateParts calls the validator of every part on its own (a fresh context each): the first error is returned,
// every part is visited whatever the others say.
func c20ValidateParts(doc *openapi3.T) error {
	var first error
	for _, p := range c20Parts(doc) {
		v, ok := p.(c20Validator)
		if !ok {
			continue
		}
		if err := v.Validate(context.Background()); err != nil && first == nil {
			first = err
		}
	}
	return first
}

func c20MarshalParts(doc *openapi3.T) error {
	var first error
	for _, p := range c20Parts(doc) {
		if _, err := json.Marshal(p); err != nil && first == nil {
			first = err
		}
	}
	return first
}
