package main

import (
	"context"
	"encoding/json"
	"errors"
	"net/http"
	"net/http/httptest"
	"strings"

	"github.com/getkin/kin-openapi/openapi3"
	"github.com/getkin/kin-openapi/openapi3filter"
	"github.com/getkin/kin-openapi/routers/gorillamux"
)

// C05: a parameter declared for one (in, style, explode) cell, a request carrying the wire
// fragment TLC computed from the OpenAPI style table; logged: the decoded value (through the
// verif hook VerifDecodeStyledParameter) and the error class of ValidateParameter.

type c05Wire struct {
	Kind  string `json:"kind"`
	Seg   string `json:"seg"`
	Val   string `json:"val"`
	Pairs []struct {
		K string `json:"k"`
		V string `json:"v"`
	} `json:"pairs"`
}

type c05Case struct {
	Cell struct {
		In      string `json:"in"`
		Style   string `json:"style"`
		Explode bool   `json:"explode"`
	} `json:"cell"`
	Shape      string   `json:"shape"`
	Schema     any      `json:"schema"`
	Required   bool     `json:"required"`
	Presence   string   `json:"presence"`
	V          any      `json:"v"`
	Wire       *c05Wire `json:"wire"`
	Decoy      bool     `json:"decoy"`
	AllowEmpty bool     `json:"allowEmpty"`
	DecoyWire  *c05Wire `json:"decoywire"`
	Defaults   bool     `json:"defaults"`
	Other      bool     `json:"other"`
	Upper      bool     `json:"upper"`
}

func errClass(err error) string {
	if err == nil {
		return "ok"
	}
	var pe *openapi3filter.ParseError
	var se *openapi3.SchemaError
	var me openapi3.MultiError
	switch {
	case errors.Is(err, openapi3filter.ErrInvalidRequired):
		return "required"
	case errors.Is(err, openapi3filter.ErrInvalidEmptyValue):
		return "emptyvalue"
	case errors.As(err, &pe):
		return "parse"
	case errors.As(err, &se), errors.As(err, &me):
		return "schema"
	}
	return "other"
}

func c05Run(c *Case) []any {
	var tc c05Case
	c.Decode(&tc)
	var raw map[string]any
	c.Decode(&raw)
	line := map[string]any{"case": c.Idx, "c": raw}

	mkParam := func(name string, required bool) map[string]any {
		m := map[string]any{"name": name, "in": tc.Cell.In, "style": tc.Cell.Style, "explode": tc.Cell.Explode,
			"required": required, "schema": absSchemaToOpenAPI(tc.Schema)}
		if tc.AllowEmpty && name == "p" {
			m["allowEmptyValue"] = true
		}
		return m
	}
	params := []any{mkParam("p", tc.Required)}
	path := "/t"
	if tc.Cell.In == "path" {
		path = "/t/{p}"
	}
	if tc.Decoy {
		params = append(params, mkParam("pq", tc.Cell.In == "path"))
		if tc.Cell.In == "path" {
			path = "/t/{p}/{pq}"
		}
	}
	if tc.Other {
		params = append(params, map[string]any{"name": "z", "in": "query", "schema": map[string]any{"type": "integer"}})
	}
	doc := map[string]any{"openapi": "3.0.3", "info": map[string]any{"title": "t", "version": "1"},
		"paths": map[string]any{path: map[string]any{"get": map[string]any{
			"parameters": params,
			"responses":  map[string]any{"200": map[string]any{"description": "ok"}}}}}}
	data, _ := json.Marshal(doc)
	d, err := openapi3.NewLoader().LoadFromData(data)
	if err == nil {
		err = d.Validate(context.Background())
	}
	if err != nil {
		line["doc"] = "error"
		line["docErr"] = err.Error()
		return []any{line}
	}
	line["doc"] = "ok"
	router, err := gorillamux.NewRouter(d)
	if err != nil {
		panic(err)
	}
	// request
	target := "/t"
	var q []string
	hdr := http.Header{}
	var cookies []string
	place := func(w *c05Wire, name string) {
		if w == nil || w.Kind == "none" {
			return
		}
		switch w.Kind {
		case "path":
			target += "/" + w.Seg // the wire text is the request text: percent-encoding is part of ParamCodec!Wire
		case "query":
			for _, p := range w.Pairs {
				q = append(q, p.K+"="+p.V)
			}
		case "header":
			hdr.Set(name, w.Val)
		case "cookie":
			cookies = append(cookies, name+"="+w.Val)
		}
	}
	if tc.Presence != "absent" {
		place(tc.Wire, "p")
	} else if tc.Cell.In == "path" {
		line["skip"] = "absent path parameter cannot be routed"
	}
	if tc.Decoy {
		place(tc.DecoyWire, "pq")
	}
	if tc.Other {
		q = append(q, "z=1")
	}
	if tc.Upper {
		// an entry that is NOT the parameter: its name differs in letter case (query and cookie names are case-sensitive)
		switch tc.Cell.In {
		case "query":
			q = append([]string{"P=zz"}, q...)
		case "cookie":
			cookies = append([]string{"P=zz"}, cookies...)
		}
	}
	if len(q) > 0 {
		target += "?" + strings.Join(q, "&")
	}
	req := httptest.NewRequest("GET", target, nil)
	for k, v := range hdr {
		req.Header[http.CanonicalHeaderKey(k)] = v
	}
	if len(cookies) > 0 {
		req.Header.Set("Cookie", strings.Join(cookies, "; "))
	}
	line["target"] = target
	route, pathParams, err := router.FindRoute(req)
	if err != nil {
		line["route"] = "notfound"
		return []any{line}
	}
	line["route"] = "ok"
	input := &openapi3filter.RequestValidationInput{Request: req, PathParams: pathParams, Route: route,
		Options: &openapi3filter.Options{SkipSettingDefaults: !tc.Defaults}}
	param := route.Operation.Parameters.GetByInAndName(tc.Cell.In, "p")
	dec := map[string]any{}
	var val any
	var found bool
	var derr error
	if p, msg := guard(func() { val, found, derr = openapi3filter.VerifDecodeStyledParameter(param, input) }); p {
		dec["err"] = "panic"
		dec["msg"] = msg
	} else {
		dec["found"] = found
		dec["err"] = errClass(derr)
		if derr == nil && val != nil {
			if t, ok := goToTagged(val); ok {
				dec["val"] = t
			} else {
				dec["valkind"] = "untaggable"
			}
		}
	}
	line["dec"] = dec
	var verr error
	if p, _ := guard(func() { verr = openapi3filter.ValidateParameter(context.Background(), input, param) }); p {
		line["verdict"] = "panic"
	} else {
		line["verdict"] = errClass(verr)
	}
	return []any{line}
}

func init() {
	drivers["C05"] = &Driver{
		Run: c05Run,
		Abnormal: func(c *Case, kind string) []any {
			var raw map[string]any
			c.Decode(&raw)
			return []any{map[string]any{"case": c.Idx, "c": raw, "doc": "ok", "route": "ok", "dec": map[string]any{"err": kind, "found": false}, "verdict": kind}}
		},
	}
}
