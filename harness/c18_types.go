package main

import (
	"reflect"
	"time"
)

// Declared types of the C18 universe.  reflect cannot create named or recursive types, nor
// unexported fields, so these are written out; spec/GoTypes.tla (Defs) mirrors them and the trace
// specification compares the driver's reflection of each type (c18ProjectType) with that table.

// defined types over a non-struct kind (no methods)
type NI8 int8
type NU8 uint8
type NStr string
type NF32 float32
type NBytes []byte
type NPI8 *int8
type NSl []int8
type NMap map[string]int8

// structs whose fields encoding/json does not (all) see
type Stamp time.Time // time.Time's unexported fields, none of its methods

type Empty struct{}

type NX struct {
	a int8 `json:"a"`
	B int8 `json:"b"`
}

type inner struct {
	A int8 `json:"a"`
}

type XE struct {
	inner
	B string `json:"b"`
}

type HS struct {
	S Stamp  `json:"s"`
	E Empty  `json:"e"`
	P *Stamp `json:"p,omitempty"`
}

// a defined map type embedded (encoding/json writes it under its type name)
type EM struct {
	NMap
	B int8 `json:"b"`
}

// recursion closing on a named container type
type Items []Item

type Item struct {
	Sub Items `json:"sub"`
	V   int8  `json:"v"`
}

type Index map[string]Entry

type Entry struct {
	Sub Index `json:"sub"`
	V   int8  `json:"v"`
}

type PItems []*PItem

type PItem struct {
	Sub PItems `json:"sub,omitempty"`
	V   int8   `json:"v"`
}

// a slice type that is its own element type
type Tree []Tree

type N1 struct {
	A int8 `json:"a"`
}

type N2 struct {
	S string `json:"s"`
	P *uint8 `json:"p,omitempty"`
}

// recursion through a pointer
type RPtr struct {
	Next *RPtr `json:"next"`
	V    int8  `json:"v"`
}

type RPtrOE struct {
	Next *RPtrOE `json:"next,omitempty"`
	V    int8    `json:"v"`
}

// through a slice (of values, of pointers)
type RSlice struct {
	Kids []RSlice `json:"kids"`
	V    int8     `json:"v"`
}

type RPSlice struct {
	Kids []*RPSlice `json:"kids"`
	V    int8       `json:"v"`
}

// through a map (of pointers, of values)
type RMap struct {
	M map[string]*RMap `json:"m"`
	V int8             `json:"v"`
}

type RMapV struct {
	M map[string]RMapV `json:"m"`
	V int8             `json:"v"`
}

// mutual recursion
type MA struct {
	B *MB    `json:"b"`
	X string `json:"x"`
}

type MB struct {
	A *MA  `json:"a"`
	X int8 `json:"x"`
}

// through an embedded pointer
type EA struct {
	*EB
	V int8 `json:"v"`
}

type EB struct {
	A *EA    `json:"a,omitempty"`
	W string `json:"w"`
}

// through a slice of slices
type RSS struct {
	G [][]RSS `json:"g"`
	V int8    `json:"v"`
}

// a struct that embeds a pointer to itself
type ES struct {
	*ES
	V int8 `json:"v"`
}

// Mutually recursive families; the members share a property name (id / label) with different
// JSON types; pointers are omitempty so that the end of a value encodes no null.

// cycle of length 2 through pointers
type FA struct {
	ID    string `json:"id"`
	Owner *FB    `json:"owner,omitempty"`
}

type FB struct {
	ID   int64 `json:"id"`
	Home *FA   `json:"home,omitempty"`
}

// length 2 through a struct value, a slice and a pointer
type ND struct {
	Label string `json:"label"`
	Meta  MT     `json:"meta"`
}

type MT struct {
	Label   bool `json:"label"`
	Parents []ND `json:"parents"`
	Origin  *ND  `json:"origin,omitempty"`
}

// length 2 through maps only
type GA struct {
	ID string        `json:"id"`
	M  map[string]GB `json:"m"`
}

type GB struct {
	ID int8          `json:"id"`
	N  map[string]GA `json:"n"`
}

// length 3 through pointers
type TA struct {
	ID string `json:"id"`
	B  *TB    `json:"b,omitempty"`
}

type TB struct {
	ID int8 `json:"id"`
	C  *TC  `json:"c,omitempty"`
}

type TC struct {
	ID bool `json:"id"`
	A  *TA  `json:"a,omitempty"`
}

// length 3 through a slice, a map and a pointer
type UA struct {
	ID string `json:"id"`
	Bs []UB   `json:"bs"`
}

type UB struct {
	ID int8          `json:"id"`
	Cm map[string]UC `json:"cm"`
}

type UC struct {
	ID bool `json:"id"`
	A  *UA  `json:"a,omitempty"`
}

var c18Named = map[string]reflect.Type{
	"FA": reflect.TypeOf(FA{}), "FB": reflect.TypeOf(FB{}),
	"ND": reflect.TypeOf(ND{}), "MT": reflect.TypeOf(MT{}),
	"GA": reflect.TypeOf(GA{}), "GB": reflect.TypeOf(GB{}),
	"TA": reflect.TypeOf(TA{}), "TB": reflect.TypeOf(TB{}), "TC": reflect.TypeOf(TC{}),
	"UA": reflect.TypeOf(UA{}), "UB": reflect.TypeOf(UB{}), "UC": reflect.TypeOf(UC{}),

	"NI8": reflect.TypeOf(NI8(0)), "NU8": reflect.TypeOf(NU8(0)), "NStr": reflect.TypeOf(NStr("")),
	"NF32": reflect.TypeOf(NF32(0)), "NBytes": reflect.TypeOf(NBytes(nil)), "NPI8": reflect.TypeOf(NPI8(nil)),
	"NSl": reflect.TypeOf(NSl(nil)), "NMap": reflect.TypeOf(NMap(nil)),
	"Stamp": reflect.TypeOf(Stamp{}), "Empty": reflect.TypeOf(Empty{}), "NX": reflect.TypeOf(NX{}),
	"EM": reflect.TypeOf(EM{}), "inner": reflect.TypeOf(inner{}), "XE": reflect.TypeOf(XE{}), "HS": reflect.TypeOf(HS{}),
	"Items": reflect.TypeOf(Items(nil)), "Item": reflect.TypeOf(Item{}),
	"Index": reflect.TypeOf(Index(nil)), "Entry": reflect.TypeOf(Entry{}),
	"PItems": reflect.TypeOf(PItems(nil)), "PItem": reflect.TypeOf(PItem{}),
	"Tree": reflect.TypeOf(Tree(nil)),

	"N1":      reflect.TypeOf(N1{}),
	"N2":      reflect.TypeOf(N2{}),
	"RPtr":    reflect.TypeOf(RPtr{}),
	"RPtrOE":  reflect.TypeOf(RPtrOE{}),
	"RSlice":  reflect.TypeOf(RSlice{}),
	"RPSlice": reflect.TypeOf(RPSlice{}),
	"RMap":    reflect.TypeOf(RMap{}),
	"RMapV":   reflect.TypeOf(RMapV{}),
	"MA":      reflect.TypeOf(MA{}),
	"MB":      reflect.TypeOf(MB{}),
	"EA":      reflect.TypeOf(EA{}),
	"EB":      reflect.TypeOf(EB{}),
	"RSS":     reflect.TypeOf(RSS{}),
	"ES":      reflect.TypeOf(ES{}),
}

var c18NameOf = func() map[reflect.Type]string {
	m := map[reflect.Type]string{}
	for n, t := range c18Named {
		m[t] = n
	}
	return m
}()
