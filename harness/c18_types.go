package main

import "reflect"

// Declared struct types of the C18 universe.  reflect cannot create named or recursive types,
// so these are written out; spec/GoTypes.tla (Defs) mirrors them and the trace specification
// compares the driver's reflection of each type (c18ProjectType) with that table.

type N1 struct {
	A int8 `json:"a"`
}

type N2 struct {
	S string `json:"s"`
	P *uint8 `json:"p,omitempty"`
}

// recursion through a pointer
type RPtr struct {
	Next *RPtr `json:"next"`
	V    int8  `json:"v"`
}

type RPtrOE struct {
	Next *RPtrOE `json:"next,omitempty"`
	V    int8    `json:"v"`
}

// through a slice (of values, of pointers)
type RSlice struct {
	Kids []RSlice `json:"kids"`
	V    int8     `json:"v"`
}

type RPSlice struct {
	Kids []*RPSlice `json:"kids"`
	V    int8       `json:"v"`
}

// through a map (of pointers, of values)
type RMap struct {
	M map[string]*RMap `json:"m"`
	V int8             `json:"v"`
}

type RMapV struct {
	M map[string]RMapV `json:"m"`
	V int8             `json:"v"`
}

// mutual recursion
type MA struct {
	B *MB    `json:"b"`
	X string `json:"x"`
}

type MB struct {
	A *MA  `json:"a"`
	X int8 `json:"x"`
}

// through an embedded pointer
type EA struct {
	*EB
	V int8 `json:"v"`
}

type EB struct {
	A *EA    `json:"a,omitempty"`
	W string `json:"w"`
}

// through a slice of slices
type RSS struct {
	G [][]RSS `json:"g"`
	V int8    `json:"v"`
}

// a struct that embeds a pointer to itself
type ES struct {
	*ES
	V int8 `json:"v"`
}

var c18Named = map[string]reflect.Type{
	"N1":      reflect.TypeOf(N1{}),
	"N2":      reflect.TypeOf(N2{}),
	"RPtr":    reflect.TypeOf(RPtr{}),
	"RPtrOE":  reflect.TypeOf(RPtrOE{}),
	"RSlice":  reflect.TypeOf(RSlice{}),
	"RPSlice": reflect.TypeOf(RPSlice{}),
	"RMap":    reflect.TypeOf(RMap{}),
	"RMapV":   reflect.TypeOf(RMapV{}),
	"MA":      reflect.TypeOf(MA{}),
	"MB":      reflect.TypeOf(MB{}),
	"EA":      reflect.TypeOf(EA{}),
	"EB":      reflect.TypeOf(EB{}),
	"RSS":     reflect.TypeOf(RSS{}),
	"ES":      reflect.TypeOf(ES{}),
}

var c18NameOf = func() map[reflect.Type]string {
	m := map[reflect.Type]string{}
	for n, t := range c18Named {
		m[t] = n
	}
	return m
}()
