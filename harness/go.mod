module verifharness

go 1.23

toolchain go1.23.5

require (
	github.com/getkin/kin-openapi v0.0.0
	pgregory.net/rapid v1.3.0
)

require (
	github.com/go-openapi/jsonpointer v0.21.0 // indirect
	github.com/go-openapi/swag v0.23.0 // indirect
	github.com/gorilla/mux v1.8.0 // indirect
	github.com/josharian/intern v1.0.0 // indirect
	github.com/mailru/easyjson v0.7.7 // indirect
	github.com/mohae/deepcopy v0.0.0-20170929034955-c48cc78d4826 // indirect
	github.com/oasdiff/yaml v0.0.0-20250309154309-f31be36b4037 // indirect
	github.com/oasdiff/yaml3 v0.0.0-20250309153720-d2182401db90 // indirect
	github.com/perimeterx/marshmallow v1.1.5 // indirect
	gopkg.in/yaml.v3 v3.0.1 // indirect
)

replace github.com/getkin/kin-openapi => /repo
