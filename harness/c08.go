package main

import (
	"bytes"
	"context"
	"encoding/json"
	"errors"
	"io"
	"net/http"
	"net/http/httptest"
	"strconv"
	"strings"

	"github.com/getkin/kin-openapi/openapi3"
	"github.com/getkin/kin-openapi/openapi3filter"
	"github.com/getkin/kin-openapi/routers/gorillamux"
)

// C08: response validation against the entry chosen for the status code (part "pick") and
// against the selected definition (part "def").  Logged: verdict class and the bytes readable
// from input.Body afterwards.

type c08Case struct {
	Part          string   `json:"part"`
	Keys          []string `json:"keys"`
	Status        int      `json:"status"`
	Method        string   `json:"method"`
	IncludeStatus bool     `json:"includeStatus"`
	BodyKey       string   `json:"bodyKey"`
	Hd            string   `json:"hd"`
	Hv            string   `json:"hv"`
	Decl          string   `json:"decl"`
	CtText        string   `json:"ctText"`
	Body          any      `json:"body"`
	ExcludeBody   bool     `json:"excludeBody"`
	ExcludeWO     bool     `json:"excludeWO"`
	Multi         bool     `json:"multi"`
	Req           string   `json:"req"`
	Wrap          string   `json:"wrap"`
	Hdrs          []c08Hdr `json:"hdrs"`
	Extra         bool     `json:"extra"`
	Pad           string   `json:"pad"`
	Variant       string   `json:"variant"`
	Pv            string   `json:"pv"`
	Mark          int      `json:"mark"`
}

// one declared response header of part "hdr": the schema is an abstract schema of spec/SchemaSem.tla
type c08Hdr struct {
	Name    string `json:"name"`
	Hs      any    `json:"hs"`
	Hreq    bool   `json:"hreq"`
	Explode bool   `json:"explode"`
	Present bool   `json:"present"`
	Text    string `json:"text"`
	Cs2     []any  `json:"cs2"` // a second field line of the same header (absent: one line)
	Text2   string `json:"text2"`
}

func c08Run(c *Case) []any {
	var tc c08Case
	c.Decode(&tc)
	var raw map[string]any
	c.Decode(&raw)
	line := map[string]any{"case": c.Idx, "c": raw}
	in, body, docErr := c08Build(&tc)
	if docErr != nil {
		line["doc"] = "error"
		line["docErr"] = docErr.Error()
		return []any{line}
	}
	line["doc"] = "ok"
	line["verdict"] = c08Validate(in)
	line["sent"] = string(body)
	if in.Body == nil {
		line["after"] = "<nil body>"
	} else if b, err := io.ReadAll(in.Body); err != nil {
		line["after"] = "<read error>"
	} else {
		line["after"] = string(b)
	}
	return []any{line}
}

// c08Validate calls the library on a realised response and projects the result to its class.
func c08Validate(in *openapi3filter.ResponseValidationInput) string {
	var verr error
	p, _ := guard(func() { verr = openapi3filter.ValidateResponse(context.Background(), in) })
	var re *openapi3filter.ResponseError
	switch {
	case p:
		return "panic"
	case verr == nil:
		return "ok"
	case errors.As(verr, &re):
		return "response_error"
	default:
		return "other_error"
	}
}

// c08Build realises one abstract response (document loaded through the real loader, route found by the real router,
// header set, body bytes) as a ResponseValidationInput; it does not call the validator.
func c08Build(tcp *c08Case) (*openapi3filter.ResponseValidationInput, []byte, error) {
	tc := *tcp
	responses := map[string]any{}
	var components map[string]any
	status := 200
	method := "GET"
	hdr := http.Header{}
	var body []byte
	opts := &openapi3filter.Options{}
	jsonContent := func(schema any) map[string]any {
		return map[string]any{"application/json": map[string]any{"schema": schema}}
	}
	if tc.Part == "media" {
		// the definition's content map has the keys as given (possibly with parameters); entry i wants the marker m<i>
		content := map[string]any{}
		for i, k := range tc.Keys {
			content[k] = map[string]any{"schema": map[string]any{"type": "object", "required": []any{"m" + strconv.Itoa(i+1)}}}
		}
		responses["200"] = map[string]any{"description": "ok", "content": content}
		if tc.CtText != "" {
			hdr.Set("Content-Type", tc.CtText)
		}
		body = []byte(`{"m` + strconv.Itoa(tc.Mark) + `":1}`)
		opts.MultiError = tc.Multi
	} else if tc.Part == "pick" {
		for _, k := range tc.Keys {
			responses[k] = map[string]any{"description": k,
				"content": jsonContent(map[string]any{"type": "object", "required": []any{"e" + k}})}
			if tc.Pv == "reqhdr" {
				responses[k].(map[string]any)["headers"] = map[string]any{"X-Req": map[string]any{"required": true, "schema": map[string]any{"type": "string"}}}
			}
		}
		opts.ExcludeResponseBody = tc.Pv == "xb"
		status, method = tc.Status, tc.Method
		hdr.Set("Content-Type", "application/json")
		body = []byte(`{"e` + tc.BodyKey + `":1}`)
		if tc.Pad != "" {
			body = []byte(`{"e` + tc.BodyKey + `":1,"n":"` + tc.Pad + `"}`)
		}
		opts.IncludeResponseStatus = tc.IncludeStatus
	} else {
		r := map[string]any{"description": "ok"}
		intS := map[string]any{"type": "integer"}
		switch tc.Hd {
		case "intReq":
			r["headers"] = map[string]any{"X-A": map[string]any{"required": true, "schema": intS}}
		case "intOpt":
			r["headers"] = map[string]any{"X-A": map[string]any{"schema": intS}}
		case "arrOpt":
			r["headers"] = map[string]any{"X-A": map[string]any{"schema": map[string]any{"type": "array", "items": intS}}}
		case "contentReq":
			r["headers"] = map[string]any{"X-A": map[string]any{"required": true, "content": map[string]any{"application/json": map[string]any{"schema": intS}}}}
		case "contentOpt":
			r["headers"] = map[string]any{"X-A": map[string]any{"content": map[string]any{"application/json": map[string]any{"schema": intS}}}}
		case "objExp", "objNoExp":
			r["headers"] = map[string]any{"X-A": map[string]any{"explode": tc.Hd == "objExp", "schema": map[string]any{"type": "object", "required": []any{"a"},
				"properties": map[string]any{"a": intS, "b": map[string]any{"type": "integer", "maximum": 5}}}}}
		case "arrMax1":
			r["headers"] = map[string]any{"X-A": map[string]any{"schema": map[string]any{"type": "array", "items": intS, "maxItems": 1}}}
		}
		reqList := []any{"q", "w"}
		if tc.Req == "qrw" {
			reqList = []any{"q", "r", "w"}
		}
		bodySchema := map[string]any{"type": "object", "required": reqList, "properties": map[string]any{
			"q": intS, "r": map[string]any{"type": "string", "readOnly": true}, "w": map[string]any{"type": "string", "writeOnly": true}}}
		switch inner := bodySchema; tc.Wrap {
		case "anyOf":
			bodySchema = map[string]any{"anyOf": []any{map[string]any{"type": "boolean"}, inner}}
		case "oneOf":
			bodySchema = map[string]any{"oneOf": []any{inner, map[string]any{"type": "boolean"}}}
		case "allOf":
			bodySchema = map[string]any{"allOf": []any{map[string]any{"type": "object"}, inner}}
		case "items":
			bodySchema = map[string]any{"type": "array", "items": inner}
		case "itemsAnyOf":
			bodySchema = map[string]any{"type": "array", "items": map[string]any{"anyOf": []any{inner}}}
		case "prop":
			bodySchema = map[string]any{"type": "object", "properties": map[string]any{"in": inner}}
		}
		textSchema := map[string]any{"type": "string", "minLength": 2}
		switch tc.Decl {
		case "json":
			r["content"] = jsonContent(bodySchema)
		case "jsonNoSchema":
			r["content"] = map[string]any{"application/json": map[string]any{}}
		case "text":
			r["content"] = map[string]any{"text/plain": map[string]any{"schema": textSchema}}
		case "wild":
			r["content"] = map[string]any{"application/*": map[string]any{"schema": bodySchema}}
		case "jsonAndText":
			r["content"] = map[string]any{"application/json": map[string]any{"schema": bodySchema}, "text/plain": map[string]any{"schema": textSchema}}
		case "any":
			r["content"] = map[string]any{"*/*": map[string]any{"schema": bodySchema}}
		}
		if tc.Part == "hdr" {
			hs := map[string]any{}
			for _, h := range tc.Hdrs {
				hs[h.Name] = map[string]any{"required": h.Hreq, "explode": h.Explode, "schema": absSchemaToOpenAPI(h.Hs)}
				if h.Present {
					// as net/http stores a received header: canonical key, one field line, the text as sent (possibly empty)
					hdr[http.CanonicalHeaderKey(h.Name)] = []string{h.Text}
					if h.Cs2 != nil {
						hdr[http.CanonicalHeaderKey(h.Name)] = []string{h.Text, h.Text2}
					}
				}
			}
			r["headers"] = hs
			if tc.Extra {
				hdr.Set("X-Undeclared", "zzz")
			}
		}
		responses["200"] = r
		if tc.Variant == "ref" {
			// the same definition, every part of it reached through a reference
			comps := map[string]any{"responses": map[string]any{"R": r}}
			responses["200"] = map[string]any{"$ref": "#/components/responses/R"}
			if hs, ok := r["headers"].(map[string]any); ok {
				ch := map[string]any{}
				for name, h := range hs {
					id := "H" + strings.ReplaceAll(name, "-", "")
					ch[id] = h
					hs[name] = map[string]any{"$ref": "#/components/headers/" + id}
				}
				comps["headers"] = ch
			}
			if ct, ok := r["content"].(map[string]any); ok {
				cs := map[string]any{}
				for mt, m := range ct {
					if mm, ok := m.(map[string]any); ok && mm["schema"] != nil {
						id := "S" + strings.NewReplacer("/", "", "*", "x", "+", "").Replace(mt)
						cs[id] = mm["schema"]
						mm["schema"] = map[string]any{"$ref": "#/components/schemas/" + id}
					}
				}
				comps["schemas"] = cs
			}
			components = comps
		}
		if tc.Part != "hdr" && tc.Hv != "absent" {
			hdr.Set("X-A", tc.Hv)
		}
		if tc.CtText != "" {
			hdr.Set("Content-Type", tc.CtText)
		}
		bm := tc.Body.(map[string]any)
		if bm["t"] == "str" {
			body = []byte(csToString(bm["cs"]))
		} else if bm["t"] == "raw" {
			body = []byte(bm["s"].(string))
		} else {
			body = []byte(taggedToJSONText(tc.Body))
		}
		opts.ExcludeResponseBody, opts.ExcludeWriteOnlyValidations, opts.MultiError = tc.ExcludeBody, tc.ExcludeWO, tc.Multi
	}
	op := map[string]any{"responses": responses}
	doc := map[string]any{"openapi": "3.0.3", "info": map[string]any{"title": "t", "version": "1"},
		"paths": map[string]any{"/t": map[string]any{"get": op, "head": op}}}
	if components != nil {
		doc["components"] = components
	}
	data, _ := json.Marshal(doc)
	d, err := openapi3.NewLoader().LoadFromData(data)
	if err == nil {
		err = d.Validate(context.Background())
	}
	if err != nil {
		return nil, nil, err
	}
	router, err := gorillamux.NewRouter(d)
	if err != nil {
		panic(err)
	}
	req := httptest.NewRequest(method, "/t", nil)
	route, pp, err := router.FindRoute(req)
	if err != nil {
		panic("harness: c08 route: " + err.Error())
	}
	in := &openapi3filter.ResponseValidationInput{
		RequestValidationInput: &openapi3filter.RequestValidationInput{Request: req, PathParams: pp, Route: route, Options: opts},
		Status:                 status, Header: hdr, Body: io.NopCloser(bytes.NewReader(body)), Options: opts}
	if tc.Variant == "nilopts" {
		in.Options, in.RequestValidationInput.Options = nil, nil
	}
	return in, body, nil
}

func init() {
	drivers["C08"] = &Driver{Run: c08Run, Abnormal: func(c *Case, kind string) []any {
		var raw map[string]any
		c.Decode(&raw)
		return []any{map[string]any{"case": c.Idx, "c": raw, "doc": "ok", "verdict": kind, "sent": "", "after": ""}}
	}}
}
