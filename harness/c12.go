package main

import (
	"encoding/json"
	"errors"
	"fmt"
	"os"
	"strconv"
	"sync"

	"github.com/getkin/kin-openapi/openapi3"
)

// C12 / C19: every schema is run on every value in default, fail-fast and multi-error mode, with and
// without a message customiser, and through IsMatching.  Logged per value: the verdicts and, for each
// error returned directly or as a direct member of a MultiError, its JSON pointer, schema field and
// quoted value (tagged) -- C12; plus, for C19, every Reason found at any nesting level of the error
// tree and the assembled Error() text (with SchemaErrorDetailsDisabled), as character sequences.

func runeSeq(s string) []any {
	r := []any{}
	for _, c := range s {
		if c == []rune(astral)[0] {
			r = append(r, "U")
		} else {
			r = append(r, string(c))
		}
	}
	return r
}

// collectReasons walks the whole error tree.
func collectReasons(err error, out *[]any, depth int) {
	if err == nil || depth > 50 {
		return
	}
	switch e := err.(type) {
	case *openapi3.SchemaError:
		*out = append(*out, runeSeq(e.Reason))
		collectReasons(e.Origin, out, depth+1)
		return
	case openapi3.MultiError:
		for _, m := range e {
			collectReasons(m, out, depth+1)
		}
		return
	}
	if u, ok := err.(interface{ Unwrap() error }); ok {
		collectReasons(u.Unwrap(), out, depth+1)
		return
	}
	if u, ok := err.(interface{ Unwrap() []error }); ok {
		for _, m := range u.Unwrap() {
			collectReasons(m, out, depth+1)
		}
	}
}

func projectTopErrors(err error, withText bool) []any {
	res := []any{}
	one := func(e error) {
		var se *openapi3.SchemaError
		if s, ok := e.(*openapi3.SchemaError); ok {
			se = s
		}
		if se == nil {
			m := T{"k": "other"}
			if withText {
				rs := []any{}
				collectReasons(e, &rs, 0)
				m["reasons"] = rs
				m["text"] = runeSeq(e.Error())
			}
			res = append(res, m)
			return
		}
		ptr := []any{}
		for _, p := range se.JSONPointer() {
			ptr = append(ptr, p)
		}
		// reading the pointer (and rendering the message) must not change it
		_ = se.Error()
		ptr2 := []any{}
		for _, p := range se.JSONPointer() {
			ptr2 = append(ptr2, p)
		}
		m := T{"k": "schema", "field": se.SchemaField, "ptr": ptr, "ptr2": ptr2}
		if t, ok := goToTagged(se.Value); ok {
			m["val"] = t
		} else {
			m["valkind"] = "untaggable"
		}
		if withText {
			rs := []any{}
			collectReasons(se, &rs, 0)
			m["reasons"] = rs
			m["text"] = runeSeq(se.Error())
		}
		res = append(res, m)
	}
	if me, ok := err.(openapi3.MultiError); ok {
		for _, e := range me {
			one(e)
		}
	} else if err != nil {
		one(err)
	}
	return res
}

// reasonsOnly blanks the rendered message of projected errors (kept: the Reason fields at every nesting level)
func reasonsOnly(es []any) []any {
	for _, e := range es {
		if m, ok := e.(T); ok {
			m["text"] = []any{}
		}
	}
	return es
}

// typedSlices converts homogeneous []any of strings / objects into []string / []map[string]any, recursively.
func typedSlices(v any) (any, bool) {
	switch x := v.(type) {
	case []any:
		changed := false
		items := make([]any, len(x))
		for i, e := range x {
			var c bool
			items[i], c = typedSlices(e)
			changed = changed || c
		}
		if len(x) > 0 {
			allStr, allObj := true, true
			for _, e := range items {
				if _, ok := e.(string); !ok {
					allStr = false
				}
				if _, ok := e.(map[string]any); !ok {
					allObj = false
				}
			}
			if allStr {
				out := make([]string, len(items))
				for i, e := range items {
					out[i] = e.(string)
				}
				return out, true
			}
			if allObj {
				out := make([]map[string]any, len(items))
				for i, e := range items {
					out[i] = e.(map[string]any)
				}
				return out, true
			}
		}
		return items, changed
	case map[string]any:
		changed := false
		out := make(map[string]any, len(x))
		for k, e := range x {
			var c bool
			out[k], c = typedSlices(e)
			changed = changed || c
		}
		return out, changed
	}
	return v, false
}

func runMode(schema *openapi3.Schema, v any, opts ...openapi3.SchemaValidationOption) (string, error) {
	var err error
	p, _ := guard(func() { err = schema.VisitJSON(v, opts...) })
	if p {
		return "P", nil
	}
	if err != nil {
		return "R", err
	}
	return "A", nil
}

// The option sets of spec/Gen_C19O.tla (opts.ndjson, written by TLC): each a sequence of option names.
type optSet struct {
	Opts      []string `json:"opts"`
	Base      []any    `json:"base"`
	NoDetails bool     `json:"nodetails"`
}

var sharedOpts = sync.OnceValue(func() []optSet {
	path := os.Getenv("VERIF_OPTS")
	if path == "" {
		return nil
	}
	raws, err := readCases(path)
	if err != nil {
		panic(err)
	}
	var res []optSet
	for _, r := range raws {
		var raw struct {
			Opts      any  `json:"opts"`
			Base      any  `json:"base"`
			NoDetails bool `json:"nodetails"`
		}
		if err := json.Unmarshal(r, &raw); err != nil {
			panic(err)
		}
		o := optSet{NoDetails: raw.NoDetails, Opts: []string{}, Base: append([]any{}, asSlice(raw.Base)...)}
		for _, n := range asSlice(raw.Opts) {
			o.Opts = append(o.Opts, n.(string))
		}
		res = append(res, o)
	}
	return res
})

// optsSelected: the option sets are run on every VERIF_OPTS_EVERY-th (schema, value) pair -- a seeded slice of the
// product (schema x value x option set); which pairs is a function of the case index, the value index and the seed.
var optsEvery = sync.OnceValue(func() int {
	n, err := strconv.Atoi(os.Getenv("VERIF_OPTS_EVERY"))
	if err != nil || n < 1 {
		return 1
	}
	return n
})

func optsSelected(c *Case, i int) bool {
	n := optsEvery()
	return (c.Idx+i)%n == int(c.Seed%int64(n)+int64(n))%n
}

var reasonOnlyCustomizer = openapi3.SetSchemaErrorMessageCustomizer(func(e *openapi3.SchemaError) string {
	if e.Reason == "" {
		return "schema error"
	}
	return e.Reason
})

// realiseOpts: option names -> the library's options, in the order given.
func realiseOpts(names []string) (opts []openapi3.SchemaValidationOption, directed bool) {
	for _, n := range names {
		switch n {
		case "failfast":
			opts = append(opts, openapi3.FailFast())
		case "multi":
			opts = append(opts, openapi3.MultiErrors())
		case "asreq":
			opts = append(opts, openapi3.VisitAsRequest(), openapi3.DefaultsSet(func() {}))
			directed = true
		case "asrep":
			opts = append(opts, openapi3.VisitAsResponse(), openapi3.DefaultsSet(func() {}))
			directed = true
		case "formats":
			opts = append(opts, openapi3.EnableFormatValidation())
		case "nopattern":
			opts = append(opts, openapi3.DisablePatternValidation())
		case "custom":
			opts = append(opts, reasonOnlyCustomizer)
		default:
			panic("harness: unknown option name " + n)
		}
	}
	return
}

type c12Case struct {
	S     any   `json:"s"`
	Vals  []any `json:"vals"`
	Share bool  `json:"share"` // repeated sub-schemas are shared components (harness/c01.go shareAbs)
}

var c12Formats sync.Once

func c12RunWith(c *Case, withText bool) []any {
	// the opt-in and caller-defined string formats of the universe (process-wide registry)
	c12Formats.Do(func() {
		openapi3.DefineIPv4Format()
		openapi3.DefineIPv6Format()
		openapi3.DefineStringFormatValidator("x-wrapped", openapi3.NewCallbackValidator(func(s string) error {
			if err := openapi3.NewIPValidator(true).Validate(s); err != nil {
				return fmt.Errorf("endpoint address: %w", err)
			}
			return nil
		}))
		// a caller's validator for strings that hold a JSON document: it checks the decoded document against a schema of
		// its own and hands the library's schema error (which has a path INSIDE that document) back
		inner := openapi3.NewObjectSchema().WithProperty("a", openapi3.NewStringSchema())
		openapi3.DefineStringFormatValidator("x-nested", openapi3.NewCallbackValidator(func(s string) error {
			var doc any
			if err := json.Unmarshal([]byte(s), &doc); err != nil {
				return errors.New("not a JSON document")
			}
			return inner.VisitJSON(doc)
		}))
		openapi3.DefineStringFormatValidator("x-even-length", openapi3.NewCallbackValidator(func(s string) error {
			if len(s)%2 != 0 {
				return errors.New("odd length")
			}
			return nil
		}))
	})
	var tc c12Case
	c.Decode(&tc)
	line := map[string]any{"case": c.Idx, "s": tc.S}
	if tc.Share {
		line["share"] = true
	}
	schema, _, err := loadSchemaShared(tc.S, tc.Share)
	if err != nil {
		line["load"] = "error"
		return []any{line}
	}
	line["load"] = "ok"
	vals := sharedVals()
	if tc.Vals != nil {
		vals = nil
		for _, t := range tc.Vals {
			text := taggedToJSONText(t)
			vals = append(vals, valForm{tagged: t, f64: decodeJSONText(text, false), num: decodeJSONText(text, true)})
		}
		line["vals"] = tc.Vals
	}
	custom := openapi3.SetSchemaErrorMessageCustomizer(func(e *openapi3.SchemaError) string { return "custom:" + e.SchemaField })
	rs := []any{}
	for vi, v := range vals {
		r := map[string]any{}
		var de, me error
		// json.Number is what the request/response decoders feed to the validator
		r["d"], de = runMode(schema, v.num)
		r["f"], _ = runMode(schema, v.num, openapi3.FailFast())
		r["m"], me = runMode(schema, v.num, openapi3.MultiErrors())
		r["dc"], _ = runMode(schema, v.num, custom)
		r["mc"], _ = runMode(schema, v.num, openapi3.MultiErrors(), custom)
		r["im"] = boolVerdict(func() bool { return schema.IsMatching(v.num) })
		r["df"], _ = runMode(schema, v.f64)
		// the request-side and response-side readings, in the three modes
		var qde, qme, pde, pme error
		// the directed readings install defaults into the value (as the request / response validators ask them to):
		// every run gets a copy of its own
		fresh := func() any { return decodeJSONText(taggedToJSONText(v.tagged), true) }
		dset := openapi3.DefaultsSet(func() {})
		qdv, qmv, pdv, pmv := fresh(), fresh(), fresh(), fresh()
		r["qd"], qde = runMode(schema, qdv, openapi3.VisitAsRequest(), dset)
		r["qf"], _ = runMode(schema, fresh(), openapi3.VisitAsRequest(), dset, openapi3.FailFast())
		r["qm"], qme = runMode(schema, qmv, openapi3.VisitAsRequest(), dset, openapi3.MultiErrors())
		r["pd"], pde = runMode(schema, pdv, openapi3.VisitAsResponse(), dset)
		r["pf"], _ = runMode(schema, fresh(), openapi3.VisitAsResponse(), dset, openapi3.FailFast())
		r["pm"], pme = runMode(schema, pmv, openapi3.VisitAsResponse(), dset, openapi3.MultiErrors())
		// the value as the directed reading left it (with the defaults it installed): what its errors point into
		completed := func(key string, x any) {
			if t, ok := goToTagged(x); ok {
				r[key] = t
			}
		}
		if !withText {
			// the errors of the two directed readings, where the directed reading rejects what the plain one accepts
			// (the read-only / write-only rules): they must point at the data like any other schema error
			if r["qd"] == "R" && r["d"] == "A" {
				r["qde"] = projectTopErrors(qde, false)
				r["qme"] = projectTopErrors(qme, false)
				completed("qdev", qdv)
				completed("qmev", qmv)
			}
			if r["pd"] == "R" && r["d"] == "A" {
				r["pde"] = projectTopErrors(pde, false)
				r["pme"] = projectTopErrors(pme, false)
				completed("pdev", pdv)
				completed("pmev", pmv)
			}
		}
		// with an option that changes what is checked: it must reach every subschema in every mode
		r["nd"], _ = runMode(schema, v.num, openapi3.DisablePatternValidation())
		r["nf"], _ = runMode(schema, v.num, openapi3.DisablePatternValidation(), openapi3.FailFast())
		r["nm"], _ = runMode(schema, v.num, openapi3.DisablePatternValidation(), openapi3.MultiErrors())
		r["ed"], _ = runMode(schema, v.num, openapi3.EnableFormatValidation())
		r["ef"], _ = runMode(schema, v.num, openapi3.EnableFormatValidation(), openapi3.FailFast())
		r["em"], _ = runMode(schema, v.num, openapi3.EnableFormatValidation(), openapi3.MultiErrors())
		if !withText && optsSelected(c, vi) {
			// every option set of spec/Gen_C19O.tla; logged per base (the options that may change what is checked): the
			// verdicts observed over all mode / customiser sequences with that base, each with the first sequence that gave it
			type group struct {
				base []any
				vs   []any
				by   []any
			}
			groups := map[string]*group{}
			order := []string{}
			for _, oset := range sharedOpts() {
				opts, directed := realiseOpts(oset.Opts)
				var val any = v.num
				if directed {
					val = fresh()
				}
				verd, _ := runMode(schema, val, opts...)
				bk, _ := json.Marshal(oset.Base)
				g := groups[string(bk)]
				if g == nil {
					g = &group{base: oset.Base}
					groups[string(bk)] = g
					order = append(order, string(bk))
				}
				known := false
				for _, x := range g.vs {
					known = known || x == verd
				}
				if !known {
					names := []any{}
					for _, n := range oset.Opts {
						names = append(names, n)
					}
					g.vs = append(g.vs, verd)
					g.by = append(g.by, names)
				}
			}
			if len(order) > 0 {
				xg := []any{}
				for _, k := range order {
					g := groups[k]
					xg = append(xg, T{"base": g.base, "vs": g.vs, "by": g.by})
				}
				r["xg"] = xg
			}
		}
		if !withText && r["d"] == "A" && r["m"] == "A" {
			// nothing to report for an accepted value
		} else {
			r["de"] = projectTopErrors(de, withText)
			r["me"] = projectTopErrors(me, withText)
		}
		if withText {
			var fe error
			_, fe = runMode(schema, v.num, openapi3.FailFast())
			r["fe"] = projectTopErrors(fe, withText)
			// a reason-only message customiser with schema error details left enabled
			reasonOnly := openapi3.SetSchemaErrorMessageCustomizer(func(e *openapi3.SchemaError) string {
				if e.Reason == "" {
					return "schema error"
				}
				return e.Reason
			})
			openapi3.SchemaErrorDetailsDisabled = false
			var ce, cme, te error
			_, ce = runMode(schema, v.num, reasonOnly)
			_, cme = runMode(schema, v.num, reasonOnly, openapi3.MultiErrors())
			r["ce"] = projectTopErrors(ce, withText)
			r["cme"] = projectTopErrors(cme, withText)
			// the same customiser through the request-side and response-side readings (the read-only / write-only rules)
			var qce, pce error
			_, qce = runMode(schema, fresh(), reasonOnly, openapi3.VisitAsRequest(), openapi3.MultiErrors())
			_, pce = runMode(schema, fresh(), reasonOnly, openapi3.VisitAsResponse(), openapi3.MultiErrors())
			r["qce"] = projectTopErrors(qce, withText)
			r["pce"] = projectTopErrors(pce, withText)
			// details enabled and no customiser: the messages may quote the value, the Reason fields still may not
			var re, rme error
			_, re = runMode(schema, v.num)
			_, rme = runMode(schema, v.num, openapi3.MultiErrors())
			r["re"] = reasonsOnly(projectTopErrors(re, withText))
			r["rme"] = reasonsOnly(projectTopErrors(rme, withText))
			// HISTORY on one error object (the detail switch is process-wide state): the error is rendered while details
			// are enabled (a log line, say), then the switch is set, then the same error object is rendered again -- by
			// itself and through its container.  What is projected below is the second rendering.
			var he, hme error
			_, he = runMode(schema, v.num)
			_, hme = runMode(schema, v.num, openapi3.MultiErrors())
			for _, e := range []error{he, hme} {
				if e != nil {
					guard(func() { _ = e.Error() })
				}
			}
			openapi3.SchemaErrorDetailsDisabled = true
			whole := func(e error) []any {
				es := projectTopErrors(e, withText)
				if e != nil {
					var txt string
					guard(func() { txt = e.Error() })
					es = append(es, T{"k": "whole", "reasons": []any{}, "text": runeSeq(txt)})
				}
				return es
			}
			r["he"] = whole(he)
			r["hme"] = whole(hme)
			// the same value with typed Go slices ([]string, []map[string]any), as user code or a custom decoder may pass
			if tv, changed := typedSlices(v.f64); changed {
				_, te = runMode(schema, tv, reasonOnly)
				r["te"] = projectTopErrors(te, withText)
				_, te = runMode(schema, tv, reasonOnly, openapi3.MultiErrors())
				r["tme"] = projectTopErrors(te, withText)
			}
			openapi3.SchemaErrorDetailsDisabled = true
			// the option sets of spec/Gen_C19O.tla; runs that report the very same errors are logged once, with
			// the list of option sets that produced them (no judgement here: identical observations are merged)
			if (r["d"] != "A" || r["qd"] != "A" || r["pd"] != "A") && optsSelected(c, vi) {
				byObs := map[string]int{}
				xs := []any{}
				for _, oset := range sharedOpts() {
					opts, directed := realiseOpts(oset.Opts)
					var val any = v.num
					if directed {
						val = fresh()
					}
					openapi3.SchemaErrorDetailsDisabled = oset.NoDetails
					verd, xe := runMode(schema, val, opts...)
					var errs []any
					if verd == "P" {
						errs = []any{T{"k": "panic", "reasons": []any{}, "text": []any{}}}
					} else {
						errs = projectTopErrors(xe, true)
					}
					openapi3.SchemaErrorDetailsDisabled = true
					if len(errs) == 0 {
						continue
					}
					names := []any{}
					for _, n := range oset.Opts {
						names = append(names, n)
					}
					if oset.NoDetails {
						names = append(names, "nodetails")
					}
					key, _ := json.Marshal(errs)
					if i, seen := byObs[string(key)]; seen {
						x := xs[i].(T)
						x["opts"] = append(x["opts"].([]any), names)
					} else {
						byObs[string(key)] = len(xs)
						xs = append(xs, T{"opts": []any{names}, "errs": errs})
					}
				}
				if len(xs) > 0 {
					r["x"] = xs
				}
			}
		}
		rs = append(rs, r)
	}
	line["r"] = rs
	return []any{line}
}

func init() {
	abn := func(c *Case, kind string) []any {
		var tc c12Case
		c.Decode(&tc)
		line := map[string]any{"case": c.Idx, "s": tc.S, "load": kind}
		if tc.Share {
			line["share"] = true
		}
		return []any{line}
	}
	drivers["C12"] = &Driver{Run: func(c *Case) []any { return c12RunWith(c, false) }, Abnormal: abn}
	drivers["C19"] = &Driver{Run: func(c *Case) []any {
		openapi3.SchemaErrorDetailsDisabled = true
		return c12RunWith(c, true)
	}, Abnormal: abn}
	_ = json.Marshal
	_ = errors.New
	_ = os.Getenv
}
