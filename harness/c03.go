package main

import (
	"encoding/json"
	"flag"
	"fmt"
	"net/url"
	"os"
	"path/filepath"
	"regexp"
	"sort"
	"strings"

	"github.com/getkin/kin-openapi/openapi2"
	"github.com/getkin/kin-openapi/openapi3"
	oyaml "github.com/oasdiff/yaml"
	yaml3 "github.com/oasdiff/yaml3"
)

// C03: a case is a complete OpenAPI 3 or OpenAPI 2 document (tagged JSON, built by TLC from the
// field catalogue in spec/DocModel.tla).  The driver renders it as JSON text and takes it through
// the library's readers and writers:
//
//	j1  input (JSON) -> parse -> json.Marshal
//	j2  j1 -> parse -> json.Marshal
//	ja  parsed input -> github.com/oasdiff/yaml Marshal (the YAML writer the library itself uses,
//	    it goes through MarshalJSON) -> parse (YAML reader) -> json.Marshal
//	jb  parsed input -> yaml.v3-style Marshal (github.com/oasdiff/yaml3: calls the MarshalYAML
//	    methods directly) -> parse -> json.Marshal                       (OpenAPI 3 only)
//	ji  input converted to YAML text -> parse (YAML reader) -> json.Marshal
//
// "parse" is Loader.LoadFromData for OpenAPI 3 and json.Unmarshal / yaml.Unmarshal into openapi2.T
// for OpenAPI 2 (openapi2 has no loader).  The OpenAPI 3 loader allows external references and
// reads them through ReadFromURIFunc from an in-memory table that the case itself carries ("ext":
// resource name -> document, built by TLC: ext/<Kind>.json = a bare object of the kind,
// ext/doc.json = a document with one target per collection); nothing touches the file system.
// LoadFromData has no base location, so a relative reference reaches the reader unchanged.  Every result is projected back to
// tagged JSON and logged next to the input as realised; TLC (spec/Trace_C03.tla) judges.

type c03Case struct {
	D   any         `json:"d"`
	Ver json.Number `json:"ver"`
	Doc any         `json:"doc"`
	Ext any         `json:"ext"` // optional: sequence of {name, doc}: the external resources
	// Hist: how the document reaches the library.  entry "fresh" (or absent): a document line -- every reader gets a
	// fresh receiver.  Otherwise a history line: ONE receiver (a T value, or a Loader) is filled with the prior
	// documents, in order, and then with the document under test; entry names the way it is filled.
	Hist *c03Hist `json:"hist"`
}

type c03Hist struct {
	Entry string `json:"entry"`
	Prior []struct {
		Name string `json:"name"`
		Doc  any    `json:"doc"`
	} `json:"prior"`
	Frag any `json:"frag"` // kind-level entries ("kind", "wrap"): the bare object under test
}

func (h *c03Hist) isKindLevel() bool { return h != nil && (h.Entry == "kind" || h.Entry == "wrap") }

func (h *c03Hist) isHistory() bool { return h != nil && h.Entry != "" && h.Entry != "fresh" }

func (h *c03Hist) echo() any {
	if h == nil {
		return T{"entry": "fresh", "prior": []any{}}
	}
	prior := []any{}
	for _, p := range h.Prior {
		in, ok := c03Project([]byte(c03Text(p.Doc)))
		if !ok {
			panic("harness: cannot project own prior document")
		}
		prior = append(prior, T{"name": p.Name, "doc": in})
	}
	res := T{"entry": h.Entry, "prior": prior}
	if h.Frag != nil {
		in, ok := c03Project([]byte(c03Text(h.Frag)))
		if !ok {
			panic("harness: cannot project own object")
		}
		res["frag"] = in
	}
	return res
}

// c03Table renders the case's external resources as JSON text, keyed by resource name.
func c03Table(ext any) map[string][]byte {
	table := map[string][]byte{}
	for _, e := range asSlice(ext) {
		m := e.(map[string]any)
		table[m["name"].(string)] = []byte(c03Text(m["doc"]))
	}
	return table
}

func c03ExtEcho(ext any) any {
	if s := asSlice(ext); len(s) != 0 {
		return s
	}
	return []any{}
}

// c03Loader: a fresh loader that resolves external references from the table only.
// A document loaded with a base location (LoadFromDataWithPath, "/w/d/root<n>.json": the documents of one history
// sit side by side, so that they ask for the same external resources) asks for its resources below that
// directory: the table is keyed by the part from "ext/" on.
func c03Loader(table map[string][]byte) *openapi3.Loader {
	loader := openapi3.NewLoader()
	loader.IsExternalRefsAllowed = true
	loader.ReadFromURIFunc = func(_ *openapi3.Loader, location *url.URL) ([]byte, error) {
		name := location.String()
		if strings.HasPrefix(name, "/w/") {
			if i := strings.Index(name, "/ext/"); i >= 0 {
				name = name[i+1:]
			}
		}
		if data, ok := table[name]; ok {
			return data, nil
		}
		return nil, fmt.Errorf("harness: no external resource %q", location.String())
	}
	return loader
}

func c03Location(n int) *url.URL { return &url.URL{Path: fmt.Sprintf("/w/d/root%d.json", n)} }

func c03Run(c *Case) []any {
	var tc c03Case
	c.Decode(&tc)
	ver := asInt(tc.Ver)
	line := map[string]any{"case": c.Idx, "d": tc.D, "ver": ver, "c": tc.Doc, "ext": c03ExtEcho(tc.Ext), "hist": tc.Hist.echo()}
	text := c03Text(tc.Doc)
	in, ok := c03Project([]byte(text))
	if !ok {
		panic("harness: cannot project own input " + text)
	}
	line["in"] = in
	if tc.Hist.isKindLevel() {
		kind, _ := tc.D.(map[string]any)["kind"].(string)
		line["obs"] = c03KindHistory(ver, kind, []byte(text), c03Table(tc.Ext), tc.Hist)
	} else if tc.Hist.isHistory() {
		line["obs"] = c03History(ver, []byte(text), c03Table(tc.Ext), tc.Hist)
	} else if ver == 3 {
		line["obs"] = c03Trips3([]byte(text), c03Table(tc.Ext))
	} else {
		line["obs"] = c03Trips2([]byte(text))
	}
	return []any{line}
}

func c03Abnormal(c *Case, kind string) []any {
	var tc c03Case
	c.Decode(&tc)
	text := c03Text(tc.Doc)
	in, _ := c03Project([]byte(text))
	bad := T{"ok": false, "err": kind}
	obs := T{"j1": bad}
	if tc.Hist.isHistory() {
		obs["jh"], obs["pr"] = bad, []any{}
	} else {
		for _, n := range []string{"j2", "ja", "ji", "ju", "jm"} {
			obs[n] = bad
		}
	}
	return []any{map[string]any{"case": c.Idx, "d": tc.D, "ver": asInt(tc.Ver), "c": tc.Doc, "in": in, "ext": c03ExtEcho(tc.Ext),
		"hist": tc.Hist.echo(), "obs": obs}}
}

// c03Trip runs one codec path; stage names classify failures (never by message text).
func c03Trip(f func(stage *string) []byte) any {
	stage := "start"
	var out []byte
	if p, msg := guard(func() { out = f(&stage) }); p {
		return T{"ok": false, "err": "panic", "stage": stage, "msg": c03Clip(msg)}
	}
	if out == nil {
		return T{"ok": false, "err": stage}
	}
	v, ok := c03Project(out)
	if !ok {
		return T{"ok": false, "err": "unrepresentable"}
	}
	return T{"ok": true, "v": v}
}

func c03Clip(s string) string {
	s = c03PlainOnly(s)
	if len(s) > 200 {
		s = s[:200]
	}
	return s
}

type c03Fail struct{ msg string }

// c03UnquoteIntKeys rewrites block-style mapping keys that are quoted decimal integers without a leading zero
// ("200": -> 200:), whatever their depth; values and sequence items are left alone.
var c03IntKey = regexp.MustCompile(`(?m)^(\s*(?:- )*)"([1-9][0-9]{0,8})":( |$)`)

func c03UnquoteIntKeys(y []byte) []byte { return c03IntKey.ReplaceAll(y, []byte("$1$2:$3")) }

func c03Trips3(text []byte, table map[string][]byte) any {
	load := func(data []byte) (*openapi3.T, error) { return c03Loader(table).LoadFromData(data) }
	obs := T{}
	var doc1 *openapi3.T
	var b1 []byte
	msgs := T{}
	step := func(name string, f func(stage *string) ([]byte, error)) {
		obs[name] = c03Trip(func(stage *string) []byte {
			b, err := f(stage)
			if err != nil {
				msgs[name] = c03Clip(err.Error())
				return nil
			}
			return b
		})
	}
	step("j1", func(stage *string) ([]byte, error) {
		*stage = "load"
		d, err := load(text)
		if err != nil {
			return nil, err
		}
		doc1 = d
		*stage = "marshal"
		b, err := json.Marshal(d)
		if err == nil {
			b1 = b
		}
		return b, err
	})
	if doc1 == nil || b1 == nil {
		skip := T{"ok": false, "err": "no_first_trip"}
		obs["j2"], obs["ja"], obs["jb"], obs["ji"] = skip, skip, skip, skip
	} else {
		reload := func(stage *string, data []byte, err error) ([]byte, error) {
			if err != nil {
				return nil, err
			}
			*stage = "load"
			d, err := load(data)
			if err != nil {
				return nil, err
			}
			*stage = "marshal"
			return json.Marshal(d)
		}
		step("j2", func(stage *string) ([]byte, error) { return reload(stage, b1, nil) })
		step("ja", func(stage *string) ([]byte, error) {
			*stage = "yaml_marshal"
			y, err := oyaml.Marshal(doc1)
			return reload(stage, y, err)
		})
		step("jb", func(stage *string) ([]byte, error) {
			*stage = "yaml_marshal"
			y, err := yaml3.Marshal(doc1)
			return reload(stage, y, err)
		})
		step("ji", func(stage *string) ([]byte, error) {
			*stage = "to_yaml"
			y, err := oyaml.JSONToYAML(text)
			return reload(stage, y, err)
		})
		// other readers, each with a fresh receiver: json.Unmarshal / yaml.Unmarshal into an openapi3.T without a
		// loader (references stay unresolved: they are written as they were read), a loader given a base location,
		// a loader reading a stream
		step("ju", func(stage *string) ([]byte, error) {
			*stage = "load"
			var d openapi3.T
			if err := json.Unmarshal(text, &d); err != nil {
				return nil, err
			}
			*stage = "marshal"
			return json.Marshal(&d)
		})
		step("jyu", func(stage *string) ([]byte, error) {
			*stage = "to_yaml"
			y, err := oyaml.JSONToYAML(text)
			if err != nil {
				return nil, err
			}
			*stage = "load"
			var d openapi3.T
			if err := oyaml.Unmarshal(y, &d); err != nil {
				return nil, err
			}
			*stage = "marshal"
			return json.Marshal(&d)
		})
		step("jp", func(stage *string) ([]byte, error) {
			*stage = "load"
			d, err := c03Loader(table).LoadFromDataWithPath(text, c03Location(0))
			if err != nil {
				return nil, err
			}
			*stage = "marshal"
			return json.Marshal(d)
		})
		step("jr", func(stage *string) ([]byte, error) {
			*stage = "load"
			d, err := c03Loader(table).LoadFromIoReader(strings.NewReader(string(text)))
			if err != nil {
				return nil, err
			}
			*stage = "marshal"
			return json.Marshal(d)
		})
		// other spellings of the same document that only the YAML reader accepts: the JSON text behind a comment
		// line (flow style: the JSON reader refuses it, the YAML reader reads flow mappings and sequences), and
		// block style with the all-digit map keys (status codes) unquoted, as people write them (YAML integers)
		step("jf", func(stage *string) ([]byte, error) {
			return reload(stage, append([]byte("# flow style\n"), text...), nil)
		})
		step("jk", func(stage *string) ([]byte, error) {
			*stage = "to_yaml"
			y, err := oyaml.JSONToYAML(text)
			return reload(stage, c03UnquoteIntKeys(y), err)
		})
		// a loader that reads the root document itself through its reader (LoadFromURI)
		step("jl", func(stage *string) ([]byte, error) {
			*stage = "load"
			withRoot := map[string][]byte{c03Location(0).String(): text}
			for k, v := range table {
				withRoot[k] = v
			}
			d, err := c03Loader(withRoot).LoadFromURI(c03Location(0))
			if err != nil {
				return nil, err
			}
			*stage = "marshal"
			return json.Marshal(d)
		})
		// the T by value (json.Marshal(*doc), a T embedded by value in another struct)
		step("jv", func(stage *string) ([]byte, error) {
			*stage = "marshal"
			return json.Marshal(*doc1)
		})
		// other writers of the parsed input: the MarshalJSON method itself, and the value MarshalYAML returns
		// (what a YAML encoder is handed) written as JSON
		step("jm", func(stage *string) ([]byte, error) {
			*stage = "marshal"
			return doc1.MarshalJSON()
		})
		step("jy", func(stage *string) ([]byte, error) {
			*stage = "marshal"
			v, err := doc1.MarshalYAML()
			if err != nil {
				return nil, err
			}
			return json.Marshal(v)
		})
		// the reader option IncludeOrigin (a package variable; it only acts on input that is not JSON): the
		// input as YAML text, loaded with the option on
		step("jo", func(stage *string) ([]byte, error) {
			*stage = "to_yaml"
			y, err := oyaml.JSONToYAML(text)
			if err != nil {
				return nil, err
			}
			openapi3.IncludeOrigin = true
			defer func() { openapi3.IncludeOrigin = false }()
			return reload(stage, y, nil)
		})
	}
	if len(msgs) != 0 {
		obs["msgs"] = msgs
	}
	return obs
}

func c03Trips2(text []byte) any {
	obs := T{}
	msgs := T{}
	var doc1 *openapi2.T
	var b1 []byte
	step := func(name string, f func(stage *string) ([]byte, error)) {
		obs[name] = c03Trip(func(stage *string) []byte {
			b, err := f(stage)
			if err != nil {
				msgs[name] = c03Clip(err.Error())
				return nil
			}
			return b
		})
	}
	fromJSON := func(stage *string, data []byte) ([]byte, *openapi2.T, error) {
		*stage = "load"
		var d openapi2.T
		if err := json.Unmarshal(data, &d); err != nil {
			return nil, nil, err
		}
		*stage = "marshal"
		b, err := json.Marshal(&d)
		return b, &d, err
	}
	fromYAML := func(stage *string, data []byte, err error) ([]byte, error) {
		if err != nil {
			return nil, err
		}
		*stage = "load"
		var d openapi2.T
		if err := oyaml.Unmarshal(data, &d); err != nil {
			return nil, err
		}
		*stage = "marshal"
		return json.Marshal(&d)
	}
	step("j1", func(stage *string) ([]byte, error) {
		b, d, err := fromJSON(stage, text)
		if err == nil {
			doc1, b1 = d, b
		}
		return b, err
	})
	if doc1 == nil {
		skip := T{"ok": false, "err": "no_first_trip"}
		obs["j2"], obs["ja"], obs["ji"] = skip, skip, skip
	} else {
		step("j2", func(stage *string) ([]byte, error) { b, _, err := fromJSON(stage, b1); return b, err })
		step("ja", func(stage *string) ([]byte, error) {
			*stage = "yaml_marshal"
			y, err := oyaml.Marshal(doc1)
			return fromYAML(stage, y, err)
		})
		step("ji", func(stage *string) ([]byte, error) {
			*stage = "to_yaml"
			y, err := oyaml.JSONToYAML(text)
			return fromYAML(stage, y, err)
		})
		step("jf", func(stage *string) ([]byte, error) {
			return fromYAML(stage, append([]byte("# flow style\n"), text...), nil)
		})
		step("jk", func(stage *string) ([]byte, error) {
			*stage = "to_yaml"
			y, err := oyaml.JSONToYAML(text)
			return fromYAML(stage, c03UnquoteIntKeys(y), err)
		})
		// the UnmarshalJSON method itself; the writers: the T by value, the MarshalJSON method itself
		step("ju", func(stage *string) ([]byte, error) {
			*stage = "load"
			var d openapi2.T
			if err := d.UnmarshalJSON(text); err != nil {
				return nil, err
			}
			*stage = "marshal"
			return json.Marshal(&d)
		})
		step("jv", func(stage *string) ([]byte, error) {
			*stage = "marshal"
			return json.Marshal(*doc1)
		})
		step("jm", func(stage *string) ([]byte, error) {
			*stage = "marshal"
			return doc1.MarshalJSON()
		})
	}
	if len(msgs) != 0 {
		obs["msgs"] = msgs
	}
	return obs
}

// ---------------------------------------------------------------------------------------------
// History lines: ONE receiver takes the prior documents and then the document under test.
//   j1  the document under test through the canonical reader with a fresh receiver (as on document lines)
//   pr  per prior document: did it parse
//   jh  JSON of the receiver after the last parse
// Entries: json / yaml / meth (UnmarshalJSON) / alt (json, yaml, json ... in turn) fill one T value;
// loader / lpath (OpenAPI 3) use one Loader (LoadFromData; LoadFromDataWithPath with a new location each time).

// c03NewKind: a new zero value (as a pointer) of the Go type of an object kind of spec/DocModel.tla, or of its
// reference wrapper type.
func c03NewKind(kind string, wrap bool) any {
	if wrap {
		switch kind {
		case "Schema":
			return new(openapi3.SchemaRef)
		case "Response":
			return new(openapi3.ResponseRef)
		case "Parameter":
			return new(openapi3.ParameterRef)
		case "Example":
			return new(openapi3.ExampleRef)
		case "RequestBody":
			return new(openapi3.RequestBodyRef)
		case "Header":
			return new(openapi3.HeaderRef)
		case "SecurityScheme":
			return new(openapi3.SecuritySchemeRef)
		case "Link":
			return new(openapi3.LinkRef)
		case "Callback":
			return new(openapi3.CallbackRef)
		case "Schema2":
			return new(openapi2.SchemaRef)
		}
		return nil
	}
	switch kind {
	case "T3":
		return new(openapi3.T)
	case "Info", "Info2":
		return new(openapi3.Info)
	case "Contact":
		return new(openapi3.Contact)
	case "License":
		return new(openapi3.License)
	case "Server":
		return new(openapi3.Server)
	case "ServerVariable":
		return new(openapi3.ServerVariable)
	case "Components":
		return new(openapi3.Components)
	case "Paths":
		return new(openapi3.Paths)
	case "PathItem":
		return new(openapi3.PathItem)
	case "Operation":
		return new(openapi3.Operation)
	case "ExternalDocs":
		return new(openapi3.ExternalDocs)
	case "Parameter":
		return new(openapi3.Parameter)
	case "Header":
		return new(openapi3.Header)
	case "RequestBody":
		return new(openapi3.RequestBody)
	case "MediaType":
		return new(openapi3.MediaType)
	case "Encoding":
		return new(openapi3.Encoding)
	case "Responses":
		return new(openapi3.Responses)
	case "Response":
		return new(openapi3.Response)
	case "Callback":
		return new(openapi3.Callback)
	case "Example":
		return new(openapi3.Example)
	case "Link":
		return new(openapi3.Link)
	case "Tag":
		return new(openapi3.Tag)
	case "Schema":
		return new(openapi3.Schema)
	case "Discriminator":
		return new(openapi3.Discriminator)
	case "XML":
		return new(openapi3.XML)
	case "SecurityScheme":
		return new(openapi3.SecurityScheme)
	case "OAuthFlows":
		return new(openapi3.OAuthFlows)
	case "OAuthFlow":
		return new(openapi3.OAuthFlow)
	case "SecurityRequirement":
		return new(openapi3.SecurityRequirement)
	case "T2":
		return new(openapi2.T)
	case "PathItem2":
		return new(openapi2.PathItem)
	case "Operation2":
		return new(openapi2.Operation)
	case "Parameter2":
		return new(openapi2.Parameter)
	case "Response2":
		return new(openapi2.Response)
	case "Header2":
		return new(openapi2.Header)
	case "Items2", "Schema2":
		return new(openapi2.Schema)
	case "SecurityScheme2":
		return new(openapi2.SecurityScheme)
	}
	return nil
}

// Kind-level history lines: a value of the kind's own type (entry "kind") or of its reference wrapper type (entry
// "wrap") takes the prior objects and then the bare object under test, all through json.Unmarshal.
//   j1  the hosting document through the canonical reader (as on every line)
//   k1  the bare object into a fresh value, then json.Marshal
//   pr  per prior object: did it parse
//   jh  JSON of the ONE value after the last parse
func c03KindHistory(ver int, kind string, text []byte, table map[string][]byte, h *c03Hist) any {
	obs := c03History(ver, text, table, &c03Hist{Entry: "none"}).(T) // j1 only
	delete(obs, "jh")
	delete(obs, "pr")
	msgs := T{}
	if m, ok := obs["msgs"].(T); ok {
		msgs = m
	}
	step := func(name string, f func(stage *string) ([]byte, error)) {
		obs[name] = c03Trip(func(stage *string) []byte {
			b, err := f(stage)
			if err != nil {
				msgs[name] = c03Clip(err.Error())
				return nil
			}
			return b
		})
	}
	wrap := h.Entry == "wrap"
	frag := []byte(c03Text(h.Frag))
	step("k1", func(stage *string) ([]byte, error) {
		*stage = "load"
		v := c03NewKind(kind, wrap)
		if v == nil {
			return nil, fmt.Errorf("harness: no Go type for kind %q", kind)
		}
		if err := json.Unmarshal(frag, v); err != nil {
			return nil, err
		}
		*stage = "marshal"
		return json.Marshal(v)
	})
	pr := []any{}
	step("jh", func(stage *string) ([]byte, error) {
		*stage = "prior"
		v := c03NewKind(kind, wrap)
		if v == nil {
			return nil, fmt.Errorf("harness: no Go type for kind %q", kind)
		}
		for _, p := range h.Prior {
			pr = append(pr, json.Unmarshal([]byte(c03Text(p.Doc)), v) == nil)
		}
		*stage = "load"
		if err := json.Unmarshal(frag, v); err != nil {
			return nil, err
		}
		*stage = "marshal"
		return json.Marshal(v)
	})
	for len(pr) < len(h.Prior) {
		pr = append(pr, false)
	}
	obs["pr"] = pr
	if len(msgs) != 0 {
		obs["msgs"] = msgs
	}
	return obs
}

func c03History(ver int, text []byte, table map[string][]byte, h *c03Hist) any {
	obs := T{}
	msgs := T{}
	step := func(name string, f func(stage *string) ([]byte, error)) {
		obs[name] = c03Trip(func(stage *string) []byte {
			b, err := f(stage)
			if err != nil {
				msgs[name] = c03Clip(err.Error())
				return nil
			}
			return b
		})
	}
	step("j1", func(stage *string) ([]byte, error) {
		*stage = "load"
		if ver == 3 {
			d, err := c03Loader(table).LoadFromData(text)
			if err != nil {
				return nil, err
			}
			*stage = "marshal"
			return json.Marshal(d)
		}
		var d openapi2.T
		if err := json.Unmarshal(text, &d); err != nil {
			return nil, err
		}
		*stage = "marshal"
		return json.Marshal(&d)
	})
	// fill(i, data): parse data into the receiver as step i; last: marshal the receiver
	var fill func(i int, data []byte) error
	var last func() ([]byte, error)
	into := func(i int, data []byte, v any, meth func([]byte) error) error {
		entry := h.Entry
		if entry == "alt" {
			entry = []string{"json", "yaml"}[i%2]
		}
		switch entry {
		case "json":
			return json.Unmarshal(data, v)
		case "yaml":
			y, err := oyaml.JSONToYAML(data)
			if err != nil {
				return err
			}
			return oyaml.Unmarshal(y, v)
		case "meth":
			return meth(data)
		}
		panic("harness: unknown entry " + h.Entry)
	}
	switch {
	case ver == 3 && (h.Entry == "loader" || h.Entry == "lpath"):
		loader := c03Loader(table)
		var d *openapi3.T
		fill = func(i int, data []byte) (err error) {
			if h.Entry == "lpath" {
				d, err = loader.LoadFromDataWithPath(data, c03Location(i))
			} else {
				d, err = loader.LoadFromData(data)
			}
			return err
		}
		last = func() ([]byte, error) { return json.Marshal(d) }
	case ver == 3:
		var d openapi3.T
		fill = func(i int, data []byte) error { return into(i, data, &d, d.UnmarshalJSON) }
		last = func() ([]byte, error) { return json.Marshal(&d) }
	default:
		var d openapi2.T
		fill = func(i int, data []byte) error { return into(i, data, &d, d.UnmarshalJSON) }
		last = func() ([]byte, error) { return json.Marshal(&d) }
	}
	pr := []any{}
	if h.Entry == "none" { // the canonical trip only (kind-level lines)
		return obs
	}
	step("jh", func(stage *string) ([]byte, error) {
		*stage = "prior"
		for i, p := range h.Prior {
			pr = append(pr, fill(i, []byte(c03Text(p.Doc))) == nil)
		}
		*stage = "load"
		if err := fill(len(h.Prior), text); err != nil {
			return nil, err
		}
		*stage = "marshal"
		return last()
	})
	for len(pr) < len(h.Prior) { // a panic inside a prior parse: the remaining ones were not attempted
		pr = append(pr, false)
	}
	obs["pr"] = pr
	if len(msgs) != 0 {
		obs["msgs"] = msgs
	}
	return obs
}

// ---------------------------------------------------------------------------------------------
// Fixture replay (thorough): every self-contained JSON/YAML document under the repository's
// openapi3/testdata and openapi2/testdata that parses is one more case (mode "fixture").

func c03Extra(seed int64, tier string) []json_RawMessage {
	if tier != "thorough" || os.Getenv("VERIF_C03_NOFIXTURES") != "" {
		return nil
	}
	// when the cases are split over several driver processes (cases.ndjson.shard<k>) only the first one replays the fixtures
	if f := flag.Lookup("cases"); f != nil {
		if i := strings.LastIndex(f.Value.String(), ".shard"); i >= 0 && f.Value.String()[i:] != ".shard0" {
			return nil
		}
	}
	repo := os.Getenv("VERIF_REPO")
	if repo == "" {
		repo = "/repo"
	}
	var res []json_RawMessage
	for _, sub := range []struct {
		dir string
		ver int
	}{{"openapi3/testdata", 3}, {"openapi2/testdata", 2}} {
		var files []string
		filepath.WalkDir(filepath.Join(repo, sub.dir), func(p string, d os.DirEntry, err error) error {
			if err == nil && !d.IsDir() {
				switch strings.ToLower(filepath.Ext(p)) {
				case ".json", ".yml", ".yaml":
					files = append(files, p)
				}
			}
			return nil
		})
		sort.Strings(files)
		for _, f := range files {
			data, err := os.ReadFile(f)
			if err != nil || len(data) > 48<<10 {
				continue
			}
			jsonText, src := data, "json"
			if !json.Valid(data) {
				src = "yaml"
				var cerr error
				panicked, _ := guard(func() { jsonText, cerr = oyaml.YAMLToJSON(data) })
				if panicked || cerr != nil {
					continue
				}
			}
			ver := sub.ver
			var probe map[string]any
			if json.Unmarshal(jsonText, &probe) != nil {
				continue
			}
			if _, ok := probe["swagger"]; ok {
				ver = 2
			} else if _, ok := probe["openapi"]; ok {
				ver = 3
			} else {
				continue
			}
			// only documents the library parses (self-contained: no base location is given) and that are
			// OpenAPI documents: the property quantifies over those, and a document that omits a required
			// field (a components-only file without `paths`) is given that field by the marshallers.  The
			// library's own Validate is used as the membership filter for OpenAPI 3, the presence of the
			// required top-level fields for OpenAPI 2 (openapi2 has no validator).
			parses := false
			guard(func() {
				if ver == 3 {
					loader := openapi3.NewLoader()
					d, err := loader.LoadFromData(jsonText)
					parses = err == nil && d.Validate(loader.Context, openapi3.DisableExamplesValidation()) == nil
				} else {
					for _, k := range []string{"swagger", "info", "paths"} {
						if _, ok := probe[k]; !ok {
							return
						}
					}
					var d openapi2.T
					parses = json.Unmarshal(jsonText, &d) == nil
				}
			})
			if !parses {
				continue
			}
			doc, ok := c03Project(jsonText)
			if !ok {
				continue
			}
			rel, _ := filepath.Rel(repo, f)
			b, err := json.Marshal(T{"d": T{"mode": "fixture", "src": src, "file": c03PlainOnly(rel)}, "ver": ver, "doc": doc})
			if err == nil {
				res = append(res, b)
			}
		}
	}
	return res
}

func init() {
	drivers["C03"] = &Driver{Run: c03Run, Abnormal: c03Abnormal, Extra: c03Extra, PerCaseTimeoutMs: 20000}
	_ = fmt.Sprint
}
