package main

import (
	"bytes"
	"context"
	"crypto/sha1"
	"encoding/hex"
	"encoding/json"
	"errors"
	"io"
	"net/http"
	"net/http/httptest"
	"strings"

	"github.com/getkin/kin-openapi/openapi3"
	"github.com/getkin/kin-openapi/openapi3filter"
	"github.com/getkin/kin-openapi/routers/gorillamux"
)

// C13: after ValidateRequest the body is still readable; defaults are added exactly once.
// Logged: verdicts of a first and a second validation, the bytes readable from req.Body after
// each, ContentLength, what GetBody yields, the forwarded query/header/cookie, the decoded value
// of a defaulted parameter in the forwarded request, and a digest of the document before/after.

type c13Case struct {
	Kind    string `json:"kind"`
	ID      string `json:"id"`
	Schema  any    `json:"schema"`
	V       any    `json:"v"`
	Sec     string `json:"sec"`
	Preset  bool   `json:"preset"`
	Unsized bool   `json:"unsized"`
	Pad     string `json:"pad"`
	Skip    bool   `json:"skip"`
	Loc     string `json:"loc"`
	Shape   string `json:"shape"`
	Explode string `json:"explode"`
	Present bool   `json:"present"`
	Other   bool   `json:"other"`
	Dflt    any    `json:"dflt"`
	Ct      string `json:"ct"`
}

type c13Closable struct {
	r      *strings.Reader
	closed bool
}

func (c *c13Closable) Read(p []byte) (int, error) {
	if c.closed {
		return 0, errors.New("read after close")
	}
	return c.r.Read(p)
}

func (c *c13Closable) Close() error { c.closed = true; return nil }

func docDigest(d *openapi3.T) string {
	b, err := json.Marshal(d)
	if err != nil {
		return "marshal-error:" + err.Error()
	}
	h := sha1.Sum(b)
	return hex.EncodeToString(h[:])
}

func drain(req *http.Request) (string, string) {
	body := "<nil>"
	if req.Body != nil {
		b, err := io.ReadAll(req.Body)
		if err != nil {
			body = "<read error>"
		} else {
			body = string(b)
		}
	}
	gb := "<nil>"
	if req.GetBody != nil {
		rc, err := req.GetBody()
		if err != nil {
			gb = "<error>"
		} else {
			b, _ := io.ReadAll(rc)
			gb = string(b)
		}
	}
	return body, gb
}

func taggedOfJSON(s string) any {
	dec := json.NewDecoder(strings.NewReader(s))
	dec.UseNumber()
	var v any
	if err := dec.Decode(&v); err != nil {
		return nil
	}
	t, ok := goToTagged(v)
	if !ok {
		return nil
	}
	return t
}

func c13Run(c *Case) []any {
	var tc c13Case
	c.Decode(&tc)
	var raw map[string]any
	c.Decode(&raw)
	line := map[string]any{"case": c.Idx, "c": raw}
	op := map[string]any{"responses": map[string]any{"200": map[string]any{"description": "ok"}}}
	doc := map[string]any{"openapi": "3.0.3", "info": map[string]any{"title": "t", "version": "1"}}
	method, target := "POST", "/t"
	var bodyText string
	hdr := http.Header{}
	if tc.Kind == "body" {
		op["requestBody"] = map[string]any{"required": true, "content": map[string]any{"application/json": map[string]any{
			"schema": absSchemaToOpenAPI(tc.Schema)}}}
		if tc.Sec != "none" {
			doc["components"] = map[string]any{"securitySchemes": map[string]any{
				"A": map[string]any{"type": "apiKey", "in": "header", "name": "X-A"},
				"B": map[string]any{"type": "apiKey", "in": "header", "name": "X-B"}}}
			switch tc.Sec {
			case "fail_read_then_pass":
				op["security"] = []any{map[string]any{"A": []any{}}, map[string]any{"B": []any{}}}
			default:
				op["security"] = []any{map[string]any{"A": []any{}}}
			}
		}
		bodyText = taggedToJSONText(tc.V)
		switch tc.Pad {
		case "newline":
			bodyText += "\n"
		case "spaces":
			bodyText = "  " + bodyText + " \r\n"
		}
		hdr.Set("Content-Type", tc.Ct)
	} else {
		method = "GET"
		var sch map[string]any
		switch tc.Shape {
		case "int":
			sch = map[string]any{"type": "integer", "default": json.RawMessage(taggedToJSONText(tc.Dflt))}
		case "str":
			sch = map[string]any{"type": "string", "default": json.RawMessage(taggedToJSONText(tc.Dflt))}
		case "arr":
			sch = map[string]any{"type": "array", "items": map[string]any{"type": "integer"}, "default": json.RawMessage(taggedToJSONText(tc.Dflt))}
		}
		p := map[string]any{"name": "p", "in": tc.Loc, "schema": sch}
		switch tc.Explode {
		case "true":
			p["explode"] = true
		case "false":
			p["explode"] = false
		}
		op["parameters"] = []any{p, map[string]any{"name": "o", "in": "query", "schema": map[string]any{"type": "string"}}}
		var q []string
		if tc.Other {
			q = append(q, "o=v")
		}
		if tc.Present {
			text := map[string]string{"int": "7", "str": "s", "arr": "3"}[tc.Shape]
			switch tc.Loc {
			case "query":
				q = append(q, "p="+text)
			case "header":
				hdr.Set("p", text)
			case "cookie":
				hdr.Set("Cookie", "p="+text)
			}
		}
		if len(q) > 0 {
			target += "?" + strings.Join(q, "&")
		}
	}
	doc["paths"] = map[string]any{"/t": map[string]any{strings.ToLower(method): op}}
	data, _ := json.Marshal(doc)
	d, err := openapi3.NewLoader().LoadFromData(data)
	if err == nil {
		err = d.Validate(context.Background())
	}
	if err != nil {
		line["doc"] = "error"
		line["docErr"] = err.Error()
		return []any{line}
	}
	line["doc"] = "ok"
	router, err := gorillamux.NewRouter(d)
	if err != nil {
		panic(err)
	}
	var req *http.Request
	if tc.Kind == "body" {
		req = httptest.NewRequest(method, target, strings.NewReader(bodyText))
		if tc.Preset {
			bt := bodyText
			// bodies that really honour Close (a re-opened spool file does): reading after Close fails
			req.Body = &c13Closable{r: strings.NewReader(bt)}
			req.GetBody = func() (io.ReadCloser, error) { return &c13Closable{r: strings.NewReader(bt)}, nil }
		} else {
			req.GetBody = nil
		}
		if tc.Unsized {
			req.Body = io.NopCloser(io.MultiReader(strings.NewReader(bodyText)))
			req.ContentLength = 0
		}
	} else {
		req = httptest.NewRequest(method, target, nil)
	}
	for k, v := range hdr {
		req.Header[k] = v
	}
	route, pp, err := router.FindRoute(req)
	if err != nil {
		panic("harness: c13 route: " + err.Error())
	}
	calls := 0
	opts := &openapi3filter.Options{SkipSettingDefaults: tc.Skip, MultiError: tc.Sec == "fail_read_multi",
		AuthenticationFunc: func(_ context.Context, in *openapi3filter.AuthenticationInput) error {
			calls++
			r := in.RequestValidationInput.Request
			switch tc.Sec {
			case "pass_ignore":
				return nil
			case "pass_read":
				io.ReadAll(r.Body)
				return nil
			case "fail_read", "fail_read_multi":
				io.ReadAll(r.Body)
				return errors.New("rejected")
			case "fail_read_then_pass":
				io.ReadAll(r.Body)
				if in.SecuritySchemeName == "A" {
					return errors.New("rejected")
				}
				return nil
			}
			return nil
		}}
	input := &openapi3filter.RequestValidationInput{Request: req, PathParams: pp, Route: route, Options: opts}
	before := docDigest(d)
	line["sent"] = bodyText
	line["q0"] = req.URL.RawQuery
	validate := func(tag string) {
		// every validation uses a fresh input, as the next handler in a chain would
		input = &openapi3filter.RequestValidationInput{Request: req, PathParams: pp, Route: route, Options: opts}
		var verr error
		if p, _ := guard(func() { verr = openapi3filter.ValidateRequest(context.Background(), input) }); p {
			line["verdict"+tag] = "panic"
		} else if verr == nil {
			line["verdict"+tag] = "ok"
		} else {
			line["verdict"+tag] = "error"
			var parts []any
			if me, ok := verr.(openapi3.MultiError); ok {
				for _, e := range me {
					parts = append(parts, c07Part(e))
				}
			} else {
				parts = append(parts, c07Part(verr))
			}
			line["parts"+tag] = parts
		}
		if tc.Kind == "body" {
			after, gb := drain(req)
			line["after"+tag], line["getbody"+tag] = after, gb
			line["clen"+tag] = req.ContentLength
			line["len"+tag] = len(after)
			if t := taggedOfJSON(after); t != nil {
				line["parsed"+tag] = t
			}
			// hand the forwarded request to the next reader the way a proxy would
			req.Body = io.NopCloser(bytes.NewReader([]byte(after)))
		} else {
			line["q"+tag] = req.URL.RawQuery
			line["h"+tag] = strings.Join(req.Header.Values("p"), "|")
			line["c"+tag] = strings.Join(req.Header.Values("Cookie"), "|")
			param := route.Operation.Parameters.GetByInAndName(tc.Loc, "p")
			fresh := &openapi3filter.RequestValidationInput{Request: req, PathParams: pp, Route: route, Options: opts}
			var val any
			var found bool
			var derr error
			if p, _ := guard(func() { val, found, derr = openapi3filter.VerifDecodeStyledParameter(param, fresh) }); !p && derr == nil && found {
				if t, ok := goToTagged(val); ok {
					line["dec"+tag] = t
				}
			}
		}
	}
	validate("1")
	validate("2")
	line["docSame"] = before == docDigest(d)
	return []any{line}
}

func init() {
	drivers["C13"] = &Driver{Run: c13Run, Abnormal: func(c *Case, kind string) []any {
		var raw map[string]any
		c.Decode(&raw)
		return []any{map[string]any{"case": c.Idx, "c": raw, "doc": "ok", "verdict1": kind, "verdict2": kind, "docSame": true}}
	}}
}
