package main

import (
	"bytes"
	"context"
	"crypto/sha1"
	"encoding/hex"
	"encoding/json"
	"errors"
	"io"
	"mime/multipart"
	"net/http"
	"net/http/httptest"
	"net/url"
	"sort"
	"strconv"
	"strings"

	"github.com/getkin/kin-openapi/openapi3"
	"github.com/getkin/kin-openapi/openapi3filter"
	"github.com/getkin/kin-openapi/routers"
	"github.com/getkin/kin-openapi/routers/gorillamux"
)

// C13: after ValidateRequest the body is still readable; defaults are added exactly once.
// Logged: verdicts of a first and a second validation, the bytes readable from req.Body after
// each, ContentLength, what GetBody yields, the forwarded query/header/cookie, the decoded value
// of a defaulted parameter in the forwarded request, and a digest of the document before/after.

type c13Case struct {
	Kind    string `json:"kind"`
	ID      string `json:"id"`
	Schema  any    `json:"schema"`
	V       any    `json:"v"`
	Sec     string `json:"sec"`
	Preset  bool   `json:"preset"`
	Unsized bool   `json:"unsized"`
	Pad     string `json:"pad"`
	Skip    bool   `json:"skip"`
	Loc     string `json:"loc"`
	Shape   string `json:"shape"`
	Explode string `json:"explode"`
	Present bool   `json:"present"`
	Other   bool   `json:"other"`
	Dflt    any    `json:"dflt"`
	Ct      string `json:"ct"`
	Mt      string `json:"mt"`
	Enc     any    `json:"enc"` // array properties sent as one comma-separated pair (encoding explode: false)
	// parameters next to the body (history cases): per location "none" | "absent" | "present"
	PP    map[string]string `json:"pp"`
	PDflt map[string]any    `json:"pdflt"`
	// history cases: a pool of requests and a sequence of steps over them
	Reqs  []c13Case `json:"reqs"`
	Steps []struct {
		Op string      `json:"op"`
		R  json.Number `json:"r"`
	} `json:"steps"`
}

type c13Closable struct {
	r      *strings.Reader
	closed bool
}

func (c *c13Closable) Read(p []byte) (int, error) {
	if c.closed {
		return 0, errors.New("read after close")
	}
	return c.r.Read(p)
}

func (c *c13Closable) Close() error { c.closed = true; return nil }

func docDigest(d *openapi3.T) string {
	b, err := json.Marshal(d)
	if err != nil {
		return "marshal-error:" + err.Error()
	}
	h := sha1.Sum(b)
	return hex.EncodeToString(h[:])
}

func drain(req *http.Request) (string, string) {
	body := "<nil>"
	if req.Body != nil {
		b, err := io.ReadAll(req.Body)
		if err != nil {
			body = "<read error>"
		} else {
			body = string(b)
		}
	}
	gb := "<nil>"
	if req.GetBody != nil {
		rc, err := req.GetBody()
		if err != nil {
			gb = "<error>"
		} else {
			b, _ := io.ReadAll(rc)
			gb = string(b)
		}
	}
	return body, gb
}

func taggedOfJSON(s string) any {
	dec := json.NewDecoder(strings.NewReader(s))
	dec.UseNumber()
	var v any
	if err := dec.Decode(&v); err != nil {
		return nil
	}
	t, ok := goToTagged(v)
	if !ok {
		return nil
	}
	return t
}

func (tc *c13Case) noExplode(name string) bool {
	for _, n := range asSlice(tc.Enc) {
		if n.(string) == name {
			return true
		}
	}
	return false
}

// c13Schema realises an abstract schema of this property: as absSchemaToOpenAPI does, except that a oneOf with a
// discriminator (field dmap: [pn, keys]) becomes a component whose branches are components too -- a mapping can
// only designate references -- with keys[i] mapped to branch i (no mapping when keys is empty).
func c13Schema(a any, doc map[string]any, prefix string) map[string]any {
	comps, _ := doc["components"].(map[string]any)
	if comps == nil {
		comps = map[string]any{}
		doc["components"] = comps
	}
	schemas, _ := comps["schemas"].(map[string]any)
	if schemas == nil {
		schemas = map[string]any{}
		comps["schemas"] = schemas
	}
	n := 0
	var lift func(x any) any
	lift = func(x any) any {
		switch m := x.(type) {
		case []any:
			out := make([]any, len(m))
			for i := range m {
				out[i] = lift(m[i])
			}
			return out
		case map[string]any:
			if _, tagged := m["t"]; tagged { // a value (default, enum member), not a schema
				return m
			}
			out := map[string]any{}
			for k, v := range m {
				switch k {
				case "oneOf", "anyOf", "allOf", "ps", "items", "not", "apSchema":
					out[k] = lift(v)
				case "dmap":
				default:
					out[k] = v
				}
			}
			dm, ok := m["dmap"].(map[string]any)
			if !ok {
				return out
			}
			n++
			name := prefix + "D" + strconv.Itoa(n)
			var refs []any
			mapping := map[string]any{}
			keys := asSlice(dm["keys"])
			for i, br := range asSlice(out["oneOf"]) {
				bn := name + "B" + strconv.Itoa(i+1)
				schemas[bn] = absSchemaToOpenAPI(br)
				refs = append(refs, map[string]any{"$ref": "#/components/schemas/" + bn})
				if i < len(keys) {
					mapping[keys[i].(string)] = "#/components/schemas/" + bn
				}
			}
			delete(out, "oneOf")
			node := absSchemaToOpenAPI(out)
			node["oneOf"] = refs
			disc := map[string]any{"propertyName": dm["pn"]}
			if len(mapping) > 0 {
				disc["mapping"] = mapping
			}
			node["discriminator"] = disc
			schemas[name] = node
			return map[string]any{"ref": name}
		}
		return x
	}
	return absSchemaToOpenAPI(lift(a))
}

// c13Sent realises the abstract body value in the media type of the case: the bytes sent and the Content-Type header.
func c13Sent(tc *c13Case) (string, string) {
	mt := tc.Mt
	if mt == "" {
		mt = "application/json"
	}
	ct := tc.Ct
	if ct == "" {
		ct = mt
	}
	fields := func() ([]string, []string) {
		m := tc.V.(map[string]any)
		ks, vs := asSlice(m["k"]), asSlice(m["v"])
		var names, texts []string
		text := func(fv map[string]any) string {
			if fv["t"] == "str" {
				return csToString(fv["cs"])
			}
			return taggedToJSONText(fv)
		}
		for i := range ks {
			name := ks[i].(string)
			fv := vs[i].(map[string]any)
			if fv["t"] != "arr" {
				names, texts = append(names, name), append(texts, text(fv))
				continue
			}
			var items []string
			for _, it := range asSlice(fv["a"]) {
				items = append(items, text(it.(map[string]any)))
			}
			if tc.noExplode(name) {
				names, texts = append(names, name), append(texts, strings.Join(items, ","))
			} else {
				for _, it := range items {
					names, texts = append(names, name), append(texts, it)
				}
			}
		}
		return names, texts
	}
	switch mt {
	case "application/x-www-form-urlencoded":
		names, texts := fields()
		var parts []string
		for i := range names {
			parts = append(parts, url.QueryEscape(names[i])+"="+url.QueryEscape(texts[i]))
		}
		return strings.Join(parts, "&"), ct
	case "multipart/form-data":
		names, texts := fields()
		var buf bytes.Buffer
		w := multipart.NewWriter(&buf)
		w.SetBoundary("c13boundary")
		for i := range names {
			w.WriteField(names[i], texts[i])
		}
		w.Close()
		return buf.String(), w.FormDataContentType()
	}
	// the JSON family, and YAML (JSON text is YAML)
	text := taggedToJSONText(tc.V)
	switch tc.Pad {
	case "newline":
		text += "\n"
	case "spaces":
		text = "  " + text + " \r\n"
	}
	return text, ct
}

// c13Parsed projects forwarded body bytes to a tagged value: what the next handler decodes from them
// (JSON text by encoding/json; YAML and form bodies by the decoder the library exports for that media type).
func c13Parsed(tc *c13Case, text string, hdr http.Header, mtDecl *openapi3.MediaType) any {
	var dec openapi3filter.BodyDecoder
	switch tc.Mt {
	case "application/yaml":
		dec = openapi3filter.YamlBodyDecoder
	case "application/x-www-form-urlencoded":
		dec = openapi3filter.UrlencodedBodyDecoder
	case "multipart/form-data":
		dec = openapi3filter.MultipartBodyDecoder
	default:
		return taggedOfJSON(text)
	}
	var v any
	var err error
	if p, _ := guard(func() {
		v, err = dec(strings.NewReader(text), hdr, mtDecl.Schema, func(name string) *openapi3.Encoding { return mtDecl.Encoding[name] })
	}); p || err != nil {
		return nil
	}
	if t, ok := goToTagged(v); ok {
		return t
	}
	return nil
}

// c13Fields: the name=value pairs of a form body (net/url), sorted; nil when it is not a form.
func c13Fields(text string) []any {
	vals, err := url.ParseQuery(text)
	if err != nil {
		return []any{map[string]any{"n": "<unparsable>", "v": ""}}
	}
	names := make([]string, 0, len(vals))
	for n := range vals {
		names = append(names, n)
	}
	sort.Strings(names)
	out := []any{}
	for _, n := range names {
		for _, v := range vals[n] {
			out = append(out, map[string]any{"n": n, "v": v})
		}
	}
	return out
}

// c13Op builds the operation of one request description (body cases, parameter cases and the requests of a history).
func c13Op(tc *c13Case, doc map[string]any, prefix string) map[string]any {
	op := map[string]any{"responses": map[string]any{"200": map[string]any{"description": "ok"}}}
	if tc.Kind == "param" {
		var sch map[string]any
		switch tc.Shape {
		case "int":
			sch = map[string]any{"type": "integer", "default": json.RawMessage(taggedToJSONText(tc.Dflt))}
		case "str":
			sch = map[string]any{"type": "string", "default": json.RawMessage(taggedToJSONText(tc.Dflt))}
		case "arr":
			sch = map[string]any{"type": "array", "items": map[string]any{"type": "integer"}, "default": json.RawMessage(taggedToJSONText(tc.Dflt))}
		}
		p := map[string]any{"name": "p", "in": tc.Loc, "schema": sch}
		switch tc.Explode {
		case "true":
			p["explode"] = true
		case "false":
			p["explode"] = false
		}
		op["parameters"] = []any{p, map[string]any{"name": "o", "in": "query", "schema": map[string]any{"type": "string"}}}
		return op
	}
	mt := tc.Mt
	if mt == "" {
		mt = "application/json"
	}
	media := map[string]any{"schema": c13Schema(tc.Schema, doc, prefix)}
	if encs := asSlice(tc.Enc); len(encs) > 0 {
		e := map[string]any{}
		for _, n := range encs {
			e[n.(string)] = map[string]any{"style": "form", "explode": false}
		}
		media["encoding"] = e
	}
	op["requestBody"] = map[string]any{"required": true, "content": map[string]any{mt: media}}
	if tc.Sec != "none" {
		doc["components"].(map[string]any)["securitySchemes"] = map[string]any{
			"A": map[string]any{"type": "apiKey", "in": "header", "name": "X-A"},
			"B": map[string]any{"type": "apiKey", "in": "header", "name": "X-B"}}
		switch tc.Sec {
		case "fail_read_then_pass":
			op["security"] = []any{map[string]any{"A": []any{}}, map[string]any{"B": []any{}}}
		default:
			op["security"] = []any{map[string]any{"A": []any{}}}
		}
	}
	// parameters with defaults next to the body: an integer array in the query, a string header, an integer cookie
	var params []any
	for _, loc := range []string{"query", "header", "cookie"} {
		if tc.PP == nil || tc.PP[loc] == "none" || tc.PP[loc] == "" {
			continue
		}
		sch := map[string]any{"default": json.RawMessage(taggedToJSONText(tc.PDflt[loc]))}
		switch loc {
		case "query":
			sch["type"], sch["items"] = "array", map[string]any{"type": "integer"}
		case "header":
			sch["type"] = "string"
		case "cookie":
			sch["type"] = "integer"
		}
		params = append(params, map[string]any{"name": "p" + loc[:1], "in": loc, "schema": sch})
	}
	if params != nil {
		op["parameters"] = params
	}
	return op
}

// c13Request builds the request of one request description; returns it with the body bytes sent.
func c13Request(tc *c13Case, path string, clientGB *int) (*http.Request, string) {
	if tc.Kind == "param" {
		hdr := http.Header{}
		var q []string
		if tc.Other {
			q = append(q, "o=v")
		}
		if tc.Present {
			text := map[string]string{"int": "7", "str": "s", "arr": "3"}[tc.Shape]
			switch tc.Loc {
			case "query":
				q = append(q, "p="+text)
			case "header":
				hdr.Set("p", text)
			case "cookie":
				hdr.Set("Cookie", "p="+text)
			}
		}
		if len(q) > 0 {
			path += "?" + strings.Join(q, "&")
		}
		req := httptest.NewRequest("GET", path, nil)
		for k, v := range hdr {
			req.Header[k] = v
		}
		return req, ""
	}
	bodyText, ct := c13Sent(tc)
	if tc.PP["query"] == "present" {
		path += "?pq=3"
	}
	req := httptest.NewRequest("POST", path, strings.NewReader(bodyText))
	if tc.Preset {
		bt := bodyText
		// bodies that really honour Close (a re-opened spool file does): reading after Close fails
		req.Body = &c13Closable{r: strings.NewReader(bt)}
		req.GetBody = func() (io.ReadCloser, error) {
			*clientGB++
			return &c13Closable{r: strings.NewReader(bt)}, nil
		}
	} else {
		req.GetBody = nil
	}
	if tc.Unsized {
		req.Body = io.NopCloser(io.MultiReader(strings.NewReader(bodyText)))
		req.ContentLength = 0
	}
	req.Header.Set("Content-Type", ct)
	if tc.PP["header"] == "present" {
		req.Header.Set("ph", "s")
	}
	if tc.PP["cookie"] == "present" {
		req.Header.Set("Cookie", "pc=7")
	}
	return req, bodyText
}

// c13Options: the validation options of one request description (the authentication callback reads the body or not, passes or rejects).
func c13Options(tc *c13Case) *openapi3filter.Options {
	return &openapi3filter.Options{SkipSettingDefaults: tc.Skip, MultiError: tc.Sec == "fail_read_multi",
		AuthenticationFunc: func(_ context.Context, in *openapi3filter.AuthenticationInput) error {
			r := in.RequestValidationInput.Request
			switch tc.Sec {
			case "pass_ignore":
				return nil
			case "pass_read":
				io.ReadAll(r.Body)
				return nil
			case "fail_read", "fail_read_multi":
				io.ReadAll(r.Body)
				return errors.New("rejected")
			case "fail_read_then_pass":
				io.ReadAll(r.Body)
				if in.SecuritySchemeName == "A" {
					return errors.New("rejected")
				}
				return nil
			}
			return nil
		}}
}

// c13Live is one request of a case while it is being handled.
type c13Live struct {
	tc    *c13Case
	req   *http.Request
	route *routers.Route
	pp    map[string]string
	opts  *openapi3filter.Options
	sent  string
	// number of calls of the GetBody the client came with (tells it from one the library installed)
	clientGB *int
}

// c13Load builds and loads one document with one path per request description and routes the requests.
func c13Load(tcs []*c13Case, line map[string]any) (*openapi3.T, []*c13Live) {
	doc := map[string]any{"openapi": "3.0.3", "info": map[string]any{"title": "t", "version": "1"}}
	paths := map[string]any{}
	for i, tc := range tcs {
		method := "post"
		if tc.Kind == "param" {
			method = "get"
		}
		paths["/t"+strconv.Itoa(i+1)] = map[string]any{method: c13Op(tc, doc, "R"+strconv.Itoa(i+1))}
	}
	doc["paths"] = paths
	data, _ := json.Marshal(doc)
	d, err := openapi3.NewLoader().LoadFromData(data)
	if err == nil {
		err = d.Validate(context.Background())
	}
	if err != nil {
		line["doc"] = "error"
		line["docErr"] = err.Error()
		return nil, nil
	}
	line["doc"] = "ok"
	router, err := gorillamux.NewRouter(d)
	if err != nil {
		panic(err)
	}
	var live []*c13Live
	for i, tc := range tcs {
		clientGB := new(int)
		req, sent := c13Request(tc, "/t"+strconv.Itoa(i+1), clientGB)
		route, pp, err := router.FindRoute(req)
		if err != nil {
			panic("harness: c13 route: " + err.Error())
		}
		live = append(live, &c13Live{tc: tc, req: req, route: route, pp: pp, opts: c13Options(tc), sent: sent, clientGB: clientGB})
	}
	return d, live
}

// validate: one ValidateRequest with a fresh input, as the next handler in a chain would; the verdict goes to o["verdict"+tag].
func (lv *c13Live) validate(o map[string]any, tag string) {
	input := &openapi3filter.RequestValidationInput{Request: lv.req, PathParams: lv.pp, Route: lv.route, Options: lv.opts}
	var verr error
	if p, _ := guard(func() { verr = openapi3filter.ValidateRequest(context.Background(), input) }); p {
		o["verdict"+tag] = "panic"
	} else if verr == nil {
		o["verdict"+tag] = "ok"
	} else {
		o["verdict"+tag] = "error"
		var parts []any
		if me, ok := verr.(openapi3.MultiError); ok {
			for _, e := range me {
				parts = append(parts, c07Part(e))
			}
		} else {
			parts = append(parts, c07Part(verr))
		}
		o["parts"+tag] = parts
	}
}

// readBody: the next handler reads the body in full (and asks GetBody, when there is one, for a second copy).
func (lv *c13Live) readBody(o map[string]any, tag string) string {
	after, gb := drain(lv.req)
	o["after"+tag], o["getbody"+tag] = after, gb
	o["clen"+tag] = lv.req.ContentLength
	o["len"+tag] = len(after)
	if lv.req.Body != nil {
		if mtDecl := lv.route.Operation.RequestBody.Value.Content.Get(lv.req.Header.Get("Content-Type")); mtDecl != nil {
			if t := c13Parsed(lv.tc, after, lv.req.Header, mtDecl); t != nil {
				o["parsed"+tag] = t
			}
			if lv.tc.Mt == "application/x-www-form-urlencoded" {
				// the form as the next handler sees it, whatever the schema declares: its name=value pairs
				o["fields"+tag] = c13Fields(after)
				if _, done := o["fields0"]; !done {
					o["fields0"] = c13Fields(lv.sent)
					if t := c13Parsed(lv.tc, lv.sent, lv.req.Header, mtDecl); t != nil {
						o["parsed0"] = t
					}
				}
			}
		}
	}
	return after
}

// carriers: the other places a default can be installed in -- query string, header, cookie -- as forwarded:
// raw query, number of values of the header / cookie, and what each parameter decodes to in the forwarded request.
func (lv *c13Live) carriers(o map[string]any) {
	// what kind of reader / rewind function is installed now: the client's (honours Close) or one the library made
	o["bk"] = "lib"
	if _, ok := lv.req.Body.(*c13Closable); ok {
		o["bk"] = "client"
	}
	o["gk"] = "none"
	if lv.req.GetBody != nil {
		n := *lv.clientGB
		if rc, err := lv.req.GetBody(); err == nil {
			rc.Close()
		}
		o["gk"] = "lib"
		if *lv.clientGB > n {
			o["gk"] = "client"
		}
	}
	o["q"] = lv.req.URL.RawQuery
	o["hn"] = len(lv.req.Header.Values("ph"))
	cn := 0
	for _, ck := range lv.req.Cookies() {
		if ck.Name == "pc" {
			cn++
		}
	}
	o["cn"] = cn
	for _, loc := range []string{"query", "header", "cookie"} {
		param := lv.route.Operation.Parameters.GetByInAndName(loc, "p"+loc[:1])
		if param == nil {
			continue
		}
		fresh := &openapi3filter.RequestValidationInput{Request: lv.req, PathParams: lv.pp, Route: lv.route, Options: lv.opts}
		var val any
		var found bool
		var derr error
		if p, _ := guard(func() { val, found, derr = openapi3filter.VerifDecodeStyledParameter(param, fresh) }); !p && derr == nil && found {
			if t, ok := goToTagged(val); ok {
				o["d"+loc[:1]] = t
			}
		}
	}
}

// c13Hist: a history over a pool of requests in one process.  V = validate; R = the next handler reads the body in
// full and the request is rewound the way a transport does (GetBody when there is one, else the bytes read).
// Reads are NOT forced after each validation: what a request carries is looked at when the history says so.
func c13Hist(c *Case, tc *c13Case, line map[string]any) []any {
	var tcs []*c13Case
	for i := range tc.Reqs {
		tc.Reqs[i].Kind = "body"
		tcs = append(tcs, &tc.Reqs[i])
	}
	d, live := c13Load(tcs, line)
	if d == nil {
		return []any{line}
	}
	before := docDigest(d)
	var sent, q0 []any
	for _, lv := range live {
		sent = append(sent, lv.sent)
		q0 = append(q0, lv.req.URL.RawQuery)
	}
	line["sent"], line["q0"] = sent, q0
	var obs []any
	for _, st := range tc.Steps {
		lv := live[asInt(st.R)-1]
		o := map[string]any{"op": st.Op}
		switch st.Op {
		case "V":
			lv.validate(o, "")
		case "R":
			after := lv.readBody(o, "")
			if lv.req.GetBody != nil {
				if rc, err := lv.req.GetBody(); err == nil {
					lv.req.Body = rc
				}
			} else {
				lv.req.Body = io.NopCloser(bytes.NewReader([]byte(after)))
			}
		}
		lv.carriers(o)
		obs = append(obs, o)
	}
	line["obs"] = obs
	line["docSame"] = before == docDigest(d)
	return []any{line}
}

func c13Run(c *Case) []any {
	var tc c13Case
	c.Decode(&tc)
	var raw map[string]any
	c.Decode(&raw)
	line := map[string]any{"case": c.Idx, "c": raw}
	if tc.Kind == "hist" {
		return c13Hist(c, &tc, line)
	}
	d, live := c13Load([]*c13Case{&tc}, line)
	if d == nil {
		return []any{line}
	}
	lv := live[0]
	req := lv.req
	before := docDigest(d)
	line["sent"] = lv.sent
	line["q0"] = req.URL.RawQuery
	validate := func(tag string) {
		lv.validate(line, tag)
		if tc.Kind == "body" {
			after := lv.readBody(line, tag)
			// hand the forwarded request to the next reader the way a proxy would
			req.Body = io.NopCloser(bytes.NewReader([]byte(after)))
		} else {
			line["q"+tag] = req.URL.RawQuery
			line["h"+tag] = strings.Join(req.Header.Values("p"), "|")
			line["c"+tag] = strings.Join(req.Header.Values("Cookie"), "|")
			param := lv.route.Operation.Parameters.GetByInAndName(tc.Loc, "p")
			fresh := &openapi3filter.RequestValidationInput{Request: req, PathParams: lv.pp, Route: lv.route, Options: lv.opts}
			var val any
			var found bool
			var derr error
			if p, _ := guard(func() { val, found, derr = openapi3filter.VerifDecodeStyledParameter(param, fresh) }); !p && derr == nil && found {
				if t, ok := goToTagged(val); ok {
					line["dec"+tag] = t
				}
			}
		}
	}
	validate("1")
	validate("2")
	line["docSame"] = before == docDigest(d)
	return []any{line}
}

func init() {
	drivers["C13"] = &Driver{Run: c13Run, Abnormal: func(c *Case, kind string) []any {
		var raw map[string]any
		c.Decode(&raw)
		return []any{map[string]any{"case": c.Idx, "c": raw, "doc": "ok", "verdict1": kind, "verdict2": kind, "docSame": true}}
	}}
}
