package main

import (
	"bufio"
	"encoding/json"
	"fmt"
	"os"
	"os/exec"
	"strconv"
	"strings"
	"time"
)

type json_RawMessage = json.RawMessage

// Case is one abstract test case: its index in the case file and its JSON.
type Case struct {
	Idx  int
	Raw  json.RawMessage
	Seed int64
	Tier string
}

func (c *Case) Decode(v any) {
	dec := json.NewDecoder(strings.NewReader(string(c.Raw)))
	dec.UseNumber()
	if err := dec.Decode(v); err != nil {
		panic(fmt.Sprintf("harness: cannot decode case %d: %v: %s", c.Idx, err, c.Raw))
	}
}

func readCases(path string) ([]json.RawMessage, error) {
	var res []json.RawMessage
	if path == "" {
		return res, nil
	}
	f, err := os.Open(path)
	if err != nil {
		return nil, err
	}
	defer f.Close()
	sc := bufio.NewScanner(f)
	sc.Buffer(make([]byte, 1<<20), 1<<28)
	for sc.Scan() {
		line := strings.TrimSpace(sc.Text())
		if line == "" {
			continue
		}
		res = append(res, json.RawMessage(line))
	}
	return res, sc.Err()
}

func allCases(d *Driver, path string, seed int64, tier string) ([]json.RawMessage, error) {
	cs, err := readCases(path)
	if err != nil {
		return nil, err
	}
	if d.Extra != nil {
		cs = append(cs, d.Extra(seed, tier)...)
	}
	return cs, nil
}

var hangConfirmed bool

const (
	exitHang  = 3
	exitRace  = 66
	exitInfra = 64 // the Go runtime itself exits with 2 on a fatal error (stack overflow), which is an observation
)

// runChild executes cases[from:] in this process.  Before each case the index is written to
// the progress file; the lines of a case are written to the log only when the case is complete.
func runChild(d *Driver, casesPath, outPath string, from int, progress string, seed int64, tier string) int {
	cs, err := allCases(d, casesPath, seed, tier)
	if err != nil {
		fmt.Fprintln(os.Stderr, "driver child:", err)
		return exitInfra
	}
	out, err := os.OpenFile(outPath, os.O_APPEND|os.O_CREATE|os.O_WRONLY, 0o644)
	if err != nil {
		fmt.Fprintln(os.Stderr, "driver child:", err)
		return exitInfra
	}
	w := bufio.NewWriterSize(out, 1<<20)
	timeout := 10 * time.Second
	if d.PerCaseTimeoutMs > 0 {
		timeout = time.Duration(d.PerCaseTimeoutMs) * time.Millisecond
	}
	// A case that merely runs slowly on a loaded machine is not a hang: until one hang has been
	// confirmed in this run the watchdog waits at least a minute (a real non-termination is still
	// caught); afterwards the driver's own short limit applies so that a hanging tree is reported soon.
	if !hangConfirmed && timeout < 60*time.Second {
		timeout = 60 * time.Second
	}
	lastProgress := -1
	for i := from; i < len(cs); i++ {
		// progress marker: cheap, but must be durable before the case runs
		if i-lastProgress >= 1 {
			os.WriteFile(progress, []byte(strconv.Itoa(i)), 0o644)
			lastProgress = i
		}
		c := &Case{Idx: i, Raw: cs[i], Seed: seed, Tier: tier}
		done := make(chan []any, 1)
		go func() { done <- d.Run(c) }()
		var lines []any
		select {
		case lines = <-done:
		case <-time.After(timeout):
			w.Flush()
			for _, l := range d.Abnormal(c, "hang") {
				writeLine(w, l)
			}
			w.Flush()
			return exitHang
		}
		for _, l := range lines {
			writeLine(w, l)
		}
		// a later case may kill the process: nothing of a completed case may sit in a buffer
		w.Flush()
	}
	w.Flush()
	out.Close()
	return 0
}

func writeLine(w *bufio.Writer, l any) {
	b, err := json.Marshal(l)
	if err != nil {
		panic(fmt.Sprintf("harness: cannot marshal log line: %v (%#v)", err, l))
	}
	w.Write(b)
	w.WriteByte('\n')
}

// runParent runs children until all cases are done; a child that dies marks the case in the
// progress file as "crash" (observation), a child that exits with exitHang has already logged
// a "hang" observation.  Either way the next child resumes after that case.
func runParent(d *Driver, prop, casesPath, outPath string, seed int64, tier string) int {
	cs, err := allCases(d, casesPath, seed, tier)
	if err != nil {
		fmt.Fprintln(os.Stderr, "driver:", err)
		return 2
	}
	os.Remove(outPath)
	progress := outPath + ".progress"
	defer os.Remove(progress)
	from := 0
	abnormal := 0
	hangs := false
	for from < len(cs) {
		os.Remove(progress)
		cmd := exec.Command(os.Args[0], "-child", "-prop", prop, "-cases", casesPath, "-out", outPath,
			"-from", strconv.Itoa(from), "-progress", progress, "-seed", strconv.FormatInt(seed, 10), "-tier", tier,
			"-hangconfirmed="+strconv.FormatBool(hangs))
		cmd.Stdout = os.Stderr
		stderr := &tailBuf{max: 16000}
		cmd.Stderr = stderr
		err := cmd.Run()
		if err == nil {
			break
		}
		b, rerr := os.ReadFile(progress)
		if rerr != nil {
			fmt.Fprintf(os.Stderr, "driver: child died before its first case (%v): %s\n", err, stderr.String())
			return 2
		}
		k, _ := strconv.Atoi(strings.TrimSpace(string(b)))
		code := -1
		if ee, ok := err.(*exec.ExitError); ok {
			code = ee.ExitCode()
		}
		if code == exitInfra {
			fmt.Fprintf(os.Stderr, "driver: child infrastructure failure: %s\n", stderr.String())
			return 2
		}
		if code != exitHang {
			// unrecoverable death inside case k: that is an observation of case k
			kind := "crash"
			if code == exitRace {
				kind = "race" // the race detector (GORACE=halt_on_error=1 exitcode=66) ended the process
			}
			out, _ := os.OpenFile(outPath, os.O_APPEND|os.O_CREATE|os.O_WRONLY, 0o644)
			w := bufio.NewWriter(out)
			c := &Case{Idx: k, Raw: cs[k], Seed: seed, Tier: tier}
			lastChildStderr = stderr.String()
			for _, l := range d.Abnormal(c, kind) {
				writeLine(w, l)
			}
			w.Flush()
			out.Close()
			fmt.Fprintf(os.Stderr, "driver: case %d crashed the child (exit %d): %s\n", k, code, lastLines(stderr.String(), 6))
		} else {
			fmt.Fprintf(os.Stderr, "driver: case %d hung\n", k)
			hangs = true
		}
		abnormal++
		if abnormal > 200 {
			fmt.Fprintln(os.Stderr, "driver: too many abnormal cases, giving up")
			return 2
		}
		from = k + 1
	}
	fmt.Fprintf(os.Stderr, "driver: %d cases, %d abnormal\n", len(cs), abnormal)
	return 0
}

// lastChildStderr: the tail of the stderr of the child that just died (a race report, a fatal error), for Abnormal
var lastChildStderr string

type tailBuf struct {
	max int
	b   []byte
}

func (t *tailBuf) Write(p []byte) (int, error) {
	t.b = append(t.b, p...)
	if len(t.b) > t.max {
		t.b = t.b[len(t.b)-t.max:]
	}
	return len(p), nil
}
func (t *tailBuf) String() string { return string(t.b) }

func lastLines(s string, n int) string {
	ls := strings.Split(strings.TrimSpace(s), "\n")
	if len(ls) > n {
		ls = ls[len(ls)-n:]
	}
	return strings.Join(ls, " | ")
}

// guard runs f and converts a panic into ok=false with the panic text.
func guard(f func()) (panicked bool, msg string) {
	defer func() {
		if r := recover(); r != nil {
			panicked = true
			msg = fmt.Sprint(r)
		}
	}()
	f()
	return
}

func bytesReader(b []byte) *strings.Reader { return strings.NewReader(string(b)) }
