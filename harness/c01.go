package main

import (
	"context"
	"encoding/json"
	"fmt"
	"math"
	"os"
	"sync"

	"github.com/getkin/kin-openapi/openapi3"
)

// C01: abstract schemas (TLC-generated) are rendered as OpenAPI JSON, loaded through the real
// loader as components.schemas.S, and every value of the shared value list (vals.ndjson,
// written by the same TLC run) is validated in both input forms the API accepts
// (float64 numbers / json.Number).  Logged: verdict vectors.  No oracle here.

type valForm struct {
	tagged any
	f64    any
	num    any
}

// goNative: the value as a Go caller builds it by hand -- integral numbers are int (visitJSON takes int, int32, int64
// and float64 for a number), everything else as decoded.
func goNative(v any) any {
	switch x := v.(type) {
	case float64:
		if x == math.Trunc(x) && math.Abs(x) < 1e15 {
			return int(x)
		}
		return x
	case []any:
		out := make([]any, len(x))
		for i, e := range x {
			out[i] = goNative(e)
		}
		return out
	case map[string]any:
		out := make(map[string]any, len(x))
		for k, e := range x {
			out[k] = goNative(e)
		}
		return out
	}
	return v
}

var sharedVals = sync.OnceValue(func() []valForm {
	path := os.Getenv("VERIF_VALS")
	if path == "" {
		panic("harness: VERIF_VALS not set")
	}
	raws, err := readCases(path)
	if err != nil {
		panic(err)
	}
	var res []valForm
	for _, r := range raws {
		res = append(res, mkValForm(r))
	}
	return res
})

func mkValForm(raw json.RawMessage) valForm {
	var t any
	dec := json.NewDecoder(bytesReader(raw))
	dec.UseNumber()
	if err := dec.Decode(&t); err != nil {
		panic(err)
	}
	text := taggedToJSONText(t)
	return valForm{tagged: t, f64: decodeJSONText(text, false), num: decodeJSONText(text, true)}
}

// absChildren calls f on every direct sub-schema of an abstract schema and stores what f returns in a copy.
func absMapChildren(m map[string]any, f func(any) any) map[string]any {
	out := make(map[string]any, len(m))
	for k, x := range m {
		switch k {
		case "not", "items", "apSchema":
			out[k] = f(x)
		case "allOf", "anyOf", "oneOf", "ps":
			l := []any{}
			for _, s := range asSlice(x) {
				l = append(l, f(s))
			}
			out[k] = l
		default:
			out[k] = x
		}
	}
	return out
}

// shareAbs is the realiser of the "share" dimension (spec/SchemaUniverse.tla ShareWrappers): every non-empty
// sub-schema that occurs more than once in the abstract schema becomes ONE component, and each occurrence a
// reference to it ([ref |-> name]), so that the loaded document holds one schema object for all occurrences.
func shareAbs(root any) (any, map[string]any) {
	canon := func(n any) string { b, _ := json.Marshal(n); return string(b) }
	counts := map[string]int{}
	var count func(n any) any
	count = func(n any) any {
		if m, ok := n.(map[string]any); ok && len(m) > 0 {
			counts[canon(m)]++
			absMapChildren(m, count)
		}
		return n
	}
	comps := map[string]any{}
	names := map[string]string{}
	var tr func(n any) any
	tr = func(n any) any {
		m, ok := n.(map[string]any)
		if !ok || len(m) == 0 {
			return n
		}
		key := canon(m)
		if counts[key] < 2 {
			return absMapChildren(m, tr)
		}
		name, seen := names[key]
		if !seen {
			name = fmt.Sprintf("C%d", len(names)+1)
			names[key] = name
			comps[name] = absMapChildren(m, tr)
		}
		return map[string]any{"ref": name}
	}
	rm, ok := root.(map[string]any)
	if !ok {
		return root, comps
	}
	absMapChildren(rm, count)
	return absMapChildren(rm, tr), comps
}

// inlineRefs is the projector's inverse of shareAbs: references are replaced by the component they designate.
func inlineRefs(n any, comps map[string]any, depth int) (any, bool) {
	m, ok := n.(map[string]any)
	if !ok {
		return n, true
	}
	if depth > 20 {
		return nil, false
	}
	if name, isRef := m["ref"].(string); isRef && len(m) == 1 {
		c, ok := comps[name]
		if !ok {
			return nil, false
		}
		return inlineRefs(c, comps, depth+1)
	}
	okAll := true
	out := absMapChildren(m, func(x any) any {
		r, ok := inlineRefs(x, comps, depth+1)
		okAll = okAll && ok
		return r
	})
	return out, okAll
}

// loadSchema renders the abstract schema, loads it through the real loader and returns it.
func loadSchema(abs any) (*openapi3.Schema, *openapi3.T, error) { return loadSchemaShared(abs, false) }

// loadSchemaShared: with share, repeated sub-schemas are realised as references to shared components.
func loadSchemaShared(abs any, share bool) (*openapi3.Schema, *openapi3.T, error) {
	schemas := map[string]any{
		// the schema a discriminator mapping of the universe designates ("discref": key "k")
		"D": map[string]any{"type": "object", "properties": map[string]any{"y": map[string]any{"type": "integer"}}},
	}
	if share {
		root, comps := shareAbs(abs)
		schemas["S"] = absSchemaToOpenAPI(root)
		for name, c := range comps {
			schemas[name] = absSchemaToOpenAPI(c)
		}
	} else {
		schemas["S"] = absSchemaToOpenAPI(abs)
	}
	doc := map[string]any{
		"openapi":    "3.0.3",
		"info":       map[string]any{"title": "t", "version": "1"},
		"paths":      map[string]any{},
		"components": map[string]any{"schemas": schemas},
	}
	data, err := json.Marshal(doc)
	if err != nil {
		panic(err)
	}
	loader := openapi3.NewLoader()
	d, err := loader.LoadFromData(data)
	if err != nil {
		return nil, nil, err
	}
	return d.Components.Schemas["S"].Value, d, nil
}

func verdict(f func() error) string {
	var err error
	p, _ := guard(func() { err = f() })
	if p {
		return "P"
	}
	if err != nil {
		return "R"
	}
	return "A"
}

func boolVerdict(f func() bool) string {
	var ok bool
	p, _ := guard(func() { ok = f() })
	if p {
		return "P"
	}
	if ok {
		return "A"
	}
	return "R"
}

type c01Case struct {
	S     any   `json:"s"`
	Vals  []any `json:"vals"`  // optional: explicit values (driver-generated cases)
	Share bool  `json:"share"` // repeated sub-schemas are shared components
}

// projectSchema: what the library holds (marshalled back), projected to the abstract form; references inlined.
func projectSchema(schema *openapi3.Schema, doc *openapi3.T) (any, bool) {
	proj := func(x any) (any, bool) {
		b, err := json.Marshal(x)
		if err != nil {
			return nil, false
		}
		var o map[string]any
		d := json.NewDecoder(bytesReader(b))
		d.UseNumber()
		if d.Decode(&o) != nil {
			return nil, false
		}
		return openAPIToAbsSchema(o)
	}
	rs, ok := proj(schema)
	if !ok {
		return nil, false
	}
	comps := map[string]any{}
	for name, ref := range doc.Components.Schemas {
		if name == "S" || ref.Value == nil {
			continue
		}
		if c, ok := proj(ref.Value); ok {
			comps[name] = c
		}
	}
	rs, ok = inlineRefs(rs, comps, 0)
	if m, isMap := rs.(map[string]any); ok && isMap && len(m) == 0 {
		return []any{}, true
	}
	return rs, ok
}

func c01Run(c *Case) []any {
	var tc c01Case
	c.Decode(&tc)
	line := map[string]any{"case": c.Idx, "s": tc.S}
	if tc.Share {
		line["share"] = true
	}
	schema, doc, err := loadSchemaShared(tc.S, tc.Share)
	if err != nil {
		line["load"] = "error"
		line["loadErr"] = err.Error()
		return []any{line}
	}
	line["load"] = "ok"
	// realiser round trip: what the library holds, projected back to the abstract form
	if rs, ok := projectSchema(schema, doc); ok {
		line["rs"] = rs
	}
	vals := sharedVals()
	if tc.Vals != nil {
		vals = nil
		for _, t := range tc.Vals {
			text := taggedToJSONText(t)
			vals = append(vals, valForm{tagged: t, f64: decodeJSONText(text, false), num: decodeJSONText(text, true)})
		}
		line["vals"] = tc.Vals
	}
	of, on, om, og, oq, op := []any{}, []any{}, []any{}, []any{}, []any{}, []any{}
	for _, v := range vals {
		of = append(of, verdict(func() error { return schema.VisitJSON(v.f64) }))
		on = append(on, verdict(func() error { return schema.VisitJSON(v.num) }))
		om = append(om, boolVerdict(func() bool { return schema.IsMatching(v.f64) }))
		og = append(og, verdict(func() error { return schema.VisitJSON(goNative(v.f64)) }))
		// the directed readings as the request / response validators call them: defaults are installed into the value, so
		// every run gets a value of its own
		fresh := func() any { return decodeJSONText(taggedToJSONText(v.tagged), false) }
		dset := openapi3.DefaultsSet(func() {})
		oq = append(oq, verdict(func() error { return schema.VisitJSON(fresh(), openapi3.VisitAsRequest(), dset) }))
		op = append(op, verdict(func() error { return schema.VisitJSON(fresh(), openapi3.VisitAsResponse(), dset) }))
	}
	line["of"], line["on"], line["om"], line["og"], line["oq"], line["op"] = of, on, om, og, oq, op
	return []any{line}
}

func init() {
	drivers["C01"] = &Driver{
		Run: c01Run,
		Abnormal: func(c *Case, kind string) []any {
			var tc c01Case
			c.Decode(&tc)
			line := map[string]any{"case": c.Idx, "s": tc.S, "load": kind}
			if tc.Share {
				line["share"] = true
			}
			return []any{line}
		},
	}
	_ = context.Background
	_ = fmt.Sprint
}
