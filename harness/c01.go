package main

import (
	"context"
	"encoding/json"
	"fmt"
	"os"
	"sync"

	"github.com/getkin/kin-openapi/openapi3"
)

// C01: abstract schemas (TLC-generated) are rendered as OpenAPI JSON, loaded through the real
// loader as components.schemas.S, and every value of the shared value list (vals.ndjson,
// written by the same TLC run) is validated in both input forms the API accepts
// (float64 numbers / json.Number).  Logged: verdict vectors.  No oracle here.

type valForm struct {
	tagged any
	f64    any
	num    any
}

var sharedVals = sync.OnceValue(func() []valForm {
	path := os.Getenv("VERIF_VALS")
	if path == "" {
		panic("harness: VERIF_VALS not set")
	}
	raws, err := readCases(path)
	if err != nil {
		panic(err)
	}
	var res []valForm
	for _, r := range raws {
		res = append(res, mkValForm(r))
	}
	return res
})

func mkValForm(raw json.RawMessage) valForm {
	var t any
	dec := json.NewDecoder(bytesReader(raw))
	dec.UseNumber()
	if err := dec.Decode(&t); err != nil {
		panic(err)
	}
	text := taggedToJSONText(t)
	return valForm{tagged: t, f64: decodeJSONText(text, false), num: decodeJSONText(text, true)}
}

// loadSchema renders the abstract schema, loads it through the real loader and returns it.
func loadSchema(abs any) (*openapi3.Schema, *openapi3.T, error) {
	doc := map[string]any{
		"openapi": "3.0.3",
		"info":    map[string]any{"title": "t", "version": "1"},
		"paths":   map[string]any{},
		"components": map[string]any{"schemas": map[string]any{
			"S": absSchemaToOpenAPI(abs),
			// the schema a discriminator mapping of the universe designates ("discref": key "k")
			"D": map[string]any{"type": "object", "properties": map[string]any{"y": map[string]any{"type": "integer"}}},
		}},
	}
	data, err := json.Marshal(doc)
	if err != nil {
		panic(err)
	}
	loader := openapi3.NewLoader()
	d, err := loader.LoadFromData(data)
	if err != nil {
		return nil, nil, err
	}
	return d.Components.Schemas["S"].Value, d, nil
}

func verdict(f func() error) string {
	var err error
	p, _ := guard(func() { err = f() })
	if p {
		return "P"
	}
	if err != nil {
		return "R"
	}
	return "A"
}

func boolVerdict(f func() bool) string {
	var ok bool
	p, _ := guard(func() { ok = f() })
	if p {
		return "P"
	}
	if ok {
		return "A"
	}
	return "R"
}

type c01Case struct {
	S    any   `json:"s"`
	Vals []any `json:"vals"` // optional: explicit values (driver-generated cases)
}

func c01Run(c *Case) []any {
	var tc c01Case
	c.Decode(&tc)
	line := map[string]any{"case": c.Idx, "s": tc.S}
	schema, _, err := loadSchema(tc.S)
	if err != nil {
		line["load"] = "error"
		line["loadErr"] = err.Error()
		return []any{line}
	}
	line["load"] = "ok"
	// realiser round trip: what the library holds, projected back to the abstract form
	if b, err := json.Marshal(schema); err == nil {
		var o map[string]any
		d := json.NewDecoder(bytesReader(b))
		d.UseNumber()
		if d.Decode(&o) == nil {
			if rs, ok := openAPIToAbsSchema(o); ok {
				line["rs"] = rs
			}
		}
	}
	vals := sharedVals()
	if tc.Vals != nil {
		vals = nil
		for _, t := range tc.Vals {
			text := taggedToJSONText(t)
			vals = append(vals, valForm{tagged: t, f64: decodeJSONText(text, false), num: decodeJSONText(text, true)})
		}
		line["vals"] = tc.Vals
	}
	of, on, om := []any{}, []any{}, []any{}
	for _, v := range vals {
		of = append(of, verdict(func() error { return schema.VisitJSON(v.f64) }))
		on = append(on, verdict(func() error { return schema.VisitJSON(v.num) }))
		om = append(om, boolVerdict(func() bool { return schema.IsMatching(v.f64) }))
	}
	line["of"], line["on"], line["om"] = of, on, om
	return []any{line}
}

func init() {
	drivers["C01"] = &Driver{
		Run: c01Run,
		Abnormal: func(c *Case, kind string) []any {
			var tc c01Case
			c.Decode(&tc)
			return []any{map[string]any{"case": c.Idx, "s": tc.S, "load": kind}}
		},
	}
	_ = context.Background
	_ = fmt.Sprint
}
