package main

import (
	"encoding/json"
	"fmt"
	"strings"
	"unicode/utf16"
)

// C20, the lexical half of the byte-string quantifier (spec/Robust.tla LexOps): the same near-valid document, written
// with the features of the two concrete syntaxes that a structural mutation of the JSON tree cannot produce -- YAML
// anchors / aliases / merge keys / tags / non-string keys / implicit scalar types / directives / several documents,
// JSON-like text that only the YAML fallback reads, byte-order marks and other encodings, invalid UTF-8, huge keys and
// strings, duplicate keys.  A value operator replaces the rendering of the node, a key operator adds an entry with the
// given raw key next to the node, a document operator rewrites the whole text.  The bytes behind each name:

type c20LexSub struct {
	marker string
	raw    string
}

type c20Lex struct {
	subs      []c20LexSub
	prefix    string // YAML lines in front of the document (anchors have to be defined before they are used)
	suffix    string
	transform func([]byte) []byte
}

const c20Fan = "[*%s,*%s,*%s,*%s,*%s,*%s,*%s,*%s,*%s]"

// value operators: %s is the JSON text of the node's original value (a YAML flow value as well)
var c20LexValue = map[string]string{
	"yaml_anchor_alias":       "&anc %s",
	"yaml_alias_self":         "&anc [*anc]",
	"yaml_alias_self_map":     "&anc {a: *anc}",
	"yaml_alias_undefined":    "*nope",
	"yaml_alias_fanout":       "*l6",
	"yaml_merge_key":          "{<<: *base}",
	"yaml_merge_list":         "{<<: [*base, *base], zz: 1}",
	"yaml_merge_scalar":       "{<<: 1}",
	"yaml_merge_override":     "{<<: *base, <<: *base}",
	"yaml_tag_str":            "!!str %s",
	"yaml_tag_binary":         "!!binary aGVsbG8=",
	"yaml_tag_binary_bad":     "!!binary \"%%%%\"",
	"yaml_tag_int_word":       "!!int zz",
	"yaml_tag_float_huge":     "!!float 1e999",
	"yaml_tag_unknown":        "!foo %s",
	"yaml_tag_map_on_scalar":  "!!map zz",
	"yaml_tag_seq_on_map":     "!!seq {a: 1}",
	"yaml_tag_null_word":      "!!null zz",
	"yaml_tag_timestamp":      "!!timestamp 2001-12-14t21:59:43.10-05:00",
	"yaml_tag_set":            "!!set {a, b}",
	"yaml_timestamp":          "2001-12-14",
	"yaml_octal":              "0o17",
	"yaml_octal_old":          "017",
	"yaml_hex":                "0x1F",
	"yaml_binary_int":         "0b101",
	"yaml_inf":                ".inf",
	"yaml_neg_inf":            "-.Inf",
	"yaml_nan":                ".NaN",
	"yaml_yes":                "yes",
	"yaml_tilde":              "~",
	"yaml_underscore_num":     "1_000",
	"yaml_sexagesimal":        "1:30:00",
	"yaml_big_int":            "123456789012345678901234567890",
	"yaml_uint64_max":         "18446744073709551615",
	"yaml_int64_min":          "-9223372036854775808",
	"yaml_plus_num":           "+1",
	"yaml_exp_huge":           "1e400",
	"yaml_quoted_escapes":     "\"\\x00\\u0000\\U0001F600\\e\\N\\_\\L\\P\\0\"",
	"yaml_single_quoted":      "'it''s'",
	"yaml_flow_unclosed":      "{a: [1, 2",
	"yaml_empty_flow_entry":   "[a, , b]",
	"yaml_question_key_value": "{? a : b, ? [c] : d}",
	"json_nul_escape":         "\"a\\u0000b\"",
	"json_lone_surrogate":     "\"\\ud800\"",
	"json_swapped_surrogates": "\"\\udc00\\ud800\"",
	"json_neg_zero":           "-0",
	"json_exp_huge":           "1e999999999",
	"json_exp_tiny":           "1e-999999999",
	"json_long_fraction":      "0." + "0000000000000000000000000000000000000000000000000000000000000000000000000000000000000000000000001",
	"json_leading_zero":       "01",
	"json_hex":                "0x10",
	"json_trailing_comma":     "[1,]",
	"json_trailing_comma_obj": "{\"a\": 1,}",
	"json_single_quotes":      "'a'",
	"json_unquoted_key":       "{a: 1}",
	"json_comment":            "1 /* c */",
	"json_nan":                "NaN",
	"json_infinity":           "-Infinity",
	"json_plus":               "+1",
	"json_bare_dot":           ".5",
	"json_control_in_string":  "\"a\tb\x01c\"",
	"invalid_utf8_value":      "\"a\xff\xfeb\"",
	"utf8_overlong":           "\"\xc0\xaf\"",
	"utf8_surrogate_bytes":    "\"\xed\xa0\x80\"",
	"utf8_noncharacter":       "\"\xef\xbf\xbf\xf4\x8f\xbf\xbf\"",
	"utf8_bom_inside":         "\"\xef\xbb\xbfx\"",
}

// key operators: the raw key text
var c20LexKey = map[string]string{
	"yaml_key_int":       "1",
	"yaml_key_bool":      "true",
	"yaml_key_null":      "~",
	"yaml_key_float":     "1.5",
	"yaml_key_seq":       "[a, b]",
	"yaml_key_map":       "{a: b}",
	"yaml_key_timestamp": "2001-12-14",
	"yaml_key_binary":    "!!binary aGk=",
	"yaml_key_alias":     "*base",
	"yaml_key_merge":     "<<",
	"key_empty":          "\"\"",
	"key_nul":            "\"a\\u0000b\"",
	"key_invalid_utf8":   "\"a\xffb\"",
	"key_ref":            "\"$ref\"",
	"key_origin":         "\"__origin__\"",
	"key_dot_slash":      "\"a/b~c.d#e%25\"",
}

func c20LexIs(op string) bool {
	if _, ok := c20LexValue[op]; ok {
		return true
	}
	if _, ok := c20LexKey[op]; ok {
		return true
	}
	switch op {
	case "long_key", "long_string", "dup_key_same", "yaml_nest_deep_flow", "yaml_nest_deep_block", "yaml_many_aliases",
		"doc_bom", "doc_utf16le", "doc_utf16be", "doc_crlf", "doc_trailing_garbage", "doc_twice", "doc_nul_padding",
		"yaml_multi_doc", "yaml_doc_end_garbage", "yaml_directive", "yaml_directive_bad", "yaml_tag_directive", "yaml_leading_comment":
		return true
	}
	return false
}

func c20Utf16(b []byte, little bool) []byte {
	u := utf16.Encode([]rune(string(b)))
	out := make([]byte, 0, 2*len(u)+2)
	put := func(x uint16) {
		if little {
			out = append(out, byte(x), byte(x>>8))
		} else {
			out = append(out, byte(x>>8), byte(x))
		}
	}
	put(0xFEFF)
	for _, x := range u {
		put(x)
	}
	return out
}

// c20LexApply applies one lexical operator at node n (path p) of root and returns the new root
func c20LexApply(root any, op string, p []any, k int, lx *c20Lex) any {
	marker := fmt.Sprintf("ZZLEX%dZZ", k)
	orig, _ := json.Marshal(c20At(root, p))
	// the object a key operator adds its entry to: the node's parent if the node is a member, else the node, else the root
	container := func() map[string]any {
		if len(p) > 0 {
			if _, ok := p[len(p)-1].(string); ok {
				if m, ok := c20At(root, p[:len(p)-1]).(map[string]any); ok {
					return m
				}
			}
		}
		if m, ok := c20At(root, p).(map[string]any); ok {
			return m
		}
		m, _ := root.(map[string]any)
		return m
	}
	if f, ok := c20LexValue[op]; ok {
		raw := f
		if strings.Contains(f, "%s") || strings.Contains(f, "%%") {
			if strings.Contains(f, "%s") {
				raw = fmt.Sprintf(f, string(orig))
			} else {
				raw = fmt.Sprintf(f)
			}
		}
		switch op {
		case "yaml_anchor_alias":
			lx.suffix += "x-alias: *anc\n"
		case "yaml_merge_key", "yaml_merge_list", "yaml_merge_override":
			lx.prefix += "x-base: &base " + string(orig) + "\n"
		case "yaml_alias_fanout":
			// the bounded "billion laughs": 9^7 leaves behind one alias
			lx.prefix += "x-l0: &l0 [z,z,z,z,z,z,z,z,z]\n"
			for i := 1; i <= 6; i++ {
				a := fmt.Sprintf("l%d", i-1)
				lx.prefix += fmt.Sprintf("x-l%d: &l%d "+c20Fan+"\n", i, i, a, a, a, a, a, a, a, a, a)
			}
		}
		lx.subs = append(lx.subs, c20LexSub{marker, raw})
		return c20Set(root, p, marker, false)
	}
	if raw, ok := c20LexKey[op]; ok {
		if m := container(); m != nil {
			if op == "yaml_key_alias" {
				lx.prefix += "x-base: &base kk\n"
			}
			m[marker] = json.Number("1")
			lx.subs = append(lx.subs, c20LexSub{marker, raw})
		}
		return root
	}
	switch op {
	case "long_key":
		if m := container(); m != nil {
			m[strings.Repeat("k", 64<<10)] = json.Number("1")
		}
	case "long_string":
		return c20Set(root, p, strings.Repeat("s", 256<<10), false)
	case "dup_key_same":
		if len(p) > 0 {
			if key, ok := p[len(p)-1].(string); ok {
				if m, ok := c20At(root, p[:len(p)-1]).(map[string]any); ok {
					var cp any
					dec := json.NewDecoder(strings.NewReader(string(orig)))
					dec.UseNumber()
					dec.Decode(&cp)
					m[c20DupMarker+key] = cp
				}
			}
		}
	case "yaml_nest_deep_flow":
		depth := 5000
		if k%2 == 1 || len(p)%2 == 1 {
			depth = 20000
		}
		lx.subs = append(lx.subs, c20LexSub{marker, strings.Repeat("[", depth) + strings.Repeat("]", depth)})
		return c20Set(root, p, marker, false)
	case "yaml_nest_deep_block":
		lx.subs = append(lx.subs, c20LexSub{marker, "[]"})
		lx.suffix += "x-deep: " + strings.Repeat("- ", 5000) + "z\n"
		return c20Set(root, p, marker, false)
	case "yaml_many_aliases":
		lx.prefix += "x-base: &base " + string(orig) + "\n"
		lx.subs = append(lx.subs, c20LexSub{marker, "*base"})
		lx.suffix += "x-many: [" + strings.Repeat("*base, ", 1000) + "*base]\n"
		return c20Set(root, p, marker, false)
	case "doc_bom":
		lx.transform = func(b []byte) []byte { return append([]byte("\xef\xbb\xbf"), b...) }
	case "doc_utf16le":
		lx.transform = func(b []byte) []byte { return c20Utf16(b, true) }
	case "doc_utf16be":
		lx.transform = func(b []byte) []byte { return c20Utf16(b, false) }
	case "doc_crlf":
		lx.transform = func(b []byte) []byte { return []byte(strings.ReplaceAll(string(b), "\n", "\r\n")) }
	case "doc_trailing_garbage":
		lx.transform = func(b []byte) []byte { return append(b, []byte("\n}")...) }
	case "doc_twice":
		lx.transform = func(b []byte) []byte { return append(append([]byte{}, b...), b...) }
	case "doc_nul_padding":
		lx.transform = func(b []byte) []byte { return append(b, 0, 0, 0, 0) }
	case "yaml_multi_doc":
		lx.suffix += "---\nopenapi: 3.0.0\n"
	case "yaml_doc_end_garbage":
		lx.suffix += "...\ngarbage: [\n"
	case "yaml_directive":
		lx.prefix = "%YAML 1.1\n---\n" + lx.prefix
	case "yaml_directive_bad":
		lx.prefix = "%YAML 9.9\n%YAML 1.2\n---\n" + lx.prefix
	case "yaml_tag_directive":
		lx.prefix = "%TAG ! tag:example.com,2000:\n%TAG !e! tag:e,1:\n---\n" + lx.prefix
	case "yaml_leading_comment":
		lx.prefix = "# " + strings.Repeat("c", 70000) + "\n" + lx.prefix
	default:
		panic("harness: c20 lex op " + op)
	}
	return root
}

// c20LexRender rewrites the rendered text: the markers become the raw fragments, then prefix / suffix / transcoding
func c20LexRender(data []byte, yamlForm bool, lx *c20Lex) []byte {
	s := string(data)
	for _, sub := range lx.subs {
		if yamlForm {
			s = strings.ReplaceAll(s, sub.marker, sub.raw)
		} else {
			s = strings.ReplaceAll(s, `"`+sub.marker+`"`, sub.raw)
		}
	}
	if yamlForm {
		s = lx.prefix + s + lx.suffix
	}
	out := []byte(s)
	if lx.transform != nil {
		out = lx.transform(out)
	}
	return out
}
