package main

import (
	"bytes"
	"context"
	"encoding/json"
	"errors"
	"fmt"
	"io"
	"net/http"
	"net/http/httptest"
	"net/url"
	"os"
	"runtime/debug"
	"sort"
	"strings"
	"sync"

	"github.com/getkin/kin-openapi/openapi3"
	"github.com/getkin/kin-openapi/openapi3filter"
	"github.com/getkin/kin-openapi/routers"
	"github.com/getkin/kin-openapi/routers/gorillamux"
	"github.com/getkin/kin-openapi/routers/legacy"
)

// C10: a valid document with the unusual features of the case, a well-formed request (or response)
// mutated as the case says, pushed through router construction, FindRoute (both routers),
// ValidateRequest, ValidateResponse, ConvertErrors and the middleware.  Logged: the outcome of each
// call in the alphabet ok / error / skipped / panic.

type c10Case struct {
	Feats []string `json:"feats"`
	Muts  []string `json:"muts"`
	Side  string   `json:"side"`
	Multi bool     `json:"multi"`
}

type c10Doc struct {
	data              []byte
	doc               *openapi3.T
	err               string
	mux               routers.Router
	legacy            routers.Router
	muxErr, legacyErr string
}

var c10Cache = map[string]*c10Doc{}

func has(fs []string, f string) bool {
	for _, x := range fs {
		if x == f {
			return true
		}
	}
	return false
}

func c10Build(feats []string) map[string]any {
	intS := func() map[string]any { return map[string]any{"type": "integer"} }
	item := map[string]any{"type": "object", "required": []any{"id"}, "properties": map[string]any{
		"id": intS(), "name": map[string]any{"type": "string", "maxLength": 5}, "tags": map[string]any{"type": "array", "items": map[string]any{"type": "string"}}}}
	props := item["properties"].(map[string]any)
	idParam := map[string]any{"name": "id", "in": "path", "required": true, "schema": intS()}
	qParam := map[string]any{"name": "q", "in": "query", "schema": map[string]any{"type": "array", "items": intS()}}
	hParam := map[string]any{"name": "X-H", "in": "header", "schema": map[string]any{"type": "string", "minLength": 1}}
	cParam := map[string]any{"name": "c", "in": "cookie", "schema": map[string]any{"type": "boolean"}}
	params := []any{idParam, qParam, hParam, cParam}
	okResp := map[string]any{"description": "ok", "headers": map[string]any{"X-R": map[string]any{"schema": intS()}},
		"content": map[string]any{"application/json": map[string]any{"schema": map[string]any{"$ref": "#/components/schemas/Item"}}}}
	responses := map[string]any{"200": okResp, "4XX": map[string]any{"description": "e"}, "default": map[string]any{"description": "d"}}
	body := map[string]any{"required": true, "content": map[string]any{"application/json": map[string]any{"schema": map[string]any{"$ref": "#/components/schemas/Item"}}}}
	op := map[string]any{"operationId": "post", "responses": responses}
	comps := map[string]any{"schemas": map[string]any{"Item": item}}
	doc := map[string]any{"openapi": "3.0.3", "info": map[string]any{"title": "t", "version": "1"}, "components": comps}
	pathItem := map[string]any{}
	// features that add to the request body come before the one that removes it
	ordered := make([]string, 0, len(feats))
	for _, f := range feats {
		if f != "no_request_body" {
			ordered = append(ordered, f)
		}
	}
	if has(feats, "no_request_body") {
		ordered = append(ordered, "no_request_body")
	}
	for _, f := range ordered {
		switch f {
		case "excl_min_without_min":
			props["id"].(map[string]any)["exclusiveMinimum"] = true
			qParam["schema"].(map[string]any)["items"].(map[string]any)["exclusiveMinimum"] = true
		case "excl_max_without_max":
			props["id"].(map[string]any)["exclusiveMaximum"] = true
			idParam["schema"].(map[string]any)["exclusiveMaximum"] = true
		case "multiple_of_zero":
			props["id"].(map[string]any)["multipleOf"] = 0
			idParam["schema"].(map[string]any)["multipleOf"] = 0
		case "resp_header_by_content":
			okResp["headers"] = map[string]any{"X-R": map[string]any{"content": map[string]any{"application/json": map[string]any{"schema": intS()}}}}
		case "param_by_content":
			params = append(params, map[string]any{"name": "f", "in": "query", "content": map[string]any{"application/json": map[string]any{
				"schema": map[string]any{"type": "object", "properties": map[string]any{"a": intS()}}}}})
		case "param_by_content_scalar":
			params = append(params, map[string]any{"name": "f", "in": "query", "content": map[string]any{"application/json": map[string]any{"schema": intS()}}})
		case "param_schema_untyped":
			params = append(params, map[string]any{"name": "u", "in": "query", "schema": map[string]any{"description": "anything"}})
		case "recursive_schema":
			props["parent"] = map[string]any{"$ref": "#/components/schemas/Item"}
			props["kids"] = map[string]any{"type": "array", "items": map[string]any{"$ref": "#/components/schemas/Item"}}
		case "items_is_oneof":
			props["tags"] = map[string]any{"type": "array", "items": map[string]any{"oneOf": []any{map[string]any{"type": "string"}, intS()}}}
			qParam["schema"] = map[string]any{"type": "array", "items": map[string]any{"oneOf": []any{intS(), map[string]any{"type": "boolean"}}}}
		case "only_default_response":
			for k := range responses {
				delete(responses, k)
			}
			responses["default"] = okResp
		case "path_level_params_only":
			pathItem["parameters"] = params
			params = nil
		case "required_undeclared_property":
			item["required"] = []any{"id", "kind"}
			item["additionalProperties"] = map[string]any{"type": "string"}
		case "deepobject_param":
			params = append(params, map[string]any{"name": "d", "in": "query", "style": "deepObject", "explode": true,
				"schema": map[string]any{"type": "object", "properties": map[string]any{"a": intS(), "o": map[string]any{"type": "object", "properties": map[string]any{"b": map[string]any{"type": "string"}}},
					"l": map[string]any{"type": "array", "items": intS()}}}})
		case "form_body":
			body["content"].(map[string]any)["application/x-www-form-urlencoded"] = map[string]any{"schema": map[string]any{"$ref": "#/components/schemas/Item"},
				"encoding": map[string]any{"tags": map[string]any{"style": "form", "explode": false}}}
		case "multipart_body":
			body["content"].(map[string]any)["multipart/form-data"] = map[string]any{"schema": map[string]any{"type": "object", "properties": map[string]any{
				"id": intS(), "file": map[string]any{"type": "string", "format": "binary"}, "meta": map[string]any{"$ref": "#/components/schemas/Item"}}}}
		case "security_scheme":
			comps["securitySchemes"] = map[string]any{"key": map[string]any{"type": "apiKey", "in": "header", "name": "X-Key"}}
			op["security"] = []any{map[string]any{"key": []any{}}}
		case "security_undeclared_scheme":
			// Validate does not cross-check requirement names against components.securitySchemes
			comps["securitySchemes"] = map[string]any{"key": map[string]any{"type": "apiKey", "in": "header", "name": "X-Key"}}
			op["security"] = []any{map[string]any{"Key": []any{}}, map[string]any{"key": []any{}, "other": []any{}}}
		case "multiple_of_zero_with_default":
			props["id"].(map[string]any)["multipleOf"] = 0
			qParam["schema"].(map[string]any)["items"].(map[string]any)["multipleOf"] = 0
		case "required_param_by_content":
			params = append(params, map[string]any{"name": "rf", "in": "query", "required": true, "content": map[string]any{"application/json": map[string]any{
				"schema": map[string]any{"type": "array", "items": intS()}}}})
		case "mixed_enum":
			props["name"] = map[string]any{"enum": []any{"a", 1, nil, true, []any{1}, map[string]any{"k": "v"}}}
		case "nullable_everything":
			item["nullable"] = true
			props["id"].(map[string]any)["nullable"] = true
			qParam["schema"].(map[string]any)["nullable"] = true
		case "uncompilable_pattern":
			props["name"] = map[string]any{"type": "string", "pattern": "("}
			hParam["schema"] = map[string]any{"type": "string", "pattern": "(?<x"}
		case "number_array_param_multipleof":
			qParam["schema"] = map[string]any{"type": "array", "items": map[string]any{"type": "number", "multipleOf": 0.5}}
			props["n"] = map[string]any{"type": "number", "multipleOf": 0.5}
		case "yaml_body":
			body["content"].(map[string]any)["application/yaml"] = map[string]any{"schema": map[string]any{"$ref": "#/components/schemas/Item"}}
		case "format_and_bounds":
			props["id"] = map[string]any{"type": "integer", "format": "int32", "minimum": -2147483648, "maximum": 2147483647}
			props["name"] = map[string]any{"type": "string", "format": "date-time"}
			idParam["schema"] = map[string]any{"type": "integer", "format": "int64"}
		case "array_param_nonexploded":
			qParam["explode"] = false
			qParam["style"] = "pipeDelimited"
		case "additional_props_schema":
			item["additionalProperties"] = map[string]any{"type": "array", "items": map[string]any{"$ref": "#/components/schemas/Item"}}
		case "discriminator_mapping":
			comps["schemas"].(map[string]any)["Cat"] = map[string]any{"type": "object", "properties": map[string]any{"kind": map[string]any{"type": "string"}, "m": intS()}}
			comps["schemas"].(map[string]any)["Dog"] = map[string]any{"type": "object", "properties": map[string]any{"kind": map[string]any{"type": "string"}, "w": map[string]any{"type": "string"}}}
			props["pet"] = map[string]any{"oneOf": []any{map[string]any{"$ref": "#/components/schemas/Cat"}, map[string]any{"$ref": "#/components/schemas/Dog"}},
				"discriminator": map[string]any{"propertyName": "kind", "mapping": map[string]any{"cat": "#/components/schemas/Cat", "dog": "#/components/schemas/Dog"}}}
		case "param_content_no_schema":
			// a media type object needs no schema
			params = append(params, map[string]any{"name": "g", "in": "query", "content": map[string]any{"application/json": map[string]any{}}})
		case "form_allof_object_default":
			// a urlencoded body whose object-typed property (declared in an allOf member, non-exploded form encoding) has a defaulted sub-property
			body["content"].(map[string]any)["application/x-www-form-urlencoded"] = map[string]any{
				"schema": map[string]any{"type": "object", "allOf": []any{map[string]any{"type": "object", "properties": map[string]any{
					"id": intS(), "o": map[string]any{"type": "object", "properties": map[string]any{"z": map[string]any{"type": "integer", "default": 3}}}}}}},
				"encoding": map[string]any{"o": map[string]any{"style": "form", "explode": false}}}
		case "form_body_no_schema":
			// media types without a schema: any body of that type is acceptable
			body["content"].(map[string]any)["application/x-www-form-urlencoded"] = map[string]any{}
		case "multipart_body_no_schema":
			body["content"].(map[string]any)["multipart/form-data"] = map[string]any{}
		case "type_empty_list":
			// "type" as an empty list: no value is of any listed type
			props["name"] = map[string]any{"type": []any{}}
			hParam["schema"] = map[string]any{"type": []any{}}
		case "recursive_schema_default":
			// a recursive schema whose recursive property has a default: every injected default asks for another one
			comps["schemas"].(map[string]any)["Node"] = map[string]any{"type": "object", "properties": map[string]any{
				"child": map[string]any{"allOf": []any{map[string]any{"$ref": "#/components/schemas/Node"}}, "default": map[string]any{}}}}
			props["node"] = map[string]any{"$ref": "#/components/schemas/Node"}
		case "no_request_body":
			body = nil
		case "allof_param":
			params = append(params, map[string]any{"name": "a", "in": "query", "schema": map[string]any{"allOf": []any{intS(), map[string]any{"minimum": 0}}}})
		case "readonly_required":
			props["ro"] = map[string]any{"type": "string", "readOnly": true}
			props["wo"] = map[string]any{"type": "string", "writeOnly": true}
			item["required"] = []any{"id", "ro", "wo"}
		default:
			panic("harness: c10 feature " + f)
		}
	}
	if params != nil {
		op["parameters"] = params
	}
	if body != nil {
		op["requestBody"] = body
	}
	pathItem["post"] = op
	doc["paths"] = map[string]any{"/items/{id}": pathItem,
		"/bare/{id}": map[string]any{"summary": "no operations", "parameters": []any{map[string]any{"name": "id", "in": "path", "required": true, "schema": intS()}}},
		"/plain":     map[string]any{"get": map[string]any{"responses": map[string]any{"200": map[string]any{"description": "ok"}}}}}
	return doc
}

func c10Get(feats []string) *c10Doc {
	key := strings.Join(feats, "+")
	if d, ok := c10Cache[key]; ok {
		return d
	}
	data, _ := json.Marshal(c10Build(feats))
	var vopts []string
	if has(feats, "uncompilable_pattern") {
		vopts = append(vopts, "no_pattern")
	}
	res := c10Load(data, vopts)
	c10Cache[key] = res
	return res
}

// c10Load: the real loader, document validation (with the options the document needs to be a valid one), both routers
func c10Load(data []byte, vopts []string) *c10Doc {
	res := &c10Doc{data: data}
	var d *openapi3.T
	var err error
	if p, msg := guard(func() {
		d, err = openapi3.NewLoader().LoadFromData(data)
		if err == nil {
			opts := []openapi3.ValidationOption{}
			if has(vopts, "no_pattern") {
				opts = append(opts, openapi3.DisableSchemaPatternValidation())
			}
			if has(vopts, "no_examples") {
				opts = append(opts, openapi3.DisableExamplesValidation())
			}
			err = d.Validate(context.Background(), opts...)
		}
	}); p {
		// loading / document validation panicking is another property's business (C09); here the document is not a valid one
		res.err = "panic: " + msg
		return res
	}
	if err != nil {
		res.err = err.Error()
		return res
	}
	res.doc = d
	if p, msg := guard(func() {
		var e error
		if res.mux, e = gorillamux.NewRouter(d); e != nil {
			res.muxErr = "error"
		}
	}); p {
		res.muxErr = "panic:" + msg
	}
	if p, msg := guard(func() {
		var e error
		if res.legacy, e = legacy.NewRouter(d); e != nil {
			res.legacyErr = "error"
		}
	}); p {
		res.legacyErr = "panic:" + msg
	}
	return res
}

type c10Req struct {
	method  string
	path    string
	query   []string
	header  http.Header
	body    []byte
	nilBody bool
	// transport and URL forms (structured universe)
	chunked, noBody, nilHeader, noHost, userinfo, emptyMethod, star, closeErr bool
	readErrAt                                                              int
	contentLength                                                          *int64
	opaque, rawPath, host, base                                            string
	rawQuery                                                               *string
}

func c10Request(feats, muts []string) *c10Req {
	return c10Mutate(c10BaseRequest(feats), muts)
}

func c10BaseRequest(feats []string) *c10Req {
	r := &c10Req{method: "POST", path: "/items/5", query: []string{"q=1", "q=2"}, header: http.Header{}}
	r.header.Set("X-H", "h")
	r.header.Set("Cookie", "c=true")
	r.header.Set("Content-Type", "application/json")
	r.header.Set("X-Key", "k")
	r.body = []byte(`{"id":1,"name":"ab","tags":["x"]}`)
	if has(feats, "param_by_content") {
		r.query = append(r.query, `f=%7B%22a%22%3A1%7D`)
	}
	if has(feats, "param_by_content_scalar") {
		r.query = append(r.query, "f=1")
	}
	if has(feats, "deepobject_param") {
		r.query = append(r.query, "d[a]=1", "d[o][b]=x")
	}
	if has(feats, "param_content_no_schema") {
		r.query = append(r.query, `g=%7B%22a%22%3A1%7D`)
	}
	if has(feats, "recursive_schema_default") {
		r.body = []byte(`{"id":1,"name":"ab","tags":["x"],"node":{}}`)
	}
	if has(feats, "form_body_no_schema") {
		r.header.Set("Content-Type", "application/x-www-form-urlencoded")
		r.body = []byte("id=1&name=ab")
	}
	if has(feats, "multipart_body_no_schema") {
		r.header.Set("Content-Type", "multipart/form-data; boundary=xyz")
		r.body = []byte("--xyz\r\nContent-Disposition: form-data; name=\"id\"\r\n\r\n1\r\n--xyz--\r\n")
	}
	if has(feats, "form_allof_object_default") {
		r.header.Set("Content-Type", "application/x-www-form-urlencoded")
		r.body = []byte("id=1")
	}
	if has(feats, "no_request_body") {
		r.body = nil
		r.header.Del("Content-Type")
	}
	return r
}

func c10Mutate(r *c10Req, muts []string) *c10Req {
	for _, m := range muts {
		switch m {
		case "method_propfind":
			r.method = "PROPFIND"
		case "method_lowercase":
			r.method = "post"
		case "method_empty_like":
			r.method = "P0ST"
		case "path_extra_segment":
			r.path = "/items/5/x"
		case "path_empty_segment":
			r.path = "/items//"
		case "path_bad_escape":
			r.path = "/items/%zz"
		case "path_param_garbage":
			r.path = "/items/;id=%00%ff,."
		case "path_param_long":
			r.path = "/items/" + strings.Repeat("9", 5000)
		case "query_dup_key":
			r.query = append(r.query, "q=3", "q=3", "X-H=1")
		case "query_no_value":
			r.query = []string{"q", "q=", "=1", "&&"}
		case "query_garbage_value":
			r.query = []string{"q=a,b", "q=%00", "q=1.5e", "u={[}"}
		case "query_bad_escape":
			r.query = []string{"q=%zz", "%=1"}
		case "query_deep_conflict":
			r.query = append(r.query, "d[a]=1", "d[a][b]=2", "d[o]=x", "d[o][b]=y", "d[]=1", "d[=1", "d]=2")
		case "query_deep_index":
			r.query = append(r.query, "d[l][0]=1", "d[l][2]=3", "d[l][-1]=4", "d[l][x]=5", "d[l][99999999]=6")
		case "query_deep_index_negative":
			r.query = append(r.query, "d[l][-1]=1", "d[l][0]=1", "d[l][-2]=2")
		case "query_deep_index_gap":
			r.query = append(r.query, "d[l][0]=1", "d[l][5]=3")
		case "query_deep_index_nonnumeric":
			r.query = append(r.query, "d[l][x]=5", "d[l][]=6")
		case "query_deep_scalar_for_object":
			r.query = append(r.query, "d=1", "d[o]=x")
		case "zero_values":
			r.path = "/items/0"
			r.query = []string{"q=0", "q=0", "a=0", "rf=0"}
			r.body = []byte(`{"id":0,"name":"","tags":[]}`)
		case "query_nan_inf":
			r.query = []string{"q=1", "q=NaN", "q=Inf", "q=-Inf", "a=NaN", "rf=nan"}
		case "body_yaml_nan":
			r.header.Set("Content-Type", "application/yaml")
			r.body = []byte("id: .nan\nname: ab\ntags: [x]\nn: .inf\n")
		case "body_json_nan_token":
			r.body = []byte(`{"id":NaN,"name":"ab","n":Infinity}`)
		case "target_bare_path_get":
			r.method, r.path, r.body = "GET", "/bare/5", nil
		case "target_bare_path_delete":
			r.method, r.path, r.body = "DELETE", "/bare/5", nil
		case "target_bare_path_brew":
			r.method, r.path, r.body = "BREW", "/bare/5", nil
		case "query_huge_number":
			r.query = []string{"q=" + strings.Repeat("9", 400), "q=1e999", "a=-1e999"}
		case "query_content_repeated":
			r.query = append(r.query, "f=abc", "f=def")
		case "query_content_garbage":
			r.query = append(r.query, "f=%7B%22a%22%3A", "f=[")
		case "query_many_keys":
			for i := 0; i < 2000; i++ {
				r.query = append(r.query, fmt.Sprintf("k%d=%d", i, i))
			}
		case "header_missing":
			r.header.Del("X-H")
		case "header_garbage":
			r.header.Set("X-H", "\x00\xff,=;")
		case "header_dup":
			r.header.Add("X-H", "second")
			r.header.Add("X-H", "")
		case "cookie_garbage":
			r.header.Set("Cookie", "c=maybe; c=; =x; c")
		case "cookie_malformed":
			r.header.Set("Cookie", ";;;=\"unterminated")
		case "ct_missing":
			r.header.Del("Content-Type")
		case "ct_garbage":
			r.header.Set("Content-Type", ";;/;=\x00")
		case "ct_params":
			r.header.Set("Content-Type", "application/json; charset=\"utf-8; boundary=")
		case "ct_multipart_no_boundary":
			r.header.Set("Content-Type", "multipart/form-data")
		case "ct_form_for_json":
			r.header.Set("Content-Type", "application/x-www-form-urlencoded")
		case "ct_wildcard":
			r.header.Set("Content-Type", "*/*")
		case "body_truncated":
			r.body = []byte(`{"id":1,"name":"ab","tags":["x`)
		case "body_wrong_type_array":
			r.body = []byte(`[1,2,3]`)
		case "body_wrong_type_scalar":
			r.body = []byte(`"just a string"`)
		case "body_deep_nesting":
			r.body = []byte(strings.Repeat(`{"parent":`, 3000) + `{"id":1}` + strings.Repeat(`}`, 3000))
		case "body_huge_number":
			r.body = []byte(`{"id":1e999,"name":"` + strings.Repeat("a", 100000) + `"}`)
		case "body_invalid_utf8":
			r.body = []byte("{\"id\":1,\"name\":\"\xff\xfe\x00\"}")
		case "body_empty":
			r.body = []byte{}
		case "body_null":
			r.body = []byte(`null`)
		case "body_form_bad_escape":
			r.header.Set("Content-Type", "application/x-www-form-urlencoded")
			r.body = []byte("id=%zz&tags=1,2&tags&=&name=%")
		case "body_multipart_malformed":
			r.header.Set("Content-Type", "multipart/form-data; boundary=XX")
			r.body = []byte("--XX\r\nContent-Disposition: form-data; name=\"id\"\r\n\r\n1\r\n--XX\r\nContent-Disposition: form-data; name=\"meta\"\r\nContent-Type: application/json\r\n\r\n{\"id\":\r\n--XX")
		case "body_missing_required":
			r.body = []byte(`{}`)
		case "body_extra_props":
			r.body = []byte(`{"id":1,"zzz":[1,{"a":null}],"kind":5,"pet":{"kind":7},"parent":{"parent":{"id":"x"}}}`)
		case "body_trailing_garbage":
			r.body = []byte(`{"id":1}}}}`)
		case "body_nil":
			r.nilBody = true
		case "security_header_missing":
			r.header.Del("X-Key")
		default:
			if !c10ReqMutNew(r, m) {
				panic("harness: c10 request mutation " + m)
			}
		}
	}
	return r
}

func (r *c10Req) build() (*http.Request, error) {
	target := r.path
	if len(r.query) > 0 {
		target += "?" + strings.Join(r.query, "&")
	}
	var body io.Reader
	if r.body != nil && !r.nilBody {
		body = bytes.NewReader(r.body)
	}
	base := "http://example.com"
	if r.base != "" {
		base = r.base // the request goes to the server the document declares
	}
	if r.userinfo {
		base = strings.Replace(base, "://", "://user:p%40ss@", 1)
		target += "#frag/%zz"
	}
	var req *http.Request
	var err error
	if p, _ := guard(func() { req, err = http.NewRequest(r.method, base+target, body) }); p || err != nil || req == nil {
		// the URL or method is not even a net/http request: nothing the library can be given
		return nil, errors.New("not a request")
	}
	req.Header = r.header.Clone()
	// transport forms: the same bytes as a server (or a careless caller) may hand them over
	if r.body != nil && !r.nilBody && (r.chunked || r.readErrAt != 0 || r.closeErr) {
		req.Body = &c10Reader{data: r.body, oneByte: r.chunked, errAt: r.readErrAt, closeE: r.closeErr}
		req.GetBody = nil
		if r.chunked {
			req.ContentLength = -1
			req.TransferEncoding = []string{"chunked"}
		}
	}
	if r.noBody {
		req.Body, req.ContentLength = http.NoBody, 0
	}
	if r.contentLength != nil {
		req.ContentLength = *r.contentLength
	}
	if r.nilBody {
		req.Body = nil
	}
	if r.nilHeader {
		req.Header = nil
	}
	if r.emptyMethod {
		req.Method = "" // net/http: "For client requests, an empty string means GET"
	}
	if r.opaque != "" {
		req.URL.Opaque = r.opaque
	}
	if r.noHost {
		req.URL.Host, req.URL.Scheme, req.Host = "", "", ""
	}
	if r.rawPath != "" {
		req.URL.RawPath = r.rawPath
	}
	if r.rawQuery != nil {
		req.URL.RawQuery = *r.rawQuery
	}
	if r.host != "" {
		req.Host, req.URL.Host = r.host, r.host
	}
	if r.star {
		req.Method, req.RequestURI = "OPTIONS", "*"
		req.URL = &url.URL{Path: "*"}
	}
	return req, nil
}

type c10Resp struct {
	status int
	header http.Header
	body   []byte
	nil_   bool
	nilHeader, oneByte, closeErr bool
	readErrAt                    int
}

func c10Response(muts []string) *c10Resp {
	r := &c10Resp{status: 200, header: http.Header{}, body: []byte(`{"id":1}`)}
	r.header.Set("Content-Type", "application/json")
	r.header.Set("X-R", "5")
	return c10MutateResp(r, muts)
}

func c10MutateResp(r *c10Resp, muts []string) *c10Resp {
	for _, m := range muts {
		switch m {
		case "status_zero":
			r.status = 0
		case "status_99":
			r.status = 99
		case "status_600":
			r.status = 600
		case "status_999":
			r.status = 999
		case "status_204_with_body":
			r.status = 204
		case "resp_header_missing":
			r.header.Del("X-R")
		case "resp_header_garbage":
			r.header.Set("X-R", "\x00,=;{")
		case "resp_ct_missing":
			r.header.Del("Content-Type")
		case "resp_ct_garbage":
			r.header.Set("Content-Type", "/;;=")
		case "resp_body_truncated":
			r.body = []byte(`{"id":`)
		case "resp_body_wrong_type":
			r.body = []byte(`[[["x"]]]`)
		case "resp_body_deep":
			r.body = []byte(strings.Repeat(`{"parent":`, 3000) + `{"id":1}` + strings.Repeat(`}`, 3000))
		case "resp_body_empty":
			r.body = []byte{}
		case "resp_body_nil":
			r.nil_ = true
		case "resp_header_content_json":
			r.header.Set("X-R", `{"a":[1,2]}`)
		case "resp_header_content_garbage":
			r.header.Set("X-R", `{"a":`)
		default:
			if !c10RespMutNew(r, m) {
				panic("harness: c10 response mutation " + m)
			}
		}
	}
	return r
}

func c10Outcome(f func() error, msgs *[]string) string {
	var err error
	if p, msg := guard(func() { err = f() }); p {
		*msgs = append(*msgs, msg)
		return "panic"
	}
	if err != nil {
		return "error"
	}
	return "ok"
}

var c10StackOnce sync.Once

func c10Run(c *Case) []any {
	// unbounded recursion is an observation (the child dies, the runner reports "crash"); a smaller maximal stack makes
	// it die in a fraction of a second instead of after filling 1 GB (3000 levels of legitimately deep input need more than 64 MB in multi-error mode)
	c10StackOnce.Do(func() { debug.SetMaxStack(256 << 20) })
	var raw map[string]any
	c.Decode(&raw)
	line := map[string]any{"case": c.Idx, "c": raw}
	obs := map[string]any{"doc": "ok", "router_mux": "skipped", "router_legacy": "skipped", "find_mux": "skipped", "find_legacy": "skipped",
		"validate_request": "skipped", "validate_request_legacy_route": "skipped", "validate_response": "skipped", "convert_errors": "skipped", "middleware": "skipped",
		"error_report": "skipped", "error_encoder": "skipped", "middleware_lenient": "skipped", "validate_again": "skipped", "validation_handler": "skipped"}
	line["obs"] = obs
	var msgs []string
	defer func() {
		if len(msgs) > 0 {
			line["msg"] = msgs[0]
		}
	}()
	var d *c10Doc
	var reqSpec *c10Req
	var resp *c10Resp
	opts := &openapi3filter.Options{}
	auth := func(_ context.Context, in *openapi3filter.AuthenticationInput) error {
		if in.RequestValidationInput.Request.Header.Get("X-Key") == "" {
			return errors.New("no key")
		}
		return nil
	}
	opts.AuthenticationFunc = auth
	nilOptions := false
	if raw["kind"] == "shape" {
		var sc c10Shape
		c.Decode(&sc)
		var doc M
		var vopts []string
		if p, msg := guard(func() { doc, vopts, reqSpec, resp = c10ShapeDoc(&sc) }); p {
			panic("harness: c10 realiser: " + msg)
		}
		data, err := json.Marshal(doc)
		if err != nil {
			panic("harness: c10 document: " + err.Error())
		}
		d = c10Load(data, vopts)
		c10Mutate(reqSpec, sc.Murl)
		c10Mutate(reqSpec, sc.Mhdr)
		c10Mutate(reqSpec, sc.Mbody)
		c10MutateResp(resp, sc.Mrhead)
		c10MutateResp(resp, sc.Mrbody)
		for _, o := range sc.Opts {
			switch o {
			case "multi":
				opts.MultiError = true
			case "exclude_request_body":
				opts.ExcludeRequestBody = true
			case "exclude_query":
				opts.ExcludeRequestQueryParams = true
			case "exclude_response_body":
				opts.ExcludeResponseBody = true
			case "exclude_readonly":
				opts.ExcludeReadOnlyValidations = true
			case "exclude_writeonly":
				opts.ExcludeWriteOnlyValidations = true
			case "include_response_status":
				opts.IncludeResponseStatus = true
			case "skip_defaults":
				opts.SkipSettingDefaults = true
			case "regex_compiler_failing":
				opts.RegexCompiler = func(string) (openapi3.RegexMatcher, error) { return nil, errors.New("no regex today") }
			case "regex_compiler_panicking_matcher_free":
				// a compiler that hands out a matcher for everything, the uncompilable included
				opts.RegexCompiler = func(string) (openapi3.RegexMatcher, error) { return c10Matcher{}, nil }
			case "custom_schema_error":
				opts.WithCustomSchemaErrorFunc(func(*openapi3.SchemaError) string { return "" })
			case "no_auth_func":
				opts.AuthenticationFunc = nil
			case "nil_options":
				nilOptions = true
			case "multi_include_status_skip_defaults":
				opts.MultiError, opts.IncludeResponseStatus, opts.SkipSettingDefaults = true, true, true
			case "schema_error_details_disabled":
				openapi3.SchemaErrorDetailsDisabled = true
				defer func() { openapi3.SchemaErrorDetailsDisabled = false }()
			case "formats_defined":
				// process-wide format registries: opt-in validators for ipv4 / ipv6 / email / uuid, a number and an integer format, a callback
				saveS, saveN, saveI := openapi3.SchemaStringFormats, openapi3.SchemaNumberFormats, openapi3.SchemaIntegerFormats
				openapi3.SchemaStringFormats, openapi3.SchemaNumberFormats, openapi3.SchemaIntegerFormats = map[string]openapi3.StringFormatValidator{}, map[string]openapi3.NumberFormatValidator{}, map[string]openapi3.IntegerFormatValidator{}
				for k, v := range saveS {
					openapi3.SchemaStringFormats[k] = v
				}
				for k, v := range saveN {
					openapi3.SchemaNumberFormats[k] = v
				}
				for k, v := range saveI {
					openapi3.SchemaIntegerFormats[k] = v
				}
				defer func() { openapi3.SchemaStringFormats, openapi3.SchemaNumberFormats, openapi3.SchemaIntegerFormats = saveS, saveN, saveI }()
				openapi3.DefineIPv4Format()
				openapi3.DefineIPv6Format()
				openapi3.DefineStringFormatValidator("email", openapi3.NewRegexpFormatValidator(openapi3.FormatOfStringForEmail))
				openapi3.DefineStringFormatValidator("uuid", openapi3.NewRegexpFormatValidator(openapi3.FormatOfStringForUUIDOfRFC4122))
				openapi3.DefineStringFormatValidator("binary", openapi3.NewCallbackValidator(func(string) error { return errors.New("never") }))
				openapi3.DefineNumberFormatValidator("float", openapi3.NewRangeFormatValidator(-3.4e38, 3.4e38))
				openapi3.DefineNumberFormatValidator("double", openapi3.NewCallbackValidator(func(float64) error { return &openapi3.SchemaError{Reason: "no doubles"} }))
				openapi3.DefineIntegerFormatValidator("made-up", openapi3.NewCallbackValidator(func(int64) error { return errors.New("made up") }))
			case "all_excludes":
				opts.ExcludeRequestBody, opts.ExcludeRequestQueryParams, opts.ExcludeResponseBody = true, true, true
				opts.ExcludeReadOnlyValidations, opts.ExcludeWriteOnlyValidations = true, true
			default:
				panic("harness: c10 option " + o)
			}
		}
	} else {
		var tc c10Case
		c.Decode(&tc)
		sort.Strings(tc.Feats)
		d = c10Get(tc.Feats)
		opts.MultiError = tc.Multi
		reqSpec = c10Request(tc.Feats, nil)
		resp = c10Response(nil)
		if tc.Side == "request" {
			reqSpec = c10Request(tc.Feats, tc.Muts)
		} else {
			resp = c10Response(tc.Muts)
		}
	}
	if d.doc == nil {
		obs["doc"] = "rejected" // a document the library does not accept is outside the premise; counted, not judged
		line["docErr"] = d.err
		return []any{line}
	}
	rt := func(e string) string {
		switch {
		case e == "":
			return "ok"
		case strings.HasPrefix(e, "panic"):
			msgs = append(msgs, e)
			return "panic"
		}
		return "error"
	}
	obs["router_mux"], obs["router_legacy"] = rt(d.muxErr), rt(d.legacyErr)
	req, err := reqSpec.build()
	if err != nil {
		line["skip"] = "net/http rejects the request itself"
		return []any{line}
	}
	// ValidationHandler: loads the document from a file itself, routes with the legacy router, validates the request
	if reqH, e := reqSpec.build(); e == nil {
		obs["validation_handler"] = c10Outcome(func() error {
			f, e := os.CreateTemp("", "c10doc-*.json")
			if e != nil {
				panic("harness: temp file: " + e.Error())
			}
			defer os.Remove(f.Name())
			f.Write(d.data)
			f.Close()
			h := &openapi3filter.ValidationHandler{File: f.Name(), AuthenticationFunc: auth,
				Handler: http.HandlerFunc(func(w http.ResponseWriter, _ *http.Request) { w.WriteHeader(204) })}
			if e := h.Load(); e != nil {
				return e // the handler's own Validate has no options: a document that needs them is not loaded
			}
			h.ServeHTTP(httptest.NewRecorder(), reqH)
			h.Middleware(http.HandlerFunc(func(w http.ResponseWriter, _ *http.Request) {})).ServeHTTP(httptest.NewRecorder(), reqH)
			return nil
		}, &msgs)
	}
	var route, routeL *routers.Route
	var pp, ppL map[string]string
	if d.mux != nil {
		obs["find_mux"] = c10Outcome(func() error { var e error; route, pp, e = d.mux.FindRoute(req); return e }, &msgs)
	}
	if d.legacy != nil {
		obs["find_legacy"] = c10Outcome(func() error { var e error; routeL, ppL, e = d.legacy.FindRoute(req); return e }, &msgs)
	}
	if route == nil && routeL == nil {
		return []any{line}
	}
	// the text of an error quotes the value at every level: quadratic (and worse in multi-error mode) in the nesting depth.
	// Errors are read, and the repeated passes (legacy route, second pass) made, on traffic nested at most 500 deep; deeper
	// traffic (seconds per validation in multi-error mode) exercises each validator once.
	deep := func(b []byte) bool { return bytes.Count(b, []byte("{"))+bytes.Count(b, []byte("[")) > 500 }
	readable := !deep(reqSpec.body) && !deep(resp.body)
	if readable && route != nil && routeL != nil {
		// the legacy router binds path parameters its own way: validate with its route as well (fresh request)
		if reqL, e := reqSpec.build(); e == nil {
			inL := &openapi3filter.RequestValidationInput{Request: reqL, PathParams: ppL, Route: routeL, Options: opts}
			obs["validate_request_legacy_route"] = c10Outcome(func() error { return openapi3filter.ValidateRequest(context.Background(), inL) }, &msgs)
		}
	}
	if route == nil {
		route, pp = routeL, ppL
	}
	input := &openapi3filter.RequestValidationInput{Request: req, PathParams: pp, Route: route, Options: opts}
	if nilOptions {
		input.Options = nil
	}
	var verr error
	obs["validate_request"] = c10Outcome(func() error { verr = openapi3filter.ValidateRequest(context.Background(), input); return verr }, &msgs)
	var cerr error
	if verr != nil {
		obs["convert_errors"] = c10Outcome(func() error { cerr = openapi3filter.ConvertErrors(verr); return nil }, &msgs)
		// the default encoder of the go-kit style handler, on the same error
		obs["error_encoder"] = c10Outcome(func() error {
			if !readable {
				return nil
			}
			(&openapi3filter.ValidationErrorEncoder{Encoder: openapi3filter.DefaultErrorEncoder}).Encode(context.Background(), verr, httptest.NewRecorder())
			return nil
		}, &msgs)
	}
	rin := &openapi3filter.ResponseValidationInput{RequestValidationInput: input, Status: resp.status, Header: resp.header, Options: opts}
	if nilOptions {
		rin.Options = nil
	}
	if resp.nilHeader {
		rin.Header = nil
	}
	if !resp.nil_ {
		rin.Body = &c10Reader{data: resp.body, oneByte: resp.oneByte, errAt: resp.readErrAt, closeE: resp.closeErr}
	}
	var rerr error
	obs["validate_response"] = c10Outcome(func() error { rerr = openapi3filter.ValidateResponse(context.Background(), rin); return rerr }, &msgs)
	// "reported as an error": the error values can be read (text, parts, causes) without a panic either
	if readable && (verr != nil || rerr != nil || cerr != nil) {
		obs["error_report"] = c10Outcome(func() error { c10ReadError(verr, 0); c10ReadError(rerr, 0); c10ReadError(cerr, 0); return nil }, &msgs)
	}
	// the middleware (strict), with a handler that plays the response back
	if d.mux != nil {
		req2, _ := reqSpec.build()
		obs["middleware"] = c10Outcome(func() error {
			v := openapi3filter.NewValidator(d.mux, openapi3filter.Strict(true), openapi3filter.ValidationOptions(*opts),
				openapi3filter.OnLog(func(context.Context, string, error) {}))
			h := v.Middleware(http.HandlerFunc(func(w http.ResponseWriter, _ *http.Request) {
				for k, vs := range resp.header {
					for _, x := range vs {
						w.Header().Add(k, x)
					}
				}
				if resp.status >= 100 && resp.status <= 999 {
					w.WriteHeader(resp.status)
				}
				w.Write(resp.body)
			}))
			h.ServeHTTP(httptest.NewRecorder(), req2)
			return nil
		}, &msgs)
		req3, _ := reqSpec.build()
		obs["middleware_lenient"] = c10Outcome(func() error {
			v := openapi3filter.NewValidator(d.mux, openapi3filter.ValidationOptions(*opts), openapi3filter.OnLog(func(_ context.Context, _ string, e error) {
				if readable {
					c10ReadError(e, 0)
				}
			}))
			v.Middleware(http.HandlerFunc(func(w http.ResponseWriter, _ *http.Request) {
				for k, vs := range resp.header {
					w.Header()[k] = vs
				}
				if resp.status >= 100 && resp.status <= 999 {
					w.WriteHeader(resp.status)
				}
				w.Write(resp.body)
				if f, ok := w.(http.Flusher); ok {
					f.Flush()
				}
			})).ServeHTTP(httptest.NewRecorder(), req3)
			return nil
		}, &msgs)
	}
	// the same document and routers serve the next request: the same traffic once more (whatever the first pass left behind
	// in the loaded document - installed defaults, compiled patterns - is what the second pass meets)
	if req4, e := reqSpec.build(); e == nil && readable {
		in4 := &openapi3filter.RequestValidationInput{Request: req4, PathParams: pp, Route: route, Options: input.Options}
		obs["validate_again"] = c10Outcome(func() error {
			e1 := openapi3filter.ValidateRequest(context.Background(), in4)
			rin4 := &openapi3filter.ResponseValidationInput{RequestValidationInput: in4, Status: resp.status, Header: rin.Header, Options: rin.Options}
			if !resp.nil_ {
				rin4.Body = &c10Reader{data: resp.body}
			}
			e2 := openapi3filter.ValidateResponse(context.Background(), rin4)
			if e1 != nil {
				return e1
			}
			return e2
		}, &msgs)
	}
	return []any{line}
}

// c10ReadError reads an error the way a caller does: its text, its typed parts, its causes
func c10ReadError(err error, depth int) {
	if err == nil || depth > 12 {
		return
	}
	_ = err.Error()
	switch e := err.(type) {
	case openapi3.MultiError:
		for _, x := range e {
			c10ReadError(x, depth+1)
		}
		return
	case *openapi3.SchemaError:
		_ = e.JSONPointer()
	case *openapi3filter.ParseError:
		_ = e.Path()
		c10ReadError(e.RootCause(), depth+1)
	case *openapi3filter.SecurityRequirementsError:
		for _, x := range e.Errors {
			c10ReadError(x, depth+1)
		}
	case *openapi3filter.ValidationError:
		_ = e.StatusCode()
		_, _ = json.Marshal(e)
	}
	if u, ok := err.(interface{ Unwrap() error }); ok {
		c10ReadError(u.Unwrap(), depth+1)
	}
	if u, ok := err.(interface{ Unwrap() []error }); ok {
		for _, x := range u.Unwrap() {
			c10ReadError(x, depth+1)
		}
	}
}

type c10Matcher struct{}

func (c10Matcher) MatchString(string) bool { return false }

func init() {
	drivers["C10"] = &Driver{Run: c10Run, PerCaseTimeoutMs: 20000, Abnormal: func(c *Case, kind string) []any {
		var raw map[string]any
		c.Decode(&raw)
		return []any{map[string]any{"case": c.Idx, "c": raw, "obs": map[string]any{"doc": "ok", "validate_request": kind}}}
	}}
}
