package main

import (
	"bytes"
	"context"
	"encoding/json"
	"errors"
	"fmt"
	"io"
	"mime/multipart"
	"net/http"
	"net/textproto"
	"reflect"
	"strings"
	"sync"

	"github.com/getkin/kin-openapi/openapi3"
	"github.com/getkin/kin-openapi/openapi3filter"
	"github.com/getkin/kin-openapi/routers"
	"github.com/getkin/kin-openapi/routers/gorillamux"
)

// C06H: the registry clause of C06 (spec/BodyRegistry.tla).  A case is a history of calls --
// (un)register / look up a body decoder or encoder, validate a request, a response or a multipart
// part of a given media type -- replayed in this one process against the real process-wide
// registries.  Logged: what each call reported and a final snapshot of both registries.  The
// registries are put back into the library's initial state (for the media types of the universe)
// before every history.  No oracle here: TLC folds the contract over the calls (Trace_C06H).

var c06hMTs = []string{"application/json", "application/x-va+json", "text/x-vb"}

type c06hStep struct {
	Op  string `json:"op"`
	MT  string `json:"mt"`
	D   string `json:"d"`
	E   string `json:"e"`
	CTV string `json:"ctv"`
}

// the decoders invoked during the current call (caller-supplied ones identify themselves)
var c06hInvoked []string

func c06hDecoder(id string) openapi3filter.BodyDecoder {
	if id == "json" {
		return openapi3filter.JSONBodyDecoder
	}
	return func(body io.Reader, h http.Header, s *openapi3.SchemaRef, enc openapi3filter.EncodingFn) (any, error) {
		c06hInvoked = append(c06hInvoked, id)
		if body != nil {
			_, _ = io.ReadAll(body)
		}
		return map[string]any{"by": id}, nil
	}
}

func c06hEncoder(id string) openapi3filter.BodyEncoder {
	if id == "json" {
		return json.Marshal
	}
	return func(body any) ([]byte, error) { return []byte(id), nil }
}

var c06hJSONDecoderPtr = reflect.ValueOf(openapi3filter.BodyDecoder(openapi3filter.JSONBodyDecoder)).Pointer()

func c06hLookD(mt string) string {
	f := openapi3filter.RegisteredBodyDecoder(mt)
	if f == nil {
		return "none"
	}
	if reflect.ValueOf(f).Pointer() == c06hJSONDecoderPtr {
		return "json"
	}
	saved := c06hInvoked
	c06hInvoked = nil
	v, err := f(strings.NewReader(""), http.Header{}, nil, nil)
	c06hInvoked = saved
	if m, ok := v.(map[string]any); ok && err == nil {
		if id, ok := m["by"].(string); ok {
			return id
		}
	}
	return "foreign"
}

func c06hLookE(mt string) string {
	f := openapi3filter.RegisteredBodyEncoder(mt)
	if f == nil {
		return "none"
	}
	b, err := f(map[string]any{"x": 1})
	switch {
	case err != nil:
		return "foreign"
	case string(b) == `{"x":1}`:
		return "json"
	case string(b) == "e1":
		return "e1"
	}
	return "foreign"
}

func c06hReset() {
	for _, mt := range c06hMTs {
		if mt == "application/json" {
			openapi3filter.RegisterBodyDecoder(mt, openapi3filter.JSONBodyDecoder)
			openapi3filter.RegisterBodyEncoder(mt, json.Marshal)
		} else {
			openapi3filter.UnregisterBodyDecoder(mt)
			openapi3filter.UnregisterBodyEncoder(mt)
		}
	}
}

type c06hEnv struct {
	doc    *openapi3.T
	router routers.Router
}

var c06hDoc = sync.OnceValue(func() *c06hEnv {
	any1 := `{"schema":{"type":"object","minProperties":1}}`
	content := `{"application/json":` + any1 + `,"application/x-va+json":` + any1 + `,"text/x-vb":` + any1 +
		`,"multipart/form-data":{"schema":{"type":"object","properties":{"p":{"type":"object","minProperties":1}}}}}`
	text := `{"openapi":"3.0.3","info":{"title":"t","version":"1"},"paths":{"/h":{"post":{"requestBody":{"content":` + content +
		`},"responses":{"200":{"description":"d","content":` + content + `}}}}}}`
	doc, err := openapi3.NewLoader().LoadFromData([]byte(text))
	if err != nil {
		panic("harness: C06H document does not load: " + err.Error())
	}
	if err := doc.Validate(context.Background()); err != nil {
		panic("harness: C06H document does not validate: " + err.Error())
	}
	r, err := gorillamux.NewRouter(doc)
	if err != nil {
		panic("harness: C06H router: " + err.Error())
	}
	return &c06hEnv{doc: doc, router: r}
})

func c06hHeader(mt, ctv string) string {
	switch ctv {
	case "param":
		return mt + "; charset=utf-8"
	}
	return mt
}

// does the error say "no decoder for this content type" (by type and kind, at any nesting level)?
func c06hUnsupported(err error) bool {
	for err != nil {
		var pe *openapi3filter.ParseError
		if !errors.As(err, &pe) {
			return false
		}
		if pe.Kind == openapi3filter.KindUnsupportedFormat {
			return true
		}
		err = pe.Cause
	}
	return false
}

func c06hVerdict(err error) string {
	switch {
	case err == nil && len(c06hInvoked) == 0:
		return "json" // accepted without a caller-supplied decoder having run: a decoder of the library read the JSON text
	case err == nil && len(c06hInvoked) == 1:
		return c06hInvoked[0]
	case err == nil:
		return "invoked:" + strings.Join(c06hInvoked, ",")
	case c06hUnsupported(err) && len(c06hInvoked) == 0:
		return "unsupported"
	}
	return "rejected"
}

func c06hRequest(ct string, body []byte) (*openapi3filter.RequestValidationInput, error) {
	env := c06hDoc()
	req, err := http.NewRequest(http.MethodPost, "http://x.example/h", bytes.NewReader(body))
	if err != nil {
		return nil, err
	}
	req.Header.Set("Content-Type", ct)
	route, pp, err := env.router.FindRoute(req)
	if err != nil {
		return nil, err
	}
	return &openapi3filter.RequestValidationInput{Request: req, PathParams: pp, Route: route,
		Options: &openapi3filter.Options{}}, nil
}

func c06hCall(st c06hStep) string {
	c06hInvoked = nil
	switch st.Op {
	case "regd":
		openapi3filter.RegisterBodyDecoder(st.MT, c06hDecoder(st.D))
		return "done"
	case "unregd":
		openapi3filter.UnregisterBodyDecoder(st.MT)
		return "done"
	case "lookd":
		return c06hLookD(st.MT)
	case "rege":
		openapi3filter.RegisterBodyEncoder(st.MT, c06hEncoder(st.E))
		return "done"
	case "unrege":
		openapi3filter.UnregisterBodyEncoder(st.MT)
		return "done"
	case "looke":
		return c06hLookE(st.MT)
	case "req":
		in, err := c06hRequest(c06hHeader(st.MT, st.CTV), []byte(`{"a":1}`))
		if err != nil {
			return "harness:" + err.Error()
		}
		return c06hVerdict(openapi3filter.ValidateRequest(context.Background(), in))
	case "resp":
		in, err := c06hRequest("application/json", []byte(`{"a":1}`))
		if err != nil {
			return "harness:" + err.Error()
		}
		out := &openapi3filter.ResponseValidationInput{RequestValidationInput: in, Status: 200,
			Header: http.Header{"Content-Type": []string{c06hHeader(st.MT, st.CTV)}},
			Body:   io.NopCloser(strings.NewReader(`{"a":1}`)), Options: &openapi3filter.Options{}}
		return c06hVerdict(openapi3filter.ValidateResponse(context.Background(), out))
	case "part":
		var buf bytes.Buffer
		w := multipart.NewWriter(&buf)
		h := textproto.MIMEHeader{}
		h.Set("Content-Disposition", `form-data; name="p"`)
		h.Set("Content-Type", st.MT)
		pw, err := w.CreatePart(h)
		if err != nil {
			return "harness:" + err.Error()
		}
		_, _ = pw.Write([]byte(`{"a":1}`))
		_ = w.Close()
		in, err := c06hRequest(w.FormDataContentType(), buf.Bytes())
		if err != nil {
			return "harness:" + err.Error()
		}
		return c06hVerdict(openapi3filter.ValidateRequest(context.Background(), in))
	}
	return "harness:unknown op " + st.Op
}

func c06hRun(c *Case) []any {
	var tc struct {
		Steps []c06hStep `json:"steps"`
	}
	c.Decode(&tc)
	var raw map[string]any
	c.Decode(&raw)
	c06hReset()
	obs := []string{}
	for _, st := range tc.Steps {
		o := ""
		if p, _ := guard(func() { o = c06hCall(st) }); p {
			o = "panic"
		}
		obs = append(obs, o)
	}
	final := []any{}
	if p, msg := guard(func() {
		for _, mt := range c06hMTs {
			final = append(final, map[string]any{"mt": mt, "d": c06hLookD(mt), "e": c06hLookE(mt)})
		}
	}); p {
		final = []any{map[string]any{"mt": "panic", "d": fmt.Sprint(msg), "e": ""}}
	}
	c06hReset()
	return []any{map[string]any{"case": c.Idx, "c": raw, "obs": obs, "final": final}}
}

func init() {
	drivers["C06H"] = &Driver{
		Run: c06hRun,
		Abnormal: func(c *Case, kind string) []any {
			var raw map[string]any
			c.Decode(&raw)
			return []any{map[string]any{"case": c.Idx, "c": raw, "obs": []string{kind}}}
		},
	}
}
