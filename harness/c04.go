package main

import (
	"bytes"
	"context"
	"encoding/json"
	"fmt"
	"io"
	"os"
	"reflect"
	"strconv"
	"strings"
	"sync"

	"github.com/getkin/kin-openapi/openapi3"
)

// C04: every case carries a whole document as a tagged value (spec/DocValue.tla), built by the
// TLA+ specification (spec/DocBuild.tla).  The driver renders it as JSON text, loads it with
// the real loader (16 fresh loads per case) and calls (*openapi3.T).Validate once per option
// sequence (options applied in the order given) of the list written by the same TLC run (opts.ndjson).  Logged: the document as realised (the JSON text
// that was sent, parsed back into the tagged form) and one verdict letter per option set:
//   A  Validate returned nil        R  Validate returned an error
//   L  the loader refused the text  P  panic
// For the "unresolved" cases the driver sets the Value of the reference wrapper at the case's
// location to nil after loading (a reference that was never resolved) and reports that it did.
// No oracle here.

type c04Step struct {
	From string      `json:"from"`
	F    string      `json:"f"`
	Key  string      `json:"key"`
	Pos  json.Number `json:"pos"`
	Kind string      `json:"kind"`
}

type c04Case struct {
	Path []c04Step `json:"path"`
	Kind string    `json:"kind"`
	Rule string    `json:"rule"`
	Var  string    `json:"var"`
	At   any       `json:"at"`
	Doc  any       `json:"doc"`
}

// ---- rendering: tagged document value -> JSON text (member order as given)

// The specification writes the one non-ASCII character of its vocabulary as an ASCII token (TLC's Json
// module does not carry non-ASCII text); the driver renders the token as the rune and reads it back.
const c04RuneToken, c04Rune = "{U+00E9}", "\u00e9"

func c04Out(s string) string { return strings.ReplaceAll(s, c04RuneToken, c04Rune) }
func c04In(s string) string  { return strings.ReplaceAll(s, c04Rune, c04RuneToken) }

func c04Render(b *bytes.Buffer, v any) {
	m := v.(map[string]any)
	switch m["t"] {
	case "s":
		s, _ := json.Marshal(c04Out(m["s"].(string)))
		b.Write(s)
	case "n":
		b.WriteString(strconv.Itoa(asInt(m["n"])))
	case "b":
		if m["b"].(bool) {
			b.WriteString("true")
		} else {
			b.WriteString("false")
		}
	case "z":
		b.WriteString("null")
	case "a":
		b.WriteByte('[')
		for i, x := range asSlice(m["a"]) {
			if i > 0 {
				b.WriteByte(',')
			}
			c04Render(b, x)
		}
		b.WriteByte(']')
	case "o":
		b.WriteByte('{')
		for i, x := range asSlice(m["f"]) {
			if i > 0 {
				b.WriteByte(',')
			}
			p := x.(map[string]any)
			k, _ := json.Marshal(c04Out(p["k"].(string)))
			b.Write(k)
			b.WriteByte(':')
			c04Render(b, p["v"])
		}
		b.WriteByte('}')
	default:
		panic(fmt.Sprintf("harness: C04: unknown tag in %#v", v))
	}
}

// ---- projection: JSON text -> tagged document value (member order as in the text)

func c04Parse(dec *json.Decoder) (any, error) {
	tok, err := dec.Token()
	if err != nil {
		return nil, err
	}
	switch t := tok.(type) {
	case json.Delim:
		switch t {
		case '{':
			fs := []any{}
			for dec.More() {
				kt, err := dec.Token()
				if err != nil {
					return nil, err
				}
				v, err := c04Parse(dec)
				if err != nil {
					return nil, err
				}
				fs = append(fs, map[string]any{"k": c04In(kt.(string)), "v": v})
			}
			if _, err := dec.Token(); err != nil {
				return nil, err
			}
			return map[string]any{"t": "o", "f": fs}, nil
		case '[':
			as := []any{}
			for dec.More() {
				v, err := c04Parse(dec)
				if err != nil {
					return nil, err
				}
				as = append(as, v)
			}
			if _, err := dec.Token(); err != nil {
				return nil, err
			}
			return map[string]any{"t": "a", "a": as}, nil
		}
	case string:
		return map[string]any{"t": "s", "s": c04In(t)}, nil
	case json.Number:
		n, err := t.Int64()
		if err != nil {
			return nil, err
		}
		return map[string]any{"t": "n", "n": n}, nil
	case bool:
		return map[string]any{"t": "b", "b": t}, nil
	case nil:
		return map[string]any{"t": "z"}, nil
	}
	return nil, fmt.Errorf("unsupported JSON token %v", tok)
}

func c04Project(text []byte) any {
	dec := json.NewDecoder(bytes.NewReader(text))
	dec.UseNumber()
	v, err := c04Parse(dec)
	if err != nil {
		panic("harness: C04: cannot re-read rendered document: " + err.Error())
	}
	if _, err := dec.Token(); err != io.EOF {
		panic("harness: C04: trailing data in rendered document")
	}
	return v
}

// ---- option sets

var c04OptSets = sync.OnceValue(func() [][]string {
	path := os.Getenv("VERIF_OPTS")
	if path == "" {
		panic("harness: VERIF_OPTS not set")
	}
	raws, err := readCases(path)
	if err != nil {
		panic(err)
	}
	res := make([][]string, len(raws))
	for _, r := range raws {
		var o struct {
			I    int      `json:"i"`
			Opts []string `json:"opts"`
		}
		// an empty TLA+ sequence is written as []
		if err := json.Unmarshal(r, &o); err != nil {
			panic(fmt.Sprintf("harness: C04: bad option set line %s: %v", r, err))
		}
		if o.I < 1 || o.I > len(raws) || res[o.I-1] != nil {
			panic(fmt.Sprintf("harness: C04: bad option set index in %s", r))
		}
		if o.Opts == nil {
			o.Opts = []string{}
		}
		res[o.I-1] = o.Opts
	}
	return res
})

func c04Option(name string) openapi3.ValidationOption {
	switch name {
	case "DisEx":
		return openapi3.DisableExamplesValidation()
	case "DisDef":
		return openapi3.DisableSchemaDefaultsValidation()
	case "DisPat":
		return openapi3.DisableSchemaPatternValidation()
	case "EnFmt":
		return openapi3.EnableSchemaFormatValidation()
	case "Prohibit":
		return openapi3.ProhibitExtensionsWithRef()
	case "EnEx":
		return openapi3.EnableExamplesValidation()
	case "EnDef":
		return openapi3.EnableSchemaDefaultsValidation()
	case "EnPat":
		return openapi3.EnableSchemaPatternValidation()
	case "DisFmt":
		return openapi3.DisableSchemaFormatValidation()
	case "AllowExt":
		return openapi3.AllowExtensionsWithRef()
	case "RxAny":
		return openapi3.SetRegexCompiler(func(string) (openapi3.RegexMatcher, error) { return c04AnyMatcher{}, nil })
	case "RxStd":
		return openapi3.SetRegexCompiler(nil)
	case "AllowDesc":
		return openapi3.AllowExtraSiblingFields("description")
	case "AllowZzz":
		return openapi3.AllowExtraSiblingFields("zzz")
	}
	panic("harness: C04: unknown option " + name)
}

// c04AnyMatcher: what the accept-everything regex compiler (option RxAny) returns.
type c04AnyMatcher struct{}

func (c04AnyMatcher) MatchString(string) bool { return true }

// ---- navigation to the reference wrapper at a JSON pointer of the loaded document

var c04StringType = reflect.TypeOf("")

// isRefWrapper: a struct with a string field Ref and a pointer field Value (SchemaRef, ParameterRef, ...).
func c04IsRefWrapper(t reflect.Type) bool {
	if t.Kind() != reflect.Struct {
		return false
	}
	r, ok1 := t.FieldByName("Ref")
	v, ok2 := t.FieldByName("Value")
	return ok1 && ok2 && r.Type == c04StringType && v.Type.Kind() == reflect.Ptr
}

func c04Field(v reflect.Value, tok string) (reflect.Value, bool) {
	t := v.Type()
	for i := 0; i < t.NumField(); i++ {
		f := t.Field(i)
		if f.Anonymous && f.Type.Kind() == reflect.Struct {
			if r, ok := c04Field(v.Field(i), tok); ok {
				return r, true
			}
			continue
		}
		if !f.IsExported() {
			continue
		}
		name := strings.Split(f.Tag.Get("json"), ",")[0]
		if name == tok {
			return v.Field(i), true
		}
	}
	return reflect.Value{}, false
}

// c04Nav returns the *XRef wrapper found at ptr (invalid if the pointer does not lead to one).
func c04Nav(doc *openapi3.T, ptr []string) reflect.Value {
	cur := reflect.ValueOf(doc)
	for _, tok := range ptr {
		// look through pointers, the additionalProperties holder and, when stepping further
		// down, through reference wrappers
		for {
			for cur.Kind() == reflect.Ptr || cur.Kind() == reflect.Interface {
				if cur.IsNil() {
					return reflect.Value{}
				}
				cur = cur.Elem()
			}
			if cur.Kind() == reflect.Struct && cur.Type().Name() == "AdditionalProperties" {
				cur = cur.FieldByName("Schema")
				continue
			}
			if c04IsRefWrapper(cur.Type()) {
				cur = cur.FieldByName("Value")
				continue
			}
			break
		}
		var next reflect.Value
		switch cur.Kind() {
		case reflect.Struct:
			if m := cur.Addr().MethodByName("Value"); m.IsValid() && m.Type().NumIn() == 1 && m.Type().In(0) == c04StringType {
				next = m.Call([]reflect.Value{reflect.ValueOf(tok)})[0] // Paths, Responses, Callback
			} else if f, ok := c04Field(cur, tok); ok {
				next = f
			} else {
				return reflect.Value{}
			}
		case reflect.Map:
			next = cur.MapIndex(reflect.ValueOf(tok))
			if !next.IsValid() {
				return reflect.Value{}
			}
		case reflect.Slice:
			n, err := strconv.Atoi(tok)
			if err != nil || n >= cur.Len() {
				return reflect.Value{}
			}
			next = cur.Index(n)
		default:
			return reflect.Value{}
		}
		cur = next
	}
	return c04Final(cur)
}

// c04Final: the value reached must be (a pointer to) a reference wrapper, or the AdditionalProperties holder of one.
func c04Final(cur reflect.Value) reflect.Value {
	for cur.Kind() == reflect.Ptr || cur.Kind() == reflect.Interface {
		if cur.IsNil() {
			return reflect.Value{}
		}
		if c04IsRefWrapper(cur.Type().Elem()) {
			return cur
		}
		cur = cur.Elem()
	}
	if cur.Kind() == reflect.Struct && cur.Type().Name() == "AdditionalProperties" {
		return c04Final(cur.FieldByName("Schema"))
	}
	return reflect.Value{}
}

// c04Unresolve makes the reference at ptr an unresolved one: Ref stays, Value becomes nil.
func c04Unresolve(doc *openapi3.T, ptr []string) bool {
	w := c04Nav(doc, ptr)
	if !w.IsValid() || w.IsNil() {
		return false
	}
	s := w.Elem()
	if s.FieldByName("Ref").String() == "" {
		return false
	}
	val := s.FieldByName("Value")
	if val.IsNil() {
		return true // the loader left it unresolved already
	}
	val.Set(reflect.Zero(val.Type()))
	return true
}

// ---- the driver

func c04Strings(x any) []string {
	res := []string{}
	for _, s := range asSlice(x) {
		res = append(res, s.(string))
	}
	return res
}

func c04Run(c *Case) []any {
	var tc c04Case
	c.Decode(&tc)
	var buf bytes.Buffer
	c04Render(&buf, tc.Doc)
	text := buf.Bytes()
	at := c04Strings(tc.At)
	path := []any{}
	for _, st := range tc.Path {
		path = append(path, map[string]any{"from": st.From, "f": st.F, "key": st.Key, "pos": asInt(st.Pos), "kind": st.Kind})
	}
	line := map[string]any{"case": c.Idx, "path": path, "kind": tc.Kind, "rule": tc.Rule, "var": tc.Var,
		"doc": c04Project(text)}
	sets := c04OptSets()
	obs := make([]any, len(sets))
	msgs := make([]string, len(sets))
	unresDone := make([]bool, len(sets))
	// c04Workers goroutines; each loads the text afresh once and validates its share of the
	// option sets (i = w, w+16, ...) on that document, in increasing order.
	var wg sync.WaitGroup
	for w := 0; w < c04Workers; w++ {
		wg.Add(1)
		go func(w int) {
			defer wg.Done()
			c04Share(text, sets, w, tc.Rule == "unresolved", at, obs, msgs, unresDone)
		}(w)
	}
	wg.Wait()
	line["obs"] = obs
	if tc.Rule == "unresolved" {
		all := true
		for _, d := range unresDone {
			all = all && d
		}
		line["unres"] = all
	}
	line["msg"] = msgs[0]
	return []any{line}
}

const c04Workers = 16

// c04Share: one fresh load, then Validate under every option set of this worker's share.
func c04Share(text []byte, sets [][]string, w int, unresolve bool, at []string, obs []any, msgs []string, unresDone []bool) {
	var doc *openapi3.T
	var loadErr error
	done := false
	panicked, pmsg := guard(func() {
		loader := openapi3.NewLoader()
		doc, loadErr = loader.LoadFromData(text)
		if loadErr == nil && unresolve {
			done = c04Unresolve(doc, at)
		}
	})
	for i := w; i < len(sets); i += c04Workers {
		unresDone[i] = done
		switch {
		case panicked:
			obs[i], msgs[i] = "P", pmsg
			continue
		case loadErr != nil:
			obs[i], msgs[i] = "L", loadErr.Error()
			continue
		}
		var err error
		vp, vmsg := guard(func() {
			names, viaCtx := sets[i], false
			if len(names) > 0 && names[0] == "@ctx" { // the options travel in the context, not as arguments
				names, viaCtx = names[1:], true
			}
			vopts := make([]openapi3.ValidationOption, 0, len(names))
			for _, o := range names {
				vopts = append(vopts, c04Option(o))
			}
			if viaCtx {
				err = doc.Validate(openapi3.WithValidationOptions(context.Background(), vopts...))
			} else {
				err = doc.Validate(context.Background(), vopts...)
			}
		})
		switch {
		case vp:
			obs[i], msgs[i] = "P", vmsg
		case err != nil:
			obs[i], msgs[i] = "R", err.Error()
		default:
			obs[i], msgs[i] = "A", ""
		}
	}
}

func c04Abnormal(c *Case, kind string) []any {
	var tc c04Case
	c.Decode(&tc)
	path := []any{}
	for _, st := range tc.Path {
		path = append(path, map[string]any{"from": st.From, "f": st.F, "key": st.Key, "pos": asInt(st.Pos), "kind": st.Kind})
	}
	return []any{map[string]any{"case": c.Idx, "path": path, "kind": tc.Kind, "rule": tc.Rule, "var": tc.Var,
		"doc": tc.Doc, "abnormal": kind, "obs": []any{}, "msg": kind}}
}

func init() {
	// 128 loads per case: a generous watchdog so that a loaded machine is not mistaken for a hang
	drivers["C04"] = &Driver{Run: c04Run, Abnormal: c04Abnormal, PerCaseTimeoutMs: 120000}
}
