package main

import (
	"context"
	"encoding/json"
	"errors"
	"fmt"
	"regexp"

	"github.com/getkin/kin-openapi/openapi3"
)

// C01H: the history clause of C01 (spec/PatternCache.tla).  A case is a sequence of validations
// (pattern x value x regex engine x entry point) that is replayed in this one process against the
// real process-wide compiled-pattern cache; logged: what each call reported.
// Pattern texts are salted per case (an alternative that no value of the universe matches) so that
// the cases of one driver process do not share cache entries with each other.

type c01hStep struct {
	Kind string `json:"kind"`
	P    string `json:"p"`
	V    string `json:"v"`
	E    string `json:"e"`
}

type matchAll struct{}

func (matchAll) MatchString(string) bool { return true }

func c01hEngine(e string) openapi3.RegexCompilerFunc {
	switch e {
	case "ci":
		return func(expr string) (openapi3.RegexMatcher, error) {
			re, err := regexp.Compile("(?i)" + expr)
			if err != nil {
				return nil, err
			}
			return re, nil
		}
	case "any":
		return func(expr string) (openapi3.RegexMatcher, error) { return matchAll{}, nil }
	}
	return nil // the library's default engine
}

func c01hRun(c *Case) []any {
	var tc struct {
		Steps []c01hStep `json:"steps"`
	}
	c.Decode(&tc)
	var raw map[string]any
	c.Decode(&raw)
	salt := fmt.Sprintf("|zq%dzq", c.Idx)
	obs := []string{}
	for _, st := range tc.Steps {
		pat := st.P + salt
		docJSON, _ := json.Marshal(map[string]any{"openapi": "3.0.3", "info": map[string]any{"title": "t", "version": "1"},
			"paths": map[string]any{}, "components": map[string]any{"schemas": map[string]any{
				"S": map[string]any{"type": "string", "pattern": pat}}}})
		doc, err := openapi3.NewLoader().LoadFromData(docJSON)
		if err != nil {
			obs = append(obs, "loaderror")
			continue
		}
		o := ""
		if p, _ := guard(func() {
			switch st.Kind {
			case "docvalidate":
				var opts []openapi3.ValidationOption
				if f := c01hEngine(st.E); f != nil {
					opts = append(opts, openapi3.SetRegexCompiler(f))
				}
				if err := doc.Validate(context.Background(), opts...); err != nil {
					o = "error"
				} else {
					o = "ok"
				}
			default:
				var opts []openapi3.SchemaValidationOption
				if f := c01hEngine(st.E); f != nil {
					opts = append(opts, openapi3.SetSchemaRegexCompiler(f))
				}
				err := doc.Components.Schemas["S"].Value.VisitJSON(st.V, opts...)
				var se *openapi3.SchemaError
				switch {
				case err == nil:
					o = "accept"
				case errors.As(err, &se) && se.SchemaField == "pattern" && se.Origin != nil:
					o = "error"
				default:
					o = "reject"
				}
			}
		}); p {
			o = "panic"
		}
		obs = append(obs, o)
	}
	return []any{map[string]any{"case": c.Idx, "c": raw, "obs": obs}}
}

func init() {
	drivers["C01H"] = &Driver{
		Run: c01hRun,
		Abnormal: func(c *Case, kind string) []any {
			var raw map[string]any
			c.Decode(&raw)
			return []any{map[string]any{"case": c.Idx, "c": raw, "obs": []string{kind}}}
		},
	}
}
