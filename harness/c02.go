package main

import (
	"bytes"
	"context"
	"encoding/json"
	"fmt"
	"net/url"
	"os"
	"path/filepath"
	"reflect"
	"sort"
	"strings"

	"github.com/getkin/kin-openapi/openapi3"
)

// C02 / C11 / C16: multi-file universes (spec/Layout.tla) written to a temp dir and loaded with
// the real loader.  Logged: load outcome, the locations read, and for every reference site found
// in the returned document (generic reflection walk over all *Ref values) the id of the object
// that owns the site, the ref text, the kind and the id of the object it resolved to.  Every
// concrete object carries a unique "x-id" extension, so identity is read off the value.

type c02Child struct {
	Site string `json:"site"`
	Kind string `json:"kind"`
	Ref  string `json:"ref"`
}

type c02Inl struct {
	Site string `json:"site"`
	ID   string `json:"id"`
}

type c02Content struct {
	ID  string     `json:"id"`
	Ch  []c02Child `json:"ch"`
	Inl []c02Inl   `json:"inl"`
	Ref string     `json:"ref"`
	// Broken: `null` written where an object of the kind MUST be (spec/Layout.tla IsBroken)
	Broken bool `json:"broken"`
}

type c02File struct {
	File string     `json:"file"`
	Kind string     `json:"kind"`
	Name string     `json:"name"`
	C    c02Content `json:"c"`
}

type c02Case struct {
	Kind    string    `json:"kind"`
	Pos     string    `json:"pos"`
	Entry   string    `json:"entry"`
	Shape   string    `json:"shape"`
	Files   []c02File `json:"files"`
	UseText string    `json:"useText"`
	Allow   bool      `json:"allow"`
}

func refObj(ref string) map[string]any { return map[string]any{"$ref": ref} }

// concrete object of a kind, carrying x-id and its child sites
// every case salts its ids so that an object served from another universe (a stale cache entry)
// is recognisable
var c02Salt string

// sub returns the map at o[key], creating it when absent.
func sub(o map[string]any, key string) map[string]any {
	if m, ok := o[key].(map[string]any); ok {
		return m
	}
	m := map[string]any{}
	o[key] = m
	return m
}

// c02SiteKind: the kind of object that lives at a site of an object of kind `kind` (spec/Gen_C02.tla Sites, plus
// the sites that only inline objects use)
func c02SiteKind(kind, site string) string {
	switch site {
	case "properties", "items", "allOf", "anyOf", "oneOf", "not", "additionalProperties", "schema", "content.schema", "post.requestBody.schema":
		return "schemas"
	case "examples", "content.examples":
		return "examples"
	case "headers", "content.encoding.headers":
		return "headers"
	case "links":
		return "links"
	case "post.responses":
		return "responses"
	case "post.requestBody":
		return "requestBodies"
	case "parameters":
		return "parameters"
	case "post.callbacks":
		return "callbacks"
	}
	panic("harness: c02 site kind " + kind + ":" + site)
}

// c02Place puts v (a {"$ref": ..} object, or an inline object) at a site of the object o of the given kind.  Sites
// compose: an object may carry several of them at once.
func c02Place(o map[string]any, kind, site string, v any) {
	mediaJSON := func(holder map[string]any) map[string]any {
		mt := sub(sub(holder, "content"), "application/json")
		return mt
	}
	postOp := func(pi map[string]any) map[string]any {
		op := sub(pi, "post")
		if op["responses"] == nil {
			op["responses"] = map[string]any{"200": map[string]any{"description": "d"}}
		}
		return op
	}
	switch kind + ":" + site {
	case "schemas:properties":
		sub(o, "properties")["p"] = v
	case "schemas:items":
		o["type"] = "array"
		o["items"] = v
	case "schemas:allOf", "schemas:anyOf", "schemas:oneOf":
		l, _ := o[site].([]any)
		o[site] = append(l, v)
	case "schemas:discriminator.mapping":
		if o["oneOf"] == nil {
			o["oneOf"] = []any{map[string]any{"type": "object"}}
		}
		o["discriminator"] = map[string]any{"propertyName": "t", "mapping": map[string]any{"k": v.(map[string]any)["$ref"]}}
	case "schemas:not":
		o["not"] = v
	case "schemas:additionalProperties":
		o["additionalProperties"] = v
	case "parameters:schema", "headers:schema":
		o["schema"] = v
	case "parameters:content.schema", "headers:content.schema":
		delete(o, "schema")
		mediaJSON(o)["schema"] = v
	case "parameters:content.examples", "headers:content.examples":
		delete(o, "schema")
		mt := mediaJSON(o)
		if mt["schema"] == nil {
			mt["schema"] = map[string]any{"type": "string"}
		}
		sub(mt, "examples")["e"] = v
	case "parameters:examples", "headers:examples":
		sub(o, "examples")["e"] = v
	case "requestBodies:content.schema", "responses:content.schema":
		mediaJSON(o)["schema"] = v
	case "requestBodies:content.examples", "responses:content.examples":
		mt := mediaJSON(o)
		if mt["schema"] == nil {
			mt["schema"] = map[string]any{"type": "object"}
		}
		sub(mt, "examples")["e"] = v
	case "requestBodies:content.encoding.headers":
		mt := sub(sub(o, "content"), "multipart/form-data")
		mt["schema"] = map[string]any{"type": "object", "properties": map[string]any{"f": map[string]any{"type": "string"}}}
		sub(sub(sub(mt, "encoding"), "f"), "headers")["H"] = v
	case "responses:headers":
		sub(o, "headers")["H"] = v
	case "responses:links":
		sub(o, "links")["L"] = v
	case "pathItems:parameters":
		l, _ := o["parameters"].([]any)
		o["parameters"] = append(l, v)
	case "pathItems:post.requestBody":
		postOp(o)["requestBody"] = v
	case "pathItems:post.responses":
		postOp(o)["responses"] = map[string]any{"200": v}
	case "pathItems:post.requestBody.schema":
		sub(sub(sub(postOp(o), "requestBody"), "content"), "application/json")["schema"] = v
	case "callbacks:post.requestBody":
		postOp(sub(o, "{$request.body#/u}"))["requestBody"] = v
	case "callbacks:post.responses":
		postOp(sub(o, "{$request.body#/u}"))["responses"] = map[string]any{"200": v}
	case "callbacks:post.callbacks":
		sub(postOp(sub(o, "{$request.body#/u}")), "callbacks")["again"] = v
	case "callbacks:parameters":
		pi := sub(o, "{$request.body#/u}")
		l, _ := pi["parameters"].([]any)
		pi["parameters"] = append(l, v)
	default:
		panic("harness: c02 site " + kind + ":" + site)
	}
}

func c02Concrete(kind string, c c02Content) map[string]any {
	var o map[string]any
	id := c.ID
	switch kind {
	case "schemas":
		o = map[string]any{"type": "object"}
	case "parameters":
		o = map[string]any{"name": "q" + id, "in": "query", "schema": map[string]any{"type": "string"}}
	case "headers":
		o = map[string]any{"schema": map[string]any{"type": "string"}}
	case "requestBodies":
		o = map[string]any{"content": map[string]any{"application/json": map[string]any{"schema": map[string]any{"type": "object"}}}}
	case "responses":
		o = map[string]any{"description": "d"}
	case "securitySchemes":
		o = map[string]any{"type": "http", "scheme": "basic"}
	case "examples":
		o = map[string]any{"value": 1}
	case "links":
		o = map[string]any{"operationId": "opu"}
	case "callbacks":
		o = map[string]any{"{$request.body#/u}": map[string]any{"post": map[string]any{
			"responses": map[string]any{"200": map[string]any{"description": "d"}}}}}
	case "pathItems":
		o = map[string]any{"get": map[string]any{"responses": map[string]any{"200": map[string]any{"description": "d"}}}}
	default:
		panic("harness: c02 kind " + kind)
	}
	o["x-id"] = id + c02Salt
	for _, in := range c.Inl {
		// an inline concrete object (reachable only through a JSON pointer into this object)
		c02Place(o, kind, in.Site, c02Concrete(c02SiteKind(kind, in.Site), c02Content{ID: in.ID}))
	}
	for _, ch := range c.Ch {
		c02Place(o, kind, ch.Site, refObj(ch.Ref))
	}
	return o
}

func c02Content2JSON(kind string, c c02Content) map[string]any {
	if c.Broken {
		return nil
	}
	if c.Ref != "" {
		return refObj(c.Ref)
	}
	return c02Concrete(kind, c)
}

// the root's own reference, placed in an operation
func c02UseInOp(kind, ref string) map[string]any {
	r := refObj(ref)
	ok := map[string]any{"200": map[string]any{"description": "d"}}
	op := map[string]any{"operationId": "opu", "responses": ok}
	method := "get"
	switch kind {
	case "schemas":
		op["responses"] = map[string]any{"200": map[string]any{"description": "d", "content": map[string]any{"application/json": map[string]any{"schema": r}}}}
	case "parameters":
		op["parameters"] = []any{r}
	case "headers":
		op["responses"] = map[string]any{"200": map[string]any{"description": "d", "headers": map[string]any{"H": r}}}
	case "requestBodies":
		method = "post"
		op["requestBody"] = r
	case "responses":
		op["responses"] = map[string]any{"200": r}
	case "examples":
		op["responses"] = map[string]any{"200": map[string]any{"description": "d", "content": map[string]any{"application/json": map[string]any{
			"schema": map[string]any{"type": "object"}, "examples": map[string]any{"E": r}}}}}
	case "links":
		op["responses"] = map[string]any{"200": map[string]any{"description": "d", "links": map[string]any{"L": r}}}
	case "callbacks":
		op["callbacks"] = map[string]any{"C": r}
	case "pathItems":
		return map[string]any{"/u": r}
	}
	return map[string]any{"/u": map[string]any{method: op}}
}

// c02WriteUniverse writes the files under dir and returns the path of the root document.
func c02WriteUniverse(dir string, tc *c02Case) (string, []byte) {
	type fileDoc struct {
		whole map[string]any
		comps map[string]map[string]any
		paths map[string]any
		defs  map[string]any // definitions outside the typed structure: "x-defs" of the document / of the whole-file element
	}
	files := map[string]*fileDoc{}
	get := func(f string) *fileDoc {
		if files[f] == nil {
			files[f] = &fileDoc{comps: map[string]map[string]any{}}
		}
		return files[f]
	}
	get("r/openapi.json")
	for _, s := range tc.Files {
		fd := get(s.File)
		if dn, ok := strings.CutPrefix(s.Name, "#def:"); ok {
			if fd.defs == nil {
				fd.defs = map[string]any{}
			}
			fd.defs[dn] = c02Content2JSON(s.Kind, s.C)
			continue
		}
		if s.Name == "" {
			fd.whole = c02Content2JSON(s.Kind, s.C)
			continue
		}
		if s.Kind == "pathItems" {
			if fd.paths == nil {
				fd.paths = map[string]any{}
			}
			fd.paths["/"+s.Name] = c02Content2JSON(s.Kind, s.C)
			continue
		}
		if fd.comps[s.Kind] == nil {
			fd.comps[s.Kind] = map[string]any{}
		}
		fd.comps[s.Kind][s.Name] = c02Content2JSON(s.Kind, s.C)
	}
	// every directory a reference may be spelled through ("sub/../a.json") exists, as in the abstract layout:
	// a location-less document hands such a path to the operating system unnormalised
	for _, d := range []string{"r/sub/deep", "r/shared", "r/catalog", "o", "shared"} {
		os.MkdirAll(filepath.Join(dir, filepath.FromSlash(d)), 0o755)
	}
	var rootBytes []byte
	for f, fd := range files {
		var doc any
		if fd.whole != nil {
			doc = fd.whole
		} else {
			d := map[string]any{"openapi": "3.0.3", "info": map[string]any{"title": f, "version": "1"}, "paths": map[string]any{}}
			if fd.paths != nil {
				d["paths"] = fd.paths
			}
			comps := map[string]any{}
			for k, m := range fd.comps {
				comps[k] = m
			}
			if f == "r/openapi.json" {
				if tc.Pos == "op" || tc.Pos == "op2" {
					use := c02UseInOp(tc.Kind, tc.UseText)
					if tc.Pos == "op2" {
						// the same reference in a second operation
						for k, v := range c02UseInOp(tc.Kind, tc.UseText) {
							if pi, ok := v.(map[string]any); ok {
								for _, o := range pi {
									if om, ok := o.(map[string]any); ok && om["operationId"] != nil {
										om["operationId"] = "opu2"
									}
								}
							}
							use[k+"2"] = v
						}
					}
					if um, ok := any(use).(map[string]any); ok {
						for k, v := range fd.paths { // the root's own path items stay next to the one that carries the use
							if _, dup := um[k]; !dup {
								um[k] = v
							}
						}
					}
					d["paths"] = use
				} else {
					if comps[tc.Kind] == nil {
						comps[tc.Kind] = map[string]any{}
					}
					comps[tc.Kind].(map[string]any)["U"] = refObj(tc.UseText)
				}
			}
			if len(comps) > 0 {
				d["components"] = comps
			}
			doc = d
		}
		if fd.defs != nil {
			doc.(map[string]any)["x-defs"] = fd.defs
		}
		b, err := json.Marshal(doc)
		if err != nil {
			panic(err)
		}
		// "<T>" in an absolute ref stands for the directory of the universe
		b = []byte(strings.ReplaceAll(string(b), `\u003cT\u003e`, filepath.ToSlash(dir)))
		p := filepath.Join(dir, filepath.FromSlash(f))
		if rest, ok := strings.CutPrefix(f, c02Mirror); ok {
			// a document of the second served host lives in its own tree, under the path of its URL
			p = filepath.Join(dir, "_m", filepath.FromSlash(strings.ReplaceAll(rest, "<T>", filepath.ToSlash(dir))))
		}
		os.MkdirAll(filepath.Dir(p), 0o755)
		if err := os.WriteFile(p, b, 0o644); err != nil {
			panic(err)
		}
		if f == "r/openapi.json" {
			rootBytes = b
		}
	}
	return filepath.Join(dir, "r", "openapi.json"), rootBytes
}

// c02Mirror is the second host the harness serves (spec/Layout.tla RemoteAbs)
const c02Mirror = "https://m.example"

var kindOfRefType = map[string]string{
	"SchemaRef": "schemas", "ParameterRef": "parameters", "HeaderRef": "headers", "RequestBodyRef": "requestBodies",
	"ResponseRef": "responses", "SecuritySchemeRef": "securitySchemes", "ExampleRef": "examples", "LinkRef": "links",
	"CallbackRef": "callbacks",
}

func xidOf(v reflect.Value) string {
	// v: pointer to a struct with an Extensions map
	if v.Kind() == reflect.Ptr {
		if v.IsNil() {
			return ""
		}
		v = v.Elem()
	}
	if v.Kind() != reflect.Struct {
		return ""
	}
	f := v.FieldByName("Extensions")
	if !f.IsValid() || f.Kind() != reflect.Map || f.IsNil() {
		return ""
	}
	x := f.MapIndex(reflect.ValueOf("x-id"))
	if !x.IsValid() {
		return ""
	}
	raw := fmt.Sprint(x.Interface())
	switch s := x.Interface().(type) {
	case string:
		raw = s
	case json.RawMessage:
		var str string
		if json.Unmarshal(s, &str) == nil {
			raw = str
		}
	}
	if c02Salt != "" {
		if strings.HasSuffix(raw, c02Salt) {
			return strings.TrimSuffix(raw, c02Salt)
		}
		return "stale:" + raw
	}
	return raw
}

type c02Site struct {
	Owner string   `json:"owner"`
	Path  string   `json:"path"`
	Ref   string   `json:"ref"`
	Kind  string   `json:"kind"`
	Got   string   `json:"got"`
	Where string   `json:"refpath"`
	Segs  []string `json:"segs"`
}

// pathSegs splits ".Content[a/b].Encoding[f]" into ["Content","[a/b]","Encoding","[f]"].
func pathSegs(p string) []string {
	segs := []string{}
	cur := ""
	flush := func() {
		if cur != "" {
			segs = append(segs, cur)
			cur = ""
		}
	}
	inBr := false
	for _, r := range p {
		switch {
		case inBr:
			cur += string(r)
			if r == ']' {
				inBr = false
				flush()
			}
		case r == '.':
			flush()
		case r == '[':
			flush()
			cur = "["
			inBr = true
		default:
			cur += string(r)
		}
	}
	flush()
	return segs
}

// walkInline: also report inline objects (with an x-id) found at positions that may hold a reference.
var walkInline bool

// walkRefs collects every reference site (a *XRef with a non-empty Ref) reachable from v.
func walkRefs(v reflect.Value, owner, path string, seen map[uintptr]bool, out *[]c02Site, depth int) {
	if depth > 60 || !v.IsValid() {
		return
	}
	switch v.Kind() {
	case reflect.Ptr:
		if v.IsNil() {
			return
		}
		if v.Elem().Kind() == reflect.Struct {
			if seen[v.Pointer()] {
				return
			}
			seen[v.Pointer()] = true
		}
		walkRefs(v.Elem(), owner, path, seen, out, depth+1)
	case reflect.Interface:
		if !v.IsNil() {
			walkRefs(v.Elem(), owner, path, seen, out, depth+1)
		}
	case reflect.Struct:
		t := v.Type()
		if kind, ok := kindOfRefType[t.Name()]; ok && t.PkgPath() == "github.com/getkin/kin-openapi/openapi3" {
			ref := v.FieldByName("Ref").String()
			val := v.FieldByName("Value")
			if ref != "" {
				got := "nil"
				if !val.IsNil() {
					got = xidOf(val)
					if got == "" {
						got = "noid"
					}
				}
				where := ""
				if m := v.Addr().MethodByName("RefPath"); m.IsValid() {
					if u, _ := m.Call(nil)[0].Interface().(*url.URL); u != nil {
						where = u.String()
					}
				}
				*out = append(*out, c02Site{Owner: owner, Path: path, Ref: ref, Kind: kind, Got: got, Where: where})
			} else if walkInline && !val.IsNil() {
				// an inline object at a position that may hold a reference (C16: a reference may be inlined)
				if id := xidOf(val); id != "" {
					*out = append(*out, c02Site{Owner: owner, Path: path, Ref: "", Kind: kind, Got: id})
				}
			}
			if !val.IsNil() {
				o := owner
				if id := xidOf(val); id != "" {
					o = id
				}
				walkRefs(val, o, "", seen, out, depth+1)
			}
			return
		}
		if t.Name() == "PathItem" && t.PkgPath() == "github.com/getkin/kin-openapi/openapi3" {
			// a path item is not wrapped in a Ref type: the $ref is a field next to the resolved content
			ref := v.FieldByName("Ref").String()
			id := xidOf(v)
			if ref != "" {
				got := id
				if got == "" {
					got = "nil"
				}
				*out = append(*out, c02Site{Owner: owner, Path: path, Ref: ref, Kind: "pathItems", Got: got})
			} else if walkInline && id != "" {
				*out = append(*out, c02Site{Owner: owner, Path: path, Ref: "", Kind: "pathItems", Got: id})
			}
		}
		o := owner
		if id := xidOf(v); id != "" && t.Name() != "T" {
			o = id
			path = ""
		}
		for i := 0; i < t.NumField(); i++ {
			f := t.Field(i)
			if !f.IsExported() || f.Name == "Extensions" || f.Name == "Origin" {
				continue
			}
			walkRefs(v.Field(i), o, path+"."+f.Name, seen, out, depth+1)
		}
		// maplike types (Paths, Responses, Callback) keep their entries behind a Map() method
		if v.CanAddr() {
			if m := v.Addr().MethodByName("Map"); m.IsValid() && m.Type().NumIn() == 0 && m.Type().NumOut() == 1 {
				walkRefs(m.Call(nil)[0], o, path, seen, out, depth+1)
			}
		}
	case reflect.Map:
		keys := v.MapKeys()
		sort.Slice(keys, func(i, j int) bool { return fmt.Sprint(keys[i]) < fmt.Sprint(keys[j]) })
		for _, k := range keys {
			walkRefs(v.MapIndex(k), owner, path+"["+fmt.Sprint(k)+"]", seen, out, depth+1)
		}
	case reflect.Slice, reflect.Array:
		for i := 0; i < v.Len(); i++ {
			walkRefs(v.Index(i), owner, fmt.Sprintf("%s[%d]", path, i), seen, out, depth+1)
		}
	}
}

type c02Loaded struct {
	doc   *openapi3.T
	err   error
	reads []any
	dir   string
}

// c02Load writes the universe and loads it through the entry point of the case.
func c02Load(tc *c02Case, allowExternal bool) *c02Loaded {
	dir, err := os.MkdirTemp("", "verif-c02-")
	if err != nil {
		panic(err)
	}
	dir, _ = filepath.EvalSymlinks(dir)
	rootPath, rootBytes := c02WriteUniverse(dir, tc)
	res := &c02Loaded{dir: dir, reads: []any{}}
	loader := openapi3.NewLoader()
	loader.IsExternalRefsAllowed = allowExternal
	if !strings.HasSuffix(tc.Entry, "_default") {
		loader.ReadFromURIFunc = func(l *openapi3.Loader, u *url.URL) ([]byte, error) {
			p := u.String()
			if u.Scheme == "https" && u.Host == "m.example" {
				// the second served host: same paths as the universe's own files, other documents
				res.reads = append(res.reads, strings.ReplaceAll(p, filepath.ToSlash(dir), "<T>"))
				return os.ReadFile(filepath.Join(dir, "_m", filepath.FromSlash(u.Path)))
			}
			if tc.Entry == "uri_remote" && u.Scheme == "https" && u.Host == "root.example" {
				res.reads = append(res.reads, p)
				return os.ReadFile(filepath.Join(dir, filepath.FromSlash(u.Path)))
			}
			if tc.Entry == "uri_remote" {
				// any other location is recorded as asked for
				res.reads = append(res.reads, strings.ReplaceAll(p, filepath.ToSlash(dir), "<T>"))
				return openapi3.ReadFromFile(l, u)
			}
			if (u.Scheme == "" || u.Scheme == "file") && u.Host == "" {
				p = u.Path
				if !filepath.IsAbs(p) {
					if wd, err := os.Getwd(); err == nil {
						p = filepath.Join(wd, p)
					}
				}
				p = filepath.Clean(p)
				if rel, err := filepath.Rel(dir, p); err == nil && !strings.HasPrefix(rel, "..") {
					p = filepath.ToSlash(rel)
				}
			}
			res.reads = append(res.reads, strings.ReplaceAll(p, filepath.ToSlash(dir), "<T>"))
			return openapi3.ReadFromFile(l, u)
		}
	}
	switch tc.Entry {
	case "file_abs":
		res.doc, res.err = loader.LoadFromFile(rootPath)
	case "file_abs_reuse":
		// first use of the Loader: the same root document where none of the other files exist
		lone, err := os.MkdirTemp("", "verif-c02-lone-")
		if err != nil {
			panic(err)
		}
		defer os.RemoveAll(lone)
		os.MkdirAll(filepath.Join(lone, "r"), 0o755)
		os.WriteFile(filepath.Join(lone, "r", "openapi.json"), rootBytes, 0o644)
		loader.LoadFromFile(filepath.Join(lone, "r", "openapi.json"))
		res.reads = []any{}
		res.doc, res.err = loader.LoadFromFile(rootPath)
	case "file_abs_prior":
		// earlier uses of the Loader: every other file of the universe, loaded as a root document of its own
		seen := map[string]bool{}
		for _, f := range tc.Files {
			if f.File == "r/openapi.json" || seen[f.File] || strings.Contains(f.File, "://") {
				continue
			}
			seen[f.File] = true
			guard(func() { loader.LoadFromFile(filepath.Join(dir, filepath.FromSlash(f.File))) })
		}
		res.reads = []any{}
		res.doc, res.err = loader.LoadFromFile(rootPath)
	case "resolvein", "file_abs_toggled", "resolvein_toggled", "file_abs_retry", "resolvein_retry", "resolvein_again":
		// histories of one Loader whose switch is changed between two uses (spec/Gen_C02.tla HistoryEntries)
		if strings.HasSuffix(tc.Entry, "_toggled") {
			lone, err := os.MkdirTemp("", "verif-c02-lone-")
			if err != nil {
				panic(err)
			}
			defer os.RemoveAll(lone)
			other := filepath.Join(lone, "other.json")
			os.WriteFile(other, []byte(`{"openapi":"3.0.3","info":{"title":"other","version":"1"},"paths":{}}`), 0o644)
			loader.IsExternalRefsAllowed = !allowExternal
			if _, err := loader.LoadFromFile(other); err != nil {
				panic("harness: reference-free document did not load: " + err.Error())
			}
		}
		if strings.HasSuffix(tc.Entry, "_retry") {
			loader.IsExternalRefsAllowed = !allowExternal
			guard(func() { loader.LoadFromFile(rootPath) })
		}
		loader.IsExternalRefsAllowed = allowExternal
		if tc.Entry == "resolvein_again" {
			// an earlier ResolveRefsIn, on a parsed copy of its own, with no Load* in between
			first := &openapi3.T{}
			if json.Unmarshal(rootBytes, first) == nil {
				guard(func() { loader.ResolveRefsIn(first, &url.URL{Path: filepath.ToSlash(rootPath)}) })
			}
		}
		res.reads = []any{}
		if strings.HasPrefix(tc.Entry, "resolvein") {
			doc := &openapi3.T{}
			if err := json.Unmarshal(rootBytes, doc); err != nil {
				res.err = err
			} else if err := loader.ResolveRefsIn(doc, &url.URL{Path: filepath.ToSlash(rootPath)}); err != nil {
				res.err = err
			} else {
				res.doc = doc
			}
		} else {
			res.doc, res.err = loader.LoadFromFile(rootPath)
		}
	case "file_rel", "file_rel_default":
		wd, _ := os.Getwd()
		os.Chdir(dir)
		res.doc, res.err = loader.LoadFromFile(filepath.Join("r", "openapi.json"))
		os.Chdir(wd)
	case "datapath":
		res.doc, res.err = loader.LoadFromDataWithPath(rootBytes, &url.URL{Path: rootPath})
	case "uri_remote":
		wd, _ := os.Getwd()
		os.Chdir(dir) // so that a location that lost its host would find the file
		res.doc, res.err = loader.LoadFromURI(&url.URL{Scheme: "https", Host: "root.example", Path: "/r/openapi.json"})
		os.Chdir(wd)
	case "data", "reader":
		wd, _ := os.Getwd()
		os.Chdir(filepath.Join(dir, "r"))
		if tc.Entry == "data" {
			res.doc, res.err = loader.LoadFromData(rootBytes)
		} else {
			res.doc, res.err = loader.LoadFromIoReader(bytes.NewReader(rootBytes))
		}
		os.Chdir(wd)
	default:
		panic("harness: c02 entry " + tc.Entry)
	}
	return res
}

func c02Run(c *Case) []any {
	var tc c02Case
	c.Decode(&tc)
	var raw map[string]any
	c.Decode(&raw)
	delete(raw, "files") // the trace spec works on the abstract universe u
	line := map[string]any{"case": c.Idx, "c": raw}
	c02Salt = fmt.Sprintf("~%d", c.Idx)
	var ld *c02Loaded
	p, msg := guard(func() { ld = c02Load(&tc, tc.Allow) })
	if ld != nil {
		defer os.RemoveAll(ld.dir)
	}
	if p {
		line["load"] = "panic"
		line["msg"] = msg
		line["sites"] = []any{}
		line["reads"] = []any{}
		return []any{line}
	}
	line["reads"] = ld.reads
	if ld.err != nil {
		line["load"] = "error"
		line["err"] = strings.ReplaceAll(ld.err.Error(), ld.dir, "<T>")
		line["sites"] = []any{}
		return []any{line}
	}
	line["load"] = "ok"
	var sites []c02Site
	walkRefs(reflect.ValueOf(ld.doc), "root", "", map[uintptr]bool{}, &sites, 0)
	out := []any{}
	for _, s := range sites {
		s.Where = strings.ReplaceAll(s.Where, ld.dir, "<T>")
		s.Ref = strings.ReplaceAll(s.Ref, filepath.ToSlash(ld.dir), "<T>")
		s.Segs = pathSegs(s.Path)
		out = append(out, s)
	}
	line["sites"] = out
	verr := error(nil)
	if pv, _ := guard(func() { verr = ld.doc.Validate(context.Background()) }); pv {
		line["validate"] = "panic"
	} else if verr != nil {
		line["validate"] = "error"
	} else {
		line["validate"] = "ok"
	}
	return []any{line}
}

func init() {
	d := &Driver{Run: c02Run, Abnormal: func(c *Case, kind string) []any {
		var raw map[string]any
		c.Decode(&raw)
		delete(raw, "files")
		return []any{map[string]any{"case": c.Idx, "c": raw, "load": kind, "sites": []any{}, "reads": []any{}}}
	}}
	drivers["C02"] = d
	drivers["C11"] = d
}

// ---------------------------------------------------------------------------------------------
// C16: InternalizeRefs on the loaded universe.

func collectRefStrings(v any, out *[]any) {
	switch x := v.(type) {
	case map[string]any:
		for k, e := range x {
			if k == "$ref" {
				if s, ok := e.(string); ok {
					file, frag, _ := strings.Cut(s, "#")
					segs := []any{}
					for _, p := range strings.Split(strings.TrimPrefix(frag, "/"), "/") {
						segs = append(segs, p)
					}
					*out = append(*out, map[string]any{"text": s, "file": file, "frag": segs})
				}
				continue
			}
			if strings.HasPrefix(k, "x-") {
				// the value of a specification extension is opaque data, not part of the OpenAPI structure: a "$ref" key
				// inside it is no Reference Object
				continue
			}
			collectRefStrings(e, out)
		}
	case []any:
		for _, e := range x {
			collectRefStrings(e, out)
		}
	}
}

func c02SitesJSON(doc *openapi3.T, dir string) []any {
	var sites []c02Site
	walkInline = true
	defer func() { walkInline = false }()
	walkRefs(reflect.ValueOf(doc), "root", "", map[uintptr]bool{}, &sites, 0)
	out := []any{}
	for _, s := range sites {
		s.Where = ""
		s.Ref = strings.ReplaceAll(s.Ref, filepath.ToSlash(dir), "<T>")
		s.Segs = pathSegs(s.Path)
		out = append(out, s)
	}
	return out
}

func validateVerdict(doc *openapi3.T) string {
	var verr error
	if p, _ := guard(func() { verr = doc.Validate(context.Background()) }); p {
		return "panic"
	} else if verr != nil {
		return "error"
	}
	return "ok"
}

func c16Run(c *Case) []any {
	var tc c02Case
	c.Decode(&tc)
	var raw map[string]any
	c.Decode(&raw)
	delete(raw, "files")
	line := map[string]any{"case": c.Idx, "c": raw}
	c02Salt = fmt.Sprintf("~%d", c.Idx)
	var ld *c02Loaded
	p, _ := guard(func() { ld = c02Load(&tc, true) })
	if ld != nil {
		defer os.RemoveAll(ld.dir)
	}
	if p || ld.err != nil {
		line["load"] = "error" // not judged here (C02's business); counted
		return []any{line}
	}
	line["load"] = "ok"
	line["before"] = c02SitesJSON(ld.doc, ld.dir)
	line["vb"] = validateVerdict(ld.doc)
	if pi, msg := guard(func() { ld.doc.InternalizeRefs(context.Background(), nil) }); pi {
		line["intern"] = "panic"
		line["msg"] = msg
		return []any{line}
	}
	line["intern"] = "ok"
	line["va0"] = validateVerdict(ld.doc)
	data, err := json.Marshal(ld.doc)
	if err != nil {
		line["marshal"] = "error"
		return []any{line}
	}
	line["marshal"] = "ok"
	var generic any
	json.Unmarshal(data, &generic)
	refs := []any{}
	collectRefStrings(generic, &refs)
	line["refs"] = refs
	re, rerr := openapi3.NewLoader().LoadFromData(data) // external refs disallowed by default
	if rerr != nil {
		line["reload"] = "error"
		line["reloadErr"] = rerr.Error()
		return []any{line}
	}
	line["reload"] = "ok"
	line["after"] = c02SitesJSON(re, ld.dir)
	line["va"] = validateVerdict(re)
	return []any{line}
}

func init() {
	drivers["C16"] = &Driver{Run: c16Run, PerCaseTimeoutMs: 4000, Abnormal: func(c *Case, kind string) []any {
		var raw map[string]any
		c.Decode(&raw)
		delete(raw, "files")
		// re-load (cheap, and loading is not what died) so the premise "all refs resolved" can be judged
		line := map[string]any{"case": c.Idx, "c": raw, "load": "ok", "intern": kind}
		var tc c02Case
		c.Decode(&tc)
		c02Salt = fmt.Sprintf("~%d", c.Idx)
		if ld := c02Load(&tc, true); ld != nil {
			if ld.err == nil {
				line["before"] = c02SitesJSON(ld.doc, ld.dir)
			}
			os.RemoveAll(ld.dir)
		}
		return []any{line}
	}}
}
