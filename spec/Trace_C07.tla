------------------------------ MODULE Trace_C07 ------------------------------
(* Trace validation for C07: ValidateRequest succeeds iff no part fails (RequestCheck);    *)
(* in multi-error mode the members of the returned MultiError are in bijection with the   *)
(* failing parts; in fail-first mode the returned error names one failing part.  The      *)
(* callback's call sequence is compared with the L2 automaton as a fidelity warning.      *)
EXTENDS RequestCheck, FindingsC07, Json, CSV

Trace == ndJsonDeserialize("trace.ndjson")
VARIABLE l
Init == l = 0
Next == l < Len(Trace) /\ l' = l + 1
Spec == Init /\ [][Next]_l

(* the accept set arrives as a JSON array *)
Norm(c) == [c EXCEPT !.accepts = Range(@)]

FailedOf(c, verdict, parts) ==
   LET fp == FailingParts(c)  got == {parts[i] : i \in DOMAIN parts} IN
   IF verdict \in {"panic", "crash", "hang"} THEN {"no_panic"}
   ELSE (IF fp = {} /\ verdict # "ok" THEN {"passes_when_all_parts_pass"} ELSE {})
        \cup (IF fp # {} /\ verdict = "ok" THEN {"fails_when_a_part_fails"} ELSE {})
        \cup (IF fp # {} /\ verdict = "error" /\ c.multi /\ ~(got = fp /\ Len(parts) = Cardinality(fp))
              THEN {"multi_errors_are_exactly_failing_parts"} ELSE {})
        \cup (IF fp # {} /\ verdict = "error" /\ ~c.multi /\ ~(got \subseteq fp)
              THEN {"error_names_a_failing_part"} ELSE {})

(* the same request is validated again after the document has served a validation with every exclusion option on:    *)
(* the answer is a function of the request, the document and the options of THIS call                                 *)
(* history: every further validation (RequestCheck!View) is judged by the same contract on the case as that call sees it *)
StepsOf(line) == IF "steps" \in DOMAIN line THEN line.steps ELSE <<>>
HistFailed(c, steps) ==
   IF Len(steps) # Len(c.hist) THEN {"history_realised"}
   ELSE UNION {(IF StepWellFormed(c, CurAt(c, i), c.hist[i]) THEN {} ELSE {"history_wellformed"})
               \cup (IF FailedOf(View(c, c.hist[i]), steps[i].verdict, steps[i].parts) # {}
                     THEN {"answer_follows_the_route_and_document_of_this_call"} ELSE {}) : i \in DOMAIN c.hist}

Failed(line) ==
   LET c == Norm(line.c) IN
   IF line.doc # "ok" THEN {"document_rejected"}
   ELSE IF NoCallback(c) /\ c.accepts # {} THEN {"case_wellformed"}      \* without a callback no scheme is accepted
   ELSE FailedOf(c, line.verdict, line.parts)
        \cup (IF line.verdict \in {"crash", "hang"} THEN {} ELSE HistFailed(c, StepsOf(line)))
        \cup (IF "verdict3" \in DOMAIN line /\ FailedOf(c, line.verdict3, line.parts3) # {} THEN {"same_answer_after_a_validation_with_other_options"} ELSE {})
        \cup (IF "docSame" \in DOMAIN line /\ ~line.docSame THEN {"document_unchanged"} ELSE {})

LineOK(line) ==
   LET bad == Failed(line) IN
   /\ bad = {} \/ CSVWrite("%1$s", <<ToJson([case |-> line.case, c |-> line.c, failed |-> bad, verdict |-> line.verdict,
                                              parts |-> line.parts, want |-> FailingParts(Norm(line.c)), steps |-> StepsOf(line), class |-> Class(line, bad)])>>,
                           "violations.ndjson")
   /\ (line.doc # "ok"
       \/ (/\ line.calls = (IF NoCallback(line.c) THEN <<>> ELSE ExpectedCalls(EffSec(line.c), {line.c.accepts[i] : i \in DOMAIN line.c.accepts}))
           /\ Len(StepsOf(line)) = Len(line.c.hist)
           /\ \A i \in DOMAIN line.c.hist :
                 StepsOf(line)[i].calls = ExpectedCalls(EffSec(View(line.c, line.c.hist[i])), {line.c.accepts[j] : j \in DOMAIN line.c.accepts}))
       \/ CSVWrite("%1$s", <<ToJson([case |-> line.case, calls |-> line.calls])>>, "fidelity.ndjson"))
Judge == l > 0 => LineOK(Trace[l])
AllConsumed == TLCGet("stats").diameter = Len(Trace) + 1
=============================================================================
