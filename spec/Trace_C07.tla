------------------------------ MODULE Trace_C07 ------------------------------
(* Trace validation for C07: ValidateRequest succeeds iff no part fails (RequestCheck);    *)
(* in multi-error mode the members of the returned MultiError are in bijection with the   *)
(* failing parts; in fail-first mode the returned error names one failing part.  The      *)
(* callback's call sequence is compared with the L2 automaton as a fidelity warning.      *)
EXTENDS RequestCheck, FindingsC07, Json, CSV

Trace == ndJsonDeserialize("trace.ndjson")
VARIABLE l
Init == l = 0
Next == l < Len(Trace) /\ l' = l + 1
Spec == Init /\ [][Next]_l

(* the accept set arrives as a JSON array *)
Norm(c) == [c EXCEPT !.accepts = Range(@)]

Failed(line) ==
   LET c == Norm(line.c)  fp == FailingParts(c)  got == {line.parts[i] : i \in DOMAIN line.parts} IN
   IF line.doc # "ok" THEN {"document_rejected"}
   ELSE IF line.verdict \in {"panic", "crash", "hang"} THEN {"no_panic"}
   ELSE (IF fp = {} /\ line.verdict # "ok" THEN {"passes_when_all_parts_pass"} ELSE {})
        \cup (IF fp # {} /\ line.verdict = "ok" THEN {"fails_when_a_part_fails"} ELSE {})
        \cup (IF fp # {} /\ line.verdict = "error" /\ c.multi /\ ~(got = fp /\ Len(line.parts) = Cardinality(fp))
              THEN {"multi_errors_are_exactly_failing_parts"} ELSE {})
        \cup (IF fp # {} /\ line.verdict = "error" /\ ~c.multi /\ ~(got \subseteq fp)
              THEN {"error_names_a_failing_part"} ELSE {})

LineOK(line) ==
   LET bad == Failed(line) IN
   /\ bad = {} \/ CSVWrite("%1$s", <<ToJson([case |-> line.case, c |-> line.c, failed |-> bad, verdict |-> line.verdict,
                                              parts |-> line.parts, want |-> FailingParts(Norm(line.c)), class |-> Class(line, bad)])>>,
                           "violations.ndjson")
   /\ (line.doc # "ok"
       \/ line.calls = ExpectedCalls(EffSec(line.c), {line.c.accepts[i] : i \in DOMAIN line.c.accepts})
       \/ CSVWrite("%1$s", <<ToJson([case |-> line.case, calls |-> line.calls])>>, "fidelity.ndjson"))
Judge == l > 0 => LineOK(Trace[l])
AllConsumed == TLCGet("stats").diameter = Len(Trace) + 1
=============================================================================
