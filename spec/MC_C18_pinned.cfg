SPECIFICATION Spec
CONSTANTS W = 1
          WS = 1
          Deep = {}
          OptSet = {"default"}
          Reps = 1
          RepW = 0
          Which = "all"
          MutualFull = FALSE
          Repaired = {8, 9, 11}
INVARIANTS L2Sound
CHECK_DEADLOCK FALSE
