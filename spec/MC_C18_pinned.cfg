SPECIFICATION Spec
CONSTANTS W = 1
          WS = 1
          Deep = {}
          OptSet = {"default"}
INVARIANTS L2Sound
CHECK_DEADLOCK FALSE
