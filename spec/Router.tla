------------------------------- MODULE Router -------------------------------
(* C09 -- routers return the declared operation whose template matches the URL.          *)
(*                                                                                       *)
(* Abstract syntax (all of it crosses the TLC <-> Go boundary as JSON):                  *)
(*   segment / host part : [l |-> "a"]  literal      [v |-> "x"] variable                *)
(*                         (a server variable also carries its default: [v, d], and --   *)
(*                         optionally -- its enum, the declared set of values:           *)
(*                         [v, d, enum |-> <<"443", "8443">>])                           *)
(*                         [mx |-> <<[l |-> "v"], [v |-> "n"]>>]  mixed path segment:    *)
(*                         variables next to literal text inside one segment ("v{n}")    *)
(*   template  : [segs |-> <<segment>>, ops |-> <<[m |-> "GET", id |-> "t1GET"]>>        *)
(*                (, servers |-> <<server>>  -- path-level servers, replacing the        *)
(*                 document's for this path)]                                            *)
(*   server    : [abs |-> FALSE, base |-> <<"b">>, slash |-> BOOLEAN]                    *)
(*             | [abs |-> TRUE, scheme, host |-> <<part>>, port |-> <<>> | <<part>>,     *)
(*                base, slash]                                                           *)
(*               (, sch |-> [v |-> "scheme", enum |-> <<"https", "http">>]  -- the scheme *)
(*                 is the server variable {scheme} with these allowed values; the field  *)
(*                 scheme is its default)                                                *)
(*               (, bv |-> <<[i |-> 1, v |-> "ver"]>>  -- base-path variables: segment i *)
(*                 of the base path is the server variable {ver}; base[i] is its default *)
(*                 -- so base is always the base path under the defaults)                *)
(*   document  : [templates |-> <<template>>, servers |-> <<server>>]                    *)
(*   url       : [abs |-> FALSE, path |-> <<"b","a","">>]            ("/b/a/")           *)
(*             | [abs |-> TRUE, scheme, host |-> <<"api","example","com">>,              *)
(*                port |-> <<>> | <<"8443">>, path]                                      *)
(*               (, tail |-> "?" | "?a=1" | "?a=1#top" | "#top"  -- what follows the     *)
(*                 path in the request URL: query marker, query, fragment; not part of   *)
(*                 the path, so the contract never looks at it)                          *)
(*               (, form |-> "server"  -- the request object is built the way net/http    *)
(*                 hands one to a server's handler: the URL field holds the path (and    *)
(*                 query) only, the host[:port] is in Request.Host, https shows as a     *)
(*                 non-nil Request.TLS.  It is the same request URL -- the contract does *)
(*                 not look at the form -- in another representation)                    *)
(*   request   : [m |-> "GET", u |-> url]                                                *)
(*   observation (what FindRoute did):                                                   *)
(*        [k |-> "route", path |-> "/a/{x}", m, op, params |-> <<[n |-> "x", v |-> "v"]>>*)
(*         (, srv |-> "<server url>" when Route.Server is set)]                          *)
(*      | [k |-> "rerr", kind |-> "notFound" | "methodNotAllowed" | "other"]             *)
(*      | [k |-> "err"] (an error that is not a *routers.RouteError)                     *)
(*      | [k |-> "panic" | "hang" | "crash"]                                             *)
(*                                                                                       *)
(* Path segments, literals, host labels and variable values are atomic strings: the      *)
(* specification only ever compares and concatenates them -- except where a mixed        *)
(* segment has to be matched against a request segment: there both are looked up in the  *)
(* character dictionary Cs (checked by an ASSUME to spell the very strings it is keyed   *)
(* by; a multi-character string that is not in it is a TLC error, never a silent miss).  *)
(*                                                                                       *)
(* L1 (contract)  : Failed(doc, req, obs) = set of violated clauses of the statement.    *)
(* L2 (models)    : MuxObs / LegacyObs -- implementation-shaped models of the two        *)
(*                  routers (route list in matching order, first match wins / pattern    *)
(*                  tree with constants before variables), with switches for the         *)
(*                  repaired designs.                                                    *)
EXTENDS Integers, Sequences, FiniteSets, SequencesExt

IsVar(s) == "v" \in DOMAIN s
IsMix(s) == "mx" \in DOMAIN s
IsLit(s) == "l" \in DOMAIN s

-----------------------------------------------------------------------------
(* the character dictionary: every multi-character string that may meet a mixed segment *)
Cs(s) ==
   IF Len(s) = 0 THEN <<>> ELSE IF Len(s) = 1 THEN <<s>> ELSE
   CASE s = "ab" -> <<"a", "b">>
     [] s = "v1" -> <<"v", "1">>
     [] s = "v2" -> <<"v", "2">>
     [] s = "a%20b" -> <<"a", "%", "2", "0", "b">>
     [] s = "v10" -> <<"v", "1", "0">>
     [] s = "v1x" -> <<"v", "1", "x">>
     [] s = "v1beta" -> <<"v", "1", "b", "e", "t", "a">>
     [] s = "vv" -> <<"v", "v">>
     [] s = "a-" -> <<"a", "-">>
     [] s = "-b" -> <<"-", "b">>
     [] s = "a-b" -> <<"a", "-", "b">>
     [] s = "v1-b" -> <<"v", "1", "-", "b">>
     [] s = "a-b-v" -> <<"a", "-", "b", "-", "v">>
     [] s = "files" -> <<"f", "i", "l", "e", "s">>
     [] s = "report" -> <<"r", "e", "p", "o", "r", "t">>
     [] s = "report." -> <<"r", "e", "p", "o", "r", "t", ".">>
     [] s = "report.pdf" -> <<"r", "e", "p", "o", "r", "t", ".", "p", "d", "f">>
     [] s = "report.txt" -> <<"r", "e", "p", "o", "r", "t", ".", "t", "x", "t">>
DictStrings == {"ab", "a%20b", "v1", "v2", "v10", "v1x", "v1beta", "vv", "a-", "-b", "a-b", "v1-b", "a-b-v", "files", "report", "report.",
                "report.pdf", "report.txt"}
RECURSIVE JoinChars(_)
JoinChars(cs) == IF Len(cs) = 0 THEN "" ELSE cs[1] \o JoinChars(SubSeq(cs, 2, Len(cs)))
ASSUME \A s \in DictStrings : JoinChars(Cs(s)) = s /\ \A i \in 1..Len(Cs(s)) : Len(Cs(s)[i]) = 1

-----------------------------------------------------------------------------
(* rendering: the strings the Go side must have built / must report *)
RECURSIVE PathStr(_)
PathStr(p) == IF Len(p) = 0 THEN "" ELSE "/" \o p[1] \o PathStr(SubSeq(p, 2, Len(p)))
RECURSIVE JoinDot(_)
JoinDot(p) == IF Len(p) = 0 THEN "" ELSE IF Len(p) = 1 THEN p[1] ELSE p[1] \o "." \o JoinDot(SubSeq(p, 2, Len(p)))
RECURSIVE PartStr(_)
PartStr(s) == IF IsVar(s) THEN "{" \o s.v \o "}"
              ELSE IF IsMix(s) THEN JoinChars([i \in 1..Len(s.mx) |-> PartStr(s.mx[i])])
              ELSE s.l
Strs(parts) == [i \in 1..Len(parts) |-> PartStr(parts[i])]
TemplStr(t) == PathStr(Strs(t.segs))

(* base-path variables of a server (a server variable as one whole segment of the base path) *)
BaseVars(s) == IF "bv" \in DOMAIN s THEN s.bv ELSE <<>>
BaseVarAt(s, i) == \E k \in 1..Len(BaseVars(s)) : BaseVars(s)[k].i = i
BaseVarName(s, i) == BaseVars(s)[CHOOSE k \in 1..Len(BaseVars(s)) : BaseVars(s)[k].i = i].v
BaseStrs(s) == [i \in 1..Len(s.base) |-> IF BaseVarAt(s, i) THEN "{" \o BaseVarName(s, i) \o "}" ELSE s.base[i]]

(* the enum of a server variable is the declared set of its values; a variable without one is open-valued *)
EnumOf(part) == IF "enum" \in DOMAIN part THEN part.enum ELSE <<>>
EnumOK(part, x) == EnumOf(part) = <<>> \/ x = part.d \/ \E i \in 1..Len(part.enum) : part.enum[i] = x
DeclaredVals(part) == IF IsVar(part) THEN {part.d} \cup {EnumOf(part)[i] : i \in 1..Len(EnumOf(part))} ELSE {part.l}
DefaultPort(sc) == IF sc = "http" THEN "80" ELSE IF sc = "https" THEN "443" ELSE ""

HasSchemeVar(s) == "sch" \in DOMAIN s
SchemeOK(s, sc) == IF HasSchemeVar(s) THEN (s.sch.enum = <<>> \/ sc = s.scheme \/ \E i \in 1..Len(s.sch.enum) : s.sch.enum[i] = sc)
                   ELSE sc = s.scheme
SchemeSet(s) == IF HasSchemeVar(s) THEN {s.sch.enum[i] : i \in 1..Len(s.sch.enum)} \cup {s.scheme} ELSE {s.scheme}

ServerURL(s) ==
   (IF s.abs THEN (IF HasSchemeVar(s) THEN "{" \o s.sch.v \o "}" ELSE s.scheme) \o "://" \o JoinDot(Strs(s.host)) \o
                  (IF Len(s.port) = 0 THEN "" ELSE ":" \o PartStr(s.port[1]))
    ELSE "")
   \o PathStr(BaseStrs(s)) \o (IF s.slash THEN "/" ELSE "")

UTail(u) == IF "tail" \in DOMAIN u THEN u.tail ELSE ""
UForm(u) == IF "form" \in DOMAIN u THEN u.form ELSE "client"
BareURLStr(u) ==
   (IF u.abs THEN u.scheme \o "://" \o JoinDot(u.host) \o (IF Len(u.port) = 0 THEN "" ELSE ":" \o u.port[1])
    ELSE "")
   \o PathStr(u.path)
URLStr(u) == BareURLStr(u) \o UTail(u)

(* Percent-encoding.  Segments are carried in their wire (encoded) form; the few encoded   *)
(* strings of the universe are decoded by table (any other string decodes to itself).     *)
(* An encoded slash is data, not a separator: "a%2Fb" is ONE segment.                      *)
Dec(x) == CASE x = "x%20y" -> "x y" [] x = "a%20b" -> "a b" [] x = "a%2Fb" -> "a/b"
            [] x = "my%20api" -> "my api" [] x = "my%2Fapi" -> "my/api" [] OTHER -> x
IsEnc(x) == Dec(x) # x
(* what net/url's decoded Path makes of a wire segment when it is split at "/" again *)
DecSegs(x) == CASE x = "a%2Fb" -> <<"a", "b">> [] x = "my%2Fapi" -> <<"my", "api">> [] OTHER -> <<Dec(x)>>

-----------------------------------------------------------------------------
(* servers *)
NoServer == [abs |-> FALSE, base |-> <<>>, slash |-> FALSE, none |-> TRUE]
IsNone(s) == "none" \in DOMAIN s
ServersOf(doc) == IF Len(doc.servers) = 0 THEN <<NoServer>> ELSE doc.servers
(* the servers a template is offered under: its path item's own, else the document's *)
HasOwnServers(t) == "servers" \in DOMAIN t
TServers(doc, t) == IF HasOwnServers(doc.templates[t]) THEN doc.templates[t].servers ELSE ServersOf(doc)
HasOverride(doc) == \E t \in 1..Len(doc.templates) : HasOwnServers(doc.templates[t])
Flat(doc) == [doc EXCEPT !.templates = [t \in 1..Len(doc.templates) |->
                                          [segs |-> doc.templates[t].segs, ops |-> doc.templates[t].ops]]]

(* Does the URL lie under the server?  "yes" / "no" / "open".                            *)
(* Open regions (the statement does not decide them; excluded from the demands):         *)
(*  - a relative server URL against an absolute request URL (relative to where the       *)
(*    document is served -- unknown to a router);                                        *)
(*  - a port other than the default of a server port variable (gorillamux documents      *)
(*    that only the default matches, legacy treats the variable as a wildcard);          *)
(*  - an explicit port against a server URL without a port.                              *)
(*    (with an enum this means: an enum value other than the default);                    *)
(*  - a URL without a port against a server whose declared port (literal, default or enum *)
(*    value) is the default port of the URL's scheme (80 / 443): the same origin, written *)
(*    differently -- neither router normalises, the statement does not say.               *)
(*  - a host label outside the enum of a host variable: by the OpenAPI reading it lies     *)
(*    under no declared server, but the library's own suite (TestRouter of both router     *)
(*    packages: d1 enum [example], https://domain0.domain1.com/... expected to be routed)  *)
(*    pins the wildcard reading for host labels -- statement and suite disagree.           *)
(* NOT open: a scheme or a port outside the enum of the variable in that position.  The    *)
(* enum is the declared set of values, so such a URL lies under no declared server.        *)
(* A variable without an enum is open-valued: a host variable matches any non-empty       *)
(* label, a base-path variable any non-empty segment.                                     *)
SrvMatchRest(s, u) ==
   LET portM == IF Len(s.port) = 0 THEN (IF Len(u.port) = 0 THEN "yes" ELSE "open")
                ELSE IF Len(u.port) = 0 THEN (IF DefaultPort(u.scheme) \in DeclaredVals(s.port[1]) THEN "open" ELSE "no")
                ELSE IF IsLit(s.port[1]) THEN (IF u.port[1] = s.port[1].l THEN "yes" ELSE "no")
                ELSE IF u.port[1] = s.port[1].d THEN "yes"
                ELSE IF EnumOK(s.port[1], u.port[1]) THEN "open" ELSE "no"
   IN IF Len(u.host) # Len(s.host) THEN "no"
      ELSE IF \E i \in 1..Len(s.host) : \/ IsLit(s.host[i]) /\ s.host[i].l # u.host[i]
                                        \/ IsVar(s.host[i]) /\ u.host[i] = "" THEN "no"
      ELSE IF portM = "no" THEN "no"
      ELSE IF \E i \in 1..Len(s.host) : IsVar(s.host[i]) /\ ~EnumOK(s.host[i], u.host[i]) THEN "open"
      ELSE portM
SrvMatch(s, u) ==
   IF ~s.abs THEN (IF u.abs /\ ~IsNone(s) THEN "open" ELSE "yes")
   ELSE IF ~u.abs THEN "no"
   ELSE IF ~SchemeOK(s, u.scheme) THEN "no"
   ELSE SrvMatchRest(s, u)

HasBase(s, u) == /\ Len(u.path) >= Len(s.base)
                 /\ \A i \in 1..Len(s.base) : IF BaseVarAt(s, i) THEN u.path[i] # "" ELSE u.path[i] = s.base[i]
Residual(s, u) == SubSeq(u.path, Len(s.base) + 1, Len(u.path))

-----------------------------------------------------------------------------
(* templates *)
(* A template matches a path iff the path is the template with every variable replaced   *)
(* by a non-empty slash-free value: a variable segment takes a whole non-empty segment,  *)
(* the variables of a mixed segment take non-empty pieces of it around its literal text. *)
IsPrefix2(p, cs) == Len(p) <= Len(cs) /\ SubSeq(cs, 1, Len(p)) = p
RECURSIVE MatchParts(_, _)
MatchParts(parts, cs) ==
   IF Len(parts) = 0 THEN Len(cs) = 0
   ELSE LET rest == SubSeq(parts, 2, Len(parts)) IN
        IF IsLit(parts[1])
        THEN LET lc == Cs(parts[1].l) IN IsPrefix2(lc, cs) /\ MatchParts(rest, SubSeq(cs, Len(lc) + 1, Len(cs)))
        ELSE \E k \in 1..Len(cs) : MatchParts(rest, SubSeq(cs, k + 1, Len(cs)))

SegMatch(seg, x) == IF IsLit(seg) THEN x = seg.l
                    ELSE IF IsVar(seg) THEN x # ""
                    ELSE MatchParts(seg.mx, Cs(x))

Matches(t, r) ==
   /\ Len(r) = Len(t.segs)
   /\ \A i \in 1..Len(r) : SegMatch(t.segs[i], r[i])

AllLit(t) == \A i \in 1..Len(t.segs) : IsLit(t.segs[i])
HasMixedT(t) == \E i \in 1..Len(t.segs) : IsMix(t.segs[i])
HasMixed(doc) == \E t \in 1..Len(doc.templates) : HasMixedT(doc.templates[t])
Declared(t, m) == \E j \in 1..Len(t.ops) : t.ops[j].m = m
OpId(t, m) == t.ops[CHOOSE j \in 1..Len(t.ops) : t.ops[j].m = m].id

ParamVals(ps, name) == {ps[i].v : i \in {j \in 1..Len(ps) : ps[j].n = name}}

(* the variable names of a segment *)
SegVars(seg) == IF IsVar(seg) THEN {seg.v}
                ELSE IF IsMix(seg) THEN {seg.mx[i].v : i \in {j \in 1..Len(seg.mx) : IsVar(seg.mx[j])}}
                ELSE {}

(* substituting the returned parameters into the template gives exactly r *)
RECURSIVE Subst(_, _)
Subst(parts, ps) ==       \* the text of a mixed segment under the parameters (each variable has exactly one value)
   IF Len(parts) = 0 THEN ""
   ELSE (IF IsLit(parts[1]) THEN parts[1].l ELSE CHOOSE x \in ParamVals(ps, parts[1].v) : TRUE)
        \o Subst(SubSeq(parts, 2, Len(parts)), ps)
SegFillOK(seg, ps, x) ==
   IF IsLit(seg) THEN x = seg.l
   ELSE IF IsVar(seg) THEN ParamVals(ps, seg.v) = {x} \/ ParamVals(ps, seg.v) = {Dec(x)}   \* wire or decoded value
   ELSE /\ \A n \in SegVars(seg) : Cardinality(ParamVals(ps, n)) = 1
        /\ Subst(seg.mx, ps) = x
FillOK(t, ps, r) ==
   /\ Len(r) = Len(t.segs)
   /\ \A i \in 1..Len(r) : SegFillOK(t.segs[i], ps, r[i])

BindsEmpty(t, ps) == \E i \in 1..Len(t.segs) : \E n \in SegVars(t.segs[i]) : "" \in ParamVals(ps, n)

(* the binding a regular-expression matcher returns for a mixed segment: every variable  *)
(* is greedy, the leftmost one first (gorilla/mux compiles "v{n}" to v(?P<n>[^/]+))      *)
RECURSIVE BindParts(_, _)
BindParts(parts, cs) ==
   IF Len(parts) = 0 THEN <<>>
   ELSE LET rest == SubSeq(parts, 2, Len(parts)) IN
        IF IsLit(parts[1]) THEN BindParts(rest, SubSeq(cs, Len(Cs(parts[1].l)) + 1, Len(cs)))
        ELSE LET ks == {k \in 1..Len(cs) : MatchParts(rest, SubSeq(cs, k + 1, Len(cs)))} IN
             IF ks = {} THEN <<[n |-> parts[1].v, v |-> ""]>> \o BindParts(rest, <<>>)
             ELSE LET k == CHOOSE x \in ks : \A y \in ks : y <= x IN
                  <<[n |-> parts[1].v, v |-> JoinChars(SubSeq(cs, 1, k))]>> \o BindParts(rest, SubSeq(cs, k + 1, Len(cs)))
SegBinding(seg, x) == IF IsVar(seg) THEN <<[n |-> seg.v, v |-> x]>>
                      ELSE IF IsMix(seg) THEN BindParts(seg.mx, Cs(x))
                      ELSE <<>>
RECURSIVE BindingFrom(_, _, _)
BindingFrom(t, r, i) == IF i > Len(t.segs) THEN <<>>
                        ELSE SegBinding(t.segs[i], IF i <= Len(r) THEN r[i] ELSE "") \o BindingFrom(t, r, i + 1)
Binding(t, r) == BindingFrom(t, r, 1)

-----------------------------------------------------------------------------
(* L1: the contract.  Failed = {} iff the observation is one the statement allows.       *)
(*                                                                                       *)
(*  soundness   : a returned route names a declared template, the request method is      *)
(*                declared under it, the operation is that one, and the returned         *)
(*                parameters substituted into the template reproduce the request path    *)
(*                after the base path of a declared server the URL lies under; no        *)
(*                template variable is bound to the empty string.                        *)
(*  completeness: a request that is Fill(t, b) under a declared server ("yes") with a    *)
(*                method declared under t is routed.                                     *)
(*  priority    : if a fully literal template matches and declares the method, the       *)
(*                route's template is that literal one.                                  *)
(*  negative    : a URL that matches no template under any server it may lie under       *)
(*                yields the not-found route error.                                      *)
(*  Panics, hangs, crashes and errors that are not route errors are never allowed.       *)
(*                                                                                       *)
(* Open region (no demand either way, stated here instead of baking in one reading):     *)
(* a fully literal template matches the path but does NOT declare the method while a     *)
(* templated one matches and declares it -- "routed" and "literal wins" pull in          *)
(* opposite directions; the routers differ (gorillamux: method not allowed, legacy:      *)
(* the templated route).  There a sound route or any route error is accepted.            *)
(* template t, under its i-th server, matches the URL; the server match is in modes *)
Hit(doc, t, i, u, modes) ==
   LET sv == TServers(doc, t)[i] IN
   SrvMatch(sv, u) \in modes /\ HasBase(sv, u) /\ Matches(doc.templates[t], Residual(sv, u))
HitT(doc, u, modes) == {t \in 1..Len(doc.templates) : \E i \in 1..Len(TServers(doc, t)) : Hit(doc, t, i, u, modes)}

Failed(doc, req, obs) ==
   LET u == req.u
       mayT == HitT(doc, u, {"yes", "open"})
       sureT == HitT(doc, u, {"yes"})
       decl(t) == Declared(doc.templates[t], req.m)
       lit(t) == AllLit(doc.templates[t])
       openLit == \E t \in mayT : lit(t) /\ ~decl(t)
   IN
   IF obs.k \notin {"route", "rerr"} THEN {"abnormal_" \o obs.k}
   ELSE IF obs.k = "route" THEN
      LET cand == {t \in 1..Len(doc.templates) : TemplStr(doc.templates[t]) = obs.path} IN
      IF cand = {} THEN {"route_template_not_declared"}
      ELSE LET t == CHOOSE x \in cand : TRUE
               tt == doc.templates[t]
               S == TServers(doc, t)
               repro == \E i \in 1..Len(S) :
                           /\ SrvMatch(S[i], u) # "no" /\ HasBase(S[i], u)
                           /\ FillOK(tt, obs.params, Residual(S[i], u))
                           /\ ("srv" \in DOMAIN obs => obs.srv = ServerURL(S[i]))
           IN
           (IF ~decl(t) THEN {"route_method_not_declared"}
            ELSE IF obs.op # OpId(tt, req.m) THEN {"route_wrong_operation"} ELSE {})
           \cup (IF obs.m # req.m THEN {"route_wrong_method"} ELSE {})
           \cup (IF repro THEN {} ELSE {"route_does_not_reproduce_path"})
           \cup (IF BindsEmpty(tt, obs.params) THEN {"route_binds_empty_value"} ELSE {})
           \cup (IF mayT = {} THEN {"unmatched_url_routed"} ELSE {})
           \cup (IF ~lit(t) /\ (\E t2 \in mayT : lit(t2) /\ decl(t2)) THEN {"literal_must_win"} ELSE {})
   ELSE
      (IF mayT = {} /\ obs.kind # "notFound" THEN {"unmatched_url_not_notfound"} ELSE {})
      \cup (IF (\E t \in sureT : decl(t)) /\ ~openLit THEN {"declared_request_not_routed"} ELSE {})

(* The contract per router.  The legacy router documents that it does not handle         *)
(* variables inside a segment ("/books/{id}.json"): for a document with a mixed segment  *)
(* nothing is demanded of it (open region) except that it neither panics nor fails with  *)
(* something that is not a route error.  Everything is demanded of gorillamux.           *)
FailedFor(router, doc, req, obs) ==
   IF router = "l" /\ HasMixed(doc)
   THEN (IF obs.k \notin {"route", "rerr"} THEN {"abnormal_" \o obs.k} ELSE {})
   ELSE Failed(doc, req, obs)

(* Construction.  The statement quantifies over all validated documents: a router that    *)
(* cannot be built from one routes none of the requests the completeness clause demands. *)
(* built = "ok" | "error" | "panic" (what NewRouter did with the loaded, validated        *)
(* document).                                                                            *)
BuildFailed(doc, built) == IF built = "ok" THEN {} ELSE {"router_not_built_for_validated_document"}

(* the variable names of a template / the variables of a server by where they sit *)
TemplVars(t) == UNION {SegVars(t.segs[i]) : i \in 1..Len(t.segs)}
HostVarNames(s) == IF s.abs THEN {s.host[i].v : i \in {j \in 1..Len(s.host) : IsVar(s.host[j])}} ELSE {}
PortVarNames(s) == IF s.abs THEN {s.port[i].v : i \in {j \in 1..Len(s.port) : IsVar(s.port[j])}} ELSE {}
BaseVarNames(s) == {BaseVars(s)[k].v : k \in 1..Len(BaseVars(s))}
ServerVarNames(s) == HostVarNames(s) \cup PortVarNames(s) \cup BaseVarNames(s) \cup (IF HasSchemeVar(s) THEN {s.sch.v} ELSE {})
(* some template is offered under a server one of whose variables has the name of one of its own *)
SharedNames(doc) == UNION {UNION {ServerVarNames(TServers(doc, t)[i]) \cap TemplVars(doc.templates[t]) :
                                    i \in 1..Len(TServers(doc, t))} : t \in 1..Len(doc.templates)}

(* History: "whenever a router returns a route, the route's operation is the one the      *)
(* document declares for the request method under the route's path template" must keep   *)
(* holding for a route the caller still holds while the same router routes further       *)
(* requests.  held = the Method / Path / operationId of the returned route object read   *)
(* again after all requests of the case were routed: [k |-> "route", path, m, op], or    *)
(* [k |-> "none"] where no route had been returned.  The held route must be what it was  *)
(* at return time and still satisfy the identity part of the soundness clause.           *)
HeldFailed(doc, req, obs, held) ==
   IF obs.k # "route" THEN (IF held.k = "none" THEN {} ELSE {"held_route_without_route"})
   ELSE IF held.k # "route" THEN {"held_route_lost"}
   ELSE (IF <<held.path, held.m, held.op>> # <<obs.path, obs.m, obs.op>> THEN {"held_route_changed"} ELSE {})
        \cup LET cand == {t \in 1..Len(doc.templates) : TemplStr(doc.templates[t]) = held.path} IN
             IF cand = {} THEN {"held_template_not_declared"}
             ELSE LET tt == doc.templates[CHOOSE x \in cand : TRUE] IN
                  (IF held.m # req.m THEN {"held_wrong_method"} ELSE {})
                  \cup (IF ~Declared(tt, req.m) THEN {"held_method_not_declared"}
                        ELSE IF held.op # OpId(tt, req.m) THEN {"held_wrong_operation"} ELSE {})

(* the observations one could possibly expect (used to show the contract is satisfiable) *)
RouteObs(doc, req, t, sv) ==
   LET tt == doc.templates[t] IN
   [k |-> "route", path |-> TemplStr(tt), m |-> req.m,
    op |-> IF Declared(tt, req.m) THEN OpId(tt, req.m) ELSE "",
    params |-> Binding(tt, Residual(sv, req.u))]
NotFound == [k |-> "rerr", kind |-> "notFound"]
MethodNotAllowed == [k |-> "rerr", kind |-> "methodNotAllowed"]

Candidates(doc, req) ==
   {NotFound, MethodNotAllowed}
   \cup UNION {{RouteObs(doc, req, t, TServers(doc, t)[i]) :
                  i \in {j \in 1..Len(TServers(doc, t)) : Hit(doc, t, j, req.u, {"yes", "open"})}} :
               t \in 1..Len(doc.templates)}

Satisfiable(doc, req) == \E o \in Candidates(doc, req) : Failed(doc, req, o) = {}

-----
(* L2a: gorillamux.  NewRouter registers, for every path in Paths.InMatchingOrder()      *)
(* (fewer variables first, then descending byte order of the path string) and every      *)
(* server, one mux route; FindRoute returns the first route that matches, and -- in the  *)
(* pinned code -- returns "method not allowed" as soon as a route matches in everything  *)
(* but the method (keepLooking = FALSE; TRUE is the repaired scan).                      *)
Alphabet == <<"%", "-", ".", "/", "0", "1", "2", "a", "b", "c", "d", "e", "f", "g", "h", "i", "j", "k", "l", "m", "n", "o",
              "p", "q", "r", "s", "t", "u", "v", "w", "x", "y", "z", "{", "}">>
CharRank(c) == IF \E i \in 1..Len(Alphabet) : Alphabet[i] = c
               THEN CHOOSE i \in 1..Len(Alphabet) : Alphabet[i] = c ELSE 99
RECURSIVE PartChars(_)
PartChars(s) == IF IsVar(s) THEN <<"{", s.v, "}">>
                ELSE IF IsMix(s) THEN (IF Len(s.mx) = 0 THEN <<>>
                                       ELSE PartChars(s.mx[1]) \o PartChars([mx |-> SubSeq(s.mx, 2, Len(s.mx))]))
                ELSE Cs(s.l)
RECURSIVE TChars(_)
TChars(segs) == IF Len(segs) = 0 THEN <<>> ELSE <<"/">> \o PartChars(segs[1]) \o TChars(SubSeq(segs, 2, Len(segs)))
RECURSIVE LexLess(_, _)
LexLess(a, b) == IF Len(b) = 0 THEN FALSE
                 ELSE IF Len(a) = 0 THEN TRUE
                 ELSE IF a[1] # b[1] THEN CharRank(a[1]) < CharRank(b[1])
                 ELSE LexLess(SubSeq(a, 2, Len(a)), SubSeq(b, 2, Len(b)))
RECURSIVE NVarsFrom(_, _)
NVarsFrom(t, i) == IF i > Len(t.segs) THEN 0 ELSE Cardinality(SegVars(t.segs[i])) + NVarsFrom(t, i + 1)
NVars(t) == NVarsFrom(t, 1)          \* strings.Count(path, "}")
MuxBefore(ta, tb) == \/ NVars(ta) < NVars(tb)
                     \/ NVars(ta) = NVars(tb) /\ LexLess(TChars(tb.segs), TChars(ta.segs))
MuxOrder(doc) == SetToSortSeq(1..Len(doc.templates), LAMBDA a, b : MuxBefore(doc.templates[a], doc.templates[b]))

(* one mux route (template t under server s): "match", "method" (everything but the method), "no" *)
MuxRoute(s, t, req) ==
   LET u == req.u
       pathOK == HasBase(s, u) /\ Matches(t, Residual(s, u))
       schemeOK == ~s.abs \/ (IF u.abs THEN u.scheme ELSE "http") \in SchemeSet(s)      \* (a scheme variable: one mux Schemes matcher with all its values)
       hostOK == ~s.abs \/
                 /\ u.abs /\ Len(u.host) = Len(s.host)
                 /\ \A i \in 1..Len(s.host) : IF IsLit(s.host[i]) THEN u.host[i] = s.host[i].l
                                                ELSE u.host[i] # "" /\ EnumOK(s.host[i], u.host[i])
                 /\ Len(s.port) = 0 \/ u.port = <<IF IsVar(s.port[1]) THEN s.port[1].d ELSE s.port[1].l>>
   IN IF ~(schemeOK /\ hostOK /\ pathOK) THEN "no"      \* (path last: only a URL on the server's host is matched against Cs)
      ELSE IF Declared(t, req.m) THEN "match" ELSE "method"

(* the route list: NewRouter walks the paths in matching order; a path item with its own *)
(* servers replaces the server list -- in the pinned code for every later path as well  *)
(* (the loop assigns to the variable that holds the document's servers); localServers = *)
(* TRUE is the repaired loop.                                                            *)
RECURSIVE MuxRoutesFrom(_, _, _, _, _)
MuxRoutesFrom(doc, ord, k, cur, localServers) ==
   IF k > Len(ord) THEN <<>>
   ELSE LET t == ord[k]
            own == HasOwnServers(doc.templates[t])
            use == IF own THEN doc.templates[t].servers ELSE cur
            nxt == IF own /\ ~localServers THEN use ELSE cur
        IN [i \in 1..Len(use) |-> [t |-> t, s |-> use[i]]] \o MuxRoutesFrom(doc, ord, k + 1, nxt, localServers)
MuxRoutes(doc, localServers) == MuxRoutesFrom(doc, MuxOrder(doc), 1, ServersOf(doc), localServers)

(* Server variables and the variables of the path template end up in ONE map.  gorilla/mux *)
(* compiles host and path of a route into two regular expressions and refuses a route     *)
(* whose host template and path template share a variable name (NewRouter fails:          *)
(* hostNamesApart = FALSE, the pinned code; TRUE = a design that keeps them apart); a     *)
(* base-path variable is part of the path template, where the later occurrence -- the     *)
(* path template's -- wins; a port variable is replaced by its default when the route is  *)
(* registered and written into the map AFTER the match (portClobbers = TRUE, the pinned   *)
(* code: a path variable of the same name is overwritten; FALSE = the template's value    *)
(* is kept).                                                                              *)
MuxBuilds(doc, localServers, hostNamesApart) ==
   \/ hostNamesApart
   \/ LET rs == MuxRoutesFrom(doc, MuxOrder(doc), 1, ServersOf(doc), localServers) IN
      \A k \in 1..Len(rs) : HostVarNames(rs[k].s) \cap TemplVars(doc.templates[rs[k].t]) = {}

Clobbered(ps, s) ==
   IF PortVarNames(s) = {} THEN ps
   ELSE [i \in 1..Len(ps) |-> IF ps[i].n = s.port[1].v THEN [n |-> ps[i].n, v |-> s.port[1].d] ELSE ps[i]]

RECURSIVE MuxScan(_, _, _, _, _, _, _)
MuxScan(doc, req, routes, k, sawMethod, keepLooking, portClobbers) ==
   IF k > Len(routes) THEN (IF sawMethod THEN MethodNotAllowed ELSE NotFound)
   ELSE LET r == routes[k]
            res == MuxRoute(r.s, doc.templates[r.t], req)
        IN IF res = "match"
           THEN LET o == RouteObs(doc, req, r.t, r.s) IN
                IF portClobbers THEN [o EXCEPT !.params = Clobbered(o.params, r.s)] ELSE o
           ELSE IF res = "method" /\ ~keepLooking THEN MethodNotAllowed
           ELSE MuxScan(doc, req, routes, k + 1, sawMethod \/ res = "method", keepLooking, portClobbers)

MuxObsP(doc, req, keepLooking, localServers, portClobbers) ==
   MuxScan(doc, req, MuxRoutes(doc, localServers), 1, FALSE, keepLooking, portClobbers)
MuxObs(doc, req, keepLooking, localServers) == MuxObsP(doc, req, keepLooking, localServers, FALSE)

-----------------------------------------------------------------------------
(* L2b: legacy.  Servers.MatchURL picks the first server whose URL pattern is a prefix   *)
(* of the raw request URL (variables are wildcards, a relative pattern only matches a    *)
(* relative URL); the rest is matched as "METHOD path" in a pattern tree: trailing       *)
(* slashes are stripped, at every node constants are tried before the variable, a        *)
(* variable takes everything up to the next "/" -- including nothing --, and a "/"       *)
(* constant may be consumed at the end of the input (pinned: nonEmptyVars = FALSE,       *)
(* keepSlash = FALSE).  If the tree has no match, Paths.Value(path) decides between      *)
(* "path not found" and "method not allowed" and calls PathItem.GetOperation, which      *)
(* panics for a method outside the nine known ones (pinned: methodGuard = FALSE).        *)
(* The legacy router never looks at path-level servers.                                  *)
Std9 == {"GET", "POST", "PUT", "DELETE", "PATCH", "HEAD", "OPTIONS", "TRACE", "CONNECT"}

LegacySrvMatch(s, u) ==
   IF ~s.abs THEN ~u.abs /\ HasBase(s, u)
   ELSE /\ u.abs /\ SchemeOK(s, u.scheme) /\ Len(u.host) = Len(s.host)
        /\ \A i \in 1..Len(s.host) : IF IsLit(s.host[i]) THEN u.host[i] = s.host[i].l ELSE EnumOK(s.host[i], u.host[i])
        /\ IF Len(s.port) = 0 THEN Len(u.port) = 0
           ELSE Len(u.port) = 1 /\ (IF IsLit(s.port[1]) THEN u.port[1] = s.port[1].l ELSE EnumOK(s.port[1], u.port[1]))
        /\ HasBase(s, u)

RECURSIVE StripSlashes(_)
StripSlashes(r) == IF Len(r) > 0 /\ r[Len(r)] = "" THEN StripSlashes(SubSeq(r, 1, Len(r) - 1)) ELSE r

RECURSIVE LPick(_, _, _, _, _)
LPick(doc, cands, segs, i, strict) ==
   LET sg(c) == doc.templates[c].segs
       done == {c \in cands : Len(sg(c)) = i}
   IN IF i >= Len(segs) /\ done # {} THEN CHOOSE c \in done : TRUE
      ELSE IF strict /\ i >= Len(segs) THEN 0
      ELSE LET seg == IF i < Len(segs) THEN segs[i + 1] ELSE ""
               longer == {c \in cands : Len(sg(c)) > i}
               lits == {c \in longer : IsLit(sg(c)[i + 1]) /\ sg(c)[i + 1].l = seg}
               vars == {c \in longer : IsVar(sg(c)[i + 1]) /\ (strict => seg # "")}
               r1 == IF lits = {} THEN 0 ELSE LPick(doc, lits, segs, i + 1, strict)
           IN IF r1 # 0 THEN r1
              ELSE IF vars = {} THEN 0 ELSE LPick(doc, vars, segs, i + 1, strict)

(* What FindRoute matched was not the wire path (wirePath = FALSE, the code before the    *)
(* repairs efc0e5c and f36c066; TRUE = the code as it is now):                           *)
(*  - with declared servers it is the URL string cut at the first "?" only, so a fragment *)
(*    that follows the path directly stays glued to the last segment;                     *)
(*  - without servers it is net/url's decoded Path, split at "/" again: encoded slashes   *)
(*    become separators, literals are compared with decoded text, values come back        *)
(*    decoded.                                                                            *)
RECURSIVE DecPath(_)
DecPath(r) == IF Len(r) = 0 THEN <<>> ELSE DecSegs(r[1]) \o DecPath(SubSeq(r, 2, Len(r)))
FragGlued(u) == UTail(u) = "#top"
LegacySees(sv, u, r, wirePath) ==
   IF wirePath THEN r
   ELSE IF IsNone(sv) THEN DecPath(r)
   ELSE IF FragGlued(u) /\ Len(r) > 0 THEN [r EXCEPT ![Len(r)] = r[Len(r)] \o "#top"]
   ELSE r

(* The legacy router reads Request.URL only (seesHost = FALSE, the pinned code): of a       *)
(* request in server form it sees the path alone, a relative URL, whatever Host and TLS    *)
(* say; seesHost = TRUE is the design that routes the request URL in either form.          *)
LegacyView(u, seesHost) ==
   IF UForm(u) = "server" /\ ~seesHost
   THEN [f \in (DOMAIN u \ {"scheme", "host", "port"}) |-> IF f = "abs" THEN FALSE ELSE u[f]]
   ELSE u

(* (the repaired code, 56bff20, matches Request.URL first -- so a relative server still     *)
(* answers a server-form request by its path -- and only if no server matches that, the    *)
(* URL completed with Request.Host and the scheme Request.TLS implies)                     *)
LegacyObsH(doc, req0, nonEmptyVars, keepSlash, methodGuard, wirePath, seesHost) ==
   LET relU == LegacyView(req0.u, FALSE)
       S0 == ServersOf(doc)
       relHit == \E i \in 1..Len(S0) : IsNone(S0[i]) \/ LegacySrvMatch(S0[i], relU)
       req == IF UForm(req0.u) = "server" /\ (~seesHost \/ relHit) THEN [req0 EXCEPT !.u = relU] ELSE req0
       u == req.u
       S == ServersOf(doc)
       hits == {i \in 1..Len(S) : IF IsNone(S[i]) THEN TRUE ELSE LegacySrvMatch(S[i], u)}
   IN IF hits = {} THEN NotFound
      ELSE LET i == CHOOSE x \in hits : \A y \in hits : x <= y
               r == LegacySees(S[i], u, Residual(S[i], u), wirePath)
               segs == IF keepSlash THEN r ELSE StripSlashes(r)
               cands == {t \in 1..Len(doc.templates) : Declared(doc.templates[t], req.m)}
               pick == LPick(doc, cands, segs, 0, nonEmptyVars)
           IN IF pick # 0
              THEN [RouteObs(doc, req, pick, S[i]) EXCEPT !.params = Binding(doc.templates[pick], segs)]
              ELSE IF \E t \in 1..Len(doc.templates) : TemplStr(doc.templates[t]) = PathStr(r)
                   THEN (IF req.m \in Std9 \/ methodGuard THEN MethodNotAllowed ELSE [k |-> "panic"])
                   ELSE NotFound
LegacyObs(doc, req, nonEmptyVars, keepSlash, methodGuard, wirePath) ==
   LegacyObsH(doc, req, nonEmptyVars, keepSlash, methodGuard, wirePath, TRUE)

(* Server-variable enums.  MuxRoute and LegacySrvMatch above honour them (a value outside *)
(* the enum does not match): the design the contract asks for.  The code does not, except *)
(* for the scheme under gorillamux (permutePart): gorillamux turns a host variable into a  *)
(* wildcard label (and matches only the default of a port variable anyway), the legacy     *)
(* router treats every server variable as a wildcard.  The models of the code as it is are *)
(* the same operators on the document with those enums erased (a variable without an enum  *)
(* is open-valued): NoEnums(doc, keepScheme).                                              *)
NoEnumP(part) == IF IsVar(part) THEN [f \in (DOMAIN part \ {"enum"}) |-> part[f]] ELSE part
NoEnumS(s, keepScheme) ==
   IF ~s.abs THEN s
   ELSE LET s1 == [s EXCEPT !.host = [i \in 1..Len(s.host) |-> NoEnumP(s.host[i])],
                            !.port = [i \in 1..Len(s.port) |-> NoEnumP(s.port[i])]]
        IN IF HasSchemeVar(s) /\ ~keepScheme THEN [s1 EXCEPT !.sch.enum = <<>>] ELSE s1
NoEnums(doc, keepScheme) ==
   [templates |-> [t \in 1..Len(doc.templates) |->
                     IF HasOwnServers(doc.templates[t])
                     THEN [doc.templates[t] EXCEPT !.servers = [i \in 1..Len(doc.templates[t].servers) |->
                                                                  NoEnumS(doc.templates[t].servers[i], keepScheme)]]
                     ELSE doc.templates[t]],
    servers |-> [i \in 1..Len(doc.servers) |-> NoEnumS(doc.servers[i], keepScheme)]]
MuxSees(doc) == NoEnums(doc, TRUE)
LegacySees2(doc) == NoEnums(doc, FALSE)

(* the models of the code as it is now: the switches of repaired defects are on                 *)
(*   legacy methodGuard (F-C09-3, unknown-method panic) and mux localServers (F-C09-5, path-level *)
(*   servers leak) were repaired by fix: commits in /repo; so was legacy wirePath (F-C09-7: the   *)
(*   fragment is cut off like the query, F-C09-8: the escaped path is matched also without        *)
(*   servers), legacy seesHost (F-C09-11, 56bff20: a server-form request is completed with        *)
(*   Request.Host / Request.TLS) and mux portClobbers (F-C09-9, 55b24e0: a port variable no       *)
(*   longer overwrites a path parameter of its name; now FALSE).  The old behaviours stay          *)
(*   expressible through the switches, as refuted variants.                                        *)
CurLegacyObs(doc, req) == LegacyObsH(LegacySees2(doc), req, FALSE, FALSE, TRUE, TRUE, TRUE)
CurMuxObs(doc, req) == MuxObsP(MuxSees(doc), req, FALSE, TRUE, FALSE)
CurMuxBuilds(doc) == MuxBuilds(doc, TRUE, FALSE)

(* what of an observation the L2 models predict (the rest is left to L1) *)
Gist(o) == IF o.k = "route" THEN <<"route", o.path>> ELSE IF o.k = "rerr" THEN <<"rerr", o.kind>> ELSE <<o.k>>
=============================================================================
