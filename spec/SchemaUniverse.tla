---------------------------- MODULE SchemaUniverse ----------------------------
(* The finite universe shared by the schema generators and the trace specifications: *)
(* the list of JSON values every schema is judged on, and the atomic keyword         *)
(* instances (with boundary parameters) schemas are assembled from.                  *)
EXTENDS SchemaSem, TLC

N(q) == Num(q)
S(cs) == Str(cs)
One == Num(4)

Vals == <<
   Null, Bool(TRUE), Bool(FALSE),
   N(-4), N(0), N(1), N(2), N(4), NumDec(4), N(6), N(8), N(12),
   S(<<>>), S(<<"a">>), S(<<"b">>), S(<<"a","b">>), S(<<"b","a">>), S(<<"a","b","c">>),
   S(<<"U">>), S(<<"a","U">>), S(<<"a","c">>), S(<<"1">>),
   Arr(<<>>), Arr(<<One>>), Arr(<<One, One>>), Arr(<<One, S(<<"1">>)>>), Arr(<<One, NumDec(4)>>),
   Arr(<<One, N(8)>>), Arr(<<S(<<"a">>), S(<<"b">>)>>), Arr(<<Arr(<<One>>)>>), Arr(<<Null>>),
   Arr(<<Obj(<<"x">>, <<One>>)>>), Arr(<<One, N(8), N(12)>>), Arr(<<N(6)>>),
   Obj(<<>>, <<>>), Obj(<<"x">>, <<One>>), Obj(<<"x">>, <<S(<<"a">>)>>), Obj(<<"y">>, <<One>>),
   Obj(<<"x","y">>, <<One, N(8)>>), Obj(<<"x","y","z">>, <<One, S(<<"a">>), Null>>),
   Obj(<<"x">>, <<Null>>), Obj(<<"x">>, <<Obj(<<"x">>, <<One>>)>>), Obj(<<"x">>, <<Arr(<<One>>)>>),
   Obj(<<"x">>, <<N(6)>>),
   \* null as ONE of several members (a declared property that is null next to undeclared keys; a null item next to others)
   Obj(<<"x", "y">>, <<Null, One>>), Arr(<<Null, One>>),
   \* empty objects below a key (what a default of a nested property would be installed into; see DefaultAtoms)
   Obj(<<"x">>, <<Obj(<<>>, <<>>)>>), Obj(<<"x", "y">>, <<One, Obj(<<>>, <<>>)>>)
>>

Big == [t |-> "num", q |-> 2000000000, big |-> TRUE]
OddObj(ov) == Obj(<<"", "0", "a/b", "~1", "~t">>, <<ov, ov, ov, ov, ov>>)      \* (the parameter must not be called x: TLC orders record fields by first occurrence, and Atom compares f before x)
JDocOK  == S(<<"{", "\"", "a", "\"", ":", "\"", "s", "\"", "}">>)       \* {"a":"s"}
JDocBad == S(<<"{", "\"", "a", "\"", ":", "1", "}">>)                    \* {"a":1}
(* extra values for the extended universe (formats etc.; no oracle there) *)
VX == << S(<<"2","0","2","0","-","0","1","-","0","1">>),
         S(<<"2","0","2","0","-","0","1","-","0","1","T","0","0",":","0","0",":","0","0","Z">>),
         S(<<"a","b","c","=">>), N(8000), Obj(<<"x">>, <<S(<<"k">>)>>),
         \* 10^19: an integer beyond int64 (exact in float64); "big" tells the realiser to write it out in full
         Big, Obj(<<"x">>, <<Big>>), Arr(<<Big>>),
         \* strings that hold a JSON document (for the caller-defined format "x-nested"): a conforming and a violating one
         JDocOK, JDocBad, Obj(<<"x">>, <<JDocBad>>), Arr(<<JDocOK, JDocBad>>),
         \* objects the discriminator mapping of "discref" designates D for
         Obj(<<"x", "y">>, <<S(<<"k">>), One>>), Obj(<<"x", "y">>, <<S(<<"k">>), S(<<"a">>)>>),
         \* ... below an array item and below a property (the discriminated oneOf under "items" / "properties")
         Arr(<<One, Obj(<<"x", "y">>, <<S(<<"k">>), S(<<"a">>)>>)>>), Obj(<<"x">>, <<Obj(<<"x", "y">>, <<S(<<"k">>), S(<<"a">>)>>)>>),
         \* objects whose keys are not plain identifiers (see OddKeys below; keys in byte order), at the top and below a container
         OddObj(One), OddObj(S(<<"a">>)), Arr(<<OddObj(One)>>), Obj(<<"x">>, <<OddObj(S(<<"a">>))>>),
         Obj(<<"a/b", "~t">>, <<Obj(<<>>, <<>>), Arr(<<One, One>>)>>) >>

(* C19: the same shapes with a unique marker string at every string leaf; "Mq<d>" occurs *)
(* in no schema text of the universe (checked by MarkerDiscipline in MC_C19).            *)
Mk(d) == S(<<"M", "q", d>>)
MkLong(d) == S(<<"M", "q", d, "x", "x", "x">>)
FDate     == S(<<"2","0","9","9","-","0","2","-","3","0">>)
FDateTime == S(<<"2","0","9","9","-","0","2","-","3","0","T","2","5",":","6","1",":","0","0","Z">>)
FIpv4     == S(<<"1",".","2",".","3",".","9","9","9">>)
FIpv6     == S(<<"1",":",":","2",":",":","3">>)
FByte     == S(<<"T","X","E","=","x">>)
MVals == <<
   Mk("0"), MkLong("1"), Arr(<<Mk("2")>>), Arr(<<Mk("3"), Mk("3")>>), Arr(<<One, Mk("4")>>),
   Arr(<<Mk("5"), Mk("6"), Mk("7")>>), Obj(<<"x">>, <<Mk("8")>>), Obj(<<"x", "y">>, <<Mk("9"), One>>),
   Obj(<<"x">>, <<Arr(<<Mk("a")>>)>>), Obj(<<"x", "y", "z">>, <<One, Mk("b"), Null>>),
   Arr(<<Obj(<<"x">>, <<Mk("c")>>)>>), Obj(<<"y">>, <<Mk("d")>>), Obj(<<"x">>, <<Obj(<<"x">>, <<Mk("e")>>)>>),
   Arr(<<Arr(<<Mk("f")>>)>>), Obj(<<"x", "y">>, <<Mk("g"), Mk("h")>>),
   \* strings that have the SHAPE a format asks for and are still not values of it (a validator that gets past its
   \* shape check must not start quoting): an impossible day, an impossible time, an octet > 255, two "::", bad base64
   FDate, FDateTime, FIpv4, FIpv6, FByte, Obj(<<"x">>, <<FDate>>), Arr(<<FIpv4>>),
   \* the discriminator value "k" (a mapping key of "discref": schema text, not a marker) next to a marker that violates D
   Obj(<<"x", "y">>, <<S(<<"k">>), Mk("i")>>),
   \* a marker below a key that is not a plain identifier
   Obj(<<"a/b", "~t">>, <<Mk("j"), Arr(<<Mk("k")>>)>>) >>

Atom(f, x) == [f |-> f, x |-> x]

(* compositions and containers over small fixed sub-schemas, usable as keywords of one level *)
(* (so that two compositions, or a composition and any other keyword, meet in one schema)    *)
TInt == [type |-> "integer"]
TStr == [type |-> "string"]
(* The SCOPE of the object keywords: "additionalProperties", "required", "minProperties" ... of one schema *)
(* object look at the "properties" of that very object only -- never at the properties a composition       *)
(* member (allOf / anyOf / oneOf, at any depth) declares, and a member's keywords never see the properties *)
(* of the schema that embeds it.  So own properties are a keyword instance of the level ("props"), and     *)
(* compositions whose members declare / close / require properties meet every object keyword at pair level.*)
PX == [pk |-> <<"x">>, ps |-> <<TInt>>]
PY == [pk |-> <<"y">>, ps |-> <<TInt>>]
SAtom(f, x) == [f |-> f, x |-> x, scope |-> TRUE]
ScopeAtoms ==
   {SAtom("props", PX),
    SAtom("allOf", <<PX, [allOf |-> <<PY>>]>>),               \* a member declares x, a member of a member declares y
    SAtom("allOf", <<[apFalse |-> TRUE]>>),                   \* a member closes itself: it does not see the embedding schema's properties
    SAtom("allOf", <<[required |-> <<"x">>], PX>>),           \* one member requires what another declares
    SAtom("oneOf", <<[apFalse |-> TRUE] @@ PX, PY>>)}

(* DEFAULTS BELOW AN ALTERNATIVE THAT DOES NOT MATCH.  The directed readings (VisitAsRequest / VisitAsResponse with     *)
(* DefaultsSet) install defaults into the value while validating; an alternative of anyOf / oneOf that does not match   *)
(* must leave no trace in the value the other alternatives (and the rest of the schema) see -- at any depth.  Shapes:  *)
(* the first alternative has a default two levels down and fails (late: on "required", after the nested object was      *)
(* visited in every mode; early: on a property that sorts before the nested object, so that only a mode that goes on    *)
(* after the first error reaches it; on "minItems" with the default below "items"), the second alternative matches      *)
(* exactly as long as the nested object is untouched.                                                                   *)
DefY == [pk |-> <<"y">>, ps |-> <<[default |-> One]>>]
DefZ == [pk |-> <<"z">>, ps |-> <<[default |-> One]>>]
DA1 == [pk |-> <<"x">>, ps |-> <<DefY>>, required |-> <<"z">>]
DB1 == [pk |-> <<"x">>, ps |-> <<[apFalse |-> TRUE]>>]
DA2 == [pk |-> <<"x", "y">>, ps |-> <<TStr, DefZ>>]
DB2 == [pk |-> <<"y">>, ps |-> <<[apFalse |-> TRUE]>>]
DefaultAtoms ==
   {SAtom("anyOf", <<DA1, DB1>>), SAtom("oneOf", <<DA1, DB1>>), SAtom("anyOf", <<DA2, DB2>>),
    SAtom("anyOf", <<[items |-> DefY, minItems |-> 2], [items |-> [maxProperties |-> 1]]>>)}

ObjKw == {"type", "nullable", "enum", "apFalse", "apSchema", "required", "minProperties", "maxProperties", "props", "pk", "ps",
          "allOf", "anyOf", "oneOf", "not"}
(* at the innermost level the scope atoms meet the keywords that look at an object (pairing them with string / number / *)
(* array keywords adds nothing); a scope atom is recognised by its tag, a schema that holds one by its shape              *)
IsScope(a) == "scope" \in DOMAIN a
MemberObj(m) == \/ Has(m, "apFalse") \/ Has(m, "required") \/ Has(m, "items")
                \/ (Has(m, "pk") /\ \E i \in DOMAIN m.ps : Has(m.ps[i], "type") \/ Has(m.ps[i], "pk") \/ Has(m.ps[i], "apFalse"))
HasScope(s) == \/ (Has(s, "pk") /\ s.ps = <<TInt>>)
               \/ \E f \in {"allOf", "oneOf", "anyOf"} : Has(s, f) /\ \E i \in DOMAIN s[f] : MemberObj(s[f][i])
ScopeOK(s, a) == /\ IsScope(a) => DOMAIN s \subseteq ObjKw
                 /\ HasScope(s) => a.f \in ObjKw

CombAtoms ==
   {Atom("oneOf", <<TInt, TStr>>), Atom("oneOf", <<[type |-> "number"], [minimum |-> 4]>>),
    Atom("anyOf", <<TInt, TStr>>), Atom("anyOf", <<[minimum |-> 8], [minLength |-> 2]>>),
    Atom("allOf", <<[type |-> "number"], [minimum |-> 4]>>), Atom("allOf", <<[nullable |-> TRUE]>>),
    Atom("oneOf", <<[pk |-> <<"x">>, ps |-> <<[default |-> One]>>]>>),       \* the matching alternative brings a default (meets "required: [x]")
    Atom("anyOf", <<[pk |-> <<"x">>, ps |-> <<[default |-> One]>>]>>),
    Atom("not", TStr), Atom("not", [enum |-> <<Num(4)>>]),
    Atom("items", TInt), Atom("apSchema", TStr)}
   \cup ScopeAtoms \cup DefaultAtoms

Atoms ==
   {Atom("type", t) : t \in {"boolean", "integer", "number", "string", "array", "object"}}
   \cup {Atom("nullable", TRUE), Atom("uniqueItems", TRUE), Atom("apFalse", TRUE),
         Atom("exclusiveMinimum", TRUE), Atom("exclusiveMaximum", TRUE)}
   \cup {Atom("enum", e) : e \in {<<One>>, <<S(<<"a">>)>>, <<One, S(<<"a">>), Null>>, <<Arr(<<One>>)>>,
                                  <<Obj(<<"x">>, <<One>>)>>, <<N(6), Bool(TRUE)>>}}
   \cup {Atom("minimum", q) : q \in {0, 4, 6}} \cup {Atom("maximum", q) : q \in {0, 4, 6}}
   \* an exclusive bound as ONE keyword instance (bound + flag), so that it meets every other keyword at pair level
   \cup {Atom("xmin", q) : q \in {0, 4}} \cup {Atom("xmax", q) : q \in {4, 6}}
   \cup {Atom("multipleOf", q) : q \in {2, 3, 4, 6, 10}}       \* 0.5, 0.75, 1, and the non-integral 1.5, 2.5
   \cup {Atom("minLength", n) : n \in {1, 2}} \cup {Atom("maxLength", n) : n \in {0, 1, 2}}
   \cup {Atom("pattern", p) : p \in Patterns}
   \cup {Atom("minItems", n) : n \in {1, 2}} \cup {Atom("maxItems", n) : n \in {0, 1, 2}}
   \cup {Atom("minProperties", n) : n \in {1, 2}} \cup {Atom("maxProperties", n) : n \in {0, 1}}
   \cup {Atom("required", r) : r \in {<<"x">>, <<"x", "y">>}}
   \cup CombAtoms

(* features outside the reference evaluator: only relational judgements (C12, C19) *)
ExtAtoms ==
   {Atom("format", f) : f \in {"date", "date-time", "byte", "int32", "int64", "no-such-format",
                                "ipv4", "ipv6",       \* opt-in validators (DefineIPv4Format / DefineIPv6Format): they return schema errors of their own
                                "x-even-length",      \* a validator the caller registers (harness: strings of even length), returning a plain error
                                "x-wrapped"}}         \* a caller's validator that delegates to a library validator and WRAPS its (value-free) schema error
   \cup {Atom("pattern", "^[a-z]+$"), Atom("pattern", "("), Atom("disc", "x"), Atom("discmap", "x"),
         Atom("discref", "x"),         \* oneOf: [$ref D] with discriminator x and mapping {k: D}; D = {properties: {y: integer}}
         Atom("format", "x-nested")}   \* a caller's validator that hands back a library schema error with a path of its own

(* keywords an outer (wrapping) level may add next to the wrapped schema *)
OuterAtoms ==
   {Atom("type", t) : t \in {"array", "object", "integer"}}
   \cup {Atom("nullable", TRUE), Atom("uniqueItems", TRUE), Atom("apFalse", TRUE),
         Atom("required", <<"x">>), Atom("minProperties", 1), Atom("maxItems", 1),
         Atom("enum", <<One, S(<<"a">>), Null>>)}

Empty == <<>>                     \* the empty schema {}
AuxSchemas == {[type |-> "integer"], [type |-> "string"], [nullable |-> TRUE], Empty}

(* a flag keyword is only generated next to the bound it modifies (the bare flag is a   *)
(* separate, named witness: it makes the pinned code dereference a nil bound)           *)
CanAdd(s, a) ==
   /\ ~Has(s, a.f)
   /\ a.f = "xmin" => ~Has(s, "minimum") /\ ~Has(s, "exclusiveMinimum")
   /\ a.f = "xmax" => ~Has(s, "maximum") /\ ~Has(s, "exclusiveMaximum")
   /\ a.f = "exclusiveMinimum" => Has(s, "minimum")
   /\ a.f = "exclusiveMaximum" => Has(s, "maximum")
   /\ a.f = "disc" => Has(s, "oneOf") /\ ~Has(s, "discmap")   \* discriminator only next to oneOf
   /\ a.f = "discmap" => Has(s, "oneOf") /\ ~Has(s, "disc")   \* ... with a one-entry mapping {k: <ref>}
   /\ a.f = "discref" => ~Has(s, "oneOf") /\ ~Has(s, "disc") /\ ~Has(s, "discmap")
   /\ a.f \in {"oneOf", "disc", "discmap"} => ~Has(s, "discref")
   /\ a.f = "apFalse" => ~Has(s, "apSchema")      \* additionalProperties is one or the other
   /\ a.f = "apSchema" => ~Has(s, "apFalse")
   /\ a.f = "props" => ~Has(s, "pk")

With(s, a) == CASE a.f = "xmin" -> [minimum |-> a.x, exclusiveMinimum |-> TRUE] @@ s
                [] a.f = "xmax" -> [maximum |-> a.x, exclusiveMaximum |-> TRUE] @@ s
                [] a.f = "props" -> a.x @@ s
                [] OTHER -> (a.f :> a.x) @@ s

Wrappers(s) ==
   {[not |-> s], [allOf |-> <<s>>], [items |-> s], [apSchema |-> s], [pk |-> <<"x">>, ps |-> <<s>>]}
   \cup {[allOf |-> <<s, a>>] : a \in AuxSchemas}
   \cup {[anyOf |-> <<s, a>>] : a \in AuxSchemas}
   \cup {[oneOf |-> <<s, a>>] : a \in AuxSchemas}
   \cup {[pk |-> <<"x", "y">>, ps |-> <<s, a>>] : a \in {[type |-> "integer"]}}
   \* a required property that only one side may send: exempt from "required" on the other side
   \cup {[pk |-> <<"x">>, ps |-> <<[readOnly |-> TRUE] @@ s>>, required |-> <<"x">>],
         [pk |-> <<"x">>, ps |-> <<[writeOnly |-> TRUE] @@ s>>, required |-> <<"x">>],
         \* ... and the same under a negation (the side must reach the negated subschema too)
         [not |-> [pk |-> <<"x">>, ps |-> <<[readOnly |-> TRUE] @@ s>>, required |-> <<"x">>]],
         [not |-> [pk |-> <<"x">>, ps |-> <<[writeOnly |-> TRUE] @@ s>>, required |-> <<"x">>]]}

(* SHARING.  A schema in which one sub-schema occurs more than once.  Semantically the occurrences are     *)
(* independent (each application of a schema to a value is judged on its own: Valid has no memory), but a   *)
(* document can write them as references to ONE component, and then the validator holds one schema object   *)
(* that one validation run applies several times to the same value -- first, in most of the shapes below,   *)
(* inside a context that tolerates failure (an alternative of anyOf / oneOf, a negation) and then in one    *)
(* that does not.  The generator emits each of these schemas twice: written out ("share" absent) and with   *)
(* every repeated sub-schema realised as a $ref to a shared component (share = TRUE); the contract is the   *)
(* same for both.                                                                                           *)
ShareWrappers(s) ==
   {[anyOf |-> <<s, s>>], [oneOf |-> <<s, s>>],
    [not |-> s, allOf |-> <<s>>],                                    \* "not" is evaluated before the compositions
    [oneOf |-> <<s, Empty>>, allOf |-> <<s>>],
    [anyOf |-> <<[type |-> "boolean"], s>>, allOf |-> <<s>>],
    [allOf |-> <<[not |-> s], [not |-> s]>>],
    \* two alternatives that extend one base
    [anyOf |-> <<[allOf |-> <<s, [required |-> <<"y">>]>>], [allOf |-> <<s>>]>>],
    [oneOf |-> <<[allOf |-> <<s, [required |-> <<"y">>]>>], [allOf |-> <<s, [maxProperties |-> 1]>>]>>],
    \* ... below a container, so that the repeated application happens to a child of the validated value
    [items |-> [anyOf |-> <<s, s>>]], [pk |-> <<"x">>, ps |-> <<[not |-> s, allOf |-> <<s>>]>>],
    \* one schema object applied to different values (no repetition on one value: must be as if written out)
    [pk |-> <<"x", "y">>, ps |-> <<s, s>>], [items |-> s, apSchema |-> s]}

(* PROPERTY NAMES that are not plain identifiers: characters that are structure in a JSON pointer ("/" and *)
(* "~", and "~1" which reads as an escape), the empty name, a name that reads as an array index.  A key is  *)
(* a key: properties / additionalProperties / required address it verbatim, and the path of an error holds  *)
(* it verbatim (C12: every segment of JSONPointer() is a key or index of the validated value).             *)
OddKeys == {"", "0", "a/b", "~1", "~t"}
KeyWrappers(s) ==
   {[pk |-> <<k>>, ps |-> <<s>>] : k \in OddKeys}
   \cup {[pk |-> <<"a/b", "~t">>, ps |-> <<s, s>>, required |-> <<"a/b", "q/r">>]}
=============================================================================
