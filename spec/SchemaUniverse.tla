---------------------------- MODULE SchemaUniverse ----------------------------
(* The finite universe shared by the schema generators and the trace specifications: *)
(* the list of JSON values every schema is judged on, and the atomic keyword         *)
(* instances (with boundary parameters) schemas are assembled from.                  *)
EXTENDS SchemaSem, TLC

N(q) == Num(q)
S(cs) == Str(cs)
One == Num(4)

Vals == <<
   Null, Bool(TRUE), Bool(FALSE),
   N(-4), N(0), N(1), N(2), N(4), NumDec(4), N(6), N(8), N(12),
   S(<<>>), S(<<"a">>), S(<<"b">>), S(<<"a","b">>), S(<<"b","a">>), S(<<"a","b","c">>),
   S(<<"U">>), S(<<"a","U">>), S(<<"a","c">>), S(<<"1">>),
   Arr(<<>>), Arr(<<One>>), Arr(<<One, One>>), Arr(<<One, S(<<"1">>)>>), Arr(<<One, NumDec(4)>>),
   Arr(<<One, N(8)>>), Arr(<<S(<<"a">>), S(<<"b">>)>>), Arr(<<Arr(<<One>>)>>), Arr(<<Null>>),
   Arr(<<Obj(<<"x">>, <<One>>)>>), Arr(<<One, N(8), N(12)>>), Arr(<<N(6)>>),
   Obj(<<>>, <<>>), Obj(<<"x">>, <<One>>), Obj(<<"x">>, <<S(<<"a">>)>>), Obj(<<"y">>, <<One>>),
   Obj(<<"x","y">>, <<One, N(8)>>), Obj(<<"x","y","z">>, <<One, S(<<"a">>), Null>>),
   Obj(<<"x">>, <<Null>>), Obj(<<"x">>, <<Obj(<<"x">>, <<One>>)>>), Obj(<<"x">>, <<Arr(<<One>>)>>),
   Obj(<<"x">>, <<N(6)>>)
>>

Big == [t |-> "num", q |-> 2000000000, big |-> TRUE]
JDocOK  == S(<<"{", "\"", "a", "\"", ":", "\"", "s", "\"", "}">>)       \* {"a":"s"}
JDocBad == S(<<"{", "\"", "a", "\"", ":", "1", "}">>)                    \* {"a":1}
(* extra values for the extended universe (formats etc.; no oracle there) *)
VX == << S(<<"2","0","2","0","-","0","1","-","0","1">>),
         S(<<"2","0","2","0","-","0","1","-","0","1","T","0","0",":","0","0",":","0","0","Z">>),
         S(<<"a","b","c","=">>), N(8000), Obj(<<"x">>, <<S(<<"k">>)>>),
         \* 10^19: an integer beyond int64 (exact in float64); "big" tells the realiser to write it out in full
         Big, Obj(<<"x">>, <<Big>>), Arr(<<Big>>),
         \* strings that hold a JSON document (for the caller-defined format "x-nested"): a conforming and a violating one
         JDocOK, JDocBad, Obj(<<"x">>, <<JDocBad>>), Arr(<<JDocOK, JDocBad>>),
         \* objects the discriminator mapping of "discref" designates D for
         Obj(<<"x", "y">>, <<S(<<"k">>), One>>), Obj(<<"x", "y">>, <<S(<<"k">>), S(<<"a">>)>>) >>

(* C19: the same shapes with a unique marker string at every string leaf; "Mq<d>" occurs *)
(* in no schema text of the universe (checked by MarkerDiscipline in MC_C19).            *)
Mk(d) == S(<<"M", "q", d>>)
MkLong(d) == S(<<"M", "q", d, "x", "x", "x">>)
FDate     == S(<<"2","0","9","9","-","0","2","-","3","0">>)
FDateTime == S(<<"2","0","9","9","-","0","2","-","3","0","T","2","5",":","6","1",":","0","0","Z">>)
FIpv4     == S(<<"1",".","2",".","3",".","9","9","9">>)
FIpv6     == S(<<"1",":",":","2",":",":","3">>)
FByte     == S(<<"T","X","E","=","x">>)
MVals == <<
   Mk("0"), MkLong("1"), Arr(<<Mk("2")>>), Arr(<<Mk("3"), Mk("3")>>), Arr(<<One, Mk("4")>>),
   Arr(<<Mk("5"), Mk("6"), Mk("7")>>), Obj(<<"x">>, <<Mk("8")>>), Obj(<<"x", "y">>, <<Mk("9"), One>>),
   Obj(<<"x">>, <<Arr(<<Mk("a")>>)>>), Obj(<<"x", "y", "z">>, <<One, Mk("b"), Null>>),
   Arr(<<Obj(<<"x">>, <<Mk("c")>>)>>), Obj(<<"y">>, <<Mk("d")>>), Obj(<<"x">>, <<Obj(<<"x">>, <<Mk("e")>>)>>),
   Arr(<<Arr(<<Mk("f")>>)>>), Obj(<<"x", "y">>, <<Mk("g"), Mk("h")>>),
   \* strings that have the SHAPE a format asks for and are still not values of it (a validator that gets past its
   \* shape check must not start quoting): an impossible day, an impossible time, an octet > 255, two "::", bad base64
   FDate, FDateTime, FIpv4, FIpv6, FByte, Obj(<<"x">>, <<FDate>>), Arr(<<FIpv4>>),
   \* the discriminator value "k" (a mapping key of "discref": schema text, not a marker) next to a marker that violates D
   Obj(<<"x", "y">>, <<S(<<"k">>), Mk("i")>>) >>

Atom(f, x) == [f |-> f, x |-> x]

(* compositions and containers over small fixed sub-schemas, usable as keywords of one level *)
(* (so that two compositions, or a composition and any other keyword, meet in one schema)    *)
TInt == [type |-> "integer"]
TStr == [type |-> "string"]
CombAtoms ==
   {Atom("oneOf", <<TInt, TStr>>), Atom("oneOf", <<[type |-> "number"], [minimum |-> 4]>>),
    Atom("anyOf", <<TInt, TStr>>), Atom("anyOf", <<[minimum |-> 8], [minLength |-> 2]>>),
    Atom("allOf", <<[type |-> "number"], [minimum |-> 4]>>), Atom("allOf", <<[nullable |-> TRUE]>>),
    Atom("oneOf", <<[pk |-> <<"x">>, ps |-> <<[default |-> One]>>]>>),       \* the matching alternative brings a default (meets "required: [x]")
    Atom("anyOf", <<[pk |-> <<"x">>, ps |-> <<[default |-> One]>>]>>),
    Atom("not", TStr), Atom("not", [enum |-> <<Num(4)>>]),
    Atom("items", TInt), Atom("apSchema", TStr)}

Atoms ==
   {Atom("type", t) : t \in {"boolean", "integer", "number", "string", "array", "object"}}
   \cup {Atom("nullable", TRUE), Atom("uniqueItems", TRUE), Atom("apFalse", TRUE),
         Atom("exclusiveMinimum", TRUE), Atom("exclusiveMaximum", TRUE)}
   \cup {Atom("enum", e) : e \in {<<One>>, <<S(<<"a">>)>>, <<One, S(<<"a">>), Null>>, <<Arr(<<One>>)>>,
                                  <<Obj(<<"x">>, <<One>>)>>, <<N(6), Bool(TRUE)>>}}
   \cup {Atom("minimum", q) : q \in {0, 4, 6}} \cup {Atom("maximum", q) : q \in {0, 4, 6}}
   \* an exclusive bound as ONE keyword instance (bound + flag), so that it meets every other keyword at pair level
   \cup {Atom("xmin", q) : q \in {0, 4}} \cup {Atom("xmax", q) : q \in {4, 6}}
   \cup {Atom("multipleOf", q) : q \in {2, 3, 4, 6, 10}}       \* 0.5, 0.75, 1, and the non-integral 1.5, 2.5
   \cup {Atom("minLength", n) : n \in {1, 2}} \cup {Atom("maxLength", n) : n \in {0, 1, 2}}
   \cup {Atom("pattern", p) : p \in Patterns}
   \cup {Atom("minItems", n) : n \in {1, 2}} \cup {Atom("maxItems", n) : n \in {0, 1, 2}}
   \cup {Atom("minProperties", n) : n \in {1, 2}} \cup {Atom("maxProperties", n) : n \in {0, 1}}
   \cup {Atom("required", r) : r \in {<<"x">>, <<"x", "y">>}}
   \cup CombAtoms

(* features outside the reference evaluator: only relational judgements (C12, C19) *)
ExtAtoms ==
   {Atom("format", f) : f \in {"date", "date-time", "byte", "int32", "int64", "no-such-format",
                                "ipv4", "ipv6",       \* opt-in validators (DefineIPv4Format / DefineIPv6Format): they return schema errors of their own
                                "x-even-length",      \* a validator the caller registers (harness: strings of even length), returning a plain error
                                "x-wrapped"}}         \* a caller's validator that delegates to a library validator and WRAPS its (value-free) schema error
   \cup {Atom("pattern", "^[a-z]+$"), Atom("pattern", "("), Atom("disc", "x"), Atom("discmap", "x"),
         Atom("discref", "x"),         \* oneOf: [$ref D] with discriminator x and mapping {k: D}; D = {properties: {y: integer}}
         Atom("format", "x-nested")}   \* a caller's validator that hands back a library schema error with a path of its own

(* keywords an outer (wrapping) level may add next to the wrapped schema *)
OuterAtoms ==
   {Atom("type", t) : t \in {"array", "object", "integer"}}
   \cup {Atom("nullable", TRUE), Atom("uniqueItems", TRUE), Atom("apFalse", TRUE),
         Atom("required", <<"x">>), Atom("minProperties", 1), Atom("maxItems", 1),
         Atom("enum", <<One, S(<<"a">>), Null>>)}

Empty == <<>>                     \* the empty schema {}
AuxSchemas == {[type |-> "integer"], [type |-> "string"], [nullable |-> TRUE], Empty}

(* a flag keyword is only generated next to the bound it modifies (the bare flag is a   *)
(* separate, named witness: it makes the pinned code dereference a nil bound)           *)
CanAdd(s, a) ==
   /\ ~Has(s, a.f)
   /\ a.f = "xmin" => ~Has(s, "minimum") /\ ~Has(s, "exclusiveMinimum")
   /\ a.f = "xmax" => ~Has(s, "maximum") /\ ~Has(s, "exclusiveMaximum")
   /\ a.f = "exclusiveMinimum" => Has(s, "minimum")
   /\ a.f = "exclusiveMaximum" => Has(s, "maximum")
   /\ a.f = "disc" => Has(s, "oneOf") /\ ~Has(s, "discmap")   \* discriminator only next to oneOf
   /\ a.f = "discmap" => Has(s, "oneOf") /\ ~Has(s, "disc")   \* ... with a one-entry mapping {k: <ref>}
   /\ a.f = "discref" => ~Has(s, "oneOf") /\ ~Has(s, "disc") /\ ~Has(s, "discmap")
   /\ a.f \in {"oneOf", "disc", "discmap"} => ~Has(s, "discref")
   /\ a.f = "apFalse" => ~Has(s, "apSchema")      \* additionalProperties is one or the other
   /\ a.f = "apSchema" => ~Has(s, "apFalse")

With(s, a) == CASE a.f = "xmin" -> [minimum |-> a.x, exclusiveMinimum |-> TRUE] @@ s
                [] a.f = "xmax" -> [maximum |-> a.x, exclusiveMaximum |-> TRUE] @@ s
                [] OTHER -> (a.f :> a.x) @@ s

Wrappers(s) ==
   {[not |-> s], [allOf |-> <<s>>], [items |-> s], [apSchema |-> s], [pk |-> <<"x">>, ps |-> <<s>>]}
   \cup {[allOf |-> <<s, a>>] : a \in AuxSchemas}
   \cup {[anyOf |-> <<s, a>>] : a \in AuxSchemas}
   \cup {[oneOf |-> <<s, a>>] : a \in AuxSchemas}
   \cup {[pk |-> <<"x", "y">>, ps |-> <<s, a>>] : a \in {[type |-> "integer"]}}
   \* a required property that only one side may send: exempt from "required" on the other side
   \cup {[pk |-> <<"x">>, ps |-> <<[readOnly |-> TRUE] @@ s>>, required |-> <<"x">>],
         [pk |-> <<"x">>, ps |-> <<[writeOnly |-> TRUE] @@ s>>, required |-> <<"x">>],
         \* ... and the same under a negation (the side must reach the negated subschema too)
         [not |-> [pk |-> <<"x">>, ps |-> <<[readOnly |-> TRUE] @@ s>>, required |-> <<"x">>]],
         [not |-> [pk |-> <<"x">>, ps |-> <<[writeOnly |-> TRUE] @@ s>>, required |-> <<"x">>]]}
=============================================================================
