SPECIFICATION Spec
CONSTANTS MaxGrow = 1
          MaxGrowExt = 0
          MaxShrink = 0
          RandPerKind = 0
          Seed = 1
INVARIANTS L2Strict
CHECK_DEADLOCK FALSE
