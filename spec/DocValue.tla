------------------------------ MODULE DocValue ------------------------------
(***************************************************************************)
(* Tagged JSON values for whole OpenAPI documents (C04).                   *)
(*   [t |-> "s", s |-> "abc"]        string (a TLA+ string)                *)
(*   [t |-> "n", n |-> 1]            integer                               *)
(*   [t |-> "b", b |-> TRUE]         boolean                               *)
(*   [t |-> "a", a |-> <<v1, ...>>]  array                                 *)
(*   [t |-> "z"]                     null                                  *)
(*   [t |-> "o", f |-> <<[k |-> "key", v |-> value], ...>>]   object, key  *)
(*                                   order as written, keys distinct       *)
(* Objects keep their members as a sequence of pairs so that {} and [] stay*)
(* distinct through TLC's Json module and so that the order in which a     *)
(* document is written is under the control of the specification.          *)
(* Strings whose characters matter (path templates, component names,       *)
(* server URLs, patterns, extension keys) are built by the generator with  *)
(* Join(<<"a","b">>); the judge looks inside them with CharsOf, the        *)
(* inverse of Join over the finite vocabulary CharVocab of the importer.   *)
(***************************************************************************)
EXTENDS Integers, Sequences, FiniteSets, TLC

S(s) == [t |-> "s", s |-> s]
N(n) == [t |-> "n", n |-> n]
B(b) == [t |-> "b", b |-> b]
A(a) == [t |-> "a", a |-> a]
O(f) == [t |-> "o", f |-> f]
P(k, v) == [k |-> k, v |-> v]
EmptyO == O(<<>>)
Z == [t |-> "z"]
IsZ(x) == x.t = "z"

IsO(x) == x.t = "o"
IsS(x) == x.t = "s"
IsA(x) == x.t = "a"

SeqRange(q) == {q[i] : i \in DOMAIN q}

Keys(o)     == {o.f[i].k : i \in DOMAIN o.f}
KeySeq(o)   == [i \in DOMAIN o.f |-> o.f[i].k]
Has(o, key) == \E i \in DOMAIN o.f : o.f[i].k = key
Get(o, key) == o.f[CHOOSE i \in DOMAIN o.f : o.f[i].k = key].v

(* string member helpers: absent, non-string and "" all count as "no value" *)
HasStr(o, key)   == Has(o, key) /\ IsS(Get(o, key)) /\ Get(o, key).s # ""
StrOf(o, key)    == IF HasStr(o, key) THEN Get(o, key).s ELSE ""
IsTrue(o, key)   == Has(o, key) /\ Get(o, key).t = "b" /\ Get(o, key).b
IsFalse(o, key)  == Has(o, key) /\ Get(o, key).t = "b" /\ ~Get(o, key).b

RECURSIVE DropSeq(_, _)
DropSeq(f, ks) == IF f = <<>> THEN <<>>
                  ELSE IF Head(f).k \in ks THEN DropSeq(Tail(f), ks)
                  ELSE <<Head(f)>> \o DropSeq(Tail(f), ks)
Drop(o, ks) == O(DropSeq(o.f, ks))

(* replace in place when present, append otherwise *)
Set(o, key, val) ==
   IF Has(o, key)
   THEN O([i \in DOMAIN o.f |-> IF o.f[i].k = key THEN P(key, val) ELSE o.f[i]])
   ELSE O(Append(o.f, P(key, val)))

(* set a value at a key path, creating intermediate objects *)
RECURSIVE SetIn(_, _, _)
SetIn(o, ks, val) ==
   IF Len(ks) = 1 THEN Set(o, ks[1], val)
   ELSE Set(o, ks[1], SetIn(IF Has(o, ks[1]) THEN Get(o, ks[1]) ELSE EmptyO, Tail(ks), val))

(* navigation by pointer: object keys and decimal array indices ("0" is the first) *)
RECURSIVE AtPtr(_, _)
AtPtr(v, ptr) ==
   IF ptr = <<>> THEN v
   ELSE IF IsO(v) THEN AtPtr(Get(v, Head(ptr)), Tail(ptr))
   ELSE AtPtr(v.a[CHOOSE i \in DOMAIN v.a : ToString(i - 1) = Head(ptr)], Tail(ptr))
RECURSIVE ExistsPtr(_, _)
ExistsPtr(v, ptr) ==
   IF ptr = <<>> THEN TRUE
   ELSE IF IsO(v) THEN Has(v, Head(ptr)) /\ ExistsPtr(Get(v, Head(ptr)), Tail(ptr))
   ELSE IF IsA(v) THEN (\E i \in DOMAIN v.a : ToString(i - 1) = Head(ptr))
                       /\ ExistsPtr(v.a[CHOOSE i \in DOMAIN v.a : ToString(i - 1) = Head(ptr)], Tail(ptr))
   ELSE FALSE

(* characters *)
RECURSIVE Join(_)
Join(cs) == IF cs = <<>> THEN "" ELSE Head(cs) \o Join(Tail(cs))
Count(cs, c) == Cardinality({i \in DOMAIN cs : cs[i] = c})
IsPrefix(p, cs) == Len(p) <= Len(cs) /\ \A i \in DOMAIN p : cs[i] = p[i]
=============================================================================
