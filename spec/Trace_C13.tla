------------------------------ MODULE Trace_C13 ------------------------------
(* Trace validation for C13 (L1):                                                          *)
(*  body cases:  verdict = security passes /\ Valid(schema, body with defaults) ;          *)
(*    readable-after = the bytes sent, or -- validation passed, defaults on, some default  *)
(*    applicable -- JSON equal to WithDefaults(schema, body); ContentLength = its length;  *)
(*    GetBody (when set) yields the same; a second validation gives the same verdict and   *)
(*    changes nothing; the document is unchanged.                                          *)
(*  param cases: present or skipped => the forwarded request is the one received;          *)
(*    absent => the forwarded request decodes the parameter to its default, revalidates,   *)
(*    and a second validation changes nothing.                                             *)
EXTENDS Defaults, FindingsC13, Json, CSV

Trace == ndJsonDeserialize("trace.ndjson")
VARIABLE l
Init == l = 0
Next == l < Len(Trace) /\ l' = l + 1
Spec == Init /\ [][Next]_l

SecPasses(sec) == sec \in {"none", "pass_ignore", "pass_read", "fail_read_then_pass"}

BodyFailed(line) ==
   LET c == line.c
       w == IF c.skip THEN c.v ELSE WithDefaults(c.schema, c.v)
       bodyOK == Valid(c.schema, w, "asreq")
       ok == SecPasses(c.sec) /\ bodyOK
       changed == ok /\ ~c.skip /\ ~Eq(w, c.v)
       \* forms: the forwarded body is projected with the library's (schema-driven) form decoder, which leaves out what the schema does
       \* not declare; the body sent is projected the same way (parsed0) and the comparison is between the two projections
       isForm == "fields0" \in DOMAIN line
       wcmp == IF isForm /\ "parsed0" \in DOMAIN line THEN WithDefaults(c.schema, line.parsed0) ELSE w
       RangeOf(f) == {f[i] : i \in DOMAIN f}
       Defaultable == IF Has(c.schema, "pk") THEN {c.schema.pk[i] : i \in {j \in DOMAIN c.schema.pk : Has(c.schema.ps[j], "default")}} ELSE {}
       \* "nothing else changes", for a form: every name=value pair received is still there, and the names that were added are
       \* properties with a default -- whatever the schema declares or the encoding says about the others
       FormKept(f) == /\ RangeOf(line.fields0) \subseteq RangeOf(f)
                      /\ ({p.n : p \in RangeOf(f)} \ {p.n : p \in RangeOf(line.fields0)}) \subseteq (IF c.skip THEN {} ELSE Defaultable)
   IN
   (IF ok /\ line.verdict1 # "ok" THEN {"valid_request_accepted"} ELSE {})
   \cup (IF ~ok /\ line.verdict1 = "ok" THEN {"invalid_request_rejected"} ELSE {})
   \cup (IF c.sec = "fail_read_multi" /\ bodyOK /\ line.verdict1 = "error" /\ "body" \in {line.parts1[i] : i \in DOMAIN line.parts1}
         THEN {"no_spurious_body_error"} ELSE {})
   \* accepted without applicable defaults, or defaults off: byte-for-byte what was received
   \* (byte-for-byte is promised when default-setting is skipped; with it on and nothing to add, the request must not
   \* change -- a re-encoding of the same JSON value is the same request)
   \cup (IF ok /\ ~changed /\ line.after1 # line.sent /\ (c.skip \/ ~("parsed1" \in DOMAIN line /\ Eq(line.parsed1, IF isForm /\ "parsed0" \in DOMAIN line THEN line.parsed0 ELSE c.v)))
         THEN {"body_readable_unchanged"} ELSE {})
   \* rejected: still readable in full (as received, or already completed with its defaults)
   \cup (IF ~ok /\ line.after1 # line.sent /\ ~("parsed1" \in DOMAIN line /\ ~c.skip /\ Eq(line.parsed1, WithDefaults(c.schema, c.v)))
         THEN {"body_readable_in_full"} ELSE {})
   \cup (IF changed /\ ~("parsed1" \in DOMAIN line /\ Eq(line.parsed1, wcmp)) THEN {"defaults_exactly_once"} ELSE {})
   \cup (IF isForm /\ ok /\ ~(("fields1" \in DOMAIN line => FormKept(line.fields1)) /\ ("fields2" \in DOMAIN line => FormKept(line.fields2)))
         THEN {"form_nothing_else_changes"} ELSE {})
   \* (a body of unknown length may stay of unknown length: ContentLength 0 next to a non-empty body)
   \cup (IF line.clen1 # line.len1 /\ ~(c.unsized /\ line.clen1 = 0) THEN {"content_length_matches"} ELSE {})
   \cup (IF line.getbody1 # "<nil>" /\ line.getbody1 # line.after1 THEN {"getbody_yields_same"} ELSE {})
   \cup (IF line.verdict2 # line.verdict1 THEN {"revalidates_same"} ELSE {})
   \cup (IF line.after2 # line.after1 THEN {"second_validation_changes_nothing"} ELSE {})
   \cup (IF ~line.docSame THEN {"document_unchanged"} ELSE {})

ParamFailed(line) ==
   LET c == line.c
       untouched == line.q1 = line.q0 /\ (c.loc # "header" \/ line.h1 = (IF c.present THEN line.h1 ELSE ""))
   IN
   (IF line.verdict1 # "ok" THEN {"valid_request_accepted"} ELSE {})
   \cup (IF line.verdict2 # "ok" THEN {"revalidates_same"} ELSE {})
   \cup (IF (c.present \/ c.skip) /\ ~(line.q1 = line.q0 /\ line.q2 = line.q0) THEN {"forwarded_query_unchanged"} ELSE {})
   \cup (IF (c.present \/ c.skip) /\ c.loc = "header" /\ ~c.present /\ line.h1 # "" THEN {"forwarded_header_unchanged"} ELSE {})
   \cup (IF (c.present \/ c.skip) /\ c.loc = "cookie" /\ ~c.present /\ line.c1 # "" THEN {"forwarded_cookie_unchanged"} ELSE {})
   \cup (IF ~c.present /\ ~c.skip /\ ~("dec1" \in DOMAIN line /\ Eq(line.dec1, c.dflt)) THEN {"default_appears_decodable"} ELSE {})
   \cup (IF ~(line.q2 = line.q1 /\ line.h2 = line.h1 /\ line.c2 = line.c1) THEN {"second_validation_changes_nothing"} ELSE {})
   \cup (IF ~line.docSame THEN {"document_unchanged"} ELSE {})

-----------------------------------------------------------------------------
(* Histories (kind "hist", spec/Gen_C13H.tla): the L1 contract folded over the steps.  Per request the fold keeps     *)
(*   cur     the JSON value the request carries according to L1 (the value sent; completed with its defaults by the   *)
(*           first accepted validation with default-setting on; a fixed point from then on)                           *)
(*   changed an accepted validation has completed cur with a default (the body was re-written)                       *)
(*   rej     a validation with default-setting on has rejected the request (the body is as received or completed)     *)
(*   pdone   an accepted validation with default-setting on has run: every absent parameter carries its default      *)
(*   tried   some validation with default-setting on has run                                                         *)
(* and every read of a body, whenever it happens, must yield what the request carries -- whatever was done to OTHER   *)
(* requests in between: a request is not a view on shared storage.                                                    *)
HInit(c) == [r \in DOMAIN c.reqs |-> [cur |-> c.reqs[r].v, changed |-> FALSE, rej |-> FALSE, pdone |-> FALSE, tried |-> FALSE]]

Locs == {"query", "header", "cookie"}
CarrierBad(r, x, o, q0) ==
   (IF (r.skip \/ r.pp.query # "absent") /\ o.q # q0 THEN {"forwarded_query_unchanged"} ELSE {})
   \cup (IF r.pp.header = "present" /\ o.hn # 1 THEN {"forwarded_header_unchanged"} ELSE {})
   \cup (IF r.pp.cookie = "present" /\ o.cn # 1 THEN {"forwarded_cookie_unchanged"} ELSE {})
   \cup (IF r.pp.header \in {"none", "absent"} /\ (r.pp.header = "none" \/ ~x.tried) /\ o.hn # 0 THEN {"forwarded_header_unchanged"} ELSE {})
   \cup (IF r.pp.cookie \in {"none", "absent"} /\ (r.pp.cookie = "none" \/ ~x.tried) /\ o.cn # 0 THEN {"forwarded_cookie_unchanged"} ELSE {})
   \* exactly once: one header value / one cookie, and each absent parameter decodes to its default in the forwarded request
   \cup (IF x.pdone /\ r.pp.header = "absent" /\ o.hn # 1 THEN {"default_exactly_once_header"} ELSE {})
   \cup (IF x.pdone /\ r.pp.cookie = "absent" /\ o.cn # 1 THEN {"default_exactly_once_cookie"} ELSE {})
   \cup (IF x.pdone /\ r.pp.query = "absent" /\ ~("dq" \in DOMAIN o /\ Eq(o.dq, r.pdflt.query)) THEN {"default_appears_decodable_query"} ELSE {})
   \cup (IF x.pdone /\ r.pp.header = "absent" /\ ~("dh" \in DOMAIN o /\ Eq(o.dh, r.pdflt.header)) THEN {"default_appears_decodable_header"} ELSE {})
   \cup (IF x.pdone /\ r.pp.cookie = "absent" /\ ~("dc" \in DOMAIN o /\ Eq(o.dc, r.pdflt.cookie)) THEN {"default_appears_decodable_cookie"} ELSE {})

ReadBad(r, x, o, sent) ==
   LET hasP == "parsed" \in DOMAIN o
       \* rejected with default-setting on: as received, or already completed with its defaults
       alt == WithDefaults(r.schema, x.cur) IN
   (IF ~x.changed /\ o.after # sent /\ (r.skip \/ ~(hasP /\ (Eq(o.parsed, x.cur) \/ (x.rej /\ Eq(o.parsed, alt)))))
    THEN {IF x.rej THEN "body_readable_in_full" ELSE "body_readable_unchanged"} ELSE {})
   \cup (IF x.changed /\ ~(hasP /\ Eq(o.parsed, x.cur)) THEN {"defaults_exactly_once"} ELSE {})
   \cup (IF o.clen # o.len THEN {"content_length_matches"} ELSE {})
   \cup (IF o.getbody # "<nil>" /\ o.getbody # o.after THEN {"getbody_yields_same"} ELSE {})

RECURSIVE HistFold(_, _, _, _)
HistFold(line, i, st, seen) ==
   LET c == line.c IN
   IF i > Len(c.steps) THEN {}
   ELSE LET s == c.steps[i]  r == c.reqs[s.r]  o == line.obs[i]  x == st[s.r] IN
        IF s.op = "V"
        THEN LET w == IF r.skip THEN x.cur ELSE WithDefaults(r.schema, x.cur)
                 ok == SecPasses(r.sec) /\ Valid(r.schema, w, "asreq")
                 x2 == IF ok /\ ~r.skip
                       THEN [x EXCEPT !.cur = w, !.changed = @ \/ ~Eq(w, x.cur), !.pdone = TRUE, !.tried = TRUE]
                       ELSE [x EXCEPT !.rej = @ \/ (~ok /\ ~r.skip), !.tried = @ \/ ~r.skip]
                 first == s.r \notin seen IN
             (IF o.verdict \in {"panic", "crash", "hang"} THEN {"no_panic"} ELSE {})
             \cup (IF ok /\ o.verdict = "error" THEN {IF first THEN "valid_request_accepted" ELSE "revalidates_same"} ELSE {})
             \cup (IF ~ok /\ o.verdict = "ok" THEN {"invalid_request_rejected"} ELSE {})
             \cup CarrierBad(r, x2, o, line.q0[s.r])
             \cup HistFold(line, i + 1, [st EXCEPT ![s.r] = x2], seen \cup {s.r})
        ELSE ReadBad(r, x, o, line.sent[s.r]) \cup CarrierBad(r, x, o, line.q0[s.r])
             \cup HistFold(line, i + 1, st, seen)

HistFailed(line) ==
   IF Len(line.obs) # Len(line.c.steps) THEN {"history_realised"}
   ELSE HistFold(line, 1, HInit(line.c), {}) \cup (IF ~line.docSame THEN {"document_unchanged"} ELSE {})

-----------------------------------------------------------------------------
(* Model fidelity (warnings, never violations): the serial histories are also run through the L2 model BodyStreamH    *)
(* instantiated as the tree is (fresh encoder slices, the encoder's result in a variable of its own, the JSON family   *)
(* and YAML encodable, Close bound when deferred); what the harness saw of the real request after every step --   *)
(* verdict, kind of reader and of GetBody installed, where the header / query default is, what a read yields -- is     *)
(* compared with the model's state.                                                                                     *)
TreeEncoders == {"application/json", "application/json-patch+json", "application/ld+json", "application/hal+json", "application/vnd.api+json",
                 "application/problem+json", "application/x-yaml", "application/yaml"}
M == INSTANCE BodyStreamH WITH EncoderBuffer <- "fresh", EncodeVar <- "own", Encoders <- TreeEncoders, NoEncoder <- "forward", CloseBinding <- "at_defer"
BranchSets(b, v) == ~Eq(WithDefaults(b, v), v)
Reenc(s, v) == \/ Has(s, "oneOf") /\ ~(Has(s, "dmap") /\ s.dmap.keys # <<>>)     \* (a mapping: only the designated branch is tried)
                  /\ \E i \in DOMAIN s.oneOf : BranchSets(s.oneOf[i], v)
               \/ Has(s, "anyOf") /\ \E i \in DOMAIN s.anyOf : BranchSets(s.anyOf[i], v) /\ \A j \in 1..(i - 1) : ~Matches(s.anyOf[j], v)
MCfg(r) == LET wd == WithDefaults(r.schema, r.v) IN
   [mt |-> r.mt, valid |-> Valid(r.schema, IF r.skip THEN r.v ELSE wd, "asreq"), hasDef |-> ~Eq(wd, r.v), reenc |-> Reenc(r.schema, wd), skip |-> r.skip, preset |-> r.preset,
    auth |-> CASE r.sec = "none" -> "none" [] r.sec = "pass_read" -> "read_pass" [] r.sec = "fail_read" -> "read_fail",
    pq |-> r.pp.query, ph |-> r.pp.header]
Diff(i, what, m, seen) == IF m = seen THEN {} ELSE {[step |-> i, what |-> what, model |-> m, seen |-> seen]}
HClass(r, o) == IF r.pp.header = "present" THEN (IF o.hn = 1 THEN "client" ELSE "other")
                ELSE IF o.hn = 0 THEN "absent" ELSE IF o.hn = 1 /\ "dh" \in DOMAIN o /\ Eq(o.dh, r.pdflt.header) THEN "dflt" ELSE "other"
QClass(r, o, q0) == IF o.q = q0 THEN (IF r.pp.query = "present" THEN "client" ELSE "absent")
                    ELSE IF "dq" \in DOMAIN o /\ Eq(o.dq, r.pdflt.query) THEN "dflt" ELSE "other"
TextClass(r, text, sent, hasP, parsed) == IF text = sent \/ (hasP /\ Eq(parsed, r.v)) THEN "orig" ELSE IF text = "" THEN "empty"
                                          ELSE IF hasP /\ Eq(parsed, WithDefaults(r.schema, r.v)) THEN "dflt" ELSE "other"
RECURSIVE ModelFold(_, _, _)
ModelFold(line, i, g) ==
   IF i > Len(line.c.steps) THEN {}
   ELSE LET s == line.c.steps[i]  r == line.c.reqs[s.r]  o == line.obs[i]  c == MCfg(r)
            g2 == IF s.op = "V" THEN M!SerialValidate(g, s.r, c) ELSE M!HandlerRead(g, s.r) IN
        (IF s.op = "V" THEN Diff(i, "verdict", g2.x[s.r].verdict, o.verdict)
         ELSE Diff(i, "read", M!WhatARead(g, s.r)[1], TextClass(r, o.after, line.sent[s.r], "parsed" \in DOMAIN o, IF "parsed" \in DOMAIN o THEN o.parsed ELSE r.v))
              \cup (IF g.x[s.r].gb.kind = "none" THEN {}
                    ELSE Diff(i, "getbody", M!WhatGetBodyYields(g, s.r)[1],
                              IF o.getbody = o.after THEN TextClass(r, o.after, line.sent[s.r], "parsed" \in DOMAIN o, IF "parsed" \in DOMAIN o THEN o.parsed ELSE r.v)
                              ELSE TextClass(r, o.getbody, line.sent[s.r], FALSE, r.v))))
        \cup Diff(i, "bodyKind", M!BodyKind(g2, s.r), o.bk) \cup Diff(i, "gbKind", M!GbKind(g2, s.r), o.gk)
        \cup Diff(i, "header", g2.x[s.r].h, HClass(r, o)) \cup Diff(i, "query", g2.x[s.r].q, QClass(r, o, line.q0[s.r]))
        \cup ModelFold(line, i + 1, g2)
FidelityOK(line) ==
   IF line.doc = "ok" /\ line.c.kind = "hist" /\ "obs" \in DOMAIN line /\ Len(line.obs) = Len(line.c.steps)
   THEN LET d == ModelFold(line, 1, M!InitG([k \in DOMAIN line.c.reqs |-> MCfg(line.c.reqs[k])])) IN
        d = {} \/ CSVWrite("%1$s", <<ToJson([case |-> line.case, what |-> "history differs from BodyStreamH", diffs |-> d, c |-> line.c])>>, "fidelity.ndjson")
   ELSE TRUE

Failed(line) ==
   IF line.doc # "ok" THEN {"document_rejected"}
   ELSE IF line.c.kind = "hist" THEN (IF "obs" \in DOMAIN line THEN HistFailed(line) ELSE {"no_panic"})
   ELSE IF line.verdict1 \in {"panic", "crash", "hang"} \/ line.verdict2 \in {"panic", "crash", "hang"} THEN {"no_panic"}
   ELSE IF line.c.kind = "body" THEN BodyFailed(line) ELSE ParamFailed(line)

LineOK(line) ==
   LET bad == Failed(line) IN
   bad = {} \/ CSVWrite("%1$s", <<ToJson([case |-> line.case, c |-> line.c, failed |-> bad,
                                           obs |-> [x \in (DOMAIN line) \ {"c", "case"} |-> line[x]],
                                           class |-> Class(line, bad)])>>, "violations.ndjson")
Judge == l > 0 => (LineOK(Trace[l]) /\ FidelityOK(Trace[l]))
AllConsumed == TLCGet("stats").diameter = Len(Trace) + 1
=============================================================================
