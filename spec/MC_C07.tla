------------------------------- MODULE MC_C07 -------------------------------
(* D: the security evaluation of ValidateSecurityRequirements as a state machine (one     *)
(* action per callback invocation), explored for every requirement list of <= 3            *)
(* requirements x <= 2 schemes over {A, B, C} and every outcome assignment; TLC checks     *)
(* that the final verdict equals the contract SecOK and that the calls made are exactly    *)
(* ExpectedCalls (a prefix-closed function of the outcomes).                               *)
EXTENDS RequestCheck

Schemes == {"A", "B", "C"}
SortedSeqs == {<<>>, <<"A">>, <<"B">>, <<"C">>, <<"A", "B">>, <<"A", "C">>, <<"B", "C">>}
Lists == UNION {[1..n -> SortedSeqs] : n \in 0..3}

VARIABLES es, accepts, ri, si, calls, verdict
vars == <<es, accepts, ri, si, calls, verdict>>

Init == /\ es \in Lists /\ accepts \in SUBSET Schemes
        /\ ri = 1 /\ si = 1 /\ calls = <<>> /\ verdict = "running"

Finish(v) == verdict' = v /\ UNCHANGED <<es, accepts, ri, si, calls>>

EmptyList == verdict = "running" /\ es = <<>> /\ Finish("ok")
Exhausted == verdict = "running" /\ es # <<>> /\ ri > Len(es) /\ Finish("rejected")
ReqSatisfied == verdict = "running" /\ ri <= Len(es) /\ si > Len(es[ri]) /\ Finish("ok")
Call ==
   /\ verdict = "running" /\ ri <= Len(es) /\ si <= Len(es[ri])
   /\ calls' = Append(calls, es[ri][si])
   /\ IF es[ri][si] \in accepts THEN si' = si + 1 /\ ri' = ri
      ELSE ri' = ri + 1 /\ si' = 1                        \* abandon this requirement
   /\ UNCHANGED <<es, accepts, verdict>>
Next == EmptyList \/ Exhausted \/ ReqSatisfied \/ Call
Spec == Init /\ [][Next]_vars

C == [opSec |-> [list |-> es], docSec |-> <<>>, accepts |-> accepts]
VerdictIsContract == verdict # "running" => ((verdict = "ok") <=> SecOK(C))
CallsAreExpected == verdict # "running" => calls = ExpectedCalls(es, accepts)
Terminates == <>(verdict # "running")
=============================================================================
