------------------------------- MODULE MC_C07 -------------------------------
(* D: the security evaluation of ValidateSecurityRequirements as a state machine (one     *)
(* action per callback invocation), explored for every requirement list of <= 3            *)
(* requirements x <= 3 schemes over {A, B, C} and every outcome assignment; TLC checks     *)
(* that the final verdict equals the contract SecOK and that the calls made are exactly    *)
(* ExpectedCalls (a prefix-closed function of the outcomes).                               *)
(* "U" is a scheme the document does not declare: the code looks a scheme up before asking  *)
(* the callback; an undeclared one fails its alternative without a call.  UndeclaredAborts  *)
(* = TRUE is the variant "resolve all schemes of the list up front, fail at the first       *)
(* undeclared name" -- TLC shows it breaks VerdictIsContract (MC_C07_abort.cfg).            *)
EXTENDS RequestCheck
CONSTANT UndeclaredAborts

Schemes == {"A", "B", "C"}
SortedSeqs == {<<>>, <<"A">>, <<"B">>, <<"C">>, <<"A", "B">>, <<"A", "C">>, <<"B", "C">>, <<"A", "B", "C">>, <<"U">>, <<"A", "U">>, <<"B", "U">>}
Lists == UNION {[1..n -> SortedSeqs] : n \in 0..3}

VARIABLES es, accepts, ri, si, calls, verdict
vars == <<es, accepts, ri, si, calls, verdict>>

Init == /\ es \in Lists /\ accepts \in SUBSET Schemes
        /\ ri = 1 /\ si = 1 /\ calls = <<>> /\ verdict = "running"

Finish(v) == verdict' = v /\ UNCHANGED <<es, accepts, ri, si, calls>>

EmptyList == verdict = "running" /\ es = <<>> /\ Finish("ok")
Exhausted == verdict = "running" /\ es # <<>> /\ ri > Len(es) /\ Finish("rejected")
ReqSatisfied == verdict = "running" /\ ri <= Len(es) /\ si > Len(es[ri]) /\ Finish("ok")
Undeclared ==
   /\ ~UndeclaredAborts /\ verdict = "running" /\ ri <= Len(es) /\ si <= Len(es[ri]) /\ es[ri][si] \notin Declared
   /\ ri' = ri + 1 /\ si' = 1 /\ UNCHANGED <<es, accepts, verdict, calls>>
UpFront ==      \* the variant: before anything else, every name of the list is resolved
   /\ UndeclaredAborts /\ verdict = "running" /\ ri = 1 /\ si = 1 /\ calls = <<>>
   /\ \E i \in DOMAIN es : \E j \in DOMAIN es[i] : es[i][j] \notin Declared
   /\ Finish("rejected")
Call ==
   /\ verdict = "running" /\ ri <= Len(es) /\ si <= Len(es[ri]) /\ es[ri][si] \in Declared
   /\ ~(UndeclaredAborts /\ \E i \in DOMAIN es : \E j \in DOMAIN es[i] : es[i][j] \notin Declared)
   /\ calls' = Append(calls, es[ri][si])
   /\ IF es[ri][si] \in accepts THEN si' = si + 1 /\ ri' = ri
      ELSE ri' = ri + 1 /\ si' = 1                        \* abandon this requirement
   /\ UNCHANGED <<es, accepts, verdict>>
Next == EmptyList \/ Exhausted \/ ReqSatisfied \/ Call \/ Undeclared \/ UpFront
Spec == Init /\ [][Next]_vars

C == [opSec |-> [list |-> es], docSec |-> <<>>, accepts |-> accepts]
VerdictIsContract == verdict # "running" => ((verdict = "ok") <=> SecOK(C))
CallsAreExpected == verdict # "running" => calls = ExpectedCalls(es, accepts)
Terminates == <>(verdict # "running")
=============================================================================
