------------------------------ MODULE Trace_C05 ------------------------------
(* Trace validation for C05.  A log line is one case of Gen_C05 together with what the   *)
(* real code did: the value decoded for parameter p (verif hook) and the error class of  *)
(* ValidateParameter.  L1:                                                               *)
(*   present : decoded = v (structurally) and accepted iff Valid(schema, v)              *)
(*   absent  : required => reported as missing (ErrInvalidRequired); optional => accepted*)
(*   garbage : rejected                                                                  *)
(*   empty   : accepted iff allowEmptyValue; never reported as missing                    *)
EXTENDS ParamCodec, ParamDecode, FindingsC05, Json, CSV

Trace == ndJsonDeserialize("trace.ndjson")
VARIABLE l
Init == l = 0
Next == l < Len(Trace) /\ l' = l + 1
Spec == Init /\ [][Next]_l

Rejected(x) == x \notin {"ok", "panic", "crash", "hang"}

Failed(line) ==
   LET c == line.c IN
   IF line.doc # "ok" THEN {"document_rejected"}
   ELSE IF "skip" \in DOMAIN line THEN {}
   ELSE IF line.route # "ok" THEN {"not_routed"}
   ELSE
   (IF line.verdict \in {"panic", "crash", "hang"} \/ line.dec.err \in {"panic", "crash", "hang"} THEN {"no_panic"} ELSE {})
   \cup
   (CASE c.presence = "present" ->
           \* (a property the schema gives no type to has no determined decoded value: ParamCodec!Typed)
           (IF Typed(c.schema, c.v) /\ ~(line.dec.err = "ok" /\ line.dec.found /\ "val" \in DOMAIN line.dec /\ Eq(line.dec.val, c.v))
            THEN {"decoded_is_inverse_of_wire"} ELSE {})
           \cup (IF Valid(c.schema, c.v, "plain")
                 THEN (IF line.verdict # "ok" THEN {"valid_value_accepted"} ELSE {})
                 ELSE (IF ~Rejected(line.verdict) THEN {"invalid_value_rejected"} ELSE {}))
      [] c.presence = "absent" ->
           (IF c.required THEN (IF line.verdict # "required" THEN {"absent_required_reported_missing"} ELSE {})
            ELSE (IF line.verdict # "ok" THEN {"absent_optional_accepted"} ELSE {}))
           \cup (IF line.dec.err = "ok" /\ line.dec.found THEN {"absent_not_found"} ELSE {})
      [] c.presence = "empty" ->       \* an empty-valued parameter passes exactly when the parameter allows empty values; it is never "missing"
           (IF c.allowEmpty THEN (IF line.verdict # "ok" THEN {"empty_value_allowed_accepted"} ELSE {})
            ELSE (IF ~Rejected(line.verdict) THEN {"empty_value_rejected"} ELSE {}))
           \cup (IF line.verdict = "required" THEN {"empty_is_not_missing"} ELSE {})
      [] c.presence = "garbage" ->
           (IF ~Rejected(line.verdict) THEN {"garbage_rejected"} ELSE {}))

LineOK(line) ==
   LET bad == Failed(line) IN
   bad = {} \/ CSVWrite("%1$s", <<ToJson([case |-> line.case, c |-> line.c, failed |-> bad,
                                           obs |-> [dec |-> (IF "dec" \in DOMAIN line THEN line.dec ELSE <<>>),
                                                    verdict |-> (IF "verdict" \in DOMAIN line THEN line.verdict ELSE "-"),
                                                    target |-> (IF "target" \in DOMAIN line THEN line.target ELSE "-")],
                                           class |-> Class(line, bad)])>>, "violations.ndjson")

(* model fidelity: for the path cells and the form cells of the query, the code decodes to exactly what the      *)
(* implementation-shaped model (ParamDecode, the designs as built) computes from the same wire -- also where that *)
(* is not the value that was serialised (finding F-C05-4).  Warnings, never violations.                          *)
ModelScope(line) ==
   LET c == line.c IN
   /\ line.doc = "ok" /\ "skip" \notin DOMAIN line /\ line.route = "ok" /\ c.presence = "present"
   /\ c.shape \in {"int", "int32", "num", "bool", "str", "arrint", "arrstr", "obj", "objk", "multitype", "multitype_str"}
   /\ (c.cell.in = "path" \/ (c.cell.in = "query" /\ c.cell.style = "form" /\ ~c.decoy))
   /\ line.dec.err \in {"ok", "parse"}
Fidelity(line) ==
   IF ~ModelScope(line) THEN TRUE
   ELSE LET c == line.c
            r == AsBuilt(c.cell, <<"p">>, c.schema, c.v, c.mode, IF c.other THEN "z" ELSE IF c.upper THEN "upper" ELSE "-")
            same == IF ~r.ok THEN line.dec.err = "parse"
                    ELSE IF IsAbsent(r) THEN line.dec.err = "ok" /\ "val" \notin DOMAIN line.dec
                    ELSE line.dec.err = "ok" /\ "val" \in DOMAIN line.dec /\ Eq(line.dec.val, r.val) IN
        same \/ CSVWrite("%1$s", <<ToJson([case |-> line.case, c |-> c, dec |-> line.dec,
                                           what |-> "decoded value differs from ParamDecode!AsBuilt"])>>, "fidelity.ndjson")

Judge == l > 0 => (LineOK(Trace[l]) /\ Fidelity(Trace[l]))
AllConsumed == TLCGet("stats").diameter = Len(Trace) + 1
=============================================================================
