SPECIFICATION Spec
CONSTANTS Kinds = {"plain", "mixed", "enc", "root"}
          MixedServerSet = {"none", "rel"}
          MixedCoreServers = {}
          MixedMethKeys = {"G", "P", "GP"}
          PlainMethKeys = {"G", "P", "GP"}
          MaxLen = 2
          MaxT = 3
          ServerSet = {"none", "rel"}
          CoreLen = 0
          CoreT = 0
          CoreServers = {}
          Slice = 8
          Seed = 1
          DesignAll = TRUE
INVARIANTS DesignOK Emit
CHECK_DEADLOCK FALSE
