----------------------------- MODULE FindingsC06 -----------------------------
EXTENDS JsonValue
(* F-C06-1: a form field whose text does not parse as its declared type is dropped by     *)
(* decodeSchemaConstructs (continue on error); the body is then judged without it.        *)
(* F-C06-2: multipart parts without an explicit JSON content type are decoded by the      *)
(* text/plain decoder into strings, whatever the property's declared type.                *)
Class(line, bad) ==
   LET c == line.c IN
   IF c.part # "decode" THEN "none"
   ELSE IF c.family = "form" /\ bad = {"violating_body_rejected"} /\ line.verdict = "ok"
           /\ \E i \in DOMAIN c.v.k : (c.v.k[i] = "n" /\ c.v.v[i].t = "str")
                                      \/ (c.v.k[i] = "l" /\ \E j \in DOMAIN c.v.v[i].a : c.v.v[i].a[j].t = "str")
   THEN "form_unparsable_field_dropped"
   ELSE IF c.family = "multipart" /\ HasNum(c.v) /\ bad \subseteq {"conforming_body_accepted", "decoded_value"}
           /\ line.verdict \in {"schema", "ok"}
   THEN "multipart_text_part_not_typed"
   ELSE "none"
=============================================================================
