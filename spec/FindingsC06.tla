----------------------------- MODULE FindingsC06 -----------------------------
EXTENDS JsonValue
(* F-C06-1: a form field whose text does not parse as its declared type is dropped by     *)
(* decodeSchemaConstructs (continue on error); the body is then judged without it.        *)
(* F-C06-2: multipart parts without an explicit JSON content type are decoded by the      *)
(* text/plain decoder into strings, whatever the property's declared type.                *)
(* F-C06-3: a urlencoded property without a "type" of its own and without a composition    *)
(* (a bare enum) decodes to nothing: the field is dropped, its constraint is never checked. *)
(* F-C06-4: when validation installs a default into a urlencoded (or multipart) body the    *)
(* body has to be written back, there is no encoder for that media type, and the conforming *)
(* request is rejected ("rewriting failed").                                                *)
(* F-C06-5: a urlencoded body under an object-level oneOf/anyOf whose alternatives type the same   *)
(* property differently: a field text that parses under BOTH types ("7": integer and string) is     *)
(* decoded once per alternative and the two results are reported as "conflicting values".           *)
(* F-C06-6: the multipart decoder finds a part's schema only among the schema's own properties and  *)
(* those of allOf members: a part declared inside oneOf/anyOf alternatives is "undefined".          *)
(* F-C06-7: the JSON decoder reads the FIRST JSON value of the body and ignores whatever follows it: a body that is a JSON   *)
(* value followed by more text ({"n":1} x, {"n":1}{"n":1}) is not JSON at all, yet it is accepted as the first value.           *)
(* F-C06-8: the opt-in ZipFileBodyDecoder appends its whole 256-byte read buffer for every read instead of the bytes read: the     *)
(* text of a small archive member comes out padded with NUL bytes to 256 characters.                                              *)
(* F-C06-9: the urlencoded decoder refuses every body whose schema has an object-valued property ("unsupported schema"), although   *)
(* the per-property decoder reads a deepObject field (o[a]=4) -- it does so when the same schema sits below a typed allOf.           *)
(* Repaired in round 6: F-C06-2 (750547f), F-C06-4 (403f95a), F-C06-7 (bbdbedc), F-C06-8 (fe6a30a).  Their class predicates stay: a fixed     *)
(* entry of known_findings.json suppresses nothing, so a recurrence is printed as a VIOLATION that carries the class name.                *)
(* F-C06-10: an Encoding Object that gives style spaceDelimited / pipeDelimited and no explode is read as exploded (the library      *)
(* defaults explode to true for every style; OpenAPI 3.0.3 says false for every style but form): ls=a|b decodes to ["a|b"].         *)
HasKeyK(v, k) == \E i \in DOMAIN v.k : v.k[i] = k
Class(line, bad) ==
   LET c == line.c IN
   IF c.part = "decode" /\ "encStyle" \in DOMAIN c /\ c.encStyle \in {"spaceDelimited", "pipeDelimited"} /\ c.encExplode = "none"
      /\ "decoded_value" \in bad /\ "dec" \in DOMAIN line /\ line.dec.err = "ok"
   THEN "encoding_style_alone_read_exploded"
   ELSE IF c.part = "decode" /\ c.family = "zip" /\ "decoded_value" \in bad /\ "dec" \in DOMAIN line /\ line.dec.err = "ok" /\ "val" \in DOMAIN line.dec
      /\ line.dec.val.t = "str" /\ Len(line.dec.val.cs) = 256 /\ SubSeq(line.dec.val.cs, 1, Len(c.v.cs)) = c.v.cs
   THEN "zip_member_padded_to_read_buffer"
   ELSE IF c.part = "decode" /\ c.family = "form" /\ c.schema = "S8" /\ "wrap" \in DOMAIN c /\ c.wrap = "plain" /\ HasKeyK(c.v, "o")
           /\ bad \subseteq {"conforming_body_accepted", "decoded_value"} /\ line.verdict = "other" /\ "dec" \in DOMAIN line /\ line.dec.err = "other"
   THEN "form_object_property_unsupported"
   ELSE IF c.part = "malformed" /\ c.family = "json" /\ c.kind \in {"trailing", "two"} /\ bad = {"violating_body_rejected"} /\ line.verdict = "ok"
   THEN "json_text_after_value_ignored"
   ELSE IF c.part # "decode" THEN "none"
   ELSE IF c.family = "form" /\ c.schema \in {"S4", "S4a"} /\ HasKeyK(c.v, "ref") /\ Get(c.v, "ref").t = "num"
           /\ bad \subseteq {"conforming_body_accepted", "decoded_value"} /\ line.verdict = "other"
           /\ "dec" \in DOMAIN line /\ line.dec.err = "other"
   THEN "form_composition_conflicting_values"
   ELSE IF c.family = "multipart" /\ (c.schema \in {"S4", "S4a"} \/ ("wrap" \in DOMAIN c /\ c.wrap \in {"anyOfT", "oneOfT"})) /\ c.v.k # <<>> /\ bad \subseteq {"conforming_body_accepted", "decoded_value"}
           /\ line.verdict = "parse" /\ "dec" \in DOMAIN line /\ line.dec.err = "parse"
   THEN "multipart_composition_part_undefined"
   ELSE IF c.family = "form" /\ HasKeyK(c.v, "u3") /\ bad \subseteq {"violating_body_rejected", "decoded_value"} /\ line.verdict = "ok"
           /\ "val" \in DOMAIN line.dec /\ ~HasKeyK(line.dec.val, "u3")
   THEN "form_untyped_property_dropped"
   ELSE IF c.family \in {"form", "multipart", "yaml"} /\ c.setDefaults /\ c.schema = "S3" /\ ~HasKeyK(c.v, "ro")
           /\ "conforming_body_accepted" \in bad /\ "reason" \in DOMAIN line /\ line.reason = "rewriting failed"
   THEN "form_body_default_rewriting_failed"
   ELSE IF c.family = "form" /\ bad = {"violating_body_rejected"} /\ line.verdict = "ok"
           /\ \E i \in DOMAIN c.v.k : (c.v.k[i] \in {"n", "u1", "b", "f"} /\ c.v.v[i].t = "str")
                                      \/ (c.v.k[i] = "n" /\ c.v.v[i].t = "num" /\ c.v.v[i].q % 4 # 0)          \* 4.5 for the integer
                                      \/ (c.v.k[i] \in {"l", "lb", "lf"} /\ \E j \in DOMAIN c.v.v[i].a : c.v.v[i].a[j].t = "str")
                                      \/ (c.v.k[i] = "o" /\ HasKeyK(c.v.v[i], "a") /\ Get(c.v.v[i], "a").t = "str")
   THEN "form_unparsable_field_dropped"
   ELSE IF c.family = "multipart" /\ ~("partCT" \in DOMAIN c /\ c.partCT = "json") /\ HasNum(c.v) /\ bad \subseteq {"conforming_body_accepted", "decoded_value"}
           /\ line.verdict \in {"schema", "ok"}
   THEN "multipart_text_part_not_typed"
   ELSE "none"
=============================================================================
