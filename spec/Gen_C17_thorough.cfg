SPECIFICATION Spec
CONSTANTS K = 3
          PairLevel = 2
          TripleLevel = 1
          FieldK = 2
          M = 12000
          Seed = 1
INVARIANTS Emit
CHECK_DEADLOCK FALSE
