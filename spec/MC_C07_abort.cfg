SPECIFICATION Spec
CONSTANT UndeclaredAborts = TRUE
INVARIANTS VerdictIsContract
CHECK_DEADLOCK FALSE
