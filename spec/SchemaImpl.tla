------------------------------ MODULE SchemaImpl ------------------------------
(***************************************************************************)
(* L2: openapi3/schema.go visitJSON as it is written -- same phases, same  *)
(* order, same early returns -- for the keywords of the C01 universe.      *)
(*                                                                         *)
(*   visitJSON:   nil value and PermitsNull -> accept (before anything)     *)
(*                visitNotOperation                                         *)
(*                visitXOFOperations (oneOf, anyOf, allOf; "run" = FALSE    *)
(*                   when some composition was visited and the value is nil)*)
(*                visitEnumOperation                                        *)
(*                type switch -> visitJSONNull / Boolean / Number / String /*)
(*                   Array / Object                                         *)
(*                                                                         *)
(* form is the input form the caller supplies: "f64" (numbers are float64) *)
(* or "num" (numbers are json.Number, what the body decoders produce).  It *)
(* matters in one place, transcribed from the code (a second one, the enum *)
(* comparison of numbers nested in compound values, was repaired: bc49a97): *)
(*   - isSliceOfUniqueItems keys items by their JSON text: json.Number     *)
(*     keeps its spelling ("1" vs "1.0"), float64 does not.                *)
(*                                                                         *)
(* MC_C01 checks  Accepts(s, v, form) = SchemaSem!Valid(s, v, "plain")     *)
(* except exactly on these two listed deviations (FindingsC01), and the    *)
(* trace specification compares every verdict of the real code with        *)
(* Accepts (model fidelity).                                               *)
(***************************************************************************)
EXTENDS SchemaSem

PermitsNull(s) == Has(s, "nullable")

TypePermits(s, ty) == ~Has(s, "type") \/ s.type = ty

(* enumMemberEqual(enum member, instance) (repair bc49a97): as reflect.DeepEqual, except that numbers -- also those *)
(* nested in arrays and objects -- are compared by value whichever Go type carries them (float64, json.Number, int) *)
RECURSIVE DeepEqualGo(_, _, _)
DeepEqualGo(e, v, form) ==
   /\ e.t = v.t
   /\ CASE e.t = "null" -> TRUE
        [] e.t = "bool" -> e.b = v.b
        [] e.t = "num"  -> e.q = v.q
        [] e.t = "str"  -> e.cs = v.cs
        [] e.t = "arr"  -> Len(e.a) = Len(v.a) /\ \A i \in DOMAIN e.a : DeepEqualGo(e.a[i], v.a[i], form)
        [] e.t = "obj"  -> e.k = v.k /\ \A i \in DOMAIN e.v : DeepEqualGo(e.v[i], v.v[i], form)

EnumOK(s, v, form) ==
   ~Has(s, "enum") \/ s.enum = <<>>
   \/ \E i \in DOMAIN s.enum : DeepEqualGo(s.enum[i], v, form)

(* json.Marshal text identity of array items: under form num a number keeps its spelling *)
RECURSIVE SameJSONText(_, _, _)
SameJSONText(x, y, form) ==
   /\ x.t = y.t
   /\ CASE x.t = "null" -> TRUE
        [] x.t = "bool" -> x.b = y.b
        [] x.t = "num"  -> x.q = y.q /\ (form = "f64" \/ (("dec" \in DOMAIN x) = ("dec" \in DOMAIN y)))
        [] x.t = "str"  -> x.cs = y.cs
        [] x.t = "arr"  -> Len(x.a) = Len(y.a) /\ \A i \in DOMAIN x.a : SameJSONText(x.a[i], y.a[i], form)
        [] x.t = "obj"  -> x.k = y.k /\ \A i \in DOMAIN x.v : SameJSONText(x.v[i], y.v[i], form)

RECURSIVE Accepts(_, _, _)

NotOK(s, v, form) == ~Has(s, "not") \/ ~Accepts(s.not, v, form)

(* visitXOFOperations: [ok, run] *)
XOF(s, v, form) ==
   LET oneOK == ~Has(s, "oneOf") \/ s.oneOf = <<>> \/ Cardinality({i \in DOMAIN s.oneOf : Accepts(s.oneOf[i], v, form)}) = 1
       anyOK == ~Has(s, "anyOf") \/ s.anyOf = <<>> \/ \E i \in DOMAIN s.anyOf : Accepts(s.anyOf[i], v, form)
       allOK == ~Has(s, "allOf") \/ \A i \in DOMAIN s.allOf : Accepts(s.allOf[i], v, form)
       visited == (Has(s, "oneOf") /\ s.oneOf # <<>>) \/ (Has(s, "anyOf") /\ s.anyOf # <<>>) \/ (Has(s, "allOf") /\ s.allOf # <<>>)
   IN [ok |-> oneOK /\ anyOK /\ allOK, run |-> ~(visited /\ v.t = "null")]

NumberOK(s, q) ==
   /\ (TypePermits(s, "integer") /\ ~TypePermits(s, "number")) => q % 4 = 0          \* requireInteger
   /\ TypePermits(s, "integer") \/ TypePermits(s, "number")
   /\ (Has(s, "exclusiveMinimum") /\ Has(s, "minimum")) => s.minimum < q
   /\ (Has(s, "exclusiveMaximum") /\ Has(s, "maximum")) => s.maximum > q
   /\ Has(s, "minimum") => s.minimum <= q
   /\ Has(s, "maximum") => s.maximum >= q
   /\ Has(s, "multipleOf") => q % s.multipleOf = 0

StringOK(s, cs) ==
   /\ TypePermits(s, "string")
   /\ Has(s, "minLength") => Len(cs) >= s.minLength          \* runes; utf16.IsSurrogate(r) is false for every decoded rune
   /\ Has(s, "maxLength") => Len(cs) <= s.maxLength
   /\ Has(s, "pattern") => Match(s.pattern, cs)

ArrayOK(s, a, form) ==
   /\ TypePermits(s, "array")
   /\ Has(s, "minItems") => Len(a) >= s.minItems
   /\ Has(s, "maxItems") => Len(a) <= s.maxItems
   /\ Has(s, "uniqueItems") => \A i, j \in DOMAIN a : i < j => ~SameJSONText(a[i], a[j], form)
   /\ Has(s, "items") => \A i \in DOMAIN a : Accepts(s.items, a[i], form)

ObjectOK(s, o, form) ==
   /\ TypePermits(s, "object")
   /\ Has(s, "minProperties") => Len(o.k) >= s.minProperties
   /\ Has(s, "maxProperties") => Len(o.k) <= s.maxProperties
   /\ \A i \in DOMAIN o.k :
         LET pi == PropIdx(s, o.k[i]) IN
         IF pi # 0 THEN Accepts(s.ps[pi], o.v[i], form)
         ELSE IF Has(s, "apFalse") THEN FALSE
         ELSE Has(s, "apSchema") => Accepts(s.apSchema, o.v[i], form)
   /\ Has(s, "required") => \A j \in DOMAIN s.required : HasKey(o, s.required[j])

Accepts(s, v, form) ==
   IF v.t = "null" /\ PermitsNull(s) THEN TRUE
   ELSE /\ NotOK(s, v, form)
        /\ LET x == XOF(s, v, form) IN
           /\ x.ok
           /\ (~x.run
               \/ /\ EnumOK(s, v, form)
                  /\ CASE v.t = "null" -> PermitsNull(s)
                       [] v.t = "bool" -> TypePermits(s, "boolean")
                       [] v.t = "num"  -> NumberOK(s, v.q)
                       [] v.t = "str"  -> StringOK(s, v.cs)
                       [] v.t = "arr"  -> ArrayOK(s, v.a, form)
                       [] v.t = "obj"  -> ObjectOK(s, v, form))
=============================================================================
