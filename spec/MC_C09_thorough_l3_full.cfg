SPECIFICATION Spec
CONSTANTS Kinds = {"plain"}
          MixedServerSet = {}
          MixedCoreServers = {}
          MixedMethKeys = {"G", "P", "GP"}
          PlainMethKeys = {"G", "P", "GP"}
          MaxLen = 3
          MaxT = 2
          ServerSet = {"none", "psfirst"}
          CoreLen = 0
          CoreT = 0
          CoreServers = {}
          Slice = 25
          Seed = 1
          DesignAll = TRUE
INVARIANTS DesignOK Emit
CHECK_DEADLOCK FALSE
