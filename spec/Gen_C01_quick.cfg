SPECIFICATION Spec
CONSTANTS K = 2
          KO = 0
          W = 1
INVARIANTS Emit EmitVals
CHECK_DEADLOCK FALSE
