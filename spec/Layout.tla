------------------------------- MODULE Layout -------------------------------
(***************************************************************************)
(* L1 for reference resolution (C02, C11, C16): multi-file universes and   *)
(* what each $ref designates.                                              *)
(*                                                                         *)
(* A file location is a sequence of path segments, e.g. <<"r","sub","b.json">>. *)
(* A ref is  [path |-> seq of segments ("." and ".." allowed; <<>> = same  *)
(*            document), frag |-> <<kind, name>> or <<>> (whole file)].     *)
(* A universe is                                                           *)
(*   slots : sequence of [file, kind, name, c]  where the content c is     *)
(*           [id, ch]  (a concrete object with unique id and child sites   *)
(*                      ch = sequence of [site, kind, ref]) or              *)
(*           [ref]     (the slot itself is a $ref)                          *)
(*   use   : [kind, ref, pos]  the reference the root document makes at    *)
(*           position pos                                                  *)
(* Whole files used as targets are slots of kind k with name "".           *)
(***************************************************************************)
EXTENDS Integers, Sequences, FiniteSets, TLC

Root == <<"r", "openapi.json">>
RootDir == <<"r">>

Dir(f) == SubSeq(f, 1, Len(f) - 1)

RECURSIVE Norm(_, _)
(* resolve "." and ".." ; acc is the stack so far *)
Norm(acc, rest) ==
   IF rest = <<>> THEN acc
   ELSE IF Head(rest) = "." THEN Norm(acc, Tail(rest))
   ELSE IF Head(rest) = ".." THEN Norm(IF acc = <<>> THEN <<>> ELSE SubSeq(acc, 1, Len(acc) - 1), Tail(rest))
   ELSE Norm(Append(acc, Head(rest)), Tail(rest))

(* absolute forms: "<T>" stands for the directory that holds the universe; a ref whose first   *)
(* segment is "<T>" (absolute file path) or "file://<T>" (file URL) designates a file of the    *)
(* universe; any other first segment containing a scheme or host ("http://h", "//h") is a       *)
(* location outside it.                                                                         *)
LocalAbs == {"<T>", "file://<T>"}
RemoteAbs == {"http://h.example", "https://h.example", "//h.example", "//h.example<T>", "https://h.example<T>",
              "https://m.example", "https://m.example<T>"}     \* m.example is a second SERVED host: it has documents (slots) of its own
IsRemote(f) == f # <<>> /\ f[1] \in RemoteAbs
ServedAbs == {"https://m.example", "https://m.example<T>"}
IsUnserved(f) == IsRemote(f) /\ f[1] \notin ServedAbs

(* the file a ref found in file f points into *)
TargetFile(f, r) == IF r.path = <<>> THEN f
                    ELSE IF r.path[1] \in LocalAbs THEN Norm(<<>>, Tail(r.path))
                    ELSE IF r.path[1] \in RemoteAbs THEN <<r.path[1]>> \o Norm(<<>>, Tail(r.path))
                    ELSE Norm(<<>>, Dir(f) \o r.path)

IsConcrete(c) == "id" \in DOMAIN c
(* A slot whose content is BROKEN ([id, ch = <<>>, broken]) stands for `null` written where an object of the kind MUST be: the   *)
(* document that holds it cannot be loaded, so no reference into that file designates anything -- loading has to fail.           *)
IsBroken(c) == "broken" \in DOMAIN c
FileBroken(u, f) == \E i \in DOMAIN u.slots : u.slots[i].file = f /\ IsBroken(u.slots[i].c)

SlotAt(u, f, kind, name) ==
   LET S == {i \in DOMAIN u.slots : u.slots[i].file = f /\ u.slots[i].kind = kind /\ u.slots[i].name = name}
   IN IF S = {} THEN 0 ELSE CHOOSE i \in S : TRUE

(* any slot at that file/name regardless of kind (to tell dangling from wrong-kind) *)
SlotAnyKind(u, f, name) ==
   LET S == {i \in DOMAIN u.slots : u.slots[i].file = f /\ u.slots[i].name = name}
   IN IF S = {} THEN 0 ELSE CHOOSE i \in S : TRUE

(* Follow a reference of the expected kind found in file f until a concrete object.        *)
(* Result: [id |-> ..] | [fail |-> "dangling" | "wrongkind" | "cycle"]                     *)
RECURSIVE Follow(_, _, _, _, _)
InlAt(c, site) == IF "inl" \in DOMAIN c /\ \E j \in DOMAIN c.inl : c.inl[j].site = site
                   THEN c.inl[CHOOSE j \in DOMAIN c.inl : c.inl[j].site = site].id ELSE ""

(* Fragments that are JSON pointers to an INLINE object (one that is no component and no whole file): *)
(*   <<"#inl", site>>                      into the root object of a whole-file target                *)
(*   <<"#pathinl", path name, site>>       into a path item of the target document                    *)
(*   <<"#compinl", collection, name, site>> BELOW a component of the target document (the component    *)
(*        may belong to another collection than the kind of the reference: the body schema of a       *)
(*        response, the schema of a parameter, a property of a schema ...)                            *)
IsInlFrag(r) == r.frag # <<>> /\ r.frag[1] \in {"#inl", "#pathinl", "#compinl"}
InlSlot(u, tf, r, kind) == CASE r.frag[1] = "#inl" -> SlotAt(u, tf, kind, "")
                             [] r.frag[1] = "#pathinl" -> SlotAt(u, tf, "pathItems", r.frag[2])
                             [] r.frag[1] = "#compinl" -> SlotAt(u, tf, r.frag[2], r.frag[3])
InlSite(r) == CASE r.frag[1] = "#inl" -> r.frag[2] [] r.frag[1] = "#pathinl" -> r.frag[3] [] r.frag[1] = "#compinl" -> r.frag[4]

(* <<"#def", kind, name>>: a pointer to a definition kept OUTSIDE the typed structure of the target ("#/x-defs/<name>", JSON-Schema style): *)
(* in a whole-file element it is that file's own definition.  Its slot is [file, kind, name = "#def:<name>"].                             *)
DefName(n) == "#def:" \o n
FragKind(r, kind) == IF r.frag = <<>> THEN kind ELSE IF r.frag[1] = "#def" THEN r.frag[2] ELSE r.frag[1]
FragName(r) == IF r.frag = <<>> THEN "" ELSE IF r.frag[1] = "#def" THEN DefName(r.frag[3]) ELSE r.frag[2]

Follow(u, f, r, kind, seen) ==
   IF TargetFile(f, r) # f /\ FileBroken(u, TargetFile(f, r)) THEN [fail |-> "brokenfile"]
   ELSE IF IsInlFrag(r)
   THEN \* a JSON pointer to an inline object: the object at that site of the (concrete) slot the pointer goes through
        LET tf == TargetFile(f, r)  i == InlSlot(u, tf, r, kind) IN
        IF i = 0 \/ ~IsConcrete(u.slots[i].c) \/ InlAt(u.slots[i].c, InlSite(r)) = "" THEN [fail |-> "dangling"]
        ELSE [id |-> InlAt(u.slots[i].c, InlSite(r)), slot |-> i]
   ELSE
   LET tf == TargetFile(f, r)
       k  == FragKind(r, kind)
       nm == FragName(r)
       i  == SlotAt(u, tf, k, nm)
   IN
   IF k # kind THEN [fail |-> "wrongkind"]
   ELSE IF i = 0 THEN [fail |-> "dangling"]
   ELSE IF i \in seen THEN [fail |-> "cycle"]
   ELSE IF IsConcrete(u.slots[i].c) THEN [id |-> u.slots[i].c.id, slot |-> i]
   ELSE Follow(u, tf, u.slots[i].c.ref, kind, seen \cup {i})

Designated(u, f, r, kind) == Follow(u, f, r, kind, {})

(* the file in which the object with this id was written *)
FileOfId(u, id) ==
   IF id = "root" THEN Root
   ELSE u.slots[CHOOSE i \in DOMAIN u.slots : IsConcrete(u.slots[i].c) /\ u.slots[i].c.id = id].file

(* Reachable concrete slots from the root: the use site, the root file's own slots, and    *)
(* the child sites of every reached object.                                                *)
RECURSIVE Reach(_, _, _)
Reach(u, frontier, done) ==
   IF frontier = {} THEN done
   ELSE LET i == CHOOSE x \in frontier : TRUE
            c == u.slots[i].c
            next == IF IsConcrete(c)
                    THEN {Designated(u, u.slots[i].file, c.ch[j].ref, c.ch[j].kind).slot :
                             j \in {j \in DOMAIN c.ch : "id" \in DOMAIN Designated(u, u.slots[i].file, c.ch[j].ref, c.ch[j].kind)}}
                    ELSE LET d == Designated(u, u.slots[i].file, c.ref, u.slots[i].kind) IN
                         IF "id" \in DOMAIN d THEN {d.slot} ELSE {}
        IN Reach(u, (frontier \cup next) \ (done \cup {i}), done \cup {i})

RootSlots(u) == {i \in DOMAIN u.slots : u.slots[i].file = Root}
UseTarget(u) == Designated(u, Root, u.use.ref, u.use.kind)
Reached(u) == Reach(u, RootSlots(u) \cup (IF "id" \in DOMAIN UseTarget(u) THEN {UseTarget(u).slot} ELSE {}), {})

(* every reference the loader has to resolve designates an object *)
AllResolvable(u) ==
   /\ "id" \in DOMAIN UseTarget(u)
   /\ \A i \in Reached(u) :
         LET c == u.slots[i].c IN
         IF IsConcrete(c)
         THEN \A j \in DOMAIN c.ch : "id" \in DOMAIN Designated(u, u.slots[i].file, c.ch[j].ref, c.ch[j].kind)
         ELSE "id" \in DOMAIN Designated(u, u.slots[i].file, c.ref, u.slots[i].kind)

(* text of a ref *)
RECURSIVE JoinSlash(_)
JoinSlash(p) == IF p = <<>> THEN "" ELSE IF Len(p) = 1 THEN p[1] ELSE p[1] \o "/" \o JoinSlash(Tail(p))
SiteKey(site) == CASE site = "properties" -> "properties/p" [] site = "items" -> "items" [] OTHER -> site
(* RFC 6901: in a pointer token "~" is written ~0 and "/" is written ~1 *)
(* ... and a fragment is part of a URI reference: a space is written %20 and a literal "%" %25                     *)
EscName(n) == CASE n = "a/b" -> "a~1b" [] n = "a~1b" -> "a~01b" [] n = "a~b" -> "a~0b" [] n = "a~0b" -> "a~00b"
                [] n = "a b" -> "a%20b" [] n = "a%20b" -> "a%2520b"
                \* names of templated paths ("/u/{id}"): the slot name is the path without its leading "/"
                [] n = "u/{id}" -> "u~1{id}" [] n = "u/{uid}" -> "u~1{uid}" [] n = "u/{id}/" -> "u~1{id}~1" [] n = "U/{id}" -> "U~1{id}"
                [] n = "u/{id}/v" -> "u~1{id}~1v" [] n = "u/{uid}/v" -> "u~1{uid}~1v"
                [] OTHER -> n
PathSiteKey(site) == CASE site = "post.requestBody.schema" -> "post/requestBody/content/application~1json/schema"
                       [] site = "post.responses" -> "post/responses/200"
                       [] site = "post.responses~default" -> "post/responses/default"       \* (never an existing entry: a near miss of "200")
                       [] site = "post.responses~2XX" -> "post/responses/2XX"
                       [] OTHER -> site
(* the pointer from a component of collection ck down to the inline object at one of its sites *)
CompSiteKey(ck, site) == CASE site = "properties" -> "properties/p"
                           [] site = "schema" -> "schema"
                           [] site = "content.schema" -> "content/application~1json/schema"
                           [] site = "content.examples" -> "content/application~1json/examples/e"
                           [] site = "examples" -> "examples/e"
                           [] site = "headers" -> "headers/H"
                           [] site = "links" -> "links/L"
                           [] OTHER -> site
(* a path segment of a reference is part of a URI: a literal "%" is written %25 and a space %20 *)
EscSeg(sg) == CASE sg = "pet%20v2.json" -> "pet%2520v2.json" [] sg = "pet v2.json" -> "pet%20v2.json"
                [] sg = "%2e%2e" -> "%252e%252e" [] OTHER -> sg
RefText(r) == JoinSlash([i \in DOMAIN r.path |-> EscSeg(r.path[i])]) \o (IF r.frag = <<>> THEN ""
                                   ELSE IF r.frag[1] = "#inl" THEN "#/" \o SiteKey(r.frag[2])
                                   ELSE IF r.frag[1] = "#pathinl" THEN "#/paths/~1" \o EscName(r.frag[2]) \o "/" \o PathSiteKey(r.frag[3])
                                   ELSE IF r.frag[1] = "#compinl" THEN "#/components/" \o r.frag[2] \o "/" \o EscName(r.frag[3]) \o "/" \o CompSiteKey(r.frag[2], r.frag[4])
                                   ELSE IF r.frag[1] = "#def" THEN "#/x-defs/" \o r.frag[3]
                                   ELSE IF r.frag[1] = "#coll" THEN "#/components/" \o r.frag[2]        \* a whole collection: an object, but of no kind
                                   ELSE IF r.frag[1] = "pathItems" THEN "#/paths/~1" \o EscName(r.frag[2])      \* the path "/<name>" of the target document
                                   ELSE "#/components/" \o r.frag[1] \o "/" \o EscName(r.frag[2]))

(* files other than the root that loading may read: targets of refs found in loaded documents *)
RECURSIVE ReadClosure(_, _, _)
RefsInFile(u, f) ==
   UNION {IF IsConcrete(u.slots[i].c) THEN {u.slots[i].c.ch[j].ref : j \in DOMAIN u.slots[i].c.ch} ELSE {u.slots[i].c.ref}
             : i \in {i \in DOMAIN u.slots : u.slots[i].file = f}}
   \cup (IF f = Root THEN {u.use.ref} ELSE {})
ReadClosure(u, frontier, done) ==
   IF frontier = {} THEN done
   ELSE LET f == CHOOSE x \in frontier : TRUE
            next == {TargetFile(f, r) : r \in RefsInFile(u, f)} IN
        ReadClosure(u, (frontier \cup next) \ (done \cup {f}), done \cup {f})
AllowedReads(u) == ReadClosure(u, {Root}, {})
=============================================================================
