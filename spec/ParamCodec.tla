------------------------------ MODULE ParamCodec ------------------------------
(***************************************************************************)
(* L1: OpenAPI 3.0.3 parameter serialisation ("style table", section       *)
(* 4.7.12.x Style Values / Style Examples) written as a function from a    *)
(* value to its wire fragment, for every legal (in, style, explode) cell.  *)
(* Decoding is specified as the inverse: a request carrying Wire(cell, v)  *)
(* must decode to v.                                                       *)
(*                                                                         *)
(* A wire fragment is  [kind |-> "path", seg |-> STRING]                   *)
(*                     [kind |-> "query", pairs |-> <<[k, v], ...>>]       *)
(*                     [kind |-> "header", val |-> STRING]                 *)
(*                     [kind |-> "cookie", val |-> STRING]                 *)
(* (unescaped: the realiser percent-encodes keys and values of query pairs)*)
(***************************************************************************)
EXTENDS SchemaSem, TLC

RECURSIVE Join(_, _)
Join(ss, sep) == IF ss = <<>> THEN "" ELSE IF Len(ss) = 1 THEN ss[1] ELSE ss[1] \o sep \o Join(Tail(ss), sep)
RECURSIVE Concat(_)
Concat(ss) == IF ss = <<>> THEN "" ELSE Head(ss) \o Concat(Tail(ss))

(* decimal text of the quarter numbers of the universe *)
NumText(q) == CASE q = -12 -> "-3" [] q = -6 -> "-1.5" [] q = -4 -> "-1" [] q = 0 -> "0" [] q = 1 -> "0.25"
                [] q = 4 -> "1" [] q = 8 -> "2" [] q = 12 -> "3" [] q = 28 -> "7" [] q = 48 -> "12" [] q = 6 -> "1.5"

PrimText(v) == CASE v.t = "num"  -> NumText(v.q)
                 [] v.t = "bool" -> IF v.b THEN "true" ELSE "false"
                 [] v.t = "str"  -> Concat(v.cs)

Texts(a) == [i \in DOMAIN a |-> PrimText(a[i])]
KV(o, sep) == [i \in DOMAIN o.k |-> o.k[i] \o sep \o PrimText(o.v[i])]          \* <<"x=1", "y=a">>
RECURSIVE FlatKV(_, _)
FlatKV(ks, vs) == IF ks = <<>> THEN <<>> ELSE <<Head(ks), PrimText(Head(vs))>> \o FlatKV(Tail(ks), Tail(vs))

IsPrim(v) == v.t \in {"num", "bool", "str"}
IsFlatObj(v) == v.t = "obj" /\ \A i \in DOMAIN v.v : IsPrim(v.v[i])

(* the 17 legal cells (Parameter.Validate's table = OAS 3.0.3) *)
Cells ==
   [in : {"path"}, style : {"simple", "label", "matrix"}, explode : BOOLEAN]
   \cup [in : {"query"}, style : {"form", "spaceDelimited", "pipeDelimited"}, explode : BOOLEAN]
   \cup [in : {"query"}, style : {"deepObject"}, explode : {TRUE}]
   \cup [in : {"header"}, style : {"simple"}, explode : BOOLEAN]
   \cup [in : {"cookie"}, style : {"form"}, explode : BOOLEAN]

(* which value shapes OAS defines for a cell *)
(* characters occurring in the strings of a value *)
RECURSIVE Chars(_)
Chars(v) == CASE v.t = "str" -> Range(v.cs)
              [] v.t = "arr" -> UNION {Chars(v.a[i]) : i \in DOMAIN v.a}
              [] v.t = "obj" -> UNION {Chars(v.v[i]) : i \in DOMAIN v.v}
              [] OTHER -> {}

(* characters that are structure, not content, for a value of this kind in this cell: a string holding one *)
(* of them has no unambiguous serialisation there (OAS leaves escaping of delimiters open)                  *)
Structural(c, v) ==
   (IF v.t = "arr" THEN (CASE c.style = "spaceDelimited" -> {" "} [] c.style = "pipeDelimited" -> {"|"}
                           [] c.style = "label" /\ c.explode -> {"."} [] c.style = "matrix" /\ c.explode -> {";"}
                           [] c.style = "form" /\ c.explode -> {} [] OTHER -> {","})
    ELSE IF v.t = "obj" THEN {",", "=", ".", ";", "[", "]"} ELSE {})
   \cup (IF c.in = "path" THEN {"/"} ELSE {})
   \* cookies and headers carry their value unescaped: only the query string and the path are percent-encoded by the realiser
   \cup (IF c.in = "cookie" THEN {" ", "\t", "+", "%", "&", "=", ",", "|", ";"} ELSE {})
   \cup (IF c.in = "header" THEN {"\t"} ELSE {})

ShapeDefined(c, v) ==
   CASE c.style = "deepObject" -> v.t = "obj"
     [] c.style \in {"spaceDelimited", "pipeDelimited"} -> v.t = "arr"
     [] c.in = "cookie" -> IsPrim(v) \/ (~c.explode /\ (v.t = "arr" \/ IsFlatObj(v)))
                           \* exploded arrays/objects cannot be written in one cookie
     [] OTHER -> IsPrim(v) \/ v.t = "arr" \/ IsFlatObj(v)

Defined(c, v) == ShapeDefined(c, v) /\ Chars(v) \cap Structural(c, v) = {}

PathSeg(c, name, v) ==
   CASE c.style = "simple" ->
          (CASE IsPrim(v) -> PrimText(v)
             [] v.t = "arr" -> Join(Texts(v.a), ",")
             [] v.t = "obj" -> IF c.explode THEN Join(KV(v, "="), ",") ELSE Join(FlatKV(v.k, v.v), ","))
     [] c.style = "label" ->
          (CASE IsPrim(v) -> "." \o PrimText(v)
             [] v.t = "arr" -> "." \o Join(Texts(v.a), IF c.explode THEN "." ELSE ",")
             [] v.t = "obj" -> "." \o (IF c.explode THEN Join(KV(v, "="), ".") ELSE Join(FlatKV(v.k, v.v), ",")))
     [] c.style = "matrix" ->
          (CASE IsPrim(v) -> ";" \o name \o "=" \o PrimText(v)
             [] v.t = "arr" -> IF c.explode THEN Concat([i \in DOMAIN v.a |-> ";" \o name \o "=" \o PrimText(v.a[i])])
                               ELSE ";" \o name \o "=" \o Join(Texts(v.a), ",")
             [] v.t = "obj" -> IF c.explode THEN Concat([i \in DOMAIN v.k |-> ";" \o v.k[i] \o "=" \o PrimText(v.v[i])])
                               ELSE ";" \o name \o "=" \o Join(FlatKV(v.k, v.v), ","))

Pair(k, v) == [k |-> k, v |-> v]

(* deepObject: p[x]=1, nested objects p[o][y]=a *)
RECURSIVE DeepPairs(_, _)
DeepPairs(prefix, o) ==
   IF o.k = <<>> THEN <<>>
   ELSE LET k == Head(o.k) x == Head(o.v)
            rest == DeepPairs(prefix, [o EXCEPT !.k = Tail(o.k), !.v = Tail(o.v)]) IN
        (IF x.t = "obj" THEN DeepPairs(prefix \o "[" \o k \o "]", x)
         ELSE <<Pair(prefix \o "[" \o k \o "]", PrimText(x))>>) \o rest

QueryPairs(c, name, v) ==
   CASE c.style = "deepObject" -> DeepPairs(name, v)
     [] IsPrim(v) -> <<Pair(name, PrimText(v))>>
     [] v.t = "arr" ->
          IF c.explode THEN [i \in DOMAIN v.a |-> Pair(name, PrimText(v.a[i]))]
          ELSE <<Pair(name, Join(Texts(v.a), CASE c.style = "form" -> ","
                                               [] c.style = "spaceDelimited" -> " "
                                               [] c.style = "pipeDelimited" -> "|"))>>
     [] v.t = "obj" ->
          IF c.explode THEN [i \in DOMAIN v.k |-> Pair(v.k[i], PrimText(v.v[i]))]
          ELSE <<Pair(name, Join(FlatKV(v.k, v.v), ","))>>

HeaderVal(c, v) ==
   CASE IsPrim(v) -> PrimText(v)
     [] v.t = "arr" -> Join(Texts(v.a), ",")
     [] v.t = "obj" -> IF c.explode THEN Join(KV(v, "="), ",") ELSE Join(FlatKV(v.k, v.v), ",")

CookieVal(c, v) ==
   CASE IsPrim(v) -> PrimText(v)
     [] v.t = "arr" -> Join(Texts(v.a), ",")
     [] v.t = "obj" -> Join(FlatKV(v.k, v.v), ",")

Wire(c, name, v) ==
   CASE c.in = "path"   -> [kind |-> "path", seg |-> PathSeg(c, name, v)]
     [] c.in = "query"  -> [kind |-> "query", pairs |-> QueryPairs(c, name, v)]
     [] c.in = "header" -> [kind |-> "header", val |-> HeaderVal(c, v)]
     [] c.in = "cookie" -> [kind |-> "cookie", val |-> CookieVal(c, v)]

(* text that is not a serialisation of the declared type, per kind of garbage *)
Garbage(c, name, g) ==
   LET t == CASE g = "nonnumeric" -> "abc" [] g = "oddpairs" -> "x,1,y" [] g = "noprefix" -> "7"
                 [] g = "overflow32" -> "4294967338"      \* 2^32 + 42: not an int32
   IN
   CASE c.in = "path"   -> [kind |-> "path", seg |-> (IF g = "noprefix" THEN t
                                                       ELSE CASE c.style = "simple" -> t
                                                              [] c.style = "label" -> "." \o t
                                                              [] c.style = "matrix" -> ";" \o name \o "=" \o t)]
     [] c.in = "query"  -> [kind |-> "query", pairs |-> <<Pair(name, t)>>]
     [] c.in = "header" -> [kind |-> "header", val |-> t]
     [] c.in = "cookie" -> [kind |-> "cookie", val |-> t]
=============================================================================
