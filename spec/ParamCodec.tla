------------------------------ MODULE ParamCodec ------------------------------
(***************************************************************************)
(* L1: OpenAPI 3.0.3 parameter serialisation ("style table", section       *)
(* 4.7.12.x Style Values / Style Examples, which defers to RFC 6570)       *)
(* written as a function from a value to its wire fragment, for every      *)
(* legal (in, style, explode) cell.  Decoding is specified as the inverse: *)
(* a request carrying Wire(cell, v) must decode to v.                      *)
(*                                                                         *)
(* The wire text is built here character by character (sequences of one-   *)
(* character strings, "cs"), INCLUDING the percent-encoding of the request *)
(* line: in a path segment and in the query string the *content* of a      *)
(* value (a string, an array item, a property name or value) is percent-   *)
(* encoded, the *structure* of the style (prefix, delimiters, "=") is not.  *)
(* So a member that contains the style's own delimiter is written with the *)
(* delimiter escaped (RFC 6570 3.2.1: reserved characters of a value are   *)
(* pct-encoded): ["a,b","c"] in style simple is  a%2Cb,c .                 *)
(* Headers and cookies have no such layer: there a value containing the    *)
(* cell's delimiter has no serialisation (Unwritable).                     *)
(*                                                                         *)
(* A wire fragment is  [kind |-> "path", seg |-> STRING]       (raw text)  *)
(*                     [kind |-> "query", pairs |-> <<[k, v], ...>>] (raw) *)
(*                     [kind |-> "header", val |-> STRING]                 *)
(*                     [kind |-> "cookie", val |-> STRING]                 *)
(* The realiser places the text verbatim.                                  *)
(***************************************************************************)
EXTENDS SchemaSem, TLC

RECURSIVE Flat(_)
Flat(ss) == IF ss = <<>> THEN <<>> ELSE Head(ss) \o Flat(Tail(ss))                \* <<cs, cs, ...>> -> cs
RECURSIVE JoinCs(_, _)
JoinCs(ss, sep) == IF ss = <<>> THEN <<>> ELSE IF Len(ss) = 1 THEN ss[1] ELSE ss[1] \o sep \o JoinCs(Tail(ss), sep)
RECURSIVE Concat(_)
Concat(ss) == IF ss = <<>> THEN "" ELSE Head(ss) \o Concat(Tail(ss))              \* cs -> STRING

(* decimal text of the quarter numbers of the universe *)
NumQs == {-12, -6, -4, 0, 1, 4, 6, 8, 12, 28, 48}
NumCs(q) == CASE q = -12 -> <<"-", "3">> [] q = -6 -> <<"-", "1", ".", "5">> [] q = -4 -> <<"-", "1">> [] q = 0 -> <<"0">>
              [] q = 1 -> <<"0", ".", "2", "5">> [] q = 4 -> <<"1">> [] q = 8 -> <<"2">> [] q = 12 -> <<"3">> [] q = 28 -> <<"7">>
              [] q = 48 -> <<"1", "2">> [] q = 6 -> <<"1", ".", "5">>

(* the characters of the property names of the universe *)
KeyCs(k) == CASE k = "x" -> <<"x">> [] k = "y" -> <<"y">> [] k = "o" -> <<"o">> [] k = "w" -> <<"w">>
              [] k = "k,1" -> <<"k", ",", "1">> [] k = "a" -> <<"a">> [] k = "z" -> <<"z">> [] k = "P" -> <<"P">> [] k = "p" -> <<"p">>
(* every name that can occur as a query key or property name in the universe, in the order object keys are compared *)
AllKeys == <<"P", "a", "k,1", "o", "p", "w", "x", "y", "z">>

(* decimal text of an array index *)
Digit(n) == CASE n = 0 -> "0" [] n = 1 -> "1" [] n = 2 -> "2" [] n = 3 -> "3" [] n = 4 -> "4" [] n = 5 -> "5" [] n = 6 -> "6"
              [] n = 7 -> "7" [] n = 8 -> "8" [] n = 9 -> "9"
IdxCs(n) == IF n < 10 THEN <<Digit(n)>> ELSE <<Digit(n \div 10), Digit(n % 10)>>

(* ---- percent-encoding ---- *)
NonAlnum == {" ", "\t", "+", "%", "&", "=", ",", "|", ".", ";", "-", "[", "]", "/"}     \* of the alphabet of the universe
Pct(ch) == CASE ch = " " -> <<"%", "2", "0">> [] ch = "\t" -> <<"%", "0", "9">> [] ch = "+" -> <<"%", "2", "B">>
             [] ch = "%" -> <<"%", "2", "5">> [] ch = "&" -> <<"%", "2", "6">> [] ch = "=" -> <<"%", "3", "D">>
             [] ch = "," -> <<"%", "2", "C">> [] ch = "|" -> <<"%", "7", "C">> [] ch = "." -> <<"%", "2", "E">>
             [] ch = ";" -> <<"%", "3", "B">> [] ch = "-" -> <<"%", "2", "D">> [] ch = "[" -> <<"%", "5", "B">>
             [] ch = "]" -> <<"%", "5", "D">> [] ch = "/" -> <<"%", "2", "F">>
(* an encoding policy: the characters written as %XX, and whether a space is written "+" (query strings) *)
(* alt: of the characters that MAY be written either way (RFC 3986 2.3/2.4) some -- AltSet -- are escaped as well and  *)
(* the others stay literal, so that one text mixes escapes with literal special characters                             *)
AltSet == {"-", ".", "=", ";"}
EncCs(enc, cs) == Flat([i \in DOMAIN cs |-> IF cs[i] = " " /\ enc.plus THEN <<"+">>
                                             ELSE IF cs[i] \in enc.set \/ (enc.alt /\ cs[i] \in AltSet) THEN Pct(cs[i])
                                             ELSE <<cs[i]>>])
NoEnc == [set |-> {}, plus |-> FALSE, alt |-> FALSE]

PrimCs(enc, v) == CASE v.t = "num"  -> EncCs(enc, NumCs(v.q))
                    [] v.t = "bool" -> IF v.b THEN <<"t", "r", "u", "e">> ELSE <<"f", "a", "l", "s", "e">>
                    [] v.t = "str"  -> EncCs(enc, v.cs)
KeyE(enc, k) == EncCs(enc, KeyCs(k))

Items(enc, a) == [i \in DOMAIN a |-> PrimCs(enc, a[i])]
KV(enc, o, sep) == [i \in DOMAIN o.k |-> KeyE(enc, o.k[i]) \o sep \o PrimCs(enc, o.v[i])]          \* <<"x=1", "y=a">>
RECURSIVE FlatKV(_, _, _)
FlatKV(enc, ks, vs) == IF ks = <<>> THEN <<>> ELSE <<KeyE(enc, Head(ks)), PrimCs(enc, Head(vs))>> \o FlatKV(enc, Tail(ks), Tail(vs))

IsPrim(v) == v.t \in {"num", "bool", "str"}
IsFlatObj(v) == v.t = "obj" /\ \A i \in DOMAIN v.v : IsPrim(v.v[i])

(* the 17 legal cells (Parameter.Validate's table = OAS 3.0.3) *)
Cells ==
   [in : {"path"}, style : {"simple", "label", "matrix"}, explode : BOOLEAN]
   \cup [in : {"query"}, style : {"form", "spaceDelimited", "pipeDelimited"}, explode : BOOLEAN]
   \cup [in : {"query"}, style : {"deepObject"}, explode : {TRUE}]
   \cup [in : {"header"}, style : {"simple"}, explode : BOOLEAN]
   \cup [in : {"cookie"}, style : {"form"}, explode : BOOLEAN]

(* characters occurring in the strings and property names of a value *)
RECURSIVE Chars(_)
Chars(v) == CASE v.t = "str" -> Range(v.cs)
              [] v.t = "arr" -> UNION {Chars(v.a[i]) : i \in DOMAIN v.a}
              [] v.t = "obj" -> UNION {Chars(v.v[i]) : i \in DOMAIN v.v} \cup UNION {Range(KeyCs(v.k[i])) : i \in DOMAIN v.k}
              [] OTHER -> {}

(* characters that are structure, not content, for a value of this kind in this cell *)
Delims(c, v) ==
   IF v.t = "arr" THEN (CASE c.style = "spaceDelimited" -> {" "} [] c.style = "pipeDelimited" -> {"|"}
                          [] c.style = "label" /\ c.explode -> {"."} [] c.style = "matrix" /\ c.explode -> {";"}
                          [] c.style = "form" /\ c.explode -> {} [] OTHER -> {","})
   ELSE IF v.t = "obj" THEN (CASE c.style = "deepObject" -> {"[", "]"}
                               [] c.in = "query" /\ c.explode -> {}                \* one query pair per property, each escaped
                               [] c.in = "query" -> {","}                          \* form, not exploded: name,value,name,value
                               [] c.in = "path" -> {",", "=", ".", ";"}
                               [] OTHER -> {",", "=", ".", ";", "[", "]"})
   ELSE {}

(* cells whose wire is percent-encoded text AND whose delimiters are characters RFC 6570 leaves literal: there a   *)
(* delimiter inside a member is written escaped.  spaceDelimited / pipeDelimited are not RFC 6570 styles (their    *)
(* delimiters are themselves written %20 / %7C by clients), deepObject has no escape for brackets in names.        *)
Escapable(c) == c.in = "path" \/ (c.in = "query" /\ c.style = "form")

(* characters a value must not contain to have a serialisation in this cell at all *)
Unwritable(c, v) ==
   (IF Escapable(c) THEN {} ELSE Delims(c, v))
   \* cookies and headers carry their value unescaped
   \cup (IF c.in = "cookie" THEN {" ", "\t", "+", "%", "&", "=", ",", "|", ";", "/"} ELSE {})
   \cup (IF c.in = "header" THEN {"\t"} ELSE {})

(* kept under its old name for readers of earlier rounds *)
Structural(c, v) == Unwritable(c, v)

ShapeDefined(c, v) ==
   CASE c.style = "deepObject" -> v.t = "obj"
     [] c.style \in {"spaceDelimited", "pipeDelimited"} -> v.t = "arr"
     [] c.in = "cookie" -> IsPrim(v) \/ (~c.explode /\ (v.t = "arr" \/ IsFlatObj(v)))
                           \* exploded arrays/objects cannot be written in one cookie
     [] OTHER -> IsPrim(v) \/ v.t = "arr" \/ IsFlatObj(v)

Defined(c, v) == ShapeDefined(c, v) /\ Chars(v) \cap Unwritable(c, v) = {}

(* the value uses a delimiter of its cell as content (written escaped) *)
UsesEscapedDelim(c, v) == Escapable(c) /\ Chars(v) \cap Delims(c, v) # {}

(* ---- encoding policies: "min" = what a client must escape (Go's url.PathEscape / url.QueryEscape, plus the      *)
(* cell's delimiters where they are content); "all" = every non-alphanumeric character of content escaped (RFC     *)
(* 3986 2.3/6.2.2.2: equivalent); "rawbr" (deepObject) = as min, the brackets of the names left literal            *)
(* "alt" = as min, and some of the optional characters escaped too (a text with escapes AND literal special characters) *)
Modes == {"min", "all", "rawbr", "alt"}
PathMin == {" ", "\t", "%", "|", "/", "[", "]"}
Enc(c, v, mode) ==
   CASE c.in = "path"  -> [set |-> IF mode = "all" THEN NonAlnum ELSE PathMin \cup Delims(c, v), plus |-> FALSE, alt |-> mode = "alt"]
     [] c.in = "query" -> [set |-> IF mode = "all" THEN NonAlnum ELSE NonAlnum \ {"-", "."}, plus |-> mode # "all", alt |-> mode = "alt"]
     [] OTHER -> NoEnc

PathCs(c, name, v, e) ==
   CASE c.style = "simple" ->
          (CASE IsPrim(v) -> PrimCs(e, v)
             [] v.t = "arr" -> JoinCs(Items(e, v.a), <<",">>)
             [] v.t = "obj" -> IF c.explode THEN JoinCs(KV(e, v, <<"=">>), <<",">>) ELSE JoinCs(FlatKV(e, v.k, v.v), <<",">>))
     [] c.style = "label" ->
          (CASE IsPrim(v) -> <<".">> \o PrimCs(e, v)
             [] v.t = "arr" -> <<".">> \o JoinCs(Items(e, v.a), IF c.explode THEN <<".">> ELSE <<",">>)
             [] v.t = "obj" -> <<".">> \o (IF c.explode THEN JoinCs(KV(e, v, <<"=">>), <<".">>) ELSE JoinCs(FlatKV(e, v.k, v.v), <<",">>)))
     [] c.style = "matrix" ->
          (CASE IsPrim(v) -> <<";">> \o name \o <<"=">> \o PrimCs(e, v)
             [] v.t = "arr" -> IF c.explode THEN Flat([i \in DOMAIN v.a |-> <<";">> \o name \o <<"=">> \o PrimCs(e, v.a[i])])
                               ELSE <<";">> \o name \o <<"=">> \o JoinCs(Items(e, v.a), <<",">>)
             [] v.t = "obj" -> IF c.explode THEN Flat([i \in DOMAIN v.k |-> <<";">> \o KeyE(e, v.k[i]) \o <<"=">> \o PrimCs(e, v.v[i])])
                               ELSE <<";">> \o name \o <<"=">> \o JoinCs(FlatKV(e, v.k, v.v), <<",">>))

Pair(k, v) == [k |-> k, v |-> v]

(* deepObject: p[x]=1, nested objects p[o][y]=a; br = the two brackets as written.  Pairs of cs. *)
RECURSIVE DeepPairs(_, _, _, _)
DeepPairs(prefix, o, e, br) ==
   IF o.k = <<>> THEN <<>>
   ELSE LET k == Head(o.k) x == Head(o.v)
            rest == DeepPairs(prefix, [o EXCEPT !.k = Tail(o.k), !.v = Tail(o.v)], e, br)
            key == prefix \o br[1] \o KeyE(e, k) \o br[2] IN
        (CASE x.t = "obj" -> DeepPairs(key, x, e, br)
           \* an array below a deepObject: one pair per item, the index as a further bracketed name (the convention of
           \* the library and of the qs family of encoders; OAS 3.0.3 itself defines deepObject for flat objects only)
           [] x.t = "arr" -> Flat([i \in DOMAIN x.a |->
                                    LET ikey == key \o br[1] \o IdxCs(i - 1) \o br[2] IN
                                    IF x.a[i].t = "obj" THEN DeepPairs(ikey, x.a[i], e, br) ELSE <<Pair(ikey, PrimCs(e, x.a[i]))>>])
           [] OTHER -> <<Pair(key, PrimCs(e, x))>>) \o rest

(* the query pairs as character sequences (the L2 decoder model reads these) *)
QueryPairsCs(c, name, v, e, mode) ==
   CASE c.style = "deepObject" -> DeepPairs(name, v, e, IF mode = "rawbr" THEN <<<<"[">>, <<"]">>>> ELSE <<Pct("["), Pct("]")>>)
     [] IsPrim(v) -> <<Pair(name, PrimCs(e, v))>>
     [] v.t = "arr" ->
          IF c.explode THEN [i \in DOMAIN v.a |-> Pair(name, PrimCs(e, v.a[i]))]
          ELSE <<Pair(name, JoinCs(Items(e, v.a), CASE c.style = "form" -> <<",">>
                                                    \* the two delimiters that are not URL characters, as clients write them
                                                    [] c.style = "spaceDelimited" -> IF e.plus THEN <<"+">> ELSE Pct(" ")
                                                    [] c.style = "pipeDelimited" -> Pct("|")))>>
     [] v.t = "obj" ->
          IF c.explode THEN [i \in DOMAIN v.k |-> Pair(KeyE(e, v.k[i]), PrimCs(e, v.v[i]))]
          ELSE <<Pair(name, JoinCs(FlatKV(e, v.k, v.v), <<",">>))>>
QueryPairs(c, name, v, e, mode) ==
   LET ps == QueryPairsCs(c, name, v, e, mode) IN [i \in DOMAIN ps |-> Pair(Concat(ps[i].k), Concat(ps[i].v))]

HeaderCs(c, v) ==
   CASE IsPrim(v) -> PrimCs(NoEnc, v)
     [] v.t = "arr" -> JoinCs(Items(NoEnc, v.a), <<",">>)
     [] v.t = "obj" -> IF c.explode THEN JoinCs(KV(NoEnc, v, <<"=">>), <<",">>) ELSE JoinCs(FlatKV(NoEnc, v.k, v.v), <<",">>)

CookieCs(c, v) ==
   CASE IsPrim(v) -> PrimCs(NoEnc, v)
     [] v.t = "arr" -> JoinCs(Items(NoEnc, v.a), <<",">>)
     [] v.t = "obj" -> JoinCs(FlatKV(NoEnc, v.k, v.v), <<",">>)

(* name: the parameter's name as cs *)
WireM(c, name, v, mode) ==
   LET e == Enc(c, v, mode) IN
   CASE c.in = "path"   -> [kind |-> "path", seg |-> Concat(PathCs(c, name, v, e))]
     [] c.in = "query"  -> [kind |-> "query", pairs |-> QueryPairs(c, name, v, e, mode)]
     [] c.in = "header" -> [kind |-> "header", val |-> Concat(HeaderCs(c, v))]
     [] c.in = "cookie" -> [kind |-> "cookie", val |-> Concat(CookieCs(c, v))]
Wire(c, name, v) == WireM(c, name, v, "min")

(* text that is not a serialisation of the declared type, per kind of garbage *)
Garbage(c, name, g) ==
   LET t == CASE g = "nonnumeric" -> <<"a", "b", "c">> [] g = "oddpairs" -> <<"x", ",", "1", ",", "y">> [] g = "noprefix" -> <<"7">>
                 [] g = "overflow32" -> <<"4", "2", "9", "4", "9", "6", "7", "3", "3", "8">>      \* 2^32 + 42: not an int32
   IN
   CASE c.in = "path"   -> [kind |-> "path", seg |-> Concat(IF g = "noprefix" THEN t
                                                              ELSE CASE c.style = "simple" -> t
                                                                     [] c.style = "label" -> <<".">> \o t
                                                                     [] c.style = "matrix" -> <<";">> \o name \o <<"=">> \o t)]
     [] c.in = "query"  -> [kind |-> "query", pairs |-> <<Pair(Concat(name), Concat(t))>>]
     [] c.in = "header" -> [kind |-> "header", val |-> Concat(t)]
     [] c.in = "cookie" -> [kind |-> "cookie", val |-> Concat(t)]

(* ---- which values a schema gives a type to ---- *)
(* A parameter travels as text; the schema says what each piece of text is.  A property that the object schema     *)
(* neither declares nor covers by an additionalProperties schema has no declared type: the value as a whole is     *)
(* still valid or invalid (additionalProperties: false), but "decoded back to that same value" has no meaning.     *)
RECURSIVE Typed(_, _)
Typed(s, v) ==
   IF v.t # "obj" \/ ~Has(s, "pk") THEN TRUE
   ELSE \A i \in DOMAIN v.k :
          LET pi == PropIdx(s, v.k[i]) IN
          IF pi # 0 THEN Typed(s.ps[pi], v.v[i]) ELSE Has(s, "apSchema")
UndeclaredKeys(s, v) == IF v.t = "obj" /\ Has(s, "pk") THEN {v.k[i] : i \in DOMAIN v.k} \ Range(s.pk) ELSE {}
=============================================================================
