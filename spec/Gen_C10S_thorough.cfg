SPECIFICATION SSpec
CONSTANTS P = 59
 K = 2
 NModes = 5
 Seed = 1
INVARIANT Emit
CHECK_DEADLOCK FALSE
