------------------------------ MODULE Trace_C10 ------------------------------
EXTENDS RobustTraffic, FindingsC10, Json, CSV
Trace == ndJsonDeserialize("trace.ndjson")
VARIABLE l
TInit == l = 0 /\ feats = {} /\ muts = <<>> /\ side = "request" /\ multi = FALSE
TNext == l < Len(Trace) /\ l' = l + 1 /\ UNCHANGED vars
TSpec == TInit /\ [][TNext]_<<l, vars>>
LineOK(line) ==
   LET bad == Failed(line.obs) IN
   bad = {} \/ CSVWrite("%1$s", <<ToJson([case |-> line.case, c |-> line.c, failed |-> bad, obs |-> line.obs,
                                           msg |-> (IF "msg" \in DOMAIN line THEN line.msg ELSE ""), class |-> Class(line, bad)])>>,
                        "violations.ndjson")
Judge == l > 0 => LineOK(Trace[l])
AllConsumed == TLCGet("stats").diameter = Len(Trace) + 1
=============================================================================
