------------------------------ MODULE Trace_C10 ------------------------------
EXTENDS RobustTraffic, FindingsC10, Json, CSV
(* the structured universe: its atoms, to check that every logged structured case is a case of the universe *)
RS == INSTANCE RobustShapes WITH P <- 59, K <- 1, Seed <- 1, NModes <- 5, ri <- 0, rj <- 0, rk <- 0, rm <- 0
Trace == ndJsonDeserialize("trace.ndjson")
VARIABLE l
TInit == l = 0 /\ feats = {} /\ muts = <<>> /\ side = "request" /\ multi = FALSE
TNext == l < Len(Trace) /\ l' = l + 1 /\ UNCHANGED vars
TSpec == TInit /\ [][TNext]_<<l, vars>>
IsShape(c) == "kind" \in DOMAIN c /\ c.kind = "shape"
(* Realised = Case: the case the harness logged is one of the universe the generator spans *)
SeqRange(s) == {s[x] : x \in DOMAIN s}
InUniverse(c) ==
   IF IsShape(c) THEN RS!ShapeInUniverse(c)
   ELSE /\ SeqRange(c.feats) \subseteq DocFeatures
        /\ SeqRange(c.muts) \subseteq (IF c.side = "request" THEN ReqMutations ELSE RespMutations)
LineFailed(line) == Failed(line.obs) \cup (IF InUniverse(line.c) THEN {} ELSE {"case_in_universe"})
LineOK(line) ==
   LET bad == LineFailed(line) IN
   bad = {} \/ CSVWrite("%1$s", <<ToJson([case |-> line.case, c |-> line.c, failed |-> bad, obs |-> line.obs,
                                           msg |-> (IF "msg" \in DOMAIN line THEN line.msg ELSE ""), class |-> Class(line, bad)])>>,
                        "violations.ndjson")
Judge == l > 0 => LineOK(Trace[l])
AllConsumed == TLCGet("stats").diameter = Len(Trace) + 1
=============================================================================
