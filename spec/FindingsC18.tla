----------------------------- MODULE FindingsC18 -----------------------------
(* Finding classes for C18 (see known_findings.json): the minimal syntactic trigger in   *)
(* the Go type / option set and the specific wrong observation.  "none" = not listed.     *)
EXTENDS GoGenModel

(* JSON names that occur more than once among the candidate fields of a struct (after     *)
(* flattening its untagged embedded structs) somewhere in T                               *)
RECURSIVE FlatNames(_, _)
FlatNames(ST, x) ==
   IF x > Len(ST.f) THEN <<>>
   ELSE LET fd == ST.f[x] IN
        (IF Flattens(fd)
         THEN LET it == IF fd.t.k = "ptr" THEN fd.t.e ELSE fd.t IN
              IF it.k = "named" THEN <<>> ELSE FlatNames(it, 1)
         ELSE <<JsonName(fd)>>) \o FlatNames(ST, x + 1)
DupNamesOf(ST) == LET ns == FlatNames(ST, 1) IN
                  {ns[i] : i \in {i \in DOMAIN ns : \E j \in DOMAIN ns : j # i /\ ns[j] = ns[i]}}
RECURSIVE DupNames(_)
DupNames(T) == CASE T.k \in {"ptr", "slice", "map"} -> DupNames(T.e)
                 [] T.k = "struct" -> DupNamesOf(T) \cup UNION {DupNames(T.f[x].t) : x \in DOMAIN T.f}
                 [] OTHER -> {}

(* a declared struct that embeds (untagged) a pointer to itself *)
SelfEmbedding(T) ==
   \E n \in ReachNames(T) : \E x \in DOMAIN Defs(n).f :
      LET fd == Defs(n).f[x] IN Flattens(fd) /\ fd.t.k = "ptr" /\ fd.t.e = Named(n)

RECURSIVE StripRootPtr(_)
StripRootPtr(t) == IF t.k = "ptr" THEN StripRootPtr(t.e) ELSE t

Last(p) == p[Len(p)]
AtRef(f) == f.kind = "null_at_ref"
AtDup(T, f) == f.p # <<>> /\ Last(f.p) \in DupNames(T) /\ f.kind \in {"type", "bound", "format", "null", "null_at_ref"}
KnownFailure(T, f) == AtRef(f) \/ AtDup(T, f)

(* two declared types that reach each other *)
MutualRec(T) ==
   \E n, m \in ReachNames(T) : n # m /\ m \in Reach({n}, 3) /\ n \in Reach({m}, 3)
(* component names whose body is also the body of another component *)
DupComps(comps) == {comps.k[i] : i \in {i \in DOMAIN comps.k : \E j \in DOMAIN comps.k : j # i /\ comps.v[j] = comps.v[i]}}
(* some component holds what the generator model (GoGenModel) identifies as the schema of another *)
(* type: the value of a cycle reference, i.e. the struct in whose field loop the cycle was cut     *)
ForeignInstalled(line) ==
   LET st == GenAll(line.T, line.opt).st IN
   \E i \in DOMAIN line.comps.k :
      LET cs == CompCands(line.opt, st, line.comps.k[i]) IN
      /\ line.comps.v[i] \in {c.val : c \in {c \in cs : ~c.own}}
      /\ line.comps.v[i] \notin {c.val : c \in {c \in cs : c.own}}
Exporting(opt) == opt \in {"export", "exporttop", "useall_export", "tng_export", "tng_exporttop"}

(* F-C18-1 / F-C18-2: a pointer position whose schema is a bare $ref (cycle cut, or       *)
(* component export): nullable cannot be carried by the reference and the target is not    *)
(* nullable, so the null that encoding/json writes for the nil pointer is rejected.        *)
(* F-C18-3: a field that Go's dominance rule hides (same JSON name at a shallower depth)   *)
(* still overwrites the visible field's property (the validator's verdict is not part of   *)
(* the class: its "byte" format check is laxer than base64).                               *)
(* F-C18-5: with component export, anonymous struct types all get the component name "".   *)
(* F-C18-6: with component export and mutually recursive types, the component of one type  *)
(* is overwritten with the schema of the other (two components with the same body).        *)
ValueClass(line, i, fails, failed) ==
   LET e == line.vals[i]
       bothR == e.of = "R" /\ e.on = "R" IN
   IF failed # "schema_rejects_encoding" \/ fails = {} THEN "none"
   ELSE IF Exporting(line.opt) /\ HasComp(line.comps, "") /\ bothR THEN "anonymous_struct_component_name_empty"
   ELSE IF bothR /\ \A f \in fails : AtRef(f)
        THEN IF Exporting(line.opt) THEN "nullable_lost_behind_component_ref" ELSE "nullable_lost_behind_cycle_ref"
   ELSE IF e.of = e.on /\ \A f \in fails : AtDup(line.T, f) /\ ~AtRef(f) THEN "hidden_embedded_field_overwrites_property"
   ELSE IF Exporting(line.opt) /\ MutualRec(line.T) /\ ForeignInstalled(line) /\ bothR
        THEN "component_overwritten_in_mutual_recursion"
   ELSE "none"

(* F-C18-4: field discovery recurses forever on a struct that embeds a pointer to itself *)
(* F-C18-7: with a caller-supplied type-name generator the component of a declared type that   *)
(* is only reached through cycle references (every cut type without component export; the      *)
(* root type with export but without ExportTopLevelSchema) is looked up under its Go name and   *)
(* never put into the caller's map: the references to the generated name do not resolve.        *)
TngMissing(T, opt, missing) ==
   /\ opt \in {"tng", "tng_export"} /\ missing # {}
   /\ missing \subseteq {TypeNameOf(opt, n) : n \in IF opt = "tng" THEN ReachNames(T) \cap RecNames
                                                    ELSE IF StripRootPtr(T).k = "named"
                                                         THEN {StripRootPtr(T).n} \cap RecNames ELSE {}}
LineClass(line, failed) ==
   IF failed = "generator_died" /\ SelfEmbedding(line.T) THEN "self_embedded_pointer_diverges"
   ELSE IF /\ failed = "references_do_not_resolve_in_component_map"
           /\ line.gen = "ok" /\ CompsWellFormed(line.comps)
           /\ \A s \in AllS(line.S, line.comps) : ~Has(s, "refraw")
           /\ TngMissing(line.T, line.opt, MissingNames(line.S, line.comps))
        THEN "typename_generator_component_not_exported"
   ELSE "none"
=============================================================================
