----------------------------- MODULE FindingsC18 -----------------------------
(* Finding classes for C18 (see known_findings.json): the minimal syntactic trigger in   *)
(* the Go type / option set and the specific wrong observation.  "none" = not listed.     *)
EXTENDS GoGenModel

FirstOf(line) == IF Has(line, "first") THEN line.first ELSE NoFirst

(* JSON names that occur more than once among the candidate fields of a struct (after     *)
(* flattening its untagged embedded structs) somewhere in T                               *)
RECURSIVE FlatNames(_, _)
FlatNames(ST, x) ==
   IF x > Len(ST.f) THEN <<>>
   ELSE LET fd == ST.f[x] IN
        (IF Flattens(fd)
         THEN LET it == IF fd.t.k = "ptr" THEN fd.t.e ELSE fd.t IN
              IF it.k = "named" THEN <<>> ELSE FlatNames(it, 1)
         ELSE <<JsonName(fd)>>) \o FlatNames(ST, x + 1)
DupNamesOf(ST) == LET ns == FlatNames(ST, 1) IN
                  {ns[i] : i \in {i \in DOMAIN ns : \E j \in DOMAIN ns : j # i /\ ns[j] = ns[i]}}
RECURSIVE DupNames(_)
DupNames(T) == CASE T.k \in {"ptr", "slice", "map"} -> DupNames(T.e)
                 [] T.k = "struct" -> DupNamesOf(T) \cup UNION {DupNames(T.f[x].t) : x \in DOMAIN T.f}
                 [] OTHER -> {}

(* a declared struct that embeds (untagged) a pointer to itself *)
SelfEmbedding(T) ==
   \E n \in ReachNames(T) : Defs(n).k = "struct" /\ \E x \in DOMAIN Defs(n).f :
      LET fd == Defs(n).f[x] IN Flattens(fd) /\ fd.t.k = "ptr" /\ fd.t.e = Named(n)

Exporting(opt) == opt \in {"export", "exporttop", "useall_export", "tng_export", "tng_exporttop"}

RECURSIVE StripRootPtr(_)
StripRootPtr(t) == IF t.k = "ptr" THEN StripRootPtr(t.e) ELSE t

Last(p) == p[Len(p)]
AtRef(f) == f.kind = "null_at_ref"
AtDup(T, f) == f.p # <<>> /\ Last(f.p) \in DupNames(T) /\ f.kind \in {"type", "bound", "format", "null", "null_at_ref"}
KnownFailure(T, f) == AtRef(f) \/ AtDup(T, f)
(* F-C18-11: the generator's type table holds what a pointer type got when it was the root of   *)
(* an earlier call (the root is never nullable); a later call of the same Generator finds it     *)
(* there for a field / element of that pointer type and the null of a nil pointer is rejected.   *)
RootPtrReused(Fst, f) == Fst.k # "nofirst" /\ U(Fst).k = "ptr" /\ f.kind = "null"

(* two declared types that reach each other *)
MutualRec(T) ==
   \E n, m \in ReachNames(T) : n # m /\ m \in Reach({n}, 3) /\ n \in Reach({m}, 3)
(* component names whose body is also the body of another component *)
DupComps(comps) == {comps.k[i] : i \in {i \in DOMAIN comps.k : \E j \in DOMAIN comps.k : j # i /\ comps.v[j] = comps.v[i]}}
(* some component holds what the generator model (GoGenModel) identifies as the schema of another *)
(* type: the value of a cycle reference, i.e. the struct in whose field loop the cycle was cut     *)
(* the reference objects of the generator model whose value may stand under component name k in  *)
(* the map of the judged call: those of the call itself, and for a map shared with an earlier     *)
(* call of the same Generator those of that call for the names this call does not store again     *)
ModelCands(line, k) ==
   LET st == ModelRun(FirstOf(line), line.T, line.opt).st IN
   IF k \in CompKeys(line.opt, st) \/ ~(Has(line, "first") /\ line.share) THEN CompCands(line.opt, st, k)
   ELSE CompCands(line.opt, GenAll(line.first, line.opt).st, k)
ModelKeys(line) ==
   CompKeys(line.opt, ModelRun(FirstOf(line), line.T, line.opt).st)
      \cup (IF Has(line, "first") /\ line.share THEN CompKeys(line.opt, GenAll(line.first, line.opt).st) ELSE {})
ForeignInstalled(line) ==
   \E i \in DOMAIN line.comps.k :
      LET cs == ModelCands(line, line.comps.k[i]) IN
      /\ line.comps.v[i] \in {c.val : c \in {c \in cs : ~c.own}}
      /\ line.comps.v[i] \notin {c.val : c \in {c \in cs : c.own}}

(* F-C18-1 / F-C18-2: a pointer position whose schema is a bare $ref (cycle cut, or       *)
(* component export): nullable cannot be carried by the reference and the target is not    *)
(* nullable, so the null that encoding/json writes for the nil pointer is rejected.        *)
(* F-C18-3: a field that Go's dominance rule hides (same JSON name at a shallower depth)   *)
(* still overwrites the visible field's property (the validator's verdict is not part of   *)
(* the class: its "byte" format check is laxer than base64).                               *)
(* F-C18-5: with component export, anonymous struct types all get the component name "".   *)
(* F-C18-6: with component export and mutually recursive types, the component of one type  *)
(* is overwritten with the schema of the other (two components with the same body).        *)
ValueClass(line, i, fails, failed) ==
   LET e == line.vals[i]
       bothR == e.of = "R" /\ e.on = "R" IN
   IF failed # "schema_rejects_encoding" \/ fails = {} THEN "none"
   ELSE IF Exporting(line.opt) /\ HasComp(line.comps, "") /\ bothR THEN "anonymous_struct_component_name_empty"
   ELSE IF bothR /\ \A f \in fails : AtRef(f)
        THEN IF Exporting(line.opt) THEN "nullable_lost_behind_component_ref" ELSE "nullable_lost_behind_cycle_ref"
   ELSE IF e.of = e.on /\ \A f \in fails : AtDup(line.T, f) /\ ~AtRef(f) THEN "hidden_embedded_field_overwrites_property"
   ELSE IF bothR /\ \A f \in fails : RootPtrReused(FirstOf(line), f) THEN "reused_generator_root_pointer_not_nullable"
   ELSE IF Exporting(line.opt) /\ MutualRec(line.T) /\ ForeignInstalled(line) /\ bothR
        THEN "component_overwritten_in_mutual_recursion"
   ELSE "none"

(* F-C18-4: field discovery recurses forever on a struct that embeds a pointer to itself *)
(* F-C18-7: with a caller-supplied type-name generator the component of a declared type that   *)
(* is only reached through cycle references (every cut type without component export; the      *)
(* root type with export but without ExportTopLevelSchema) is looked up under its Go name and   *)
(* never put into the caller's map: the references to the generated name do not resolve.        *)
TngSet(T, opt) ==
   IF opt \notin {"tng", "tng_export"} THEN {}
   ELSE {TypeNameOf(opt, n) : n \in IF opt = "tng" THEN ReachNames(T) \cap RecNames
                                    ELSE IF StripRootPtr(T).k = "named"
                                         THEN {StripRootPtr(T).n} \cap RecNames ELSE {}}
TngMissing(T, opt, missing) == missing # {} /\ missing \subseteq TngSet(T, opt)
(* F-C18-8: with component export every struct below the root (the root too with               *)
(* ExportTopLevelSchema) becomes a $ref to the component of its name, but NewSchemaRefForValue   *)
(* (l.143) stores a component only if its schema has properties: a declared struct without a     *)
(* visible field (struct{}, only unexported fields such as `type Stamp time.Time`, only untagged  *)
(* fields without UseAllExportedFields) is referred to and never defined.                        *)
NoProps(n, opt) ==
   /\ U(Named(n)).k = "struct"
   /\ LET es == AppendFields(Defs(n), 1, {n}) IN {x \in DOMAIN es : es[x].tagged \/ UsesAllFields(opt)} = {}
PropertylessSet(T, opt) == {TypeNameOf(opt, n) : n \in {m \in ReachNames(T) : NoProps(m, opt)}}
PropertylessMissing(T, opt, missing) ==
   /\ Exporting(opt) /\ missing \cap PropertylessSet(T, opt) # {}
   /\ missing \subseteq PropertylessSet(T, opt) \cup TngSet(T, opt)
KnownMissing(T, opt, missing) == TngMissing(T, opt, missing) \/ PropertylessMissing(T, opt, missing)
(* F-C18-10: a Generator that has generated a type before does not put the components that      *)
(* call produced into the map of a later call again (its epilogue, l.146-150, cleared the names  *)
(* and values of the reference objects they are copied from): with a new map the references to   *)
(* the declared types both calls share dangle (besides whatever dangles for a fresh generator).   *)
ReuseMissing(Fst, T, opt, missing) ==
   LET shared == {TypeNameOf(opt, n) : n \in ReachNames(Fst) \cap ReachNames(T)} IN
   /\ missing \cap shared # {}
   /\ missing \subseteq shared \cup PropertylessSet(T, opt) \cup TngSet(T, opt)
(* F-C18-9: generateCycleSchemaRef unwraps a slice / map type to its element without end when    *)
(* the type is its own element type (type Tree []Tree): the stack overflows (fatal).             *)
LineClass(line, failed) ==
   IF failed = "generator_died" /\ SelfEmbedding(line.T) THEN "self_embedded_pointer_diverges"
   ELSE IF failed = "generator_died" /\ SelfContainer(line.T) /\ line.gen = "crash" THEN "self_recursive_container_diverges"
   ELSE IF /\ failed = "references_do_not_resolve_in_component_map"
           /\ line.gen = "ok" /\ CompsWellFormed(line.comps)
           /\ \A s \in AllS(line.S, line.comps) : ~Has(s, "refraw")
        THEN LET missing == MissingNames(line.S, line.comps) IN
             IF TngMissing(line.T, line.opt, missing) THEN "typename_generator_component_not_exported"
             ELSE IF PropertylessMissing(line.T, line.opt, missing) THEN "propertyless_struct_component_not_exported"
             ELSE IF Has(line, "first") /\ ~line.share /\ ReuseMissing(line.first, line.T, line.opt, missing)
                  THEN "reused_generator_components_not_exported_again"
             ELSE "none"
   ELSE "none"
=============================================================================
