----------------------------- MODULE BodyStreamH -----------------------------
(***************************************************************************)
(* L2: the body streams of SEVERAL requests handled by one process, over a  *)
(* heap of byte buffers, through the phases of ValidateRequest, with the    *)
(* query string and the header map as further carriers of installed         *)
(* defaults, and with histories: a request is validated, read by the next   *)
(* handler, rewound, validated again, while other requests are validated    *)
(* in between (phase by phase: the interleavings of two goroutines).        *)
(*                                                                          *)
(* What BodyStream (one request, one validation, abstract bytes) cannot     *)
(* say and this model can:                                                  *)
(*  - a reader is a view on a BUFFER (bytes.NewReader(data)); whether two   *)
(*    requests can come to share a buffer is a design decision of the       *)
(*    encoder (EncoderBuffer: "fresh" slice per call | slice of a "pooled"  *)
(*    scratch buffer)                                                       *)
(*  - the library's GetBody closes over the VARIABLE data, not its value    *)
(*    (cells); what a later assignment to that variable does (EncodeVar:    *)
(*    the encoder's result goes to a variable of its "own" | to the         *)
(*    "captured" one, which a failing encoder sets to nil)                  *)
(*  - which media types can be written back (Encoders) next to which can    *)
(*    be decoded (all of MTs), and what happens to the others (NoEncoder)   *)
(*  - what `defer req.Body.Close()` closes (CloseBinding: the body          *)
(*    installed "at_defer" time = the drained original | the one installed  *)
(*    "at_return" time = the restored one), for bodies that honour Close    *)
(*  - repeated validation of the forwarded request: body, query, header.    *)
(*                                                                          *)
(* The phase operators are functions on one global record g, so that the    *)
(* same text is (a) model-checked under all interleavings against L1        *)
(* (MC_C13H) and (b) folded over the serial histories the harness replays   *)
(* against the real code, whose observed projection (verdict, what kind of  *)
(* reader / GetBody is installed, what a read yields) is compared with the  *)
(* model's (Trace_C13, fidelity).                                           *)
(***************************************************************************)
EXTENDS Naturals, Sequences, FiniteSets, TLC

CONSTANTS EncoderBuffer,   \* "fresh" | "pooled"
          EncodeVar,       \* "own" | "captured"
          Encoders,        \* media types with a registered body encoder
          NoEncoder,       \* a default was set and the media type has no encoder: "reject" the request | "forward" it as sent
          CloseBinding     \* "at_defer" | "at_return"

Orig(r) == <<"orig", r>>          \* the bytes the client sent in request r
Dflt(r) == <<"dflt", r>>          \* request r's body re-encoded with its defaults
Empty == <<"empty", 0>>
ReadErr == <<"err", 0>>           \* reading a closed body that honours Close

PoolBuf == 1                      \* the encoder's scratch buffer (EncoderBuffer = "pooled")
EmptyBuf == 2
OrigBuf(r) == 2 + r               \* where the client keeps the bytes of request r
NoBuf == 0                        \* a nil slice

Reader(b, client) == [buf |-> b, pos |-> "start", closed |-> FALSE, client |-> client]

(* request descriptions: mt media type; valid: the body (completed with defaults unless skip) satisfies the schema;  *)
(* hasDef: some default is applicable to the body sent; reenc: the schema visit reports "a default was set" although   *)
(* the value ends up unchanged (a default went into the throw-away copy of a oneOf / anyOf candidate that did not       *)
(* match): the body is encoded and installed again, the same JSON value; preset: the client's body honours Close and comes with a    *)
(* GetBody; auth: authentication callback none | reads the body and passes | reads the body and rejects;            *)
(* pq / ph: a query / header parameter with a default is not declared | absent | present                            *)
InitReq(r, c) == [body |-> Reader(OrigBuf(r), c.preset),
                  gb |-> IF c.preset THEN [kind |-> "client"] ELSE [kind |-> "none"],
                  clen |-> Orig(r),
                  q |-> IF c.pq = "present" THEN "client" ELSE "absent",
                  h |-> IF c.ph = "present" THEN "client" ELSE "absent",
                  verdict |-> "none", data |-> 0]
InitG(cs) == [heap |-> <<Empty, Empty>> \o [r \in DOMAIN cs |-> Orig(r)], cells |-> <<>>,
              x |-> [r \in DOMAIN cs |-> InitReq(r, cs[r])]]

ReadAll(g, rd) == IF rd.client /\ rd.closed THEN ReadErr ELSE IF rd.pos = "start" THEN g.heap[rd.buf] ELSE Empty

(* what req.GetBody() returns *)
GetBodyReader(g, r) ==
   LET gb == g.x[r].gb IN
   IF gb.kind = "client" THEN Reader(OrigBuf(r), TRUE)
   ELSE LET b == g.cells[gb.cell] IN Reader(IF b = NoBuf THEN EmptyBuf ELSE b, FALSE)

(* data, err = io.ReadAll(req.Body): the body is drained; the bytes sit in a new buffer the local variable `data` (a new cell) refers to *)
ReadIntoData(g, r) ==
   LET content == ReadAll(g, g.x[r].body)
       g1 == [g EXCEPT !.heap = Append(@, content)]
       g2 == [g1 EXCEPT !.cells = Append(@, Len(g1.heap))] IN
   [g2 EXCEPT !.x[r].data = Len(g2.cells), !.x[r].body.pos = "end"]

(* "Put the data back into the input": GetBody() when there is one, else install one over the variable data *)
Restore(g, r) ==
   IF g.x[r].gb.kind # "none" THEN [g EXCEPT !.x[r].body = GetBodyReader(g, r)]
   ELSE LET cell == g.x[r].data  b == g.cells[cell] IN
        [g EXCEPT !.x[r].gb = [kind |-> "lib", cell |-> cell], !.x[r].clen = g.heap[b], !.x[r].body = Reader(b, FALSE)]

(* `defer req.Body.Close()`: evaluated when registered it closes the drained original (which nobody holds any more: no *)
(* effect on what follows); evaluated at return it closes whatever is installed then                                   *)
DeferredClose(g, r) == IF CloseBinding = "at_return" THEN [g EXCEPT !.x[r].body.closed = TRUE] ELSE g

(* ---- phase 1: security (validateSecurityRequirement): read all, restore, callback reads, restore on every return ---- *)
SecPhase(g, r, c) ==
   IF c.auth = "none" THEN g
   ELSE LET g1 == Restore(ReadIntoData(g, r), r)
            g2 == [g1 EXCEPT !.x[r].body.pos = "end"]          \* the callback reads the copy it was given
            g3 == DeferredClose(Restore(g2, r), r) IN
        IF c.auth = "read_fail" THEN [g3 EXCEPT !.x[r].verdict = "error"] ELSE g3
SecRejects(c) == c.auth = "read_fail"

(* ---- phase 2: parameters: an absent parameter with a default is written into its carrier (presence is decided by    *)
(* decoding the carrier: a default installed earlier is found there)                                                   *)
ParamsPhase(g, r, c) ==
   IF c.skip THEN g
   ELSE [g EXCEPT !.x[r].q = IF c.pq = "absent" /\ @ = "absent" THEN "dflt" ELSE @,
                  !.x[r].h = IF c.ph = "absent" /\ @ = "absent" THEN "dflt" ELSE @]

(* ---- phase 3: body (ValidateRequestBody): read all, restore, decode, validate (defaults go into the decoded value), *)
(* and when a default was set: encode, install the new body                                                            *)
Rewrite(g, r, c) ==
   LET cell == g.x[r].data IN
   IF c.mt \notin Encoders /\ NoEncoder = "forward"
   THEN [g EXCEPT !.x[r].verdict = "ok"]        \* accepted, the body stays the one received (its defaults are not in it)
   ELSE IF c.mt \notin Encoders
   THEN \* encodeBody fails: "rewriting failed"; `data, err = encodeBody(...)` has set data to nil on the way
        [g EXCEPT !.x[r].verdict = "error", !.cells[cell] = IF EncodeVar = "captured" THEN NoBuf ELSE @]
   ELSE LET new == IF c.hasDef THEN Dflt(r) ELSE Orig(r)      \* (reenc only: the same value written again)
            g1 == IF EncoderBuffer = "pooled" THEN [g EXCEPT !.heap[PoolBuf] = new] ELSE [g EXCEPT !.heap = Append(@, new)]
            b == IF EncoderBuffer = "pooled" THEN PoolBuf ELSE Len(g1.heap)
            g2 == IF EncodeVar = "captured" THEN [g1 EXCEPT !.cells[cell] = b] ELSE [g1 EXCEPT !.cells = Append(@, b)]
            cell2 == IF EncodeVar = "captured" THEN cell ELSE Len(g2.cells) IN
        [g2 EXCEPT !.x[r].verdict = "ok", !.x[r].clen = new, !.x[r].gb = [kind |-> "lib", cell |-> cell2],
                   !.x[r].body = Reader(b, FALSE), !.x[r].data = cell2]

BodyPhase(g, r, c) ==
   LET g1 == Restore(ReadIntoData(g, r), r)
       content == g1.heap[g1.cells[g1.x[r].data]]
       g2 == IF content \notin {Orig(r), Dflt(r)} \/ ~c.valid THEN [g1 EXCEPT !.x[r].verdict = "error"]   \* empty: required; unreadable; schema
             ELSE IF ~c.skip /\ ((c.hasDef /\ content = Orig(r)) \/ c.reenc) THEN Rewrite(g1, r, c)
             ELSE [g1 EXCEPT !.x[r].verdict = "ok"] IN
   DeferredClose(g2, r)

(* one validation from call to return, no other request in between *)
SerialValidate(g, r, c) ==
   LET g1 == SecPhase([g EXCEPT !.x[r].verdict = "none"], r, c) IN
   IF SecRejects(c) THEN g1 ELSE BodyPhase(ParamsPhase(g1, r, c), r, c)

(* the next handler reads the body in full; the request is rewound as a transport does it *)
HandlerRead(g, r) ==
   LET content == ReadAll(g, g.x[r].body) IN
   IF g.x[r].gb.kind # "none" THEN [g EXCEPT !.x[r].body = GetBodyReader(g, r)]
   ELSE LET g1 == [g EXCEPT !.heap = Append(@, content)] IN [g1 EXCEPT !.x[r].body = Reader(Len(g1.heap), FALSE)]

(* observable projection *)
BodyKind(g, r) == IF g.x[r].body.client THEN "client" ELSE "lib"
GbKind(g, r) == g.x[r].gb.kind
WhatARead(g, r) == ReadAll(g, g.x[r].body)
WhatGetBodyYields(g, r) == ReadAll(g, GetBodyReader(g, r))

-----------------------------------------------------------------------------
(* L1, per request and independent of every other request: *)
ValidReq(c) == c.auth # "read_fail" /\ c.valid
Completes(c) == ValidReq(c) /\ c.hasDef /\ ~c.skip          \* an accepted validation re-writes the body with its defaults
ParamsDone(c) == ValidReq(c) /\ ~c.skip

(* what request r must carry when it has been validated nv times (nv >= 0) *)
ExpBody(r, c, nv) == IF nv > 0 /\ Completes(c) THEN Dflt(r) ELSE Orig(r)
ExpCarrier(decl, c, nv) == IF decl = "present" THEN {"client"}
                           ELSE IF decl = "absent" /\ nv > 0 /\ ParamsDone(c) THEN {"dflt"}
                           ELSE IF decl = "absent" /\ nv > 0 /\ ~c.skip THEN {"absent", "dflt"}   \* rejected: the statement is silent
                           ELSE {"absent"}
L1OK(g, r, c, nv) ==
   /\ WhatARead(g, r) = ExpBody(r, c, nv)
   /\ g.x[r].clen = ExpBody(r, c, nv)
   /\ (g.x[r].gb.kind # "none" => WhatGetBodyYields(g, r) = ExpBody(r, c, nv))
   /\ (nv > 0 => g.x[r].verdict = IF ValidReq(c) THEN "ok" ELSE "error")
   /\ g.x[r].q \in ExpCarrier(c.pq, c, nv)
   /\ g.x[r].h \in ExpCarrier(c.ph, c, nv)
=============================================================================
