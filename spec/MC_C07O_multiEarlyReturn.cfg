SPECIFICATION Spec
CONSTANT Variant = "multiEarlyReturn"
INVARIANT ResultIsContract
CHECK_DEADLOCK FALSE
