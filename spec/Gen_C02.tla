------------------------------- MODULE Gen_C02 -------------------------------
(* Generator of multi-file universes for C02 / C11 / C16 / C20: the product                *)
(*   component kind x child site of that kind x reference-graph shape x path spelling x    *)
(*   position of the root's reference x load entry point.                                  *)
(* The state is the universe; there are no transitions.                                    *)
(* Round 6 added: objects carrying two child sites at once (SitePairs), pointers to inline  *)
(* objects below a component of any collection (Deep, InlContainers: the deepcomp and       *)
(* deepback families), near-miss keys (NearMisses: templated paths, status keys, names),    *)
(* definitions outside the typed structure local to a whole-file element (DefRef: the       *)
(* wholedef family, extdef, rootdef), cycles through every schema site, and histories of    *)
(* one Loader (HistoryEntries).                                                             *)
EXTENDS Layout, Json, CSV

CONSTANT Tier

A1 == <<"r", "a.json">>
B1 == <<"r", "sub", "b.json">>
C1 == <<"r", "sub", "deep", "c.json">>
D1 == <<"o", "d.json">>
W1 == <<"r", "sub", "w.json">>

(* relative path from the directory of file f to file g *)
RECURSIVE StripCommon(_, _)
StripCommon(a, b) == IF a # <<>> /\ b # <<>> /\ Head(a) = Head(b) THEN StripCommon(Tail(a), Tail(b)) ELSE <<a, b>>
Ups(n) == [i \in 1..n |-> ".."]
Rel(f, g) == LET s == StripCommon(Dir(f), Dir(g)) IN Ups(Len(s[1])) \o s[2] \o <<g[Len(g)]>>

RelStyles == {"plain", "dot", "updown"}
AbsStyles == {"abspath", "fileurl", "http", "https", "schemeless"}
CONSTANT Styles
Spell(f, g, style) ==
   CASE style = "plain" -> Rel(f, g)
     [] style = "dot" -> <<".">> \o Rel(f, g)
     [] style = "updown" -> <<"sub", "..">> \o Rel(f, g)
     [] style = "abspath" -> <<"<T>">> \o g
     [] style = "fileurl" -> <<"file://<T>">> \o g
     [] style = "http" -> <<"http://h.example">> \o g
     [] style = "https" -> <<"https://h.example">> \o g
     [] style = "schemeless" -> <<"//h.example">> \o g

R(f, g, k, n, style) == [path |-> IF f = g THEN <<>> ELSE Spell(f, g, style), frag |-> <<k, n>>]
RW(f, g, style) == [path |-> Spell(f, g, style), frag |-> <<>>]       \* whole-file ref

Conc(id, ch) == [id |-> id, ch |-> ch]
RefC(r) == [ref |-> r]
Slot(f, k, n, c) == [file |-> f, kind |-> k, name |-> n, c |-> c]
Ch(site, k, r) == [site |-> site, kind |-> k, ref |-> r]

Kinds == {"schemas", "parameters", "headers", "requestBodies", "responses", "securitySchemes", "examples", "links", "callbacks"}

(* child sites of an object of each kind: [site, kind of the target] *)
Sites(k) ==
   \* ("discriminator.mapping": the value of a mapping entry names a schema like a reference does, but it is a plain string -- the
   \* loader does not resolve it, and above all must not READ the document it names while external references are disallowed)
   CASE k = "schemas" -> {[site |-> s, kind |-> "schemas"] : s \in {"properties", "items", "allOf", "anyOf", "oneOf", "not", "additionalProperties",
                                                                       "discriminator.mapping"}}
     \* a parameter / header is described by `schema` or by `content` (one media type); its own `examples` are legal next to either
     [] k = "parameters" -> {[site |-> "schema", kind |-> "schemas"], [site |-> "content.schema", kind |-> "schemas"],
                             [site |-> "examples", kind |-> "examples"], [site |-> "content.examples", kind |-> "examples"]}
     [] k = "headers" -> {[site |-> "schema", kind |-> "schemas"], [site |-> "content.schema", kind |-> "schemas"],
                          [site |-> "examples", kind |-> "examples"], [site |-> "content.examples", kind |-> "examples"]}
     [] k = "requestBodies" -> {[site |-> "content.schema", kind |-> "schemas"], [site |-> "content.examples", kind |-> "examples"],
                                [site |-> "content.encoding.headers", kind |-> "headers"]}
     [] k = "responses" -> {[site |-> "headers", kind |-> "headers"], [site |-> "content.schema", kind |-> "schemas"],
                            [site |-> "links", kind |-> "links"], [site |-> "content.examples", kind |-> "examples"]}
     [] k = "callbacks" -> {[site |-> "post.requestBody", kind |-> "requestBodies"], [site |-> "post.responses", kind |-> "responses"],
                            [site |-> "parameters", kind |-> "parameters"],
                            [site |-> "post.callbacks", kind |-> "callbacks"]}     \* the operation of a callback declares callbacks again
     [] k = "pathItems" -> {[site |-> "parameters", kind |-> "parameters"], [site |-> "post.requestBody", kind |-> "requestBodies"],
                            [site |-> "post.responses", kind |-> "responses"]}
     [] OTHER -> {}

OtherKind(k) == IF k = "schemas" THEN "parameters" ELSE "schemas"

(* two child sites one object may carry at once: everything but `schema` next to `content` (parameters, headers) *)
Compatible(k, s1, s2) == ~(k \in {"parameters", "headers"} /\ "schema" \in {s1.site, s2.site} /\ {s1.site, s2.site} \cap {"content.schema", "content.examples"} # {})
SitePairs(k) == {p \in SUBSET Sites(k) : Cardinality(p) = 2 /\ \A a, b \in p : Compatible(k, a, b)}
First(p) == CHOOSE x \in p : TRUE
Second(p) == CHOOSE x \in p : x # First(p)

(* inline objects below a component: which components (collection ck, site) hold an inline object of kind k *)
InlContainers(k) ==
   CASE k = "schemas" -> {[ck |-> "schemas", site |-> "properties"], [ck |-> "parameters", site |-> "schema"], [ck |-> "headers", site |-> "schema"],
                          [ck |-> "requestBodies", site |-> "content.schema"], [ck |-> "responses", site |-> "content.schema"]}
     [] k = "headers" -> {[ck |-> "responses", site |-> "headers"]}
     [] k = "examples" -> {[ck |-> "parameters", site |-> "examples"], [ck |-> "headers", site |-> "examples"],
                           [ck |-> "requestBodies", site |-> "content.examples"], [ck |-> "responses", site |-> "content.examples"]}
     [] k = "links" -> {[ck |-> "responses", site |-> "links"]}
     [] OTHER -> {}
Canon(k) == IF \E c \in InlContainers(k) : c.ck = k THEN CHOOSE c \in InlContainers(k) : c.ck = k ELSE CHOOSE c \in InlContainers(k) : TRUE
(* the last token of the pointer to the inline object (Layout!CompSiteKey): a component of that name in the root is its namesake *)
LastSeg(site) == CASE site = "properties" -> "p" [] site \in {"schema", "content.schema"} -> "schema" [] site \in {"examples", "content.examples"} -> "e"
                   [] site = "headers" -> "H" [] site = "links" -> "L"
Deep(f, g, c, name, st) == [path |-> IF f = g THEN <<>> ELSE Spell(f, g, st), frag |-> <<"#compinl", c.ck, name, c.site>>]
ConcInl(id, ch, site, inlId) == Conc(id, ch) @@ [inl |-> <<[site |-> site, id |-> inlId]>>]

(* definitions kept outside the typed structure ("#/x-defs/T"), local to the file that holds them *)
DefRef(k, n) == [path |-> <<>>, frag |-> <<"#def", k, n>>]
WD == <<"r", "sub", "deep", "w.json">>
TY(f) == Dir(f) \o <<"ty.json">>

(* keys that are NOT keys of the map they are looked up in, but near one: a path template with another variable name, *)
(* a trailing slash, another case                                                                                      *)
NearMisses == {"u/{uid}", "u/{id}/", "U/{id}"}

(* the universes of one kind: shape name |-> universe *)
U(slots, useRef, k) == [slots |-> slots, use |-> [kind |-> k, ref |-> useRef]]

Shapes(k, st) ==
   {[shape |-> "direct", u |-> U(<<Slot(A1, k, "X", Conc("X", <<>>))>>, R(Root, A1, k, "X", st), k)],
    [shape |-> "chain2", u |-> U(<<Slot(Root, k, "L", RefC(R(Root, A1, k, "X", st))), Slot(A1, k, "X", Conc("X", <<>>))>>,
                                 R(Root, Root, k, "L", st), k)],
    [shape |-> "chain3", u |-> U(<<Slot(A1, k, "X", RefC(R(A1, B1, k, "Y", st))), Slot(B1, k, "Y", RefC(R(B1, D1, k, "Z", st))),
                                   Slot(D1, k, "Z", Conc("Z", <<>>))>>, R(Root, A1, k, "X", st), k)],
    [shape |-> "dangling", u |-> U(<<Slot(A1, k, "X", Conc("X", <<>>))>>, R(Root, A1, k, "Missing", st), k)],
    [shape |-> "danglingfile", u |-> U(<<Slot(A1, k, "X", Conc("X", <<>>))>>, R(Root, C1, k, "X", st), k)],
    [shape |-> "wrongkind", u |-> U(<<Slot(A1, OtherKind(k), "X", Conc("X", <<>>))>>, R(Root, A1, OtherKind(k), "X", st), k)],
    \* two different documents with the same path on two origins (the root's own origin and a second served host)
    [shape |-> "samepath_twohosts",
     u |-> U(<<Slot(A1, k, "X", Conc("X", <<>>)), Slot(<<"https://m.example<T>">> \o A1, k, "X", Conc("X2", <<>>)),
               Slot(<<"https://m.example">> \o A1, k, "X", Conc("X3", <<>>)),
               Slot(Root, k, "V", RefC([path |-> <<"https://m.example<T>">> \o A1, frag |-> <<k, "X">>])),
               Slot(Root, k, "W", RefC([path |-> <<"https://m.example">> \o A1, frag |-> <<k, "X">>]))>>, R(Root, A1, k, "X", st), k)],
    \* the target is a whole typed collection (a map of objects of the expected kind), not an object of that kind
    [shape |-> "collection", u |-> U(<<Slot(A1, k, "X", Conc("X", <<>>))>>, [path |-> Spell(Root, A1, st), frag |-> <<"#coll", k>>], k)],
    [shape |-> "collection_local", u |-> U(<<Slot(Root, k, "X", Conc("X", <<>>))>>, [path |-> <<>>, frag |-> <<"#coll", k>>], k)],
    [shape |-> "refcycle", u |-> U(<<Slot(A1, k, "X", RefC(R(A1, B1, k, "Y", st))), Slot(B1, k, "Y", RefC(R(B1, A1, k, "X", st)))>>,
                                   R(Root, A1, k, "X", st), k)],
    [shape |-> "sametail",      \* two files with the same path tail, one below the root's directory and one beside it
     u |-> U(<<Slot(<<"r", "shared", "x.json">>, k, "X", Conc("X", <<>>)), Slot(<<"shared", "x.json">>, k, "X", Conc("X2", <<>>)),
               Slot(Root, k, "V", RefC(R(Root, <<"shared", "x.json">>, k, "X", st)))>>, R(Root, <<"r", "shared", "x.json">>, k, "X", st), k)],
    [shape |-> "escaped",       \* component names whose JSON-pointer tokens need escaping: "/" -> ~1, "~" -> ~0
     u |-> U(<<Slot(A1, k, "a~1b", Conc("T", <<>>)), Slot(A1, k, "a/b", Conc("S", <<>>)), Slot(A1, k, "a~b", Conc("Q", <<>>)),
               Slot(A1, k, "a~0b", Conc("P", <<>>)),
               Slot(Root, k, "V", RefC(R(Root, A1, k, "a/b", st))), Slot(Root, k, "W", RefC(R(Root, A1, k, "a~b", st))),
               Slot(Root, k, "Y", RefC(R(Root, A1, k, "a~0b", st)))>>, R(Root, A1, k, "a~1b", st), k)],
    \* the same-document flavour, with names that need percent-encoding in a URI fragment (a space; a literal "%20")
    [shape |-> "escaped_local",
     u |-> U(<<Slot(Root, k, "a b", Conc("SP", <<>>)), Slot(Root, k, "a%20b", Conc("PC", <<>>)), Slot(Root, k, "a/b", Conc("SL", <<>>)),
               Slot(Root, k, "V", RefC(R(Root, Root, k, "a b", st))), Slot(Root, k, "W", RefC(R(Root, Root, k, "a%20b", st)))>>,
             R(Root, Root, k, "a/b", st), k)],
    [shape |-> "escaped_pct",      \* ... and in an external document
     u |-> U(<<Slot(A1, k, "a b", Conc("SP", <<>>)), Slot(A1, k, "a%20b", Conc("PC", <<>>)),
               Slot(Root, k, "V", RefC(R(Root, A1, k, "a%20b", st)))>>, R(Root, A1, k, "a b", st), k)],
    [shape |-> "escaped_missing",   \* only the "/" sibling exists: the reference to the literal "~1" name designates nothing
     u |-> U(<<Slot(A1, k, "a/b", Conc("S", <<>>))>>, R(Root, A1, k, "a~1b", st), k)],
    [shape |-> "crossdoc_local",   \* root#A -> a.json#V -> root#B -> (local) root#C, while a.json has a C of its own
     u |-> U(<<Slot(Root, k, "A", RefC(R(Root, A1, k, "V", st))), Slot(A1, k, "V", RefC(R(A1, Root, k, "B", st))),
               Slot(Root, k, "B", RefC(R(Root, Root, k, "C", st))), Slot(Root, k, "C", Conc("rootC", <<>>)),
               Slot(A1, k, "C", Conc("extC", <<>>))>>, R(Root, Root, k, "A", st), k)],
    [shape |-> "sameroot", u |-> U(<<Slot(Root, k, "X", Conc("X", <<>>))>>, R(Root, Root, k, "X", st), k)]}
   \cup
   \* a component name that differs from an existing one by case only: dangling
   {[shape |-> "nearmiss_name", u |-> U(<<Slot(A1, k, "X", Conc("X", <<>>))>>, R(Root, A1, k, "x", st), k)]}
   \cup
   \* definitions outside the typed structure of a complete document, external and local
   {[shape |-> "extdef", u |-> U(<<Slot(A1, k, DefName("T"), Conc("T", <<>>))>>, [path |-> Spell(Root, A1, st), frag |-> <<"#def", k, "T">>], k)],
    [shape |-> "rootdef", u |-> U(<<Slot(Root, k, DefName("T"), Conc("T", <<>>))>>, DefRef(k, "T"), k)],
    [shape |-> "extdef_dangling", u |-> U(<<Slot(A1, k, DefName("T"), Conc("T", <<>>))>>, [path |-> Spell(Root, A1, st), frag |-> <<"#def", k, "Missing">>], k)]}
   \cup
   \* a pointer to an inline object BELOW a component (of whatever collection holds an object of kind k)
   UNION {
     {[shape |-> "deepcomp", site |-> c.ck \o "." \o c.site,
       u |-> U(<<Slot(A1, c.ck, "Pet", ConcInl("Pet", <<>>, c.site, "In"))>>, Deep(Root, A1, c, "Pet", st), k)],
      [shape |-> "deepcomp_local", site |-> c.ck \o "." \o c.site,
       u |-> U(<<Slot(Root, c.ck, "Pet", ConcInl("Pet", <<>>, c.site, "In"))>>, Deep(Root, Root, c, "Pet", st), k)],
      [shape |-> "deepcomp_dangling", site |-> c.ck \o "." \o c.site,
       u |-> U(<<Slot(A1, c.ck, "Pet", ConcInl("Pet", <<>>, c.site, "In"))>>, Deep(Root, A1, c, "Missing", st), k)]}
     : c \in InlContainers(k)}
   \cup
   \* ... in two collections of one file that use the same component name: two distinct targets
   {[shape |-> "deepcomp_twocoll", site |-> c1.ck \o "+" \o c2.ck,
     u |-> U(<<Slot(A1, c1.ck, "Pet", ConcInl("Pet1", <<>>, c1.site, "In1")), Slot(A1, c2.ck, "Pet", ConcInl("Pet2", <<>>, c2.site, "In2")),
               Slot(Root, k, "V", RefC(Deep(Root, A1, c1, "Pet", st)))>>, Deep(Root, A1, c2, "Pet", st), k)]
    : <<c1, c2>> \in {x \in InlContainers(k) \X InlContainers(k) : x[1] # x[2] /\ x[1].site = x[2].site}}
   \cup (IF st \in {"schemeless", "https"}       \* another host, but the very path of the root document
         THEN {[shape |-> "otherhost_samepath",
                u |-> U(<<Slot(Root, k, "X", Conc("X", <<>>))>>,
                        [path |-> <<(IF st = "schemeless" THEN "//h.example<T>" ELSE "https://h.example<T>")>> \o Root, frag |-> <<k, "X">>], k)]}
         ELSE {})
   \cup  \* one external file defining the same component name in two collections
   {[shape |-> "samename_otherkind", site |-> k2,
     u |-> U(<<Slot(A1, k, "X", Conc("X", <<>>)), Slot(A1, k2, "X", Conc("X2", <<>>)),
               Slot(Root, k2, "V", RefC(R(Root, A1, k2, "X", st)))>>, R(Root, A1, k, "X", st), k)] : k2 \in Kinds \ {k}}
   \cup
   UNION {
     {[shape |-> "child", site |-> s.site,
       u |-> U(<<Slot(A1, k, "X", Conc("X", <<Ch(s.site, s.kind, R(A1, B1, s.kind, "Y", st))>>)),
                 Slot(B1, s.kind, "Y", Conc("Y", <<>>))>>, R(Root, A1, k, "X", st), k)],
      [shape |-> "childlocal", site |-> s.site,
       u |-> U(<<Slot(B1, k, "X", Conc("X", <<Ch(s.site, s.kind, R(B1, B1, s.kind, "Y", st))>>)),
                 Slot(B1, s.kind, "Y", Conc("Y", <<>>))>>, R(Root, B1, k, "X", st), k)],
      [shape |-> "childlocal_shadow", site |-> s.site,      \* the root owns a different object under the same local name
       u |-> U(<<Slot(B1, k, "X", Conc("X", <<Ch(s.site, s.kind, R(B1, B1, s.kind, "Y", st))>>)),
                 Slot(B1, s.kind, "Y", Conc("Y", <<>>)), Slot(Root, s.kind, "Y", Conc("RootY", <<>>))>>, R(Root, B1, k, "X", st), k)],
      [shape |-> "childdangling", site |-> s.site,
       u |-> U(<<Slot(A1, k, "X", Conc("X", <<Ch(s.site, s.kind, R(A1, B1, s.kind, "Missing", st))>>)),
                 Slot(B1, s.kind, "Y", Conc("Y", <<>>))>>, R(Root, A1, k, "X", st), k)],
      [shape |-> "diamond", site |-> s.site,
       u |-> U(<<Slot(A1, k, "X", Conc("X", <<Ch(s.site, s.kind, R(A1, D1, s.kind, "Z", st))>>)),
                 Slot(D1, s.kind, "Z", Conc("Z", <<>>)), Slot(Root, s.kind, "W", RefC(R(Root, D1, s.kind, "Z", "plain")))>>,
               R(Root, A1, k, "X", st), k)],
      [shape |-> "wholefile", site |-> s.site,
       u |-> U(<<Slot(W1, k, "", Conc("W", <<Ch(s.site, s.kind, R(W1, A1, s.kind, "Y", st))>>)),
                 Slot(A1, s.kind, "Y", Conc("Y", <<>>))>>, RW(Root, W1, st), k)],
      [shape |-> "backref", site |-> s.site,        \* an external object referring back into the root document
       u |-> U(<<Slot(A1, k, "X", Conc("X", <<Ch(s.site, s.kind, R(A1, Root, s.kind, "Y", st))>>)),
                 Slot(Root, s.kind, "Y", Conc("RootY", <<>>))>>, R(Root, A1, k, "X", st), k)],
      [shape |-> "collision", site |-> s.site,      \* two different files whose default internalised names coincide
       u |-> U(<<Slot(<<"r", "sub", "a.json">>, k, "X", Conc("X", <<>>)), Slot(<<"r", "sub_a.json">>, k, "X", Conc("X2", <<>>)),
                 Slot(Root, k, "V", RefC(R(Root, <<"r", "sub_a.json">>, k, "X", st)))>>, R(Root, <<"r", "sub", "a.json">>, k, "X", st), k)],
      [shape |-> "childdeep", site |-> s.site,     \* first hop into a sub-directory, the child reference relative to THAT directory
       u |-> U(<<Slot(B1, k, "X", Conc("X", <<Ch(s.site, s.kind, R(B1, C1, s.kind, "Y", st))>>)),
                 Slot(C1, s.kind, "Y", Conc("Y", <<>>))>>, R(Root, B1, k, "X", st), k)],
      [shape |-> "childdeep_whole", site |-> s.site,   \* the same with a whole-file child reference
       u |-> U(<<Slot(B1, k, "X", Conc("X", <<Ch(s.site, s.kind, RW(B1, <<"r", "sub", "deep", "wy.json">>, st))>>)),
                 Slot(<<"r", "sub", "deep", "wy.json">>, s.kind, "", Conc("WY", <<>>))>>, R(Root, B1, k, "X", st), k)],
      [shape |-> "childdangling_whole", site |-> s.site,   \* a whole-file child reference whose target does not exist beside the referring
                                                            \* file -- while a file of that name exists beside the ROOT document
       u |-> U(<<Slot(B1, k, "X", Conc("X", <<Ch(s.site, s.kind, RW(B1, <<"r", "sub", "gone.json">>, st))>>)),
                 Slot(<<"r", "gone.json">>, s.kind, "", Conc("Decoy", <<>>))>>, R(Root, B1, k, "X", st), k)],
      [shape |-> "whole_localdangling", site |-> s.site,   \* root -> b.json#X -> (whole file) w.json, whose own LOCAL reference dangles
       u |-> U(<<Slot(B1, k, "X", Conc("X", <<Ch(s.site, s.kind, RW(B1, W1, st))>>)),
                 Slot(W1, s.kind, "", Conc("W", IF Sites(s.kind) = {} THEN <<>>
                                                ELSE LET t == CHOOSE x \in Sites(s.kind) : TRUE IN <<Ch(t.site, t.kind, R(W1, W1, t.kind, "Missing", st))>>))>>,
               R(Root, B1, k, "X", st), k)],
      [shape |-> "rootchild", site |-> s.site,      \* a root component with a child site pointing out
       u |-> U(<<Slot(Root, k, "X", Conc("X", <<Ch(s.site, s.kind, R(Root, B1, s.kind, "Y", st))>>)),
                 Slot(B1, s.kind, "Y", Conc("Y", <<>>))>>, R(Root, Root, k, "X", st), k)],
      \* an external object that the root reaches FIRST through a local alias (components are walked by name: A -> #B, B -> b.json#X),
      \* with a same-document child reference of its own
      [shape |-> "localalias_childlocal", site |-> s.site,
       u |-> U(<<Slot(Root, k, "A", RefC(R(Root, Root, k, "B", st))), Slot(Root, k, "B", RefC(R(Root, B1, k, "X", st))),
                 Slot(B1, k, "X", Conc("X", <<Ch(s.site, s.kind, R(B1, B1, s.kind, "Y", st))>>)), Slot(B1, s.kind, "Y", Conc("Y", <<>>))>>,
               R(Root, Root, k, "A", st), k)],
      \* a whole-file element (in another directory than the root) whose child points at a definition of its OWN file ...
      [shape |-> "wholedef", site |-> s.site,
       u |-> U(<<Slot(W1, k, "", Conc("W", <<Ch(s.site, s.kind, DefRef(s.kind, "T"))>>)), Slot(W1, s.kind, DefName("T"), Conc("T", <<>>))>>,
               RW(Root, W1, st), k)],
      \* ... the definition being a relative reference in turn (whole-file / fragment form): relative to the element's file; a file
      \* of the same name beside the ROOT document is a decoy nobody refers to
      [shape |-> "wholedef_ref", site |-> s.site,
       u |-> U(<<Slot(W1, k, "", Conc("W", <<Ch(s.site, s.kind, DefRef(s.kind, "T"))>>)), Slot(W1, s.kind, DefName("T"), RefC(RW(W1, TY(W1), st))),
                 Slot(TY(W1), s.kind, "", Conc("TY", <<>>)), Slot(TY(Root), s.kind, "", Conc("Decoy", <<>>))>>, RW(Root, W1, st), k)],
      [shape |-> "wholedef_reffrag", site |-> s.site,
       u |-> U(<<Slot(W1, k, "", Conc("W", <<Ch(s.site, s.kind, DefRef(s.kind, "T"))>>)), Slot(W1, s.kind, DefName("T"), RefC(R(W1, B1, s.kind, "Y", st))),
                 Slot(B1, s.kind, "Y", Conc("Y", <<>>)), Slot(<<"r", "b.json">>, s.kind, "Y", Conc("Decoy", <<>>))>>, RW(Root, W1, st), k)],
      \* ... the element pulled in by an EXTERNAL document (root -> sub/b.json#X -> deep/w.json): three directories
      [shape |-> "wholedef_via", site |-> s.site,
       u |-> U(<<Slot(B1, k, "X", RefC(RW(B1, WD, st))), Slot(WD, k, "", Conc("W", <<Ch(s.site, s.kind, DefRef(s.kind, "T"))>>)),
                 Slot(WD, s.kind, DefName("T"), RefC(RW(WD, TY(WD), st))), Slot(TY(WD), s.kind, "", Conc("TY", <<>>)),
                 Slot(TY(B1), s.kind, "", Conc("Decoy1", <<>>)), Slot(TY(Root), s.kind, "", Conc("Decoy2", <<>>))>>, R(Root, B1, k, "X", st), k)]}
     \cup
     \* an external object referring back BELOW a component of the root document
     UNION {
       {[shape |-> "deepback", site |-> s.site \o ">" \o c.ck, canon |-> (c = Canon(s.kind)),
         u |-> U(<<Slot(A1, k, "X", Conc("X", <<Ch(s.site, s.kind, Deep(A1, Root, c, "Cat", st))>>)),
                   Slot(Root, c.ck, "Cat", ConcInl("Cat", <<>>, c.site, "CatIn"))>>, R(Root, A1, k, "X", st), k)],
        \* ... while the root owns a component named like the last token of that pointer
        [shape |-> "deepback_named", site |-> s.site \o ">" \o c.ck, canon |-> (c = Canon(s.kind)),
         u |-> U(<<Slot(A1, k, "X", Conc("X", <<Ch(s.site, s.kind, Deep(A1, Root, c, "Cat", st))>>)),
                   Slot(Root, c.ck, "Cat", ConcInl("Cat", <<>>, c.site, "CatIn")),
                   Slot(Root, s.kind, LastSeg(c.site), Conc("Namesake", <<>>))>>, R(Root, A1, k, "X", st), k)]}
       : c \in InlContainers(s.kind)}
     : s \in Sites(k)}
   \cup
   \* two back references below two different root components, with the same last pointer token
   {[shape |-> "deepback2", site |-> First(p).site \o "+" \o Second(p).site,
     u |-> U(<<Slot(A1, k, "X", Conc("X", <<Ch(First(p).site, First(p).kind, Deep(A1, Root, Canon(First(p).kind), "Cat", st)),
                                              Ch(Second(p).site, Second(p).kind, Deep(A1, Root, Canon(First(p).kind), "Dog", st))>>)),
               Slot(Root, Canon(First(p).kind).ck, "Cat", ConcInl("Cat", <<>>, Canon(First(p).kind).site, "CatIn")),
               Slot(Root, Canon(First(p).kind).ck, "Dog", ConcInl("Dog", <<>>, Canon(First(p).kind).site, "DogIn"))>>, R(Root, A1, k, "X", st), k)]
    : p \in {q \in SitePairs(k) : First(q).kind = Second(q).kind /\ InlContainers(First(q).kind) # {}}}
   \cup
   \* an object carrying TWO child sites at once (every compatible pair of its kind): the walk over one site must not end the walk
   \* over the object (e.g. a parameter described by `content` that also has `examples`)
   UNION {
     {[shape |-> "childpair", site |-> First(p).site \o "+" \o Second(p).site,
       u |-> U(<<Slot(A1, k, "X", Conc("X", <<Ch(First(p).site, First(p).kind, R(A1, B1, First(p).kind, "Y", st)),
                                                Ch(Second(p).site, Second(p).kind, R(A1, B1, Second(p).kind, "Z", st))>>)),
                 Slot(B1, First(p).kind, "Y", Conc("Y", <<>>)), Slot(B1, Second(p).kind, "Z", Conc("Z", <<>>))>>, R(Root, A1, k, "X", st), k)],
      [shape |-> "childpair_root", site |-> First(p).site \o "+" \o Second(p).site,     \* ... of a component of the root document
       u |-> U(<<Slot(Root, k, "X", Conc("X", <<Ch(First(p).site, First(p).kind, R(Root, B1, First(p).kind, "Y", st)),
                                                  Ch(Second(p).site, Second(p).kind, R(Root, B1, Second(p).kind, "Z", st))>>)),
                 Slot(B1, First(p).kind, "Y", Conc("Y", <<>>)), Slot(B1, Second(p).kind, "Z", Conc("Z", <<>>))>>, R(Root, Root, k, "X", st), k)],
      [shape |-> "childpair_local", site |-> First(p).site \o "+" \o Second(p).site,    \* ... with same-document child references
       u |-> U(<<Slot(B1, k, "X", Conc("X", <<Ch(First(p).site, First(p).kind, R(B1, B1, First(p).kind, "Y", st)),
                                                Ch(Second(p).site, Second(p).kind, R(B1, B1, Second(p).kind, "Z", st))>>)),
                 Slot(B1, First(p).kind, "Y", Conc("Y", <<>>)), Slot(B1, Second(p).kind, "Z", Conc("Z", <<>>))>>, R(Root, B1, k, "X", st), k)]}
     : p \in SitePairs(k)}
   \cup
   (IF k = "schemas" THEN
     \* a local reference of the root document that does NOT point into components: the body schema of one of its own paths
     {[shape |-> "pathfragment",
       u |-> U(<<Slot(Root, "pathItems", "x", Conc("PX", <<>>) @@ [inl |-> <<[site |-> "post.requestBody.schema", id |-> "PS"]>>])>>,
               [path |-> <<>>, frag |-> <<"#pathinl", "x", "post.requestBody.schema">>], k)],
      [shape |-> "pathfragment_ext",      \* the same in an external document, referred to from the root
       u |-> U(<<Slot(A1, "pathItems", "x", Conc("PX", <<>>) @@ [inl |-> <<[site |-> "post.requestBody.schema", id |-> "PS"]>>])>>,
               [path |-> Spell(Root, A1, st), frag |-> <<"#pathinl", "x", "post.requestBody.schema">>], k)]}
     \cup
     \* ... through a TEMPLATED path: spelled exactly, and by keys that are only near it (no such path: dangling)
     {[shape |-> "pathfragment_templated",
       u |-> U(<<Slot(A1, "pathItems", "u/{id}", Conc("PX", <<>>) @@ [inl |-> <<[site |-> "post.requestBody.schema", id |-> "PS"]>>])>>,
               [path |-> Spell(Root, A1, st), frag |-> <<"#pathinl", "u/{id}", "post.requestBody.schema">>], k)]}
     \cup
     {[shape |-> "pathfragment_nearmiss", site |-> nm,
       u |-> U(<<Slot(A1, "pathItems", "u/{id}", Conc("PX", <<>>) @@ [inl |-> <<[site |-> "post.requestBody.schema", id |-> "PS"]>>])>>,
               [path |-> Spell(Root, A1, st), frag |-> <<"#pathinl", nm, "post.requestBody.schema">>], k)] : nm \in NearMisses}
     \cup
     {[shape |-> "pathfragment_nearmiss_local", site |-> nm,
       u |-> U(<<Slot(Root, "pathItems", "u/{id}", Conc("PX", <<>>) @@ [inl |-> <<[site |-> "post.requestBody.schema", id |-> "PS"]>>])>>,
               [path |-> <<>>, frag |-> <<"#pathinl", nm, "post.requestBody.schema">>], k)] : nm \in NearMisses}
     \cup
     {[shape |-> "deepfragment",      \* a pointer into a non-component place of a whole-file target that is also a root component
       u |-> U(<<Slot(W1, k, "", Conc("W", <<>>) @@ [inl |-> <<[site |-> "properties", id |-> "P"]>>]),
                 Slot(Root, k, "Acc", Conc("Acc", <<Ch("properties", k, [path |-> Spell(Root, W1, st), frag |-> <<"#inl", "properties">>])>>)),
                 Slot(Root, k, "Rec", RefC(RW(Root, W1, st)))>>, R(Root, Root, k, "Acc", st), k)]}
     \cup
     {[shape |-> "wholecycle2_via",  \* whole-file schemas: page -> node -> owner -> node
       u |-> U(<<Slot(<<"r", "sub", "p.json">>, k, "", Conc("P", <<Ch("items", k, RW(<<"r", "sub", "p.json">>, <<"r", "sub", "n.json">>, st))>>)),
                 Slot(<<"r", "sub", "n.json">>, k, "", Conc("N", <<Ch("properties", k, RW(<<"r", "sub", "n.json">>, <<"r", "sub", "o.json">>, st))>>)),
                 Slot(<<"r", "sub", "o.json">>, k, "", Conc("O", <<Ch("items", k, RW(<<"r", "sub", "o.json">>, <<"r", "sub", "n.json">>, st))>>))>>,
               RW(Root, <<"r", "sub", "p.json">>, st), k)],
      [shape |-> "samename_twodirs", \* item.json beside the root and another item.json beside the file that refers to it
       u |-> U(<<Slot(Root, k, "V", RefC(RW(Root, <<"r", "item.json">>, st))), Slot(<<"r", "item.json">>, k, "", Conc("I1", <<>>)),
                 Slot(Root, k, "Acc", RefC(RW(Root, <<"r", "catalog", "list.json">>, st))),
                 Slot(<<"r", "catalog", "list.json">>, k, "", Conc("L", <<Ch("items", k, RW(<<"r", "catalog", "list.json">>, <<"r", "catalog", "item.json">>, st))>>)),
                 Slot(<<"r", "catalog", "item.json">>, k, "", Conc("I2", <<>>))>>, R(Root, Root, k, "Acc", st), k)],
      [shape |-> "wholeself2",       \* a whole-file schema referring to its own file from two places
       u |-> U(<<Slot(W1, k, "", Conc("W", <<Ch("properties", k, RW(W1, W1, st)), Ch("items", k, RW(W1, W1, st))>>))>>, RW(Root, W1, st), k)],
      [shape |-> "wholeself2_via",   \* the same, entered from another external schema
       u |-> U(<<Slot(W1, k, "", Conc("W", <<Ch("properties", k, RW(W1, W1, st)), Ch("items", k, RW(W1, W1, st))>>)),
                 Slot(A1, k, "X", Conc("X", <<Ch("items", k, RW(A1, W1, st))>>))>>, R(Root, A1, k, "X", st), k)]}
     \cup
     UNION {
      {[shape |-> "selfcycle", site |-> s.site,
        u |-> U(<<Slot(A1, k, "X", Conc("X", <<Ch(s.site, k, R(A1, A1, k, "X", st))>>))>>, R(Root, A1, k, "X", st), k)],
       [shape |-> "mutualcycle", site |-> s.site,
        u |-> U(<<Slot(A1, k, "X", Conc("X", <<Ch(s.site, k, R(A1, B1, k, "Y", st))>>)),
                  Slot(B1, k, "Y", Conc("Y", <<Ch(s.site, k, R(B1, A1, k, "X", st))>>))>>, R(Root, A1, k, "X", st), k)],
       [shape |-> "conflation", site |-> s.site,   \* the same raw ref string in the root file and in an external file
        u |-> U(<<Slot(Root, k, "A", RefC(R(Root, Root, k, "B", st))), Slot(Root, k, "B", RefC(R(Root, A1, k, "X", st))),
                  Slot(A1, k, "B", Conc("extB", <<>>)),
                  Slot(A1, k, "X", Conc("X", <<Ch(s.site, k, R(A1, A1, k, "B", st))>>))>>, R(Root, Root, k, "A", st), k)]}
      : s \in {x \in Sites(k) : x.site \in {"properties", "items", "allOf", "anyOf", "oneOf", "not", "additionalProperties"}}}
    ELSE {})
   \cup
   (IF k = "responses" THEN
     \* a pointer to the response of an operation of a path ("#/paths/~1x/post/responses/200"), and near misses of its status key
     {[shape |-> "pathfragment_resp", site |-> rs,
       u |-> U(<<Slot(A1, "pathItems", "x", Conc("PX", <<>>) @@ [inl |-> <<[site |-> "post.responses", id |-> "PR"]>>])>>,
               [path |-> Spell(Root, A1, st), frag |-> <<"#pathinl", "x", rs>>], k)] : rs \in {"post.responses", "post.responses~default", "post.responses~2XX"}}
    ELSE {})

(* reference cycles closed through a callback: its own operation declares the callback again *)
CallbackCycles(st) ==
   LET k == "callbacks" IN
   {[shape |-> "selfcycle", site |-> "post.callbacks",
     u |-> U(<<Slot(A1, k, "X", Conc("X", <<Ch("post.callbacks", k, R(A1, A1, k, "X", st))>>))>>, R(Root, A1, k, "X", st), k)],
    [shape |-> "selfcycle_root", site |-> "post.callbacks",
     u |-> U(<<Slot(Root, k, "X", Conc("X", <<Ch("post.callbacks", k, R(Root, Root, k, "X", st))>>))>>, R(Root, Root, k, "X", st), k)],
    [shape |-> "mutualcycle", site |-> "post.callbacks",
     u |-> U(<<Slot(A1, k, "X", Conc("X", <<Ch("post.callbacks", k, R(A1, B1, k, "Y", st))>>)),
               Slot(B1, k, "Y", Conc("Y", <<Ch("post.callbacks", k, R(B1, A1, k, "X", st))>>))>>, R(Root, A1, k, "X", st), k)]}

(* Path items: not a component kind (OpenAPI 3.0 has no components.pathItems) but referenceable:   *)
(* a path of the root document is {"$ref": ...} to a whole file holding a bare path item or to      *)
(* "#/paths/~1<name>" of another document.  Slot kind "pathItems", name = the path without "/".     *)
PI == "pathItems"
PathItemShapes(st) ==
   {[shape |-> "pi_direct", u |-> U(<<Slot(A1, PI, "x", Conc("X", <<>>))>>, R(Root, A1, PI, "x", st), PI)],
    [shape |-> "pi_wholefile_plain", u |-> U(<<Slot(W1, PI, "", Conc("W", <<>>))>>, RW(Root, W1, st), PI)],
    \* a path of the root document that is a reference to ANOTHER path of the same document (a local reference that does
    \* not point into components)
    [shape |-> "pi_local", u |-> U(<<Slot(Root, PI, "x", Conc("X", <<>>))>>, R(Root, Root, PI, "x", st), PI)],
    [shape |-> "pi_dangling", u |-> U(<<Slot(A1, PI, "x", Conc("X", <<>>))>>, R(Root, A1, PI, "missing", st), PI)],
    [shape |-> "pi_danglingfile", u |-> U(<<Slot(A1, PI, "x", Conc("X", <<>>))>>, RW(Root, C1, st), PI)]}
   \cup UNION {
     {[shape |-> "pi_wholefile", site |-> s.site,
       u |-> U(<<Slot(W1, PI, "", Conc("W", <<Ch(s.site, s.kind, R(W1, A1, s.kind, "Y", st))>>)), Slot(A1, s.kind, "Y", Conc("Y", <<>>))>>,
               RW(Root, W1, st), PI)],
      [shape |-> "pi_child", site |-> s.site,
       u |-> U(<<Slot(A1, PI, "x", Conc("X", <<Ch(s.site, s.kind, R(A1, B1, s.kind, "Y", st))>>)), Slot(B1, s.kind, "Y", Conc("Y", <<>>))>>,
               R(Root, A1, PI, "x", st), PI)],
      [shape |-> "pi_childlocal", site |-> s.site,
       u |-> U(<<Slot(B1, PI, "x", Conc("X", <<Ch(s.site, s.kind, R(B1, B1, s.kind, "Y", st))>>)), Slot(B1, s.kind, "Y", Conc("Y", <<>>))>>,
               R(Root, B1, PI, "x", st), PI)],
      [shape |-> "pi_backref", site |-> s.site,
       u |-> U(<<Slot(A1, PI, "x", Conc("X", <<Ch(s.site, s.kind, R(A1, Root, s.kind, "Y", st))>>)), Slot(Root, s.kind, "Y", Conc("RootY", <<>>))>>,
               R(Root, A1, PI, "x", st), PI)]}
     : s \in Sites(PI)}
   \cup {[shape |-> "pi_templated", u |-> U(<<Slot(A1, PI, "u/{id}", Conc("X", <<>>))>>, R(Root, A1, PI, "u/{id}", st), PI)],
          [shape |-> "pi_templated_local", u |-> U(<<Slot(Root, PI, "u/{id}", Conc("X", <<>>))>>, R(Root, Root, PI, "u/{id}", st), PI)]}
   \cup UNION {{[shape |-> "pi_nearmiss", site |-> nm, u |-> U(<<Slot(A1, PI, "u/{id}", Conc("X", <<>>))>>, R(Root, A1, PI, nm, st), PI)],
                 [shape |-> "pi_nearmiss_local", site |-> nm, u |-> U(<<Slot(Root, PI, "u/{id}", Conc("X", <<>>))>>, R(Root, Root, PI, nm, st), PI)]}
                : nm \in NearMisses}
   \cup {[shape |-> "pi_childpair", site |-> First(p).site \o "+" \o Second(p).site,
           u |-> U(<<Slot(A1, PI, "x", Conc("X", <<Ch(First(p).site, First(p).kind, R(A1, B1, First(p).kind, "Y", st)),
                                                     Ch(Second(p).site, Second(p).kind, R(A1, B1, Second(p).kind, "Z", st))>>)),
                     Slot(B1, First(p).kind, "Y", Conc("Y", <<>>)), Slot(B1, Second(p).kind, "Z", Conc("Z", <<>>))>>, R(Root, A1, PI, "x", st), PI)]
          : p \in SitePairs(PI)}

(* file_rel_default: relative LoadFromFile through the library's default (caching) reader; the   *)
(* universes of a run are loaded one after the other in one process, each from its own directory  *)
(* uri_remote: LoadFromURI of https://root.example/r/openapi.json; the reader serves that host     *)
(* from the universe's files, so a relative reference must be asked for at that host again        *)
(* file_abs_reuse: the Loader first fails to load a copy of the root document placed where none of  *)
(* the external files exist, then loads the real one: a used Loader must behave like a fresh one    *)
(* data / reader: LoadFromData / LoadFromIoReader -- the document has no location of its own and     *)
(* relative references resolve against the working directory (the harness stands in the root's dir) *)
(* file_abs_prior: the Loader has first loaded, as a root document of its own, every external file of the    *)
(* universe (successfully or not); what a Loader has seen before gives the next load no licence to read it *)
(* resolvein: the document is unmarshalled by the caller and handed to Loader.ResolveRefsIn with its location (the entry point for an  *)
(* already parsed document) -- on a fresh Loader                                                                                      *)
(* Histories of one Loader with the external-reference switch CHANGED between two uses (the second use is the one judged, with the     *)
(* setting `allow` of the case; the first use ran with the opposite setting):                                                          *)
(*   file_abs_toggled / resolvein_toggled: first a reference-free document at another location is loaded, then the switch is flipped,  *)
(*     then LoadFromFile / ResolveRefsIn of the universe's root: the setting in force is the one at the time of the use                *)
(*   file_abs_retry / resolvein_retry: first THE SAME root is loaded with external references disallowed (which fails wherever the     *)
(*     universe needs another file), then they are allowed and the root is loaded again: a failed attempt leaves nothing behind.       *)
(*     (Only this direction: whether a Loader that has resolved a document with the switch on may hand the same document out again     *)
(*     after the switch is turned off -- reading nothing -- is left open by the statement of C11, so allow = FALSE is not generated.)   *)
HistoryEntries == {"resolvein", "file_abs_toggled", "resolvein_toggled", "file_abs_retry", "resolvein_retry"}
Entries == {"file_abs", "file_rel", "datapath", "file_rel_default", "uri_remote", "file_abs_reuse", "file_abs_prior", "data", "reader"} \cup HistoryEntries

Heavy == {"deepback", "deepback_named", "wholedef", "wholedef_ref", "wholedef_reffrag", "wholedef_via"}      \* (shape families with many members: sliced by clauses of their own)
QuickSlice(sh, st, e, pos) ==
   \/ (st \in {"plain", "abspath", "http"} /\ e = "file_abs" /\ sh.shape \notin Heavy)
   \/ (sh.shape \in {"deepback", "deepback_named"} /\ sh.canon /\ st = "plain" /\ e = "file_abs" /\ pos = "op")
   \/ (sh.shape \in {"wholedef", "wholedef_ref", "wholedef_reffrag", "wholedef_via"} /\ st = "plain" /\ e = "file_abs" /\ pos = "op")
   \/ (sh.shape = "wholedef_ref" /\ st = "plain" /\ e \in {"file_rel", "uri_remote"} /\ pos = "op" /\ sh.site \in {"properties", "schema", "content.schema", "headers"})
   \/ (sh.shape \in {"direct", "chain3", "child", "wholefile"} /\ st = "plain" /\ e \in {"resolvein", "file_abs_toggled", "resolvein_toggled"} /\ pos = "op")
   \/ (sh.shape \in {"direct", "child", "sameroot"} /\ st = "plain" /\ e \in {"file_abs_retry", "resolvein_retry"} /\ pos = "op")
   \/ (sh.shape = "localalias_childlocal" /\ st = "plain" /\ e = "data" /\ pos = "op")
   \/ (sh.shape \in {"deepcomp_local", "rootdef", "pi_nearmiss_local", "pathfragment_nearmiss_local"} /\ st = "plain" /\ e = "data")
   \/ (st \in AbsStyles /\ sh.shape \in {"direct", "child", "wholefile"} /\ e = "datapath" /\ pos = "op")
   \/ sh.shape = "otherhost_samepath"
   \/ (sh.shape \in {"collection", "collection_local"} /\ st = "plain" /\ e \in {"file_abs", "data"})
   \/ (pos = "op2" /\ st = "plain" /\ e = "file_abs")
   \/ (sh.shape \in {"selfcycle", "selfcycle_root", "mutualcycle"} /\ sh.u.use.kind = "callbacks" /\ st = "plain" /\ e \in {"file_abs", "data"})
   \/ (sh.shape = "whole_localdangling" /\ st = "plain" /\ e \in {"file_abs", "uri_remote", "file_abs_reuse"} /\ pos = "op")
   \/ (sh.shape \in {"escaped_local", "escaped_pct"} /\ st = "plain" /\ e \in {"file_abs", "data"})
   \/ (sh.shape \in {"pathfragment", "pathfragment_ext"} /\ st = "plain" /\ e \in {"file_abs", "data"})
   \/ (sh.shape = "pi_local" /\ st = "plain" /\ e \in {"file_abs", "data"})
   \/ (sh.shape = "childdangling_whole" /\ st = "plain" /\ e \in {"file_abs", "file_rel"} /\ pos = "op")
   \/ (sh.shape = "samepath_twohosts" /\ st = "plain" /\ e \in {"file_abs", "uri_remote", "datapath"})
   \/ (sh.shape = "deepfragment" /\ e \in {"file_abs", "file_rel"})
   \/ (sh.shape \in {"childpair", "childpair_root", "childpair_local", "pi_childpair"} /\ st = "plain" /\ e = "file_abs" /\ pos = "op")
   \/ (sh.shape \in {"child", "chain3", "diamond"} /\ e = "file_abs" /\ pos = "op")
   \/ (sh.shape \in {"direct", "child", "pi_direct", "pi_wholefile", "pi_child"} /\ st = "plain" /\ pos = "op")
   \/ (sh.shape \in {"direct", "chain3", "wholefile"} /\ e = "file_rel_default" /\ pos = "op")
   \/ (sh.shape \in {"direct", "chain3", "wholefile", "child", "diamond", "selfcycle", "crossdoc_local"} /\ e = "file_abs_reuse" /\ st = "plain")
   \/ (sh.shape \in {"direct", "chain2", "chain3", "child", "diamond", "backref"} /\ e = "file_abs_prior" /\ st \in {"plain", "abspath"})
   \/ (sh.shape \in {"direct", "chain3", "wholefile", "child", "childdeep", "selfcycle", "sameroot", "dangling"} /\ e \in {"data", "reader"} /\ st \in {"plain", "abspath"})
   \/ (sh.shape \in {"direct", "chain3", "wholefile", "child", "backref"} /\ e = "uri_remote" /\ st \in {"plain", "updown"} /\ pos = "op")

(* thorough: the full product for the shapes of rounds 1-5; the large families added in round 6 and the Loader histories are    *)
(* combined with the entry points that differ in how locations are formed, not with every one of the fourteen                    *)
NewFamilies == Heavy \cup {"localalias_childlocal", "childpair", "childpair_root", "childpair_local", "pi_childpair", "deepback2"}
ThoroughSlice(sh, st, e, pos) ==
   /\ (sh.shape \in NewFamilies => e \in {"file_abs", "file_rel", "datapath", "data", "uri_remote"})
   /\ (sh.shape \in NewFamilies /\ st \notin RelStyles => e = "file_abs")
   /\ (sh.shape \in {"deepback", "deepback_named"} /\ ~sh.canon => st = "plain" /\ e \in {"file_abs", "data"})
   /\ (e \in HistoryEntries => st = "plain" /\ sh.shape \notin NewFamilies
                                /\ sh.shape \notin {"samename_otherkind", "collision", "childlocal_shadow", "childdangling_whole", "whole_localdangling", "childdeep_whole"})

CONSTANT Allows      \* settings of IsExternalRefsAllowed to generate
VARIABLE case
(* pos: where the root makes its reference: in an operation ("op"), as a component of its own ("comp"), or in TWO  *)
(* operations at once ("op2": the same reference text twice; both must end up at the same object)                  *)
Init == \E k \in Kinds \cup {PI}, st \in Styles, e \in Entries, pos \in {"op", "comp", "op2"}, al \in Allows :
          \E sh \in (IF k = PI THEN PathItemShapes(st) ELSE Shapes(k, st) \cup (IF k = "callbacks" THEN CallbackCycles(st) ELSE {})) :
             /\ (k = PI => pos = "op")
             /\ (pos = "op2" => sh.shape \in {"direct", "chain3", "child", "childlocal", "wholefile", "selfcycle", "backref"} /\ e \in {"file_abs", "file_rel"})
             /\ (Tier = "quick" => QuickSlice(sh, st, e, pos))
             /\ (Tier = "thorough" => ThoroughSlice(sh, st, e, pos))
             /\ (e = "uri_remote" => st \in RelStyles)
             /\ (e \in {"file_abs_retry", "resolvein_retry"} => al)
             /\ (e \in HistoryEntries => st \in RelStyles \cup {"abspath"} /\ pos # "op2")
             /\ (sh.shape = "samepath_twohosts" => e # "file_rel_default")      \* the library's default reader cannot be made to serve a second host
             /\ (k = "securitySchemes" => pos = "comp")        \* security schemes are referenced by name, not by $ref
             /\ case = [kind |-> k, style |-> st, entry |-> e, pos |-> pos, shape |-> sh.shape,
                        site |-> (IF "site" \in DOMAIN sh THEN sh.site ELSE "-"), u |-> sh.u, allow |-> al]
Next == UNCHANGED case
Spec == Init /\ [][Next]_case

(* what the realiser needs: for every slot its file as text and content; for every ref its text *)
RECURSIVE JoinSlashG(_)
JoinSlashG(p) == IF p = <<>> THEN "" ELSE IF Len(p) = 1 THEN p[1] ELSE p[1] \o "/" \o JoinSlashG(Tail(p))
RenderContent(c) == IF IsConcrete(c)
                    THEN [id |-> c.id, ch |-> [j \in DOMAIN c.ch |-> [site |-> c.ch[j].site, kind |-> c.ch[j].kind, ref |-> RefText(c.ch[j].ref)]],
                          inl |-> (IF "inl" \in DOMAIN c THEN c.inl ELSE <<>>)]
                    ELSE [ref |-> RefText(c.ref)]
Render(cs) ==
   cs @@ [files |-> [i \in DOMAIN cs.u.slots |->
                        [file |-> JoinSlashG(cs.u.slots[i].file), kind |-> cs.u.slots[i].kind, name |-> cs.u.slots[i].name,
                         c |-> RenderContent(cs.u.slots[i].c)]],
          useText |-> RefText(cs.u.use.ref)]

Emit == CSVWrite("%1$s", <<ToJson(Render(case))>>, "cases.ndjson")
=============================================================================
