------------------------------- MODULE MC_C02 -------------------------------
(* D-check for C02 on every universe of Gen_C02 (no code involved): the implementation-    *)
(* shaped resolver model LoaderImpl agrees with the contract Layout!Designated at every    *)
(* reference site the loader has to resolve, except exactly in the three listed classes    *)
(* (the same raw ref string in two files while one is in progress; cycles made only of     *)
(* references; and, for the pinned resolver before the repairs, positions never visited).  *)
EXTENDS Gen_C02, LoaderImpl

(* the resolver model does not depend on the load entry point: one entry stands for all *)
MCInit == Init /\ case.entry = "file_abs"
MCSpec == MCInit /\ [][Next]_case

U0 == case.u
Pos == IF case.pos = "op2" THEN "op" ELSE case.pos

SiteKeys ==
   {<<"use">>}
   \cup {<<"root", U0.slots[i].kind, U0.slots[i].name>> : i \in {i \in DOMAIN U0.slots : U0.slots[i].file = Root /\ ~IsConcrete(U0.slots[i].c)}}
   \cup UNION {{<<"child", i, j>> : j \in DOMAIN U0.slots[i].c.ch} : i \in {i \in Reached(U0) : IsConcrete(U0.slots[i].c)}}

L1Of(key) ==
   LET d == CASE key[1] = "use" -> UseTarget(U0)
              [] key[1] = "root" -> LET i == SlotAt(U0, Root, key[2], key[3]) IN Designated(U0, Root, U0.slots[i].c.ref, key[2])
              [] key[1] = "child" -> LET c == U0.slots[key[2]].c.ch[key[3]] IN Designated(U0, U0.slots[key[2]].file, c.ref, c.kind)
   IN IF "id" \in DOMAIN d THEN d.id ELSE d.fail

RefOf(key) == CASE key[1] = "use" -> U0.use.ref
                [] key[1] = "root" -> U0.slots[SlotAt(U0, Root, key[2], key[3])].c.ref
                [] key[1] = "child" -> U0.slots[key[2]].c.ch[key[3]].ref
FileOfKey(key) == IF key[1] = "child" THEN U0.slots[key[2]].file ELSE Root
KindOfKey(key) == CASE key[1] = "use" -> U0.use.kind [] key[1] = "root" -> key[2] [] key[1] = "child" -> U0.slots[key[2]].c.ch[key[3]].kind

L2Of(key) == LET m == Load(U0, Pos) IN
             IF key \in DOMAIN m /\ m[key].v = -1 THEN "error" ELSE PredictedId(U0, Pos, key)

AllRefSites == {[file |-> Root, ref |-> U0.use.ref]}
               \cup UNION {IF IsConcrete(U0.slots[i].c)
                           THEN {[file |-> U0.slots[i].file, ref |-> U0.slots[i].c.ch[j].ref] : j \in DOMAIN U0.slots[i].c.ch}
                           ELSE {[file |-> U0.slots[i].file, ref |-> U0.slots[i].c.ref]} : i \in DOMAIN U0.slots}

NeverVisited(key) ==
   \/ ~LoaderVisitsAll /\ KindOfKey(key) = "links" /\ key[1] \in {"root"}
   \/ (~LoaderVisitsAll /\ key[1] = "use" /\ Pos = "comp" /\ U0.use.kind = "links")
   \/ (key[1] = "child" /\ UnvisitedSite(U0.slots[key[2]].kind, U0.slots[key[2]].c.ch[key[3]].site))
SameTextTwoFiles(key) ==
   \E a, b \in AllRefSites : a.file # b.file /\ RefText(a.ref) = RefText(RefOf(key)) /\ RefText(b.ref) = RefText(RefOf(key))

(* a site below something the walk never reached is itself never resolved *)
Agrees(key) ==
   LET l1 == L1Of(key)  l2 == L2Of(key) IN
   \/ l2 = l1
   \/ (l1 \in {"dangling", "wrongkind", "brokenfile"} /\ l2 = "error")
   \/ (l1 = "cycle" /\ l2 = "nil")                     \* F-C02-3
   \/ NeverVisited(key)                                \* F-C02-1
   \/ SameTextTwoFiles(key)                            \* F-C02-2
   \/ (l2 = "nil" /\ LoadFails(U0, Pos))               \* loading stopped before reaching the site
   \/ (l2 = "nil" /\ \E k2 \in SiteKeys : k2 # key /\ (NeverVisited(k2) \/ L1Of(k2) = "cycle"))   \* below an unresolved site

L2vsL1 == \A key \in SiteKeys : Agrees(key)

(* non-vacuity: on universes without any listed trigger the model must agree exactly ...        *)
Clean == /\ case.shape \notin {"conflation", "refcycle"}
         /\ \A key \in SiteKeys : ~NeverVisited(key) /\ ~SameTextTwoFiles(key)
StrictOnClean == Clean => \A key \in SiteKeys :
                    LET l1 == L1Of(key)  l2 == L2Of(key) IN
                    l2 = l1 \/ (l1 \in {"dangling", "wrongkind", "brokenfile"} /\ l2 = "error") \/ (l2 = "nil" /\ LoadFails(U0, Pos))
(* ... and on the conflation universes it must reproduce the defect: some site resolves to a     *)
(* concrete object other than the designated one                                                 *)
ReproducesConflation == case.shape = "conflation" =>
                           \E key \in SiteKeys : L2Of(key) \notin {L1Of(key), "nil", "error"}
(* pinned resolver (LoaderVisitsAll = FALSE) only: this must be violated -- the old walk did skip positions *)
VisitsEverything == \A key \in SiteKeys : ~NeverVisited(key)
ReproducesPureCycle == case.shape = "refcycle" => (~LoadFails(U0, Pos) /\ L2Of(<<"use">>) = "nil")
=============================================================================
