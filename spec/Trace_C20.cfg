SPECIFICATION TSpec
CONSTANTS NNodes = 1
 MaxMut = 1
 PairStride = 1
 LexStride = 1
 Seed = 1
 SparseNodes = 1
 SparseOps = {}
INVARIANTS Judge
POSTCONDITION AllConsumed
CHECK_DEADLOCK FALSE
