SPECIFICATION Spec
CONSTANTS MaxDepth = 0
          MaxNest = 0
          MaxPos2 = 0
          Pos2Tail = 1
          DeepMethods = {"get"}
          ShallowBelow = 1
          CbBelow = 1
          AuxDepth = 0
          Lean = TRUE
          Repaired = {}
INVARIANTS DAndEmit EmitOpts
CHECK_DEADLOCK FALSE
