SPECIFICATION Spec
CONSTANTS MaxDepth = 0
          MaxNest = 0
          MaxPos2 = 0
          Pos2Tail = 1
          DeepMethods = {"get"}
          ShallowBelow = 1
          CbBelow = 1
          AuxDepth = 0
          Lean = TRUE
          Repaired = {7, 9, 10}
INVARIANTS DAndEmit EmitOpts
CHECK_DEADLOCK FALSE
