SPECIFICATION Spec
CONSTANTS MaxDepth = 0
          MaxNest = 0
          MaxPos2 = 0
          Pos2Tail = 1
          DeepMethods = {"get"}
          ShallowBelow = 1
          CbBelow = 1
          AuxDepth = 0
          Lean = TRUE
          Repaired = {1, 2, 4, 5, 7, 9, 10, 11, 12, 13, 14, 16}
INVARIANTS DAndEmit EmitOpts
CHECK_DEADLOCK FALSE
