SPECIFICATION Spec
CONSTANTS K = 1
          KO = 0
          SK = 0
          W = 1
          Ext = TRUE
          ValSet = "ext"
INVARIANTS Emit EmitVals
CHECK_DEADLOCK FALSE
