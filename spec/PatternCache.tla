----------------------------- MODULE PatternCache -----------------------------
(***************************************************************************)
(* C01, the state the property's anchors name: the process-wide compiled   *)
(* pattern cache (openapi3/schema.go compiledPatterns, consulted by         *)
(* visitJSONString before compiling; filled by compilePattern) and the      *)
(* regex engine a caller may supply per validation (SetSchemaRegexCompiler, *)
(* SetRegexCompiler for document validation).                               *)
(*                                                                          *)
(* L1 (contract): the verdict of a validation is a function of (schema,     *)
(* value, engine of THIS call) -- never of what was validated before in the *)
(* same process.                                                            *)
(* L2 (implementation-shaped): a cache keyed by the pattern TEXT only,      *)
(* looked up before compiling; what is stored depends on Policy:            *)
(*   "never"      -- the pinned code: CompareAndSwap(pattern, nil, cp) on   *)
(*                   an absent sync.Map key stores nothing                  *)
(*   "on_success" -- LoadOrStore after a successful compile                 *)
(*   "always"     -- Store before the error check (a typed-nil matcher is   *)
(*                   cached for an uncompilable pattern)                    *)
(* TLC checks L2 => L1 over all histories of <= MaxSteps validations.       *)
(***************************************************************************)
EXTENDS Naturals, Sequences, FiniteSets, TLC

CONSTANTS Policy, MaxSteps

Patterns == {"^a", "^A", "(?!x)a"}             \* the third is not an RE2 expression
Engines  == {"re2", "ci", "any"}               \* default; caller-supplied case-insensitive; caller-supplied "compiles and matches everything"
Values   == {"a", "A", "b"}
Kinds    == {"visit", "docvalidate"}           \* Schema.VisitJSON(value, engine) ; T.Validate(ctx, engine) of a document holding the schema

Compiles(e, p) == e = "any" \/ p # "(?!x)a"
Match(e, p, v) == CASE e = "any" -> TRUE
                    [] e = "re2" -> (p = "^a" /\ v = "a") \/ (p = "^A" /\ v = "A")
                    [] e = "ci"  -> p \in {"^a", "^A"} /\ v \in {"a", "A"}

(* L1: what one call must report, whatever happened before *)
L1(st) == IF ~Compiles(st.e, st.p) THEN "error"
          ELSE IF st.kind = "docvalidate" THEN "ok"
          ELSE IF Match(st.e, st.p, st.v) THEN "accept" ELSE "reject"

VARIABLES cache, hist
vars == <<cache, hist>>

Init == cache = [p \in Patterns |-> "none"] /\ hist = <<>>

Stored(p, e) == CASE Policy = "never" -> "none"
                  [] Policy = "on_success" -> IF Compiles(e, p) THEN e ELSE "none"
                  [] Policy = "always" -> IF Compiles(e, p) THEN e ELSE "nilmatcher"

(* visitJSONString: load from the cache; compile (and maybe store) only when nothing is cached *)
Visit(p, v, e) ==
   LET m == IF cache[p] # "none" THEN cache[p] ELSE IF Compiles(e, p) THEN e ELSE "fail"
       obs == CASE m = "nilmatcher" -> "panic" [] m = "fail" -> "error"
                [] OTHER -> IF Match(m, p, v) THEN "accept" ELSE "reject" IN
   /\ cache' = IF cache[p] = "none" THEN [cache EXCEPT ![p] = Stored(p, e)] ELSE cache
   /\ hist' = Append(hist, [kind |-> "visit", p |-> p, v |-> v, e |-> e, obs |-> obs])

(* Schema.validate of a string-typed schema: compilePattern unconditionally *)
DocValidate(p, e) ==
   /\ cache' = [cache EXCEPT ![p] = IF Stored(p, e) = "none" THEN @ ELSE IF Policy = "on_success" /\ @ # "none" THEN @ ELSE Stored(p, e)]
   /\ hist' = Append(hist, [kind |-> "docvalidate", p |-> p, v |-> "a", e |-> e,
                            obs |-> IF Compiles(e, p) THEN "ok" ELSE "error"])

Next == /\ Len(hist) < MaxSteps
        /\ \E p \in Patterns, e \in Engines : (\E v \in Values : Visit(p, v, e)) \/ DocValidate(p, e)
Spec == Init /\ [][Next]_vars

HistoryIndependent == \A i \in DOMAIN hist : hist[i].obs = L1(hist[i])
=============================================================================
