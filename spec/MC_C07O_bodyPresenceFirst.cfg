SPECIFICATION Spec
CONSTANT Variant = "bodyPresenceFirst"
INVARIANT ResultIsContract
CHECK_DEADLOCK FALSE
