SPECIFICATION Spec
CONSTANTS W = 2
          WS = 1
          Deep = {"int8", "N1"}
          OptSet = {"default", "useall", "export", "exporttop", "tng", "tng_export", "tng_exporttop", "throw", "custom"}
          Reps = 20
          RepW = 0
          Which = "all"
          MutualFull = FALSE
INVARIANTS Emit EmitPoints
CHECK_DEADLOCK FALSE
