SPECIFICATION Spec
CONSTANTS W = 2
          WS = 2
          Deep = {"bool", "int", "int8", "int16", "int32", "int64", "uint", "uint8", "uint16", "uint32", "uint64",
                  "float32", "float64", "string", "bytes", "time",
                  "N1", "N2", "RPtr", "RPtrOE", "RSlice", "RPSlice", "RMap", "RMapV", "MA", "MB", "EA", "EB", "RSS"}
          OptSet = {"default", "useall", "export", "exporttop", "useall_export", "tng", "tng_export", "tng_exporttop", "throw", "custom"}
          Reps = 1
          RepW = 0
          Which = "all"
          MutualFull = TRUE
          Repaired = {8, 9, 11}
INVARIANTS L2SoundModulo
CHECK_DEADLOCK FALSE
