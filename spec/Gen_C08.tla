------------------------------- MODULE Gen_C08 -------------------------------
EXTENDS HeaderUniverse, Json, CSV, SequencesExt

Keys == {"200", "201", "302", "404", "2XX", "3XX", "4XX", "default"}
Statuses == {0, 100, 200, 201, 204, 300, 301, 302, 303, 304, 307, 308, 404, 500, 600}
(* the thorough tier (Gen_C08_thorough.cfg overrides Keys / Statuses): every class pattern, the bounds of every class *)
KeysThorough == {"200", "201", "302", "404", "500", "1XX", "2XX", "3XX", "4XX", "5XX", "default"}
StatusesThorough == {0, 99, 100, 199, 200, 201, 204, 299, 300, 301, 302, 303, 304, 307, 308, 400, 404, 499, 500, 501, 599, 600}
KeySets == {ks \in SUBSET Keys : Cardinality(ks) >= 1 /\ Cardinality(ks) <= 3}

S(cs) == Str(cs)
O(k, v) == Obj(k, v)
JsonBodies == { O(<<"q">>, <<Num(4)>>), O(<<"q">>, <<S(<<"x">>)>>), O(<<"q", "w">>, <<Num(4), S(<<"s">>)>>),
                O(<<"q", "r">>, <<Num(4), S(<<"s">>)>>), O(<<>>, <<>>), Arr(<<Num(4)>>) }
TextBodies == { S(<<"a">>), S(<<"a", "b", "c">>) }
(* bytes that are not the encoding of any JSON value *)
RawBodies == { [t |-> "raw", s |-> "{\"q\":"], [t |-> "raw", s |-> ""] }       \* truncated; no bytes at all

CTs == { [absent |-> TRUE], Json, MT("application", "json", "charset=utf-8"), MT("text", "plain", ""),
         MT("application", "problem+json", "") }      \* a structured-suffix type is a media type of its own

(* part "media": declared `content` keys with and without parameters, media ranges; Content-Types with declared, undeclared *)
(* and no parameters.  The key and the header are spelled alike (Render).  Left open, not generated: no Content-Type at all  *)
(* while */* is declared (nothing says how to decode such a body).                                                          *)
JsonUtf8 == MT("application", "json", "charset=utf-8")
ProblemUtf8 == MT("application", "problem+json", "charset=utf-8")
MediaKeys == {Json, JsonUtf8, MT("application", "problem+json", ""), ProblemUtf8, MT("application", "*", ""), MT("*", "*", "")}
MediaCTs == {[absent |-> TRUE], Json, JsonUtf8, MT("application", "json", "charset=ascii"), MT("application", "problem+json", ""), ProblemUtf8}
MediaSets == {ds \in SUBSET MediaKeys : Cardinality(ds) >= 1 /\ Cardinality(ds) <= 3}

VARIABLE case
Init ==
   \/ \E ks \in KeySets, st \in Statuses, m \in {"GET", "HEAD"}, inc \in BOOLEAN, bk \in Keys :
        /\ bk \in ks                                   \* the body carries the marker of a declared entry
        /\ case = [part |-> "pick", keys |-> SetToSortSeq(ks, LAMBDA a, b : TRUE), status |-> st, method |-> m,
                   includeStatus |-> inc, bodyKey |-> bk]
   \* options and header rules crossed with the selection: see ResponseCheck!PickAccepts
   \/ \E ks \in KeySets, st \in {200, 204, 304, 404, 500, 600}, m \in {"GET", "HEAD"}, inc \in BOOLEAN, bk \in Keys, pv \in {"xb", "reqhdr"} :
        /\ bk \in ks /\ Cardinality(ks) <= 2
        /\ case = [part |-> "pick", keys |-> SetToSortSeq(ks, LAMBDA a, b : TRUE), status |-> st, method |-> m,
                   includeStatus |-> inc, bodyKey |-> bk, pv |-> pv]
   \/ \E hd \in {"objExp", "objNoExp"}, hv \in {"absent", "5", "abc", "1,2", "a=1,b=2", "a=1,b=9", "b=2", "a,1,b,2", "a,1,b,9", "b,2"},
         mu \in BOOLEAN, ct \in {Json} :
        case = [part |-> "def", hd |-> hd, hv |-> hv, decl |-> "json", ct |-> ct, req |-> "qw", ctText |-> Render(ct),
                body |-> O(<<"q", "w">>, <<Num(4), S(<<"s">>)>>), excludeBody |-> FALSE, excludeWO |-> TRUE, multi |-> mu]
   \/ \E hd \in {"none", "intReq", "intOpt", "arrOpt", "arrMax1", "contentReq", "contentOpt"}, hv \in {"absent", "5", "abc", "1,2"},
         d \in {"none", "json", "jsonNoSchema", "text", "wild", "jsonAndText", "any"}, ct \in CTs,
         b \in JsonBodies \cup TextBodies \cup RawBodies, xb \in BOOLEAN, xw \in BOOLEAN, mu \in BOOLEAN, rq \in {"qw", "qrw"} :
        /\ (hd = "none" => hv = "absent")
        /\ (b \in TextBodies <=> ("ty" \in DOMAIN ct /\ ct.ty = "text"))   \* the body is written in the content type it claims
        /\ ("absent" \in DOMAIN ct => b = O(<<"q">>, <<Num(4)>>))
        /\ (d = "any" => (hd = "none" /\ "ty" \in DOMAIN ct))   \* */* declared; without a Content-Type there is no decoder to pick: left open
        /\ (rq = "qrw" => (hd = "none" /\ d \in {"json", "wild"}))        \* the second schema only where the body schema is what decides
        /\ (b \in RawBodies => (hd = "none" /\ "ty" \in DOMAIN ct /\ ct.ty = "application"))
        /\ case = [part |-> "def", hd |-> hd, hv |-> hv, decl |-> d, ct |-> ct, req |-> rq,
                   ctText |-> (IF "absent" \in DOMAIN ct THEN "" ELSE Render(ct)), body |-> b,
                   excludeBody |-> xb, excludeWO |-> xw, multi |-> mu]
   \* the body schema behind a composition keyword or one level down (items, a property)
   \/ \E w \in {"anyOf", "oneOf", "allOf", "items", "itemsAnyOf", "prop"}, b \in JsonBodies, xw \in BOOLEAN, mu \in BOOLEAN, rq \in {"qw", "qrw"} :
        case = [part |-> "def", hd |-> "none", hv |-> "absent", decl |-> "json", ct |-> Json, req |-> rq, ctText |-> Render(Json),
                wrap |-> w, body |-> (CASE w \in {"items", "itemsAnyOf"} -> Arr(<<b>>) [] w = "prop" -> O(<<"in">>, <<b>>) [] OTHER -> b),
                excludeBody |-> FALSE, excludeWO |-> xw, multi |-> mu]
   \* part "hdr": declared headers with schemas of every kind x texts (empty, partly empty, ill-typed, conforming), see HeaderUniverse
   \/ \E h \in OneHeader, mu \in BOOLEAN, bd \in {<<"none", FALSE>>, <<"json", FALSE>>, <<"json", TRUE>>} :
        /\ OneHeaderOK(h)
        /\ case = [part |-> "hdr", hdrs |-> <<h>>, extra |-> FALSE, decl |-> bd[1], ct |-> Json, req |-> "qw", ctText |-> Render(Json),
                   body |-> O(<<"q">>, <<Num(4)>>), excludeBody |-> bd[2], excludeWO |-> FALSE, multi |-> mu]
   \* the same definitions reached through $ref (components.responses -> components.headers -> components.schemas), and a
   \* validation input without Options (nil: every option off)
   \/ \E h \in OneHeader, vr \in {"ref", "nilopts"} :
        /\ OneHeaderOK(h)
        /\ case = [part |-> "hdr", hdrs |-> <<h>>, extra |-> FALSE, decl |-> "json", ct |-> Json, req |-> "qw", ctText |-> Render(Json),
                   body |-> O(<<"q">>, <<Num(4)>>), excludeBody |-> FALSE, excludeWO |-> FALSE, multi |-> FALSE, variant |-> vr]
   \/ \E b \in JsonBodies, rq \in {"qw", "qrw"}, vr \in {"ref", "nilopts"} :
        case = [part |-> "def", hd |-> "none", hv |-> "absent", decl |-> "json", ct |-> Json, req |-> rq, ctText |-> Render(Json),
                body |-> b, excludeBody |-> FALSE, excludeWO |-> FALSE, multi |-> FALSE, variant |-> vr]
   \/ \E h \in TwoLines, mu \in BOOLEAN :
        case = [part |-> "hdr", hdrs |-> <<h>>, extra |-> FALSE, decl |-> "none", ct |-> Json, req |-> "qw", ctText |-> Render(Json),
                body |-> O(<<"q">>, <<Num(4)>>), excludeBody |-> FALSE, excludeWO |-> FALSE, multi |-> mu]
   \/ \E ds \in MediaSets, ct \in MediaCTs, mk \in 1..3, mu \in BOOLEAN :
        LET decls == SetToSortSeq(ds, LAMBDA a, b : TRUE) IN
        /\ mk <= Len(decls)
        /\ ~("absent" \in DOMAIN ct /\ MT("*", "*", "") \in ds)
        /\ case = [part |-> "media", decls |-> decls, keys |-> [i \in DOMAIN decls |-> Render(decls[i])], ct |-> ct,
                   ctText |-> (IF "absent" \in DOMAIN ct THEN "" ELSE Render(ct)), mark |-> mk, multi |-> mu]
   \/ \E h \in CtHeaders, d \in {"none", "json"} :
        case = [part |-> "hdr", hdrs |-> <<h>>, extra |-> FALSE, decl |-> d, ct |-> Json, req |-> "qw", ctText |-> Render(Json),
                body |-> O(<<"q">>, <<Num(4)>>), excludeBody |-> FALSE, excludeWO |-> FALSE, multi |-> FALSE]
   \/ \E hh \in TwoHeaders, mu \in BOOLEAN, xt \in BOOLEAN :
        /\ TwoOK(hh[1]) /\ TwoOK(hh[2])
        /\ case = [part |-> "hdr", hdrs |-> hh, extra |-> xt, decl |-> "none", ct |-> Json, req |-> "qw", ctText |-> Render(Json),
                   body |-> O(<<"q">>, <<Num(4)>>), excludeBody |-> FALSE, excludeWO |-> FALSE, multi |-> mu]
Next == UNCHANGED case
Spec == Init /\ [][Next]_case
Emit == CSVWrite("%1$s", <<ToJson(case)>>, "cases.ndjson")

(* D: an exact entry is never shadowed by its class, nor a class by default *)
PickLaws ==
   \A ks \in KeySets, st \in Statuses :
      /\ (ToString(st) \in ks => Pick(ks, st) = ToString(st))
      /\ (Pick(ks, st) = "default" => ToString(st) \notin ks /\ ~(st >= 100 /\ st <= 599 /\ ClassKey(st) \in ks))
      /\ Pick(ks, st) \in ks \cup {"none"}
ASSUME PickLaws
=============================================================================
