SPECIFICATION Spec
CONSTANTS Design = "perload"
          MaxUses = 4
          BackRef = TRUE
INVARIANTS UsedLikeFresh ReadsOnlyRootWhenOff ReadsOnlyRefDerived
CHECK_DEADLOCK FALSE
