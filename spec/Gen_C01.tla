------------------------------- MODULE Gen_C01 -------------------------------
(* Generator of abstract schemas: a state is a schema; Next adds a keyword instance at  *)
(* the outermost level or wraps the schema in a combinator / container.  BFS under the  *)
(* bounds K (keywords at the innermost level), KO (keywords added per outer level) and  *)
(* W (number of wraps) enumerates "all schemas up to that size"; -simulate samples      *)
(* deeper ones.  Every distinct state is written once to cases.ndjson.                  *)
EXTENDS SchemaUniverse, Json, CSV

CONSTANTS K, KO, W,
          SK,       \* sharing wrappers (SchemaUniverse!ShareWrappers) are applied to schemas with at most SK keywords
          Ext,      \* TRUE: also the keyword instances outside the oracle (formats, patterns, discriminator)
          ValSet    \* "plain" | "ext" | "marker": which value list goes with the schemas

VARIABLES s, own, wraps,
          share,    \* TRUE: every repeated sub-schema of s is to be realised as a $ref to ONE shared component
          io        \* number of keywords the innermost level had when it was wrapped (0 while wraps = 0)
vars == <<s, own, wraps, share, io>>

Init == s = Empty /\ own = 0 /\ wraps = 0 /\ share = FALSE /\ io = 0

AddKw == \E a \in (IF wraps = 0 THEN (IF Ext THEN Atoms \cup ExtAtoms ELSE Atoms) ELSE OuterAtoms) :
            /\ own < (IF wraps = 0 THEN K ELSE KO)
            /\ CanAdd(s, a)
            /\ (wraps = 0 => ScopeOK(s, a))
            /\ s' = With(s, a) /\ own' = own + 1 /\ UNCHANGED <<wraps, share, io>>

Wrap == /\ wraps < W
        /\ \E w \in Wrappers(s) \cup (IF Ext THEN KeyWrappers(s) ELSE {}) : s' = w
        /\ own' = 0 /\ wraps' = wraps + 1 /\ io' = own /\ UNCHANGED share

WrapShared == /\ wraps < W /\ own <= SK /\ wraps = 0
              /\ \E w \in ShareWrappers(s) : s' = w
              /\ share' \in BOOLEAN
              /\ io' = 0      \* (never part of the bulk)
              /\ own' = KO /\ wraps' = wraps + 1      \* no outer keywords next to a sharing wrapper (they multiply the thorough tier by |OuterAtoms|)

Next == AddKw \/ Wrap \/ WrapShared
Spec == Init /\ [][Next]_vars

(* bulk: a wrapped schema whose innermost level has K >= 2 keywords -- by far the largest part of the universe.  The  *)
(* thorough tiers of C12 / C19 drive a seeded half of the bulk (the pipeline selects by line parity + seed) and all *)
(* the rest; quick and C01 drive everything.                                                                        *)
Bulk == wraps > 0 /\ io >= 2
Emit == CSVWrite("%1$s", <<ToJson(IF share THEN [s |-> s, share |-> TRUE] ELSE IF Bulk THEN [s |-> s, bulk |-> TRUE] ELSE [s |-> s])>>, "cases.ndjson")

(* emit the value list once (line i = Vals[i]) *)
TheVals == CASE ValSet = "plain" -> Vals [] ValSet = "ext" -> Vals \o VX [] ValSet = "marker" -> MVals
EmitVals == (s = Empty /\ wraps = 0) =>
               \A i \in DOMAIN TheVals : CSVWrite("%1$s", <<ToJson(TheVals[i])>>, "vals.ndjson")
=============================================================================
