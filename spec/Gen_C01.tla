------------------------------- MODULE Gen_C01 -------------------------------
(* Generator of abstract schemas: a state is a schema; Next adds a keyword instance at  *)
(* the outermost level or wraps the schema in a combinator / container.  BFS under the  *)
(* bounds K (keywords at the innermost level), KO (keywords added per outer level) and  *)
(* W (number of wraps) enumerates "all schemas up to that size"; -simulate samples      *)
(* deeper ones.  Every distinct state is written once to cases.ndjson.                  *)
EXTENDS SchemaUniverse, Json, CSV

CONSTANTS K, KO, W,
          SK,       \* sharing wrappers (SchemaUniverse!ShareWrappers) are applied to schemas with at most SK keywords
          Ext,      \* TRUE: also the keyword instances outside the oracle (formats, patterns, discriminator)
          ValSet    \* "plain" | "ext" | "marker": which value list goes with the schemas

VARIABLES s, own, wraps,
          share     \* TRUE: every repeated sub-schema of s is to be realised as a $ref to ONE shared component
vars == <<s, own, wraps, share>>

Init == s = Empty /\ own = 0 /\ wraps = 0 /\ share = FALSE

AddKw == \E a \in (IF wraps = 0 THEN (IF Ext THEN Atoms \cup ExtAtoms ELSE Atoms) ELSE OuterAtoms) :
            /\ own < (IF wraps = 0 THEN K ELSE KO)
            /\ CanAdd(s, a)
            /\ (wraps = 0 => ScopeOK(s, a))
            /\ s' = With(s, a) /\ own' = own + 1 /\ UNCHANGED <<wraps, share>>

Wrap == /\ wraps < W
        /\ \E w \in Wrappers(s) \cup (IF Ext THEN KeyWrappers(s) ELSE {}) : s' = w
        /\ own' = 0 /\ wraps' = wraps + 1 /\ UNCHANGED share

WrapShared == /\ wraps < W /\ own <= SK /\ wraps = 0
              /\ \E w \in ShareWrappers(s) : s' = w
              /\ share' \in BOOLEAN
              /\ own' = KO /\ wraps' = wraps + 1      \* no outer keywords next to a sharing wrapper (they multiply the thorough tier by |OuterAtoms|)

Next == AddKw \/ Wrap \/ WrapShared
Spec == Init /\ [][Next]_vars

Emit == CSVWrite("%1$s", <<ToJson(IF share THEN [s |-> s, share |-> TRUE] ELSE [s |-> s])>>, "cases.ndjson")

(* emit the value list once (line i = Vals[i]) *)
TheVals == CASE ValSet = "plain" -> Vals [] ValSet = "ext" -> Vals \o VX [] ValSet = "marker" -> MVals
EmitVals == (s = Empty /\ wraps = 0) =>
               \A i \in DOMAIN TheVals : CSVWrite("%1$s", <<ToJson(TheVals[i])>>, "vals.ndjson")
=============================================================================
