SPECIFICATION TraceSpec
CONSTANTS MaxCalls = 99
          SideCalls = 99
          ExtMax = 99
          ExtDepth = 99
          ZeroStatusFix = TRUE
          InfoFix = TRUE
INVARIANTS Judge Fidelity
POSTCONDITION AllConsumed
CHECK_DEADLOCK FALSE
