SPECIFICATION TraceSpec
CONSTANTS MaxCalls = 99
          ZeroStatusFix = TRUE
INVARIANTS Judge Fidelity
POSTCONDITION AllConsumed
CHECK_DEADLOCK FALSE
