SPECIFICATION Spec
CONSTANTS Repaired = {8, 9, 11}
INVARIANTS Judge
POSTCONDITION AllConsumed
CHECK_DEADLOCK FALSE
