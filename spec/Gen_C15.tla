------------------------------- MODULE Gen_C15 -------------------------------
(* D: SharedState (all interleavings of MaxOps operations, NoRace).  F: every multiset of *)
(* operations of the catalogue up to size MaxOps becomes one concurrent run of the real   *)
(* code under the race detector.                                                          *)
EXTENDS Naturals, Sequences, FiniteSets, TLC, Json, CSV
CONSTANT MaxOps

OpNames == <<"find_mux", "find_legacy", "vreq_params", "vreq_params_delete", "vreq_body_pattern", "vreq_body_unique", "vreq_body_defaults",
             "vresp", "visitjson", "gen_newtype", "gen_sametype", "vreq_body_pattern_customregex", "vreq_secure_body", "vreq_multipart_addprops", "vreq_json_addprops",
             "vreq_form_sharedopts", "vreq_json_defaults_sharedopts", "internal_validate_doc">>
N == Len(OpNames)

VARIABLE ms      \* non-decreasing sequence of indices into OpNames = a multiset
Init == ms \in {<<i>> : i \in 1..(N - 1)}           \* internal_validate_doc (a documented writer) is never generated
Next == /\ Len(ms) < MaxOps
        /\ \E i \in ms[Len(ms)]..(N - 1) : ms' = Append(ms, i)
Spec == Init /\ [][Next]_ms
Emit == CSVWrite("%1$s", <<ToJson([ops |-> [i \in DOMAIN ms |-> OpNames[ms[i]]]])>>, "cases.ndjson")
=============================================================================
