------------------------------- MODULE Gen_C15 -------------------------------
(* F for C15: the concurrent runs.  A case is a multiset of catalogue operations (SharedState)  *)
(* plus the process configuration in force when the goroutines start; it becomes one run of the *)
(* real code under the race detector (8 goroutines per operation, released together).           *)
(*   flat      every multiset of <= MaxFlat flat operations                                      *)
(*   product   every usable <<entry, feature>> alone (8 goroutines of it: op || op), and pairs: *)
(*             Pairs = "cover": every pair of entries (meeting in a feature chosen by Seed) and  *)
(*                              every pair of features (behind an entry chosen by Seed)          *)
(*             Pairs = "all":   every pair of product operations                                 *)
(*   media     every <<side, declared.sent>> alone, next to a plain JSON body of the other side,*)
(*             and the not-yet-registered type on both sides at once                             *)
(*   cross     every flat operation next to one product and one media operation (by Seed)        *)
(*   init      the configurations a process may be in when validations start (uniqueness checker *)
(*             replaced / reset to nil, error details off): operations that read that state      *)
EXTENDS Naturals, Sequences, FiniteSets, TLC, Json, CSV
CONSTANTS MaxFlat, Pairs, Seed

SS == INSTANCE SharedState WITH DefaultCopied <- TRUE, RouteCopied <- TRUE, SettingsPerCall <- TRUE, VisitReadsSettings <- TRUE,
         RegistryInitOnly <- TRUE, TypeInfosLocked <- TRUE, PatternCacheAtomic <- TRUE, UriCacheLocked <- TRUE,
         UniqueCheckerReadOnly <- TRUE, RouterStateless <- TRUE, WithWriters <- FALSE, MaxOps <- 1, prog <- <<>>, held <- <<>>

(* ordered, so that multisets are enumerated once and Seed can rotate through them *)
FlatSeq == <<"find_mux", "find_legacy", "find_mux_servers", "find_legacy_servers", "vreq_params", "vreq_params_delete", "vreq_body_pattern",
             "vreq_body_unique", "vreq_body_defaults", "vresp", "visitjson", "gen_newtype", "gen_sametype", "gen_nested", "gen_customizer",
             "vreq_body_pattern_customregex", "vreq_secure_body", "vreq_multipart_addprops", "vreq_json_addprops",
             "vreq_form_sharedopts", "vreq_json_defaults_sharedopts", "load_cached", "doc_marshal">>
EntrySeq == <<"visit", "visit_typed", "visit_opts", "param_query", "param_header", "param_multi", "req_body", "resp_body", "resp_header", "middleware", "param_query_legacy", "req_body_legacy">>
FeatureSeq == <<"anyof", "oneof", "allof", "pattern", "format_date", "format_custom", "format_int32", "number", "enum", "minmax",
                "unique", "not", "object", "discriminator">>
ASSUME {FlatSeq[i] : i \in DOMAIN FlatSeq} \subseteq SS!FlatOps        \* (vreq_body_pattern_first / _again are the two phases of vreq_body_pattern)
ASSUME {EntrySeq[i] : i \in DOMAIN EntrySeq} = SS!Entries /\ {FeatureSeq[i] : i \in DOMAIN FeatureSeq} = SS!Features
NF == Len(FlatSeq)  NE == Len(EntrySeq)  NT == Len(FeatureSeq)

Op(e, f) == [e |-> e, f |-> f]
Flat(i) == Op(FlatSeq[i], "-")
Case(ops, init) == [ops |-> ops, init |-> init]

FlatCases ==
   {Case(<<Flat(i)>>, "default") : i \in 1..NF}
   \cup {Case(<<Flat(i), Flat(j)>>, "default") : <<i, j>> \in {p \in (1..NF) \X (1..NF) : p[1] <= p[2]}}
   \cup (IF MaxFlat < 3 THEN {} ELSE
         {Case(<<Flat(p[1]), Flat(p[2]), Flat(p[3])>>, "default") : p \in {q \in (1..NF) \X (1..NF) \X (1..NF) : q[1] <= q[2] /\ q[2] <= q[3]}})

ProductIdx == {p \in (1..NE) \X (1..NT) : SS!Usable(EntrySeq[p[1]], FeatureSeq[p[2]])}
P(p) == Op(EntrySeq[p[1]], FeatureSeq[p[2]])
(* the k-th (cyclically, from a Seed-dependent start) feature usable behind both entries / entry usable for both features *)
FeatureFor(i, j) == LET ok == {t \in 1..NT : <<i, t>> \in ProductIdx /\ <<j, t>> \in ProductIdx}
                        start == (i * 7 + j * 3 + Seed) % NT
                        d == CHOOSE d \in 0..(NT - 1) : ((start + d) % NT) + 1 \in ok /\ \A d2 \in 0..(NT - 1) : ((start + d2) % NT) + 1 \in ok => d <= d2
                    IN ((start + d) % NT) + 1
EntryFor(s, t) == LET ok == {i \in 1..NE : <<i, s>> \in ProductIdx /\ <<i, t>> \in ProductIdx}
                      start == (s * 5 + t * 3 + Seed) % NE
                      d == CHOOSE d \in 0..(NE - 1) : ((start + d) % NE) + 1 \in ok /\ \A d2 \in 0..(NE - 1) : ((start + d2) % NE) + 1 \in ok => d <= d2
                  IN ((start + d) % NE) + 1
Less(p, q) == p[1] < q[1] \/ (p[1] = q[1] /\ p[2] < q[2])
ProductCases ==
   {Case(<<P(p)>>, "default") : p \in ProductIdx}
   \cup (IF Pairs = "all" THEN {Case(<<P(pq[1]), P(pq[2])>>, "default") : pq \in {x \in ProductIdx \X ProductIdx : Less(x[1], x[2])}}
         ELSE {Case(<<P(<<ij[1], FeatureFor(ij[1], ij[2])>>), P(<<ij[2], FeatureFor(ij[1], ij[2])>>)>>, "default") :
                    ij \in {x \in (1..NE) \X (1..NE) : x[1] < x[2]}}
              \cup {Case(<<P(<<EntryFor(st[1], st[2]), st[1]>>), P(<<EntryFor(st[1], st[2]), st[2]>>)>>, "default") :
                    st \in {x \in (1..NT) \X (1..NT) : x[1] < x[2]}})

MtOp(side, f) == Op(side, f)
Other(side) == IF side = "mt_req" THEN Op("resp_body", "enum") ELSE Op("req_body", "enum")
MediaCases ==
   {Case(<<MtOp(o[1], o[2])>>, "default") : o \in SS!MtOps}
   \cup {Case(<<MtOp(o[1], o[2]), Other(o[1])>>, "default") : o \in SS!MtOps}
   \cup {Case(<<MtOp("mt_req", SS!MtName(<<d, "vendor_new">>)), MtOp("mt_resp", SS!MtName(<<d2, "vendor_new">>))>>, "default") :
            <<d, d2>> \in {"exact", "appstar", "any"} \X {"exact", "appstar", "any"}}

MtSeq == <<"exact.json", "appstar.vendor_new", "any.vendor_reg", "exact.vendor_new", "any.yaml", "exact.plain", "any.vendor_new", "appstar.problem">>
ASSUME {MtSeq[i] : i \in DOMAIN MtSeq} \subseteq SS!MtFeatures
ProductSeqIdx(k) == CHOOSE p \in ProductIdx : p[1] = (k % NE) + 1 /\ p[2] = ((k * 3 + Seed) % 11) + 1       \* (features 1..11 are usable behind every entry)
CrossCases ==
   {Case(<<Flat(i), P(ProductSeqIdx(i + Seed))>>, "default") : i \in 1..NF}
   \cup {Case(<<Flat(i), MtOp(IF (i + Seed) % 2 = 0 THEN "mt_req" ELSE "mt_resp", MtSeq[((i + Seed) % Len(MtSeq)) + 1])>>, "default") : i \in 1..NF}

InitCases ==
   {Case(<<Op(e, "unique")>>, init) : e \in {"visit", "visit_typed", "param_query", "req_body", "resp_body"}, init \in {"unique_nil", "unique_custom"}}
   \cup {Case(<<Op("vreq_body_unique", "-"), Op("visitjson", "-")>>, init) : init \in {"unique_nil", "unique_custom"}}
   \cup {Case(<<Op(ef[1], ef[2]), Op("vresp", "-")>>, "details_off") :
            ef \in {x \in {"visit", "param_query", "req_body", "resp_header"} \X {"enum", "anyof", "object"} : SS!Usable(x[1], x[2])}}

(* routers over overlapping routes: every <<entry, shape>> alone (its own callers mix the three requests), every pair of *)
(* operations on the same router with different shapes, and each shape next to a flat operation                          *)
RouteEntrySeq == <<"route_mux", "vreq_route_mux", "middleware_route", "route_legacy", "vreq_route_legacy">>
RouteShapeSeq == <<"overlap_sibling", "overlap_deep", "overlap_servers">>
ASSUME {RouteEntrySeq[i] : i \in DOMAIN RouteEntrySeq} = SS!RouteEntries /\ {RouteShapeSeq[i] : i \in DOMAIN RouteShapeSeq} = SS!RouteShapes
SameRouter(i, j) == (i <= 3) = (j <= 3)
RouteCases ==
   {Case(<<Op(RouteEntrySeq[i], RouteShapeSeq[s])>>, "default") : i \in 1..5, s \in 1..3}
   \cup {Case(<<Op(RouteEntrySeq[q[1]], RouteShapeSeq[q[2]]), Op(RouteEntrySeq[q[3]], RouteShapeSeq[q[4]])>>, "default") :
            q \in {x \in (1..5) \X (1..3) \X (1..5) \X (1..3) : x[1] <= x[3] /\ x[2] < x[4] /\ SameRouter(x[1], x[3])}}
   \cup {Case(<<Flat(((s * 7 + i + Seed) % NF) + 1), Op(RouteEntrySeq[i], RouteShapeSeq[s])>>, "default") : i \in 1..5, s \in 1..3}

Cases == FlatCases \cup ProductCases \cup MediaCases \cup CrossCases \cup InitCases \cup RouteCases

VARIABLE c
Init == c \in Cases
Next == FALSE /\ c' = c
Spec == Init /\ [][Next]_c
Emit == CSVWrite("%1$s", <<ToJson(c)>>, "cases.ndjson")
=============================================================================
