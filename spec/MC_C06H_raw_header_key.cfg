SPECIFICATION Spec
CONSTANTS Policy = "raw_header_key"
 MaxSteps = 3
INVARIANTS L2ImpliesL1
CHECK_DEADLOCK FALSE
