--------------------------- MODULE RouterUniverse ---------------------------
(* The finite universe of C09: template families, server shapes and -- derived from a    *)
(* document -- the requests it is probed with.                                           *)
(*                                                                                       *)
(* Template shapes are sequences over {a, b, V} (two literals, V = a variable); a        *)
(* family is a set of distinct shapes, so no two templates of a document differ only in  *)
(* variable names (document validation is meant to reject those; outside C09).           *)
(* Variable names depend on position and on the template's rank in the family, so the    *)
(* same name occurs at different depths and different names at the same depth.           *)
(*                                                                                       *)
(* A second, small family universe ("mixed") has templates whose variables sit inside a  *)
(* segment next to literal text -- /v{n}, /files/report.{ext}, /{p}-{q} -- together with *)
(* the literal and plain-variable templates that compete with them (/v1, /{x},           *)
(* /files/report.pdf, /files/{x}, /a-b, ...).                                            *)
EXTENDS Router, TLC

Alpha == {"a", "b", "V"}
ShapesUpTo(n) == UNION {[1..k -> Alpha] : k \in 1..n}
(* segment symbols of the mixed universe: "vN" = v{n}, "rE" = report.{ext}, "PQ" = {p}-{q}, *)
(* "rp" = report.pdf; every other symbol is the literal it spells                        *)
MixedShapes == {<<"vN">>, <<"v1">>, <<"V">>, <<"files", "rE">>, <<"files", "rp">>, <<"files", "V">>,
                <<"PQ">>, <<"a-b">>, <<"vN", "a">>, <<"v1", "V">>, <<"a", "vN">>}
(* a third small universe ("enc"): a literal segment with a percent-encoded character *)
EncShapes == {<<"a%20b">>, <<"V">>, <<"a%20b", "V">>, <<"V", "a%20b">>}
(* a fourth small universe ("root"): the root template "/" -- one literal EMPTY segment, symbol "E" -- next to *)
(* the templates it competes with; under a server with base path /b it is the path "/b/", and "/b" is a near miss *)
RootShapes == {<<"E">>, <<"a">>, <<"V">>, <<"a", "V">>}
Code(c) == CASE c = "E" -> 12 [] c = "a" -> 1 [] c = "b" -> 2 [] c = "V" -> 3 [] c = "v1" -> 4 [] c = "vN" -> 5 [] c = "files" -> 6
             [] c = "rp" -> 7 [] c = "rE" -> 8 [] c = "a-b" -> 9 [] c = "PQ" -> 10 [] c = "a%20b" -> 11
ShapeRank(sh) == Len(sh) * 10000 + Code(sh[1]) * 256
                 + (IF Len(sh) > 1 THEN Code(sh[2]) * 16 ELSE 0) + (IF Len(sh) > 2 THEN Code(sh[3]) ELSE 0)

VarNames == <<"x", "y", "z">>
VarName(p, k) == VarNames[((p + k - 2) % 3) + 1]

(* GR: GET and every other method a path item can declare (CONNECT is not one of them) *)
MethSets == [G |-> <<"GET">>, P |-> <<"POST">>, GP |-> <<"GET", "POST">>,
             GR |-> <<"GET", "PUT", "PATCH", "DELETE", "HEAD", "OPTIONS", "TRACE">>]
MethKeys == {"G", "P", "GP"}

Seg(sym, p, k) ==
   CASE sym = "V" -> [v |-> VarName(p, k)]
     [] sym = "vN" -> [mx |-> <<[l |-> "v"], [v |-> VarName(p, k)]>>]
     [] sym = "rE" -> [mx |-> <<[l |-> "report."], [v |-> VarName(p, k)]>>]
     [] sym = "PQ" -> [mx |-> <<[v |-> "p"], [l |-> "-"], [v |-> "q"]>>]
     [] sym = "rp" -> [l |-> "report.pdf"]
     [] sym = "E" -> [l |-> ""]
     [] OTHER -> [l |-> sym]

Templ(sh, k, mk) ==
   [segs |-> [p \in 1..Len(sh) |-> Seg(sh[p], p, k)],
    ops |-> [j \in 1..Len(MethSets[mk]) |-> [m |-> MethSets[mk][j], id |-> "t" \o ToString(k) \o MethSets[mk][j]]]]

(* tm: function from shapes to method-set keys *)
Templates(tm) == LET ord == SetToSortSeq(DOMAIN tm, LAMBDA a, b : ShapeRank(a) < ShapeRank(b))
                 IN [k \in 1..Len(ord) |-> Templ(ord[k], k, tm[ord[k]])]

-----------------------------------------------------------------------------
(* server shapes *)
L(s) == [l |-> s]
ApiHost == <<L("api"), L("example"), L("com")>>
AbsV1 == [abs |-> TRUE, scheme |-> "https", host |-> ApiHost, port |-> <<>>, base |-> <<"v1">>, slash |-> FALSE]
(* base paths with a percent-encoded character: an encoded space (relslash, two, pslast)   *)
(* and an encoded slash (absvar) -- an encoded slash is data, "my%2Fapi" is one segment   *)
OtherEnc == [abs |-> TRUE, scheme |-> "http", host |-> <<L("other"), L("example"), L("com")>>,
             port |-> <<>>, base |-> <<"my%20api">>, slash |-> FALSE]
OtherHost == [abs |-> TRUE, scheme |-> "http", host |-> <<L("other"), L("example"), L("com")>>,
              port |-> <<>>, base |-> <<>>, slash |-> FALSE]
(* lists of servers that agree in everything but one component, and one that repeats a server *)
ApiHttp == [AbsV1 EXCEPT !.scheme = "http"]
Api8443 == [AbsV1 EXCEPT !.port = <<L("8443")>>]
OtherHttps == [OtherHost EXCEPT !.scheme = "https"]
(* server variables in the base path (WithBV: segment i of the base path is the variable v, its default is  *)
(* the segment), and server variables -- in the base path, the host, the port -- that are named like a     *)
(* variable of a path template ("x": the first variable of the lowest-ranked template and others, "y": the *)
(* first variable of the second template / the second of the first): ONE map of path parameters is         *)
(* returned, and what it holds under a shared name must be the path template's value                       *)
WithBV(sv, bv) == [bv |-> bv] @@ sv
RelV1 == [abs |-> FALSE, base |-> <<"v1">>, slash |-> FALSE]
(* the scheme as a server variable with an enum: {scheme}://api.example.com/v1, scheme in {https, http}, default https *)
AbsSchV == [sch |-> [v |-> "scheme", enum |-> <<"https", "http">>]] @@ AbsV1
ServerShapes ==
   [none     |-> <<>>,
    rel      |-> <<[abs |-> FALSE, base |-> <<"b">>, slash |-> FALSE]>>,
    relslash |-> <<[abs |-> FALSE, base |-> <<"my%20api">>, slash |-> TRUE]>>,
    relroot  |-> <<[abs |-> FALSE, base |-> <<>>, slash |-> TRUE]>>,
    abs      |-> <<AbsV1>>,
    absvar   |-> <<[abs |-> TRUE, scheme |-> "https",
                    host |-> <<[v |-> "sub", d |-> "api"], L("example"), L("com")>>,
                    port |-> <<[v |-> "port", d |-> "8443"]>>, base |-> <<"my%2Fapi">>, slash |-> FALSE]>>,
    two      |-> <<AbsV1, OtherEnc>>,
    \* one base path is a string prefix of the other (/v1 and /v10)
    relpfx   |-> <<[abs |-> FALSE, base |-> <<"v1">>, slash |-> FALSE], [abs |-> FALSE, base |-> <<"v10">>, slash |-> FALSE]>>,
    abspfx   |-> <<AbsV1, [AbsV1 EXCEPT !.base = <<"v10">>]>>,
    schemes  |-> <<ApiHttp, AbsV1>>,                             \* http://api.example.com/v1, https://api.example.com/v1
    ports    |-> <<Api8443, AbsV1>>,                             \* https://api.example.com:8443/v1, https://api.example.com/v1
    dup      |-> <<AbsV1, [AbsV1 EXCEPT !.slash = TRUE]>>,       \* https://api.example.com/v1, https://api.example.com/v1/
    absbv    |-> <<WithBV([AbsV1 EXCEPT !.base = <<"v1", "api">>], <<[i |-> 1, v |-> "ver"]>>)>>,      \* https://api.example.com/{ver}/api
    relbv    |-> <<WithBV([abs |-> FALSE, base |-> <<"b", "v1">>, slash |-> FALSE], <<[i |-> 2, v |-> "ver"]>>)>>,   \* /b/{ver}
    absbvx   |-> <<WithBV(AbsV1, <<[i |-> 1, v |-> "x"]>>)>>,    \* https://api.example.com/{x}
    relbvx   |-> <<WithBV(RelV1, <<[i |-> 1, v |-> "y"]>>)>>,    \* /{y}
    abshx    |-> <<[AbsV1 EXCEPT !.host = <<[v |-> "x", d |-> "api"], L("example"), L("com")>>]>>,    \* https://{x}.example.com/v1
    abspx    |-> <<[AbsV1 EXCEPT !.port = <<[v |-> "y", d |-> "8443"]>>]>>,
    \* server variables with an enum (the declared set of values): a port variable whose default is the default port
    \* of the scheme, one whose default is another port, a host label
    abspe    |-> <<[AbsV1 EXCEPT !.port = <<[v |-> "port", d |-> "443", enum |-> <<"443", "8443">>]>>]>>,   \* https://api.example.com:{port}/v1
    abspe2   |-> <<[ApiHttp EXCEPT !.port = <<[v |-> "port", d |-> "8080", enum |-> <<"8080", "80">>]>>]>>,  \* http://api.example.com:{port}/v1
    abshe    |-> <<[AbsV1 EXCEPT !.host = <<[v |-> "sub", d |-> "api", enum |-> <<"api", "www">>], L("example"), L("com")>>]>>,
    absschv  |-> <<AbsSchV>>,                                    \* {scheme}://api.example.com/v1
    schvdup  |-> <<ApiHttp, AbsSchV>>]                           \* http://api.example.com/v1, {scheme}://api.example.com/v1 (covers the first)                             \* https://api.example.com:{y}/v1
(* path-level servers: the document declares https://api.example.com/v1, the path item   *)
(* of the lowest-ranked ("psfirst") / highest-ranked ("pslast") template declares        *)
(* http://other.example.com instead                                                      *)
(* ("psschemes": the last template's path item declares http://other.example.com and     *)
(* https://other.example.com)                                                            *)
(* ("psrel": the first template's path item declares the relative server /b; "psvar": it  *)
(* declares http://{x}.example.com, a host variable named like a path variable)           *)
OverrideKeys == {"psfirst", "pslast", "psschemes", "psrel", "psvar"}
LastOverrideKeys == {"pslast", "psschemes"}
OwnServers(sk) == CASE sk = "psfirst" -> <<OtherHost>> [] sk = "pslast" -> <<OtherEnc>> [] sk = "psschemes" -> <<OtherHost, OtherHttps>>
                    [] sk = "psrel" -> <<[abs |-> FALSE, base |-> <<"b">>, slash |-> FALSE]>>
                    [] sk = "psvar" -> <<[OtherHost EXCEPT !.host = <<[v |-> "x", d |-> "other"], L("example"), L("com")>>]>>
ServerKeys == DOMAIN ServerShapes \cup OverrideKeys
SrvRank(k) == CASE k = "none" -> 1 [] k = "rel" -> 2 [] k = "relslash" -> 3 [] k = "relroot" -> 4
                [] k = "abs" -> 5 [] k = "absvar" -> 6 [] k = "two" -> 7 [] k = "psfirst" -> 8 [] k = "pslast" -> 9
                [] k = "relpfx" -> 10 [] k = "abspfx" -> 11 [] k = "schemes" -> 12 [] k = "ports" -> 13 [] k = "dup" -> 14
                [] k = "absbv" -> 15 [] k = "relbv" -> 16 [] k = "absbvx" -> 17 [] k = "relbvx" -> 18 [] k = "abshx" -> 19
                [] k = "abspx" -> 20 [] k = "psschemes" -> 21 [] k = "absschv" -> 22 [] k = "schvdup" -> 23
                [] k = "psrel" -> 24 [] k = "psvar" -> 25 [] k = "abspe" -> 26 [] k = "abspe2" -> 27 [] k = "abshe" -> 28

WithOwn(t, svs) == [segs |-> t.segs, ops |-> t.ops, servers |-> svs]
Doc(tm, sk) ==
   LET ts == Templates(tm) IN
   IF sk \in OverrideKeys
   THEN LET w == IF sk \in LastOverrideKeys THEN Len(ts) ELSE 1 IN
        [templates |-> [k \in 1..Len(ts) |-> IF k = w THEN WithOwn(ts[k], OwnServers(sk)) ELSE ts[k]], servers |-> <<AbsV1>>]
   ELSE [templates |-> ts, servers |-> ServerShapes[sk]]

-----------------------------------------------------------------------------
(* requests *)
Vals == {"a", "b", "v"}

(* the texts a segment is filled to: a plain variable takes the values a, b, v -- and, in *)
(* a document of the mixed universe, the texts of the competing literals instead of b;   *)
(* a mixed segment takes its literal text around values chosen to collide with siblings  *)
HasEncLit(doc) == \E t \in 1..Len(doc.templates) : \E i \in 1..Len(doc.templates[t].segs) :
                     IsLit(doc.templates[t].segs[i]) /\ IsEnc(doc.templates[t].segs[i].l)
KindOf(doc) == IF HasMixed(doc) THEN "mixed" ELSE IF HasEncLit(doc) THEN "enc" ELSE "plain"
SegFills(seg, mixed) ==       \* mixed: the kind of the document ("plain", "mixed", "enc")
   IF IsLit(seg) THEN {seg.l}
   ELSE IF IsVar(seg) THEN (IF mixed = "mixed" THEN {"a", "v", "v1", "a-b", "report.pdf"}
                            ELSE IF mixed = "enc" THEN {"a", "v", "a%20b"} ELSE Vals)
   ELSE IF seg.mx[1] = [l |-> "v"] THEN {"v1", "v2", "vv"}
   ELSE IF seg.mx[1] = [l |-> "report."] THEN {"report.pdf", "report.txt"}
   ELSE {"a-b", "a-b-v", "v1-b"}
SegBase(seg) ==
   IF IsLit(seg) THEN seg.l
   ELSE IF IsVar(seg) THEN "v"
   ELSE IF seg.mx[1] = [l |-> "v"] THEN "v2"
   ELSE IF seg.mx[1] = [l |-> "report."] THEN "report.txt"
   ELSE "a-b"
Fills(t, mixed) == {f \in [1..Len(t.segs) -> UNION {SegFills(t.segs[i], mixed) : i \in 1..Len(t.segs)}] :
                      \A i \in 1..Len(t.segs) : f[i] \in SegFills(t.segs[i], mixed)}
BaseFill(t) == [i \in 1..Len(t.segs) |-> SegBase(t.segs[i])]

(* near misses of a path: one segment more / less, trailing slash, an empty segment,     *)
(* a segment that has a literal as a proper prefix                                       *)
Near(p) == {p \o <<"v">>, p \o <<"">>, p \o <<"", "">>}
           \cup (IF Len(p) > 1 THEN {SubSeq(p, 1, Len(p) - 1)} ELSE {})
           \cup {[p EXCEPT ![i] = ""] : i \in 1..Len(p)}
           \cup {[p EXCEPT ![i] = "ab"] : i \in 1..Len(p)}
(* ... and, around mixed segments: the literal text alone (empty value), a value missing *)
(* on either side of the separator, the text without its last character                  *)
NearMixed(p) == {[p EXCEPT ![i] = x] : i \in 1..Len(p), x \in {"v", "report.", "report", "a-", "-b"}}

ResPaths(doc) == LET T == {doc.templates[k] : k \in 1..Len(doc.templates)}
                     mixed == KindOf(doc)
                 IN UNION {Fills(t, mixed) : t \in T} \cup UNION {Near(BaseFill(t)) : t \in T}
                    \cup (IF mixed = "mixed" THEN UNION {NearMixed(BaseFill(t)) : t \in T} ELSE {})

(* the canonical URL of a path under a server: variables take their defaults *)
Dflt(part) == IF IsVar(part) THEN part.d ELSE part.l
Under(s, p) ==
   IF s.abs THEN [abs |-> TRUE, scheme |-> s.scheme, host |-> [i \in 1..Len(s.host) |-> Dflt(s.host[i])],
                  port |-> [i \in 1..Len(s.port) |-> Dflt(s.port[i])], path |-> s.base \o p]
   ELSE [abs |-> FALSE, path |-> s.base \o p]

(* the same with every host and base-path variable of the server at the value val (a port variable stays at *)
(* its default: another port is an open region)                                                              *)
HasVars(s) == HostVarNames(s) \cup BaseVarNames(s) # {}
UnderAlt(s, p, val) ==
   LET b == [i \in 1..Len(s.base) |-> IF BaseVarAt(s, i) THEN val ELSE s.base[i]] IN
   IF s.abs THEN [abs |-> TRUE, scheme |-> s.scheme, host |-> [i \in 1..Len(s.host) |-> IF IsVar(s.host[i]) THEN val ELSE s.host[i].l],
                  port |-> [i \in 1..Len(s.port) |-> Dflt(s.port[i])], path |-> b \o p]
   ELSE [abs |-> FALSE, path |-> b \o p]

AbsAt(scheme, host, port, p) == [abs |-> TRUE, scheme |-> scheme, host |-> host, port |-> port, path |-> p]

(* paths that continue the server's base path inside its last segment: /v1 -> /v10/<p>,  *)
(* /v1beta/<p>, /v1x/<p> and the base glued to the first segment of p (/b + /a -> /ba);  *)
(* segment-wise none of them lies under the base                                         *)
BaseContinued(base, p) ==
   IF Len(base) = 0 THEN {}
   ELSE LET front == SubSeq(base, 1, Len(base) - 1)  last == base[Len(base)] IN
        {front \o <<last \o sfx>> \o p : sfx \in {"0", "beta", "x"}}
        \cup {front \o <<last \o p[1]>> \o SubSeq(p, 2, Len(p))}

(* URLs that miss, or hit in another way, the servers of the document *)
ServerVariants(doc, p) ==
   LET S == ServersOf(doc)  s == S[1] IN
   IF IsNone(s) THEN {AbsAt("https", <<"api", "example", "com">>, <<>>, p)}
   ELSE IF ~s.abs THEN
      {[abs |-> FALSE, path |-> p], [abs |-> FALSE, path |-> <<"v2">> \o p],
       [abs |-> FALSE, path |-> <<"a">> \o p],
       AbsAt("https", <<"api", "example", "com">>, <<>>, s.base \o p)}
      \cup {[abs |-> FALSE, path |-> q] : q \in BaseContinued(s.base, p)}
   ELSE LET h == [i \in 1..Len(s.host) |-> Dflt(s.host[i])]
            pt == [i \in 1..Len(s.port) |-> Dflt(s.port[i])]
            bp == s.base \o p
        IN {AbsAt("http", h, pt, bp), AbsAt(s.scheme, <<"www">> \o SubSeq(h, 2, Len(h)), pt, bp),
            AbsAt(s.scheme, SubSeq(h, 1, Len(h) - 1) \o <<"org">>, pt, bp),
            AbsAt(s.scheme, SubSeq(h, 2, Len(h)), pt, bp),
            AbsAt(s.scheme, h, pt, p), AbsAt(s.scheme, h, pt, <<"v2">> \o p),
            [abs |-> FALSE, path |-> bp]}
           \cup {AbsAt(s.scheme, h, pt, q) : q \in BaseContinued(s.base, p)}
           \cup (IF Len(s.port) > 0 THEN {AbsAt(s.scheme, h, <<>>, bp), AbsAt(s.scheme, h, <<"9">>, bp)} ELSE {})
           \cup (IF Len(S) > 1
                 THEN {Under(S[2], p), Under(S[2], s.base \o p), AbsAt(S[2].scheme, h, pt, bp),
                       AbsAt(s.scheme, [i \in 1..Len(S[2].host) |-> Dflt(S[2].host[i])], <<>>, bp)}
                 ELSE {})

MainMethods == {"GET", "POST"}
OddMethods == {"DELETE", "PROPFIND", "get", "HEAD", "OPTIONS", "PUT", "PATCH", "TRACE", "CONNECT"}      \* HEAD is not GET: a template that declares only GET has no HEAD operation

(* a relative URL must not start with "//" (it would be read as an authority) *)
WellFormed(r) == Len(r.u.path) > 0 /\ (r.u.abs \/ r.u.path[1] # "" \/ Len(r.u.path) = 1)

(* every server declared anywhere in the document (document level and path level) *)
AllServers(doc) == UNION {{TServers(doc, t)[i] : i \in 1..Len(TServers(doc, t))} : t \in 1..Len(doc.templates)}
                   \cup {ServersOf(doc)[i] : i \in 1..Len(ServersOf(doc))}

(* what may follow the path in a request URL; none of it belongs to the path *)
Tails == {"?", "?a=1", "?a=1#top", "#top"}
WithTail(u, tl) == [tail |-> tl] @@ u
Bare(u) == [f \in DOMAIN u \ {"tail"} |-> u[f]]

Requests(doc) ==
   LET S == ServersOf(doc)
       T == {doc.templates[k] : k \in 1..Len(doc.templates)}
       kind == KindOf(doc)
       main == {[m |-> m, u |-> Under(sv, p)] : m \in MainMethods, p \in ResPaths(doc), sv \in AllServers(doc)}
       \* (undeclared for a template with GET / POST only, declared ones for a template with the method set GR;
       \*  CONNECT is a method no path item can declare)
       odd == {[m |-> m, u |-> Under(S[1], BaseFill(t))] : m \in OddMethods, t \in T}
       srv == UNION {{[m |-> t.ops[1].m, u |-> u] : u \in ServerVariants(doc, BaseFill(t))} : t \in T}
       \* every fill of every template again with "?", a query, a query and a fragment, a fragment alone
       tails == UNION {{[m |-> t.ops[1].m, u |-> WithTail(Under(S[1], p), tl)] : p \in Fills(t, kind), tl \in Tails} : t \in T}
       \* percent-encoded characters (a space, a slash) inside the value of a variable
       encv == IF kind = "mixed" THEN {}
               ELSE UNION {{[m |-> t.ops[1].m, u |-> Under(S[1], [BaseFill(t) EXCEPT ![i] = x])] :
                              i \in {j \in 1..Len(t.segs) : IsVar(t.segs[j])}, x \in {"x%20y", "a%2Fb"}} : t \in T}
       \* server variables at other values than their defaults: "v2", and "v" -- the value BaseFill gives a path variable
       altv == UNION {{[m |-> t.ops[1].m, u |-> UnderAlt(sv, BaseFill(t), val)] : val \in {"v2", "v"}, sv \in {x \in AllServers(doc) : HasVars(x)}} : t \in T}
       \* a scheme variable at each of its values, and at one outside its enum
       schv == UNION {UNION {{[m |-> t.ops[1].m, u |-> [Under(sv, BaseFill(t)) EXCEPT !.scheme = sc]] :
                                sc \in SchemeSet(sv) \cup {"ftp"}} : sv \in {x \in AllServers(doc) : HasSchemeVar(x)}} : t \in T}
       \* the same request URLs in server form (Request.Host + Request.TLS + path-only URL): every template's base fill
       \* under every declared server, the URLs that miss or vary the server, the values of a scheme variable,
       \* one tail -- wherever the URL is absolute with a scheme a server can be reached by
       sform == {[m |-> r.m, u |-> [form |-> "server"] @@ r.u] :
                   r \in {x \in srv \cup schv \cup altv
                                \cup UNION {{[m |-> t.ops[1].m, u |-> Under(sv, BaseFill(t))] : sv \in AllServers(doc)} : t \in T}
                                \cup UNION {{[m |-> t.ops[1].m, u |-> WithTail(Under(S[1], BaseFill(t)), "?a=1#top")]} : t \in T} :
                             /\ x.u.abs /\ x.u.scheme \in {"http", "https"}
                             /\ Len(x.u.path) > 0 /\ (x.u.path[1] # "" \/ Len(x.u.path) = 1)}}     \* (the path alone must parse as a path)
       \* a port variable / a host variable with an enum at each of its declared values, a port (9) and a label (zzz)
       \* outside the enum, and no port at all
       enumP(sv, t) == IF sv.abs /\ Len(sv.port) = 1 /\ EnumOf(sv.port[1]) # <<>>
                       THEN {[m |-> t.ops[1].m, u |-> [Under(sv, BaseFill(t)) EXCEPT !.port = pt]] :
                               pt \in {<<x>> : x \in DeclaredVals(sv.port[1]) \cup {"9"}} \cup {<<>>}}
                       ELSE {}
       enumH(sv, t) == IF sv.abs
                       THEN UNION {{[m |-> t.ops[1].m, u |-> [Under(sv, BaseFill(t)) EXCEPT !.host[i] = x]] :
                                      x \in DeclaredVals(sv.host[i]) \cup {"zzz"}} :
                                   i \in {k \in 1..Len(sv.host) : EnumOf(sv.host[k]) # <<>>}}
                       ELSE {}
       enumv == UNION {UNION {enumP(sv, t) \cup enumH(sv, t) : sv \in AllServers(doc)} : t \in T}
   IN {r \in main \cup odd \cup srv \cup tails \cup encv \cup altv \cup schv \cup sform \cup enumv : WellFormed(r)}

(* The order the requests of a document are run in (one router instance per chunk of     *)
(* this sequence): first the main URLs, each with GET and then POST back to back -- so    *)
(* that a route returned for one method is still held by the caller while the same URL   *)
(* is routed with another declared method -- followed by the same URL with its query /   *)
(* fragment tails (so that the result for the bare URL is in the same chunk); then the   *)
(* rest.  Groups and the chunk length are even, which keeps the pairs together.          *)
ReqSeq(doc) ==
   LET all == Requests(doc)
       tailed == {x \in all : UTail(x.u) # ""}
       urls == SetToSeq({r.u : r \in {x \in all \ tailed : x.m \in MainMethods /\ [x EXCEPT !.m = "GET"] \in all
                                                             /\ [x EXCEPT !.m = "POST"] \in all}})
       grp(u) == <<[m |-> "GET", u |-> u], [m |-> "POST", u |-> u]>> \o SetToSeq({x \in tailed : Bare(x.u) = u})
       grouped == FlattenSeq([k \in 1..Len(urls) |-> grp(urls[k])])
   IN grouped \o SetToSeq(all \ {grouped[k] : k \in 1..Len(grouped)})
=============================================================================
