------------------------------ MODULE HeaderRead ------------------------------
(***************************************************************************)
(* L1: what a response header's text MEANS.  A header declared with a      *)
(* schema is written in style "simple" (OAS 3.0.3, the only style of a     *)
(* header); ParamCodec!HeaderCs is that style as a function value -> text. *)
(* Reading is its inverse: TextReadings(cs, explode) is the set of ALL JSON    *)
(* values whose simple-style serialisation is the text cs (a sequence of   *)
(* one-character strings).  A text usually has several readings ("1" is    *)
(* the number 1 and the string "1"; "1,2" is a string, an array of two     *)
(* numbers, an array of two strings, ...): the declared schema says which  *)
(* one is meant, so                                                        *)
(*                                                                         *)
(*   a header text SATISFIES its schema  iff  SOME reading of it is valid. *)
(*                                                                         *)
(* The EMPTY text (`X-A:` sent without a value) and an empty PIECE ("1,,2",   *)
(* "a=1,b=") are the one place where the statement does not fix the reading:*)
(*   mode "str"   the piece is the empty string, as the style table has it *)
(*                (the empty text is also [] and the object without members)*)
(*   mode "none"  the piece carries no value (the documented reading of    *)
(*                the library's decoders): the header's value / the array  *)
(*                item is null, the object member is omitted.              *)
(* Either way the header is PRESENT and its schema applies: `type: integer`*)
(* (number, boolean), an enum, minLength >= 1, a pattern, or an array of   *)
(* such are violated by an empty text / an empty item under BOTH readings  *)
(* (neither "" nor null is an integer), so the contract demands rejection; *)
(* where the two readings disagree (`type: string` and "", an optional     *)
(* object member sent empty) the verdict is left open, the case is still   *)
(* executed (no panic, body readable).                                     *)
(*                                                                         *)
(* Complete by construction for the texts of the universe: items are the   *)
(* maximal comma-free pieces; a piece is a string, and also a number /     *)
(* boolean when it is the canonical spelling of one (NumTable / true,false)*)
(* -- other spellings the Go parsers also take ("0x1", "1e2", "+1", "T",   *)
(* "1" for a boolean) are left open: the universe has none of them, and a  *)
(* boolean schema is never combined with the pieces "0" / "1".             *)
(* Sound w.r.t. the OAS style table: TextReadingsSound (checked by TLC).       *)
(***************************************************************************)
EXTENDS ParamCodec

RECURSIVE SplitAt(_, _)
SplitAt(cs, sep) ==                                 \* like strings.Split: the empty text is ONE empty piece
   IF \A i \in DOMAIN cs : cs[i] # sep THEN <<cs>>
   ELSE LET i == CHOOSE i \in DOMAIN cs : cs[i] = sep /\ \A j \in 1..(i - 1) : cs[j] # sep
        IN <<SubSeq(cs, 1, i - 1)>> \o SplitAt(SubSeq(cs, i + 1, Len(cs)), sep)

(* canonical decimal spellings of the numbers of the universe (quarters); a subset of ParamCodec!NumCs *)
NumTable == { [cs |-> <<"0">>, q |-> 0], [cs |-> <<"1">>, q |-> 4], [cs |-> <<"2">>, q |-> 8], [cs |-> <<"3">>, q |-> 12],
              [cs |-> <<"7">>, q |-> 28], [cs |-> <<"1", "2">>, q |-> 48], [cs |-> <<"1", ".", "5">>, q |-> 6],
              [cs |-> <<"-", "1">>, q |-> -4] }

PrimReadingsStr(cs) ==
   {Str(cs)}
   \cup {Num(e.q) : e \in {e \in NumTable : e.cs = cs}}
   \cup (IF cs = <<"t", "r", "u", "e">> THEN {Bool(TRUE)} ELSE {})
   \cup (IF cs = <<"f", "a", "l", "s", "e">> THEN {Bool(FALSE)} ELSE {})

PrimReadings(cs, mode) == IF cs = <<>> /\ mode = "none" THEN {Null} ELSE PrimReadingsStr(cs)

(* all sequences whose i-th element is a reading of the i-th piece *)
Products(pieces, mode) ==
   LET all == UNION {PrimReadings(pieces[i], mode) : i \in DOMAIN pieces} IN
   {a \in [DOMAIN pieces -> all] : \A i \in DOMAIN pieces : a[i] \in PrimReadings(pieces[i], mode)}

ArrReadings(cs, mode) ==
   IF cs = <<>> THEN (IF mode = "none" THEN {Null} ELSE {Arr(<<>>), Arr(<<Str(<<>>)>>)})
   ELSE {Arr(a) : a \in Products(SplitAt(cs, ","), mode)}

(* object keys of the universe, in sorted order (TLC cannot compare strings) *)
KeyRank(k) == CASE k = <<"x">> -> 1 [] k = <<"y">> -> 2 [] k = <<"z">> -> 3 [] OTHER -> 0       \* names of ParamCodec!KeyCs
Ascending(ks) == /\ \A i \in DOMAIN ks : KeyRank(ks[i]) > 0
                 /\ \A i, j \in DOMAIN ks : i < j => KeyRank(ks[i]) < KeyRank(ks[j])

(* does the text spell a list of (key, value) pairs, and which *)
IsKV(cs, explode) ==
   LET ps == SplitAt(cs, ",") IN
   \/ cs = <<>>
   \/ IF explode THEN \A i \in DOMAIN ps : Len(SplitAt(ps[i], "=")) = 2 ELSE Len(ps) % 2 = 0
KVPieces(cs, explode) ==
   LET ps == SplitAt(cs, ",") IN
   IF cs = <<>> THEN <<>>
   ELSE IF explode THEN [i \in DOMAIN ps |-> SplitAt(ps[i], "=")]
   ELSE [i \in 1..(Len(ps) \div 2) |-> <<ps[2 * i - 1], ps[2 * i]>>]

(* members are unordered: only texts whose keys come in sorted order are in the universe, so a reading keeps the order *)
ObjReadings(cs, explode, mode) ==
   IF cs = <<>> /\ mode = "none" THEN {Null}
   ELSE IF ~IsKV(cs, explode) THEN {}
   ELSE LET kv0 == KVPieces(cs, explode)
            kv == IF mode = "none" THEN SelectSeq(kv0, LAMBDA p : p[2] # <<>>) ELSE kv0 IN     \* "none": empty members omitted
        IF ~Ascending([i \in DOMAIN kv0 |-> kv0[i][1]]) THEN {}
        ELSE {Obj([i \in DOMAIN kv |-> Concat(kv[i][1])], vs) : vs \in Products([i \in DOMAIN kv |-> kv[i][2]], mode)}

TextReadings(cs, explode, mode) == PrimReadings(cs, mode) \cup ArrReadings(cs, mode) \cup ObjReadings(cs, explode, mode)

(* the text satisfies the schema under a reading of empty pieces *)
TextValidIn(s, cs, explode, mode) == \E v \in TextReadings(cs, explode, mode) : Valid(s, v, "plain")
(* the contract: satisfied / violated under both readings; otherwise open *)
TextMustAccept(s, cs, explode) == TextValidIn(s, cs, explode, "str") /\ TextValidIn(s, cs, explode, "none")
TextMustReject(s, cs, explode) == ~TextValidIn(s, cs, explode, "str") /\ ~TextValidIn(s, cs, explode, "none")

(* D: every reading serialises, by the OAS style table, to exactly the text it was read from *)
HCell(explode) == [in |-> "header", style |-> "simple", explode |-> explode]
TextReadingsSound(texts) ==
   \A cs \in texts, e \in BOOLEAN : \A v \in TextReadings(cs, e, "str") :
      /\ ShapeDefined(HCell(e), v)
      /\ HeaderCs(HCell(e), v) = cs
=============================================================================
