------------------------------ MODULE BodyKeep ------------------------------
(***************************************************************************)
(* C08, last clause of the statement: "... and the response body stays     *)
(* readable afterwards" -- as a property of HISTORIES, not of one call.    *)
(*                                                                         *)
(* A process validates several responses (ResponseValidationInput r =      *)
(* 1..MaxResp, each with its own body bytes) and the caller reads the      *)
(* bodies back from input.Body whenever it likes: at once, later, in       *)
(* pieces, after other responses were validated in between, after the same *)
(* input was validated again.  A history is a sequence of calls            *)
(*    validate(r)     openapi3filter.ValidateResponse(ctx, input_r)        *)
(*    read(r, n)      the caller reads n bytes (n = 0: up to EOF) from     *)
(*                    input_r.Body                                         *)
(*                                                                         *)
(* L1 (contract).  What the caller reads from input_r.Body, over the whole *)
(* history, is the bytes that were supplied for r, in order, each once:    *)
(* a read returns the next bytes of r's own body wherever it is placed in  *)
(* the history; validations -- of r or of any other response, accepted or  *)
(* rejected, checked or exempt (HEAD, 304) -- move nothing.  A validation  *)
(* reports the verdict of the one-shot contract (ResponseCheck!Accepts of  *)
(* the response, bound in Trace_C08H); validating an input again, its body *)
(* unread, reports the same.                                               *)
(*                                                                         *)
(* L2 (implementation-shaped): how ValidateResponse keeps the bytes it had *)
(* to consume to decode the body.  Design names the plausible ways:        *)
(*   "copy"       the pinned code: io.ReadAll into a slice of its own,     *)
(*                input.Body = a new reader over it                        *)
(*   "pooled"     read into a recycled buffer (sync.Pool), input.Body = a  *)
(*                reader over the buffer's memory, buffer given back at    *)
(*                return: the next validation that gets the buffer writes  *)
(*                its body over the same memory                            *)
(*   "drain"      the body is consumed and not put back                    *)
(*   "restore_ok" put back only on the path that accepts the response      *)
(* TLC checks L2 => L1 over all histories of <= MaxSteps calls: "copy"     *)
(* satisfies it, each of the others has a counterexample.                  *)
(***************************************************************************)
EXTENDS Naturals, Sequences, FiniteSets, TLC

CONSTANTS Design, MaxResp, MaxSteps, KindsUsed

(* what a response is, as far as the body mechanism cares; the concrete responses are in Gen_C08H!KindCase *)
Kinds == {"read_ok", "read_bad", "bad_ct", "no_content", "exclude", "head", "s304"}
Reads(k) == k \in {"read_ok", "read_bad"}          \* declared content type with a schema, body checking on: the body is consumed
OkKind(k) == k \notin {"read_bad", "bad_ct"}
Verdict(k) == IF OkKind(k) THEN "ok" ELSE "response_error"

R == 1..MaxResp
BodyLen(r) == r + 3                                 \* every response has a body of its own length
Body(r) == [i \in 1..BodyLen(r) |-> <<r, i>>]       \* byte i of response r (tagged: a byte of another response is never equal)
Cap == MaxResp + 3
ReadSizes == {0, 2}                                 \* 0 = up to EOF

Min(a, b) == IF a < b THEN a ELSE b

Calls == {[op |-> "validate", r |-> r] : r \in R} \cup {[op |-> "read", r |-> r, n |-> n] : r \in R, n \in ReadSizes}

(* ---- L1 as a transition function on pos (bytes of r the caller has consumed so far); verdicts[r] is the one-shot ---- *)
(* ---- verdict of response r, bodies[r] the bytes supplied for it (abstract here, the real bytes in Trace_C08H)       ---- *)
L1Step(verdicts, bodies, pos, c) ==
   IF c.op = "validate" THEN [pos |-> pos, obs |-> verdicts[c.r]]
   ELSE LET to == IF c.n = 0 THEN Len(bodies[c.r]) ELSE Min(pos[c.r] + c.n, Len(bodies[c.r])) IN
        [pos |-> [pos EXCEPT ![c.r] = to], obs |-> SubSeq(bodies[c.r], pos[c.r] + 1, to)]

RECURSIVE L1Run(_, _, _, _, _)
L1Run(verdicts, bodies, cs, i, pos) ==
   IF i > Len(cs) THEN <<>>
   ELSE LET s == L1Step(verdicts, bodies, pos, cs[i]) IN <<s.obs>> \o L1Run(verdicts, bodies, cs, i + 1, s.pos)
Expected(verdicts, bodies, cs) == L1Run(verdicts, bodies, cs, 1, [r \in DOMAIN bodies |-> 0])

(* ---- L2 ---- *)
VARIABLES kind,      \* R -> Kinds
          mem,       \* memory blocks: id -> [1..Cap -> byte]
          view,      \* r -> [blk, len, off]: input_r.Body is a reader over mem[blk][1..len], off bytes consumed
          pool,      \* free recycled buffers (block ids), most recently returned last
          hist       \* the calls so far with what L2 reported
vars == <<kind, mem, view, pool, hist>>

Zero == <<0, 0>>
Fill(bytes) == [i \in 1..Cap |-> IF i <= Len(bytes) THEN bytes[i] ELSE Zero]
Over(block, bytes) == [i \in 1..Cap |-> IF i <= Len(bytes) THEN bytes[i] ELSE block[i]]

Init == /\ kind \in [R -> KindsUsed]
        /\ mem = [r \in R |-> Fill(Body(r))]                      \* block r: the reader the caller supplied
        /\ view = [r \in R |-> [blk |-> r, len |-> BodyLen(r), off |-> 0]]
        /\ pool = <<>>
        /\ hist = <<>>

Rest(r) == SubSeq(mem[view[r].blk], view[r].off + 1, view[r].len)   \* what a reader of input_r.Body gets now
NewBlk == Len(mem) + 1

Validate(r) ==
   LET k == kind[r]  data == Rest(r)  c == [op |-> "validate", r |-> r] IN
   /\ view[r].off = 0                                               \* (re-)validated with its body unread
   /\ hist' = Append(hist, [c |-> c, obs |-> Verdict(k)])
   /\ kind' = kind
   /\ IF ~Reads(k) THEN UNCHANGED <<mem, view, pool>>
      ELSE CASE Design = "copy" \/ (Design = "restore_ok" /\ OkKind(k)) ->
                  /\ mem' = Append(mem, Fill(data))
                  /\ view' = [view EXCEPT ![r] = [blk |-> NewBlk, len |-> Len(data), off |-> 0]]
                  /\ pool' = pool
             [] Design = "drain" \/ (Design = "restore_ok" /\ ~OkKind(k)) ->
                  /\ view' = [view EXCEPT ![r] = [blk |-> view[r].blk, len |-> view[r].len, off |-> view[r].len]]
                  /\ UNCHANGED <<mem, pool>>
             [] Design = "pooled" ->
                  IF pool = <<>>
                  THEN /\ mem' = Append(mem, Fill(data))
                       /\ view' = [view EXCEPT ![r] = [blk |-> NewBlk, len |-> Len(data), off |-> 0]]
                       /\ pool' = <<NewBlk>>                         \* given back at return
                  ELSE LET b == pool[Len(pool)] IN
                       /\ mem' = [mem EXCEPT ![b] = Over(mem[b], data)]   \* Reset + ReadFrom: written over the same memory
                       /\ view' = [view EXCEPT ![r] = [blk |-> b, len |-> Len(data), off |-> 0]]
                       /\ pool' = pool

Read(r, n) ==
   LET c == [op |-> "read", r |-> r, n |-> n]
       to == IF n = 0 THEN view[r].len ELSE Min(view[r].off + n, view[r].len) IN
   /\ \E i \in DOMAIN hist : hist[i].c = [op |-> "validate", r |-> r]   \* "afterwards"
   /\ \A i \in DOMAIN hist : hist[i].c # [op |-> "read", r |-> r, n |-> 0]   \* nothing is read after EOF
   /\ hist' = Append(hist, [c |-> c, obs |-> SubSeq(mem[view[r].blk], view[r].off + 1, to)])
   /\ view' = [view EXCEPT ![r].off = to]
   /\ UNCHANGED <<kind, mem, pool>>

(* symmetry by hand: responses enter a history in index order *)
Entered(r) == \E i \in DOMAIN hist : hist[i].c.r = r
Next == /\ Len(hist) < MaxSteps
        /\ \E r \in R : /\ (r > 1 => Entered(r - 1))
                        /\ (Validate(r) \/ \E n \in ReadSizes : Read(r, n))
Spec == Init /\ [][Next]_vars

L2ImpliesL1 == [i \in DOMAIN hist |-> hist[i].obs]
               = Expected([r \in R |-> Verdict(kind[r])], [r \in R |-> Body(r)], [i \in DOMAIN hist |-> hist[i].c])

(* a history as the generator hands it on: complete, or nothing more can be called *)
Complete == Len(hist) = MaxSteps
=============================================================================
