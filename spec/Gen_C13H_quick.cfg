SPECIFICATION Spec
CONSTANT Tier = "quick"
INVARIANT Emit
CHECK_DEADLOCK FALSE
