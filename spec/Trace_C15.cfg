SPECIFICATION Spec
INVARIANTS Judge
POSTCONDITION AllConsumed
CHECK_DEADLOCK FALSE
