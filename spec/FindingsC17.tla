----------------------------- MODULE FindingsC17 -----------------------------
(***************************************************************************)
(* Finding classes for C17 (see known_findings.json): each is the minimal   *)
(* syntactic trigger in the OpenAPI 2 document AND the specific wrong       *)
(* observation (one difference record of Trace_C17: failed conjunct,        *)
(* direction, place, expected, observed).  "none" = not a listed finding.   *)
(* A different wrong observation at the same trigger, or the same           *)
(* observation without the trigger, is not matched and is reported.         *)
(***************************************************************************)
EXTENDS Api23

Last(p) == IF p = <<>> THEN "" ELSE p[Len(p)]
Last2(p) == IF Len(p) < 2 THEN "" ELSE p[Len(p) - 1]

(* the schema objects that sit directly under an "additionalProperties" key, anywhere *)
RECURSIVE ApSchemas(_)
ApSchemas(v) ==
   CASE v.t = "obj" -> (IF "additionalProperties" \in DOMAIN v.m /\ v.m["additionalProperties"].t = "obj"
                        THEN {v.m["additionalProperties"]} ELSE {})
                       \cup UNION {ApSchemas(v.m[k]) : k \in DOMAIN v.m}
     [] v.t = "arr" -> UNION {ApSchemas(v.a[i]) : i \in DOMAIN v.a}
     [] OTHER -> {}

(* definition names referenced directly from an additionalProperties position *)
ApDirectRefNames(d) ==
   {n \in Keys(Sub(d, "definitions")) :
       \E x \in ApSchemas(d) : Has(x, "$ref") /\ x.m["$ref"] = S("#/definitions/" \o n)}
(* an additionalProperties schema (not itself a reference) with a reference further down *)
RefBelowAp(d) ==
   \E x \in ApSchemas(d) : ~Has(x, "$ref") /\ \E k \in DOMAIN x.m \ {"additionalProperties"} : AllRefs(x.m[k]) # {}
DiscriminatorBelowAp(d) == \E x \in ApSchemas(d) : HasKeyDeep(x, "discriminator")

(* shared form parameters that are not file uploads: component name -> field name *)
SharedFormNames(d) ==
   {n \in Keys(Sub(d, "parameters")) :
       LET p == d.m["parameters"].m[n] IN Opt(p, "in") = S("formData") /\ Opt(p, "type") # S("file")}
SharedFormFields(d) == {StrOf(Opt(d.m["parameters"].m[n], "name"), "?") : n \in SharedFormNames(d)}

(* shared form parameters stored under a key that is also the key of a definition: component name -> field name *)
CollidingFormNames(d) ==
   {n \in Keys(Sub(d, "parameters")) \cap Keys(Sub(d, "definitions")) : Opt(d.m["parameters"].m[n], "in") = S("formData")}
CollidingFormFields(d) == {StrOf(Opt(d.m["parameters"].m[n], "name"), "?") : n \in CollidingFormNames(d)}

(* the `produces` the converter applies to the response at ops/<opkey>/responses/<code> *)
ProducesAt(d, opkey, code) ==
   LET paths == Sub(d, "paths")
       ks == {k \in OpKeys(paths, Methods2) : Has(paths.m[k[1]], k[2]) /\ k[1] \o " " \o k[2] = opkey}
   IN IF ks = {} THEN {}
      ELSE LET k == CHOOSE x \in ks : TRUE
               op == paths.m[k[1]].m[k[2]]
               r0 == Opt(Sub(op, "responses"), code)
           IN StrSet(IF Has(r0, "$ref") THEN Opt(d, "produces") ELSE Opt(op, "produces"))

(* the normal form of a binary string schema (v2 type file, or string with format binary) *)
IsBinNorm(x) == x.t = "obj" /\ Opt(x, "type") = S("string") /\ Opt(x, "format") = S("binary")
(* a query / header / path parameter or a response header that is a binary string *)
RECURSIVE BinPlainParam(_, _)
BinPlainParam(v, mode) ==
   CASE v.t = "obj" ->
           \/ /\ Opt(v, "type") = S("string") /\ Opt(v, "format") = S("binary")
              /\ (mode = "header" \/ Opt(v, "in") \in {S("query"), S("header"), S("path")})
           \/ \E k \in DOMAIN v.m :
                 BinPlainParam(v.m[k], IF mode = "headers" THEN "header" ELSE IF k = "headers" THEN "headers" ELSE "")
     [] v.t = "arr" -> \E i \in DOMAIN v.a : BinPlainParam(v.a[i], "")
     [] OTHER -> FALSE

(* an operation with a body or form parameter (inline or shared) whose other parameters are named both "body" and "requestBody" *)
BodyNamesTaken(d) ==
   \E k \in OpKeys(Sub(d, "paths"), Methods2) :
      /\ Has(Sub(d, "paths").m[k[1]], k[2])
      /\ LET op == Sub(d, "paths").m[k[1]].m[k[2]]
             ps == {Deref("#/parameters/", Sub(d, "parameters"), x) : x \in Elems(op, "parameters")}
         IN /\ \E x \in ps : Opt(x, "in") \in {S("body"), S("formData")}
            /\ \A nm \in {"body", "requestBody"} :
                  \E x \in ps : Opt(x, "in") \notin {S("body"), S("formData")} /\ Opt(x, "name") = S(nm)

(* the value at a path of keys in a tagged object (Absent when the path leaves it) *)
RECURSIVE AtPath(_, _)
AtPath(v, path) == IF path = <<>> THEN v
                   ELSE IF v.t = "obj" /\ Head(path) \in DOMAIN v.m THEN AtPath(v.m[Head(path)], Tail(path))
                   ELSE IF v.t = "arr" /\ \E i \in DOMAIN v.a : ToString(i) = Head(path)
                        THEN AtPath(v.a[CHOOSE i \in DOMAIN v.a : ToString(i) = Head(path)], Tail(path))
                   ELSE Absent

(* the operation <opkey> takes its body from a shared body parameter, and the document-level consumes (the one the *)
(* converter applies to shared parameters) names two or more media types, none of them a form type                *)
SharedBodyOfSeveralMediaTypes(d, opkey) ==
   LET paths == Sub(d, "paths")
       ks == {k \in OpKeys(paths, Methods2) : Has(paths.m[k[1]], k[2]) /\ k[1] \o " " \o k[2] = opkey}
       mts == StrSet(Opt(d, "consumes"))
   IN /\ ks # {} /\ Cardinality(mts) >= 2 /\ mts \cap FormMTs = {}
      /\ LET k == CHOOSE x \in ks : TRUE IN
         \E x \in Elems(paths.m[k[1]].m[k[2]], "parameters") :
            Has(x, "$ref") /\ Opt(Deref("#/parameters/", Sub(d, "parameters"), x), "in") = S("body")

IsBack(v) == v.dir = "back" /\ v.failed = "v2_again_describes_another_api"
IsFwd(v)  == v.dir = "fwd" /\ v.failed = "v3_describes_another_api"

Class(line, v) ==
   LET d == line.d  p == v.path IN
   \* F-C17-1  FromV3SchemaRef does not copy the discriminator
   IF IsBack(v) /\ Last(p) = "discriminator" /\ v.exp.t = "str" /\ v.got = Absent
      THEN "back_discriminator_dropped"
   \* F-C17-2  FromV3SchemaRef copies additionalProperties unconverted: the v3 reference stays
   ELSE IF /\ IsBack(v) /\ Last2(p) = "additionalProperties"
           /\ \/ Last(p) = "$ref" /\ v.got = Absent /\ v.exp.t = "str" /\ v.exp.s \in ApDirectRefNames(d)
              \/ Last(p) = "$badref" /\ v.exp = Absent
                    /\ \E n \in ApDirectRefNames(d) : v.got = S("#/components/schemas/" \o n)
      THEN "back_additionalproperties_ref_not_rewritten"
   ELSE IF /\ v.failed = "v2_again_reference_not_v2"
           /\ \E n \in ApDirectRefNames(d) : v.got = S("#/components/schemas/" \o n)
      THEN "back_additionalproperties_ref_not_rewritten"
   \* F-C17-3  FromV3RequestBodyFormData looks for `required` in the property, ToV3 put it on the object
   ELSE IF /\ IsBack(v) /\ Len(p) = 6 /\ p[1] = "ops" /\ p[3] = "body" /\ p[4] = "fields" /\ p[6] = "required"
           /\ v.exp = B(TRUE) /\ v.got = B(FALSE)
      THEN "back_form_required_lost"
   \* F-C17-4  ToV3 makes servers only when there is a host: a base path alone is dropped
   ELSE IF /\ Host2(d) = "" /\ Base2(d) # "" /\ "d3" \in DOMAIN line /\ Servers3(line.d3) = {}
           /\ \/ v.failed = "v3_servers"
              \/ v.failed = "v2_again_servers" /\ p = <<"servers", "basePath">> /\ v.got = S("")
      THEN "basepath_without_host_dropped"
   \* F-C17-5  a shared non-file form parameter comes back as a definition, its reference dangles
   ELSE IF /\ IsBack(v) /\ Len(p) >= 3 /\ p[1] = "ops" /\ SharedFormNames(d) # {}
           /\ \/ /\ Len(p) = 4 /\ p[3] = "params" /\ p[4] = "$bad" /\ v.exp = Absent /\ v.got.t = "arr"
                 /\ \A i \in DOMAIN v.got.a :
                       \E n \in SharedFormNames(d) : v.got.a[i] = O(KV("$badref", S("#/parameters/" \o n)))
              \/ /\ Len(p) = 3 /\ p[3] = "body" /\ v.got = Nul /\ Opt(v.exp, "kind") = S("form")
                 /\ Keys(Sub(v.exp, "fields")) \subseteq SharedFormFields(d)
              \/ /\ Len(p) = 5 /\ p[3] = "body" /\ p[4] = "fields" /\ v.got = Absent /\ p[5] \in SharedFormFields(d)
      THEN "back_shared_form_parameter_becomes_definition"
   \* F-C17-20 ToV3 keeps a shared form parameter as components.schemas[<its key>] and writes the definitions into the same
   \*          map afterwards: under the key of a definition the form parameter is replaced by that definition, the form field
   \*          of every operation using it gets the definition's schema (and on the way back the operation refers to a shared
   \*          parameter that is not there)
   ELSE IF /\ CollidingFormNames(d) # {} /\ Len(p) >= 3 /\ p[1] = "ops"
           /\ \/ /\ IsFwd(v) /\ Len(p) >= 6 /\ p[3] = "body" /\ p[4] = "fields" /\ p[5] \in CollidingFormFields(d)
              \/ /\ IsBack(v) /\ Len(p) = 4 /\ p[3] = "params" /\ p[4] = "$bad" /\ v.exp = Absent /\ v.got.t = "arr"
                 /\ \A i \in DOMAIN v.got.a :
                       \E n \in CollidingFormNames(d) \cup SharedFormNames(d) : v.got.a[i] = O(KV("$badref", S("#/parameters/" \o n)))
              \/ /\ IsBack(v) /\ Len(p) = 3 /\ p[3] = "body" /\ v.got = Nul /\ Opt(v.exp, "kind") = S("form")
                 /\ Keys(Sub(v.exp, "fields")) \subseteq SharedFormFields(d) \cup CollidingFormFields(d)
                 /\ Keys(Sub(v.exp, "fields")) \cap CollidingFormFields(d) # {}
              \/ /\ IsBack(v) /\ Len(p) = 5 /\ p[3] = "body" /\ p[4] = "fields" /\ v.got = Absent /\ p[5] \in CollidingFormFields(d)
      THEN "shared_form_parameter_key_is_definition_key"
   \* F-C17-6  only references directly under additionalProperties are rewritten by ToV3
   ELSE IF v.failed = "to_v3_error" /\ RefBelowAp(d)
      THEN "to_v3_fails_reference_below_additionalproperties"
   \* F-C17-7  openapi2.Schema.AdditionalProperties is an OpenAPI 3 schema: a v2 discriminator string does not parse
   ELSE IF v.failed = "v2_document_not_read_error" /\ DiscriminatorBelowAp(d)
      THEN "v2_discriminator_below_additionalproperties_unreadable"
   \* F-C17-8  ... and x-nullable below additionalProperties is not turned into nullable
   ELSE IF /\ IsFwd(v) /\ Last(p) = "nullable" /\ v.exp = B(TRUE) /\ v.got = Absent
           /\ \E i \in DOMAIN p : p[i] = "additionalProperties"
      THEN "fwd_xnullable_below_additionalproperties_kept"
   \* F-C17-9  FromV3RequestBodyFormData does not copy format
   ELSE IF /\ IsBack(v) /\ Len(p) = 7 /\ p[1] = "ops" /\ p[3] = "body" /\ p[4] = "fields" /\ p[6] = "cons" /\ p[7] = "format"
           /\ v.exp.t = "str" /\ v.exp # S("binary") /\ v.got = Absent
      THEN "back_form_format_lost"
   \* F-C17-10 FromV3 recognises only http and https servers
   ELSE IF /\ v.failed = "v2_again_servers" /\ Len(p) = 3 /\ p[1] = "servers" /\ p[2] = "schemes" /\ p[3] \in {"ws", "wss"}
           /\ v.got = Absent
      THEN "back_ws_scheme_lost"
   \* F-C17-11 FromV3SchemaRef takes every binary string schema (type file, or string + format binary) for a form
   \*          file parameter: as a response / body schema, property, items, allOf member or definition it is gone
   ELSE IF /\ IsBack(v)
           /\ \/ IsBinNorm(v.exp) /\ v.got \in {Nul, Absent}
              \/ /\ Last(p) = "properties" /\ v.got = Absent /\ v.exp.t = "obj"
                 /\ \A k \in DOMAIN v.exp.m : IsBinNorm(v.exp.m[k])
      THEN "back_binary_schema_taken_for_form_file"
   \* F-C17-14 ... and FromV3Parameter dereferences the nil schema it gets back for such a parameter or header
   ELSE IF v.failed = "from_v3_panic" /\ BinPlainParam(d, "")
      THEN "from_v3_panics_on_binary_parameter"
   \* F-C17-12 FromV3Response reads the schema of application/json only
   ELSE IF /\ IsBack(v) /\ Len(p) = 5 /\ p[1] = "ops" /\ p[3] = "responses" /\ p[5] = "schema"
           /\ v.exp # Nul /\ v.got = Nul
           /\ ProducesAt(d, p[2], p[4]) # {} /\ "application/json" \notin ProducesAt(d, p[2], p[4])
      THEN "back_response_schema_lost_without_json"
   \* F-C17-16 the repair of F-C17-14 keeps only type and format of a binary string parameter / response header
   \*          (FromV3SchemaRef still hands back no schema for it): its other keywords are gone after the round trip
   ELSE IF /\ IsBack(v) /\ v.got = Absent /\ v.exp # Absent /\ Last(p) \notin {"type", "format"}
           /\ \/ Len(p) = 6 /\ p[1] = "ops" /\ p[3] = "params" /\ p[5] = "cons"
              \/ Len(p) = 7 /\ p[1] = "ops" /\ p[3] = "responses" /\ p[5] = "headers"
           /\ IsBinNorm(AtPath(Api2(d), SubSeq(p, 1, Len(p) - 1)))
      THEN "back_binary_parameter_keywords_lost"
   \* F-C17-15 FromV3Operation insists on a free name among "body" / "requestBody" although the original name is at hand
   ELSE IF v.failed = "from_v3_error" /\ BodyNamesTaken(d)
      THEN "from_v3_fails_body_names_taken"
   \* F-C17-17 ToV3Parameter (formData case) writes its x-formData-name marker into the parameter of the INPUT document
   ELSE IF /\ v.failed = "to_v3_changed_its_input" /\ Last(p) = "x-formData-name" /\ v.exp = Absent /\ v.got.t = "str"
           /\ LET prm == AtPath(line.rd, SubSeq(p, 1, Len(p) - 1)) IN
              prm # Absent /\ Opt(prm, "in") = S("formData") /\ Opt(prm, "name") = v.got
      THEN "to_v3_writes_formdata_name_into_input"
   \* F-C17-18 FromV3SchemaRef resets Nullable on the schema of the INPUT document when it emits x-nullable
   ELSE IF v.failed = "from_v3_changed_its_input" /\ Last(p) = "nullable" /\ v.exp = B(TRUE) /\ v.got = Absent
      THEN "from_v3_resets_nullable_in_input"
   \* F-C17-19 ... so of the conversions of a schema shared by several media types only the first emits x-nullable, and for a
   \*          shared body parameter FromV3 keeps the last: x-nullable inside its inline schema is lost on the way back
   ELSE IF /\ IsBack(v) /\ Len(p) >= 5 /\ p[1] = "ops" /\ p[3] = "body" /\ p[4] = "schema" /\ Last(p) = "nullable"
           /\ v.exp = B(TRUE) /\ v.got = Absent
           /\ SharedBodyOfSeveralMediaTypes(d, p[2])
      THEN "back_shared_body_xnullable_lost_with_several_media_types"
   \* F-C17-13 ToV3 leaves paths unset when the v2 document has no path: the v3 document is invalid
   ELSE IF v.failed \in {"v3_invalid_error", "v3_reloaded_invalid_error"} /\ Keys(Sub(d, "paths")) = {}
      THEN "empty_paths_invalid_v3"
   ELSE "none"
=============================================================================
