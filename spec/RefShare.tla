------------------------------ MODULE RefShare ------------------------------
(***************************************************************************)
(* C20, reference graphs, second shape: SHARED TARGETS.  RefGraph.tla has   *)
(* one reference per node; here one document holds TWO references, from     *)
(* sites of kinds k1 and k2 (equal or different), that name the same        *)
(* external file -- everything a loader keeps per file or per target        *)
(* (documents read, elements resolved, references in progress) is then      *)
(* entered twice, possibly with values of different types.                  *)
(*   "whole":    both references are the bare file name (the whole file is  *)
(*               the target); the file holds ONE object of kind `content`   *)
(*               -- right for both sites, for one of them, or for neither;  *)
(*   "fragment": the references name components of the two kinds inside     *)
(*               the same file (content = "doc": a document with a          *)
(*               component of every kind).                                  *)
(* Run through LoadFromData and LoadFromFile, switch on and off.            *)
(***************************************************************************)
EXTENDS Naturals, Sequences

SKinds == {"schema", "parameter", "header", "requestBody", "response", "link", "callback", "pathItem", "example"}
CONSTANT SContents     \* "own": the content is of kind k1 or k2; "all": every kind
ShareCases ==
   {[k1 |-> a, k2 |-> b, content |-> c, frag |-> "whole"] :
        a \in SKinds, b \in SKinds, c \in (IF SContents = "all" THEN SKinds ELSE {})}
   \cup {[k1 |-> a, k2 |-> b, content |-> a, frag |-> "whole"] : a \in SKinds, b \in SKinds}
   \cup {[k1 |-> a, k2 |-> b, content |-> b, frag |-> "whole"] : a \in SKinds, b \in SKinds}
   \cup {[k1 |-> a, k2 |-> b, content |-> "doc", frag |-> "fragment"] : a \in SKinds, b \in SKinds}

(* the second reference spells the file name as the first does ("shared.json") or differently ("./shared.json": another string, the same file) *)
Spellings == {"plain", "dotslash"}
VARIABLES sc, sspell, sentry, sallow
SInit == sc \in ShareCases /\ sspell \in Spellings /\ sentry \in {"data", "file"} /\ sallow \in BOOLEAN /\ (~sallow => (sentry = "data" /\ sspell = "plain"))
SNext == UNCHANGED <<sc, sspell, sentry, sallow>>
SSpec == SInit /\ [][SNext]_<<sc, sspell, sentry, sallow>>
=============================================================================
