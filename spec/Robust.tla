------------------------------- MODULE Robust -------------------------------
(***************************************************************************)
(* Robustness (C20, C10): the structure of the hostile-input space and the *)
(* outcome alphabet.  The oracle is trivial -- every operation returns     *)
(* normally, with a result or an error -- so the specification's job is    *)
(* to span the space: a mutation machine over the nodes of a document.     *)
(*                                                                         *)
(* A document is addressed by node index 1..NNodes (depth-first order of   *)
(* its JSON tree, object keys sorted).  A case is a sequence of at most    *)
(* MaxMut mutations [op, node] applied in order, a load entry point, the   *)
(* external-reference switch and the rendering (JSON / YAML).              *)
(***************************************************************************)
EXTENDS Naturals, Sequences, FiniteSets, TLC

CONSTANTS NNodes,     \* number of nodes of the base document
          MaxMut,     \* length of mutation sequences explored exhaustively
          PairStride, \* second mutations only at nodes n with n % PairStride = Seed % PairStride
          LexStride,  \* lexical operators only at nodes n with n % LexStride = Seed % LexStride (a seeded slice of the nodes)
          Seed

TypeOps == {"to_null", "to_bool", "to_num", "to_str", "to_arr", "to_obj", "to_empty_obj", "to_empty_str",
            "to_str_braces"}       \* a string with balanced but wrongly ordered template braces ("v1}/{version"): URLs, paths, expressions
StructOps == {"delete", "dup_key_other_type", "nest_deep", "huge_number", "truncate_here", "byte_noise"}
RefOps == {"ref_dangling", "ref_self", "ref_parent", "ref_wrong_kind", "ref_scalar", "ref_array_elem", "ref_escaped_ptr",
           "ref_hash_only", "ref_empty", "ref_ext_scalar", "ref_ext_array", "ref_ext_empty", "ref_ext_nonjson", "ref_ext_missing",
           "ref_ext_tab", "ref_ext_bom", "ref_ext_null", "ref_ext_yamlsep",     \* the external file is a blob (see Blobs)
           "ref_cycle_two", "ref_array_len", "ref_array_beyond", "ref_array_neg", "ref_array_nonnum", "ref_deep_array_len",
           "ref_absent_subfield",          \* a pointer to a keyword the target schema does not have (not / items / additionalProperties)
           "ref_through_unresolved_ref",   \* a pointer that passes through a component which is itself a not-yet-resolved pure $ref
           "ref_callback_self"}            \* a callback whose operation refers to the callback again
(* keyword injections: parseable but hostile keyword combinations written into a SCHEMA object (the node   *)
(* index selects among the schema objects of the document)                                                *)
SchemaOps == {"schema_bad_pattern_example", "schema_type_empty_list", "schema_type_list", "schema_multipleof_zero_default",
              "schema_minmax_inverted_example", "schema_enum_empty", "schema_default_wrong_type", "schema_example_wrong_type",
              "schema_discriminator_empty", "schema_format_unknown_example", "schema_properties_null_entry", "schema_items_list",
              "schema_additional_props_string", "schema_required_unknown_and_dup", "schema_allof_empty", "schema_oneof_null_member",
              \* a component schema that is a composition of itself, with a default / example to be checked against it
              "schema_self_allof_default", "schema_self_anyof_example", "schema_self_not_default"}
(* Lexical operators: the other half of "all byte strings".  The operators above mutate the JSON TREE of the document and   *)
(* render it canonically; these write the same near-valid document with the features of the two CONCRETE SYNTAXES that no   *)
(* tree mutation produces (the loader reads JSON first and falls back on YAML, so JSON-like text that is not JSON is YAML    *)
(* input).  A value operator replaces the rendering of the node by a raw fragment -- YAML anchors / aliases (one alias, an    *)
(* alias to an enclosing node, an undefined alias, the bounded "billion laughs" fan-out), merge keys (of a map, a list, a    *)
(* scalar, twice), explicit tags (core, unknown, of the wrong kind), the implicit scalar types of YAML 1.1 / 1.2 (octal,     *)
(* hex, binary, sexagesimal, .inf, .nan, yes, ~, timestamps, integers at and beyond the 64-bit limits), quoting and escape    *)
(* forms; JSON number / string forms at the edge (NUL and lone-surrogate escapes, -0, huge exponents) and just beyond it      *)
(* (leading zero, hex, trailing comma, single quotes, unquoted keys, comments, NaN, Infinity); invalid and unusual UTF-8.     *)
(* A key operator adds an entry with a raw key next to the node (non-string YAML keys: int, bool, null, float, sequence, map, *)
(* timestamp, binary, alias, merge; empty / NUL / invalid UTF-8 keys; "$ref" and "__origin__" as stray keys).  A document      *)
(* operator rewrites the whole text (byte-order mark, UTF-16, CRLF, trailing garbage, the document twice, NUL padding, YAML   *)
(* directives / several documents / a huge comment) or blows one node up (64 KiB key, 256 KiB string, an exact duplicate of a  *)
(* key, 5 000- / 20 000-deep YAML flow nesting, 5 000-deep block nesting, 1 000 aliases: sizes that a loaded machine still   *)
(* gets through well inside the watchdog -- slowness is not a hang).  The bytes behind each name are                          *)
(* a table of the realiser (harness/c20lex.go).  yaml_* operators are rendered as YAML, json_* as JSON, the others as both.   *)
LexValueOps == {"yaml_anchor_alias", "yaml_alias_self", "yaml_alias_self_map", "yaml_alias_undefined",
                "yaml_alias_fanout", "yaml_merge_key", "yaml_merge_list", "yaml_merge_scalar", "yaml_merge_override",
                "yaml_tag_str", "yaml_tag_binary", "yaml_tag_binary_bad", "yaml_tag_int_word", "yaml_tag_float_huge",
                "yaml_tag_unknown", "yaml_tag_map_on_scalar", "yaml_tag_seq_on_map", "yaml_tag_null_word",
                "yaml_tag_timestamp", "yaml_tag_set", "yaml_timestamp", "yaml_octal", "yaml_octal_old", "yaml_hex",
                "yaml_binary_int", "yaml_inf", "yaml_neg_inf", "yaml_nan", "yaml_yes", "yaml_tilde",
                "yaml_underscore_num", "yaml_sexagesimal", "yaml_big_int", "yaml_uint64_max", "yaml_int64_min",
                "yaml_plus_num", "yaml_exp_huge", "yaml_quoted_escapes", "yaml_single_quoted", "yaml_flow_unclosed",
                "yaml_empty_flow_entry", "yaml_question_key_value", "json_nul_escape", "json_lone_surrogate",
                "json_swapped_surrogates", "json_neg_zero", "json_exp_huge", "json_exp_tiny", "json_long_fraction",
                "json_leading_zero", "json_hex", "json_trailing_comma", "json_trailing_comma_obj",
                "json_single_quotes", "json_unquoted_key", "json_comment", "json_nan", "json_infinity", "json_plus",
                "json_bare_dot", "json_control_in_string", "invalid_utf8_value", "utf8_overlong",
                "utf8_surrogate_bytes", "utf8_noncharacter", "utf8_bom_inside"}
LexKeyOps == {"yaml_key_int", "yaml_key_bool", "yaml_key_null", "yaml_key_float", "yaml_key_seq", "yaml_key_map",
              "yaml_key_timestamp", "yaml_key_binary", "yaml_key_alias", "yaml_key_merge", "key_empty", "key_nul",
              "key_invalid_utf8", "key_ref", "key_origin", "key_dot_slash"}
LexDocOps == {"long_key", "long_string", "dup_key_same", "yaml_nest_deep_flow", "yaml_nest_deep_block",
              "yaml_many_aliases", "doc_bom", "doc_utf16le", "doc_utf16be", "doc_crlf", "doc_trailing_garbage",
              "doc_twice", "doc_nul_padding", "yaml_multi_doc", "yaml_doc_end_garbage", "yaml_directive",
              "yaml_directive_bad", "yaml_tag_directive", "yaml_leading_comment"}
LexOps == LexValueOps \cup LexKeyOps \cup LexDocOps
YamlOnly(op) == op \in {"yaml_anchor_alias", "yaml_alias_self", "yaml_alias_self_map", "yaml_alias_undefined",
                      "yaml_alias_fanout", "yaml_merge_key", "yaml_merge_list", "yaml_merge_scalar",
                      "yaml_merge_override", "yaml_tag_str", "yaml_tag_binary", "yaml_tag_binary_bad",
                      "yaml_tag_int_word", "yaml_tag_float_huge", "yaml_tag_unknown", "yaml_tag_map_on_scalar",
                      "yaml_tag_seq_on_map", "yaml_tag_null_word", "yaml_tag_timestamp", "yaml_tag_set",
                      "yaml_timestamp", "yaml_octal", "yaml_octal_old", "yaml_hex", "yaml_binary_int", "yaml_inf",
                      "yaml_neg_inf", "yaml_nan", "yaml_yes", "yaml_tilde", "yaml_underscore_num",
                      "yaml_sexagesimal", "yaml_big_int", "yaml_uint64_max", "yaml_int64_min", "yaml_plus_num",
                      "yaml_exp_huge", "yaml_quoted_escapes", "yaml_single_quoted", "yaml_flow_unclosed",
                      "yaml_empty_flow_entry", "yaml_question_key_value", "yaml_key_int", "yaml_key_bool",
                      "yaml_key_null", "yaml_key_float", "yaml_key_seq", "yaml_key_map", "yaml_key_timestamp",
                      "yaml_key_binary", "yaml_key_alias", "yaml_key_merge", "yaml_nest_deep_flow",
                      "yaml_nest_deep_block", "yaml_many_aliases", "yaml_multi_doc", "yaml_doc_end_garbage",
                      "yaml_directive", "yaml_directive_bad", "yaml_tag_directive", "yaml_leading_comment"}
JsonOnly(op) == op \in {"json_nul_escape", "json_lone_surrogate", "json_swapped_surrogates", "json_neg_zero",
                      "json_exp_huge", "json_exp_tiny", "json_long_fraction", "json_leading_zero", "json_hex",
                      "json_trailing_comma", "json_trailing_comma_obj", "json_single_quotes", "json_unquoted_key",
                      "json_comment", "json_nan", "json_infinity", "json_plus", "json_bare_dot",
                      "json_control_in_string"}
Ops == TypeOps \cup StructOps \cup RefOps \cup SchemaOps \cup LexOps

Entries == {"data", "datapath", "file"}

(* Base documents.  "full": harness/c20_doc.json, every object kind in use.  Sparse bases are   *)
(* WELL-FORMED two-file documents: the root's single operation refers to component X of one     *)
(* kind in ext.json (whose child sites refer on to further components of ext.json), and the     *)
(* root's own components section is absent / empty / holds only a component of another kind /   *)
(* only one of the same kind -- InternalizeRefs then has to create every map it writes to.      *)
SparseKinds == {"schemas", "parameters", "headers", "requestBodies", "responses", "examples", "links", "callbacks"}
Layouts == {"none", "empty", "other_only", "same_only"}
FullBase == [kind |-> "-", comps |-> "full"]
(* "blob" bases: whole documents that are not (or hardly) a document at all -- nothing, white space of every kind (a tab  *)
(* is not white space to the YAML reader), a byte-order mark, the JSON / YAML spellings of a non-object, bare bytes.    *)
(* The bytes behind each name are a table of the realiser (harness/c20.go c20Blobs).                                    *)
Blobs == {"empty", "space", "tab", "nl_tab_nl", "sp_tab_sp", "crlf", "crlf_tab", "bom", "bom_tab", "null", "arr", "obj", "str", "num", "true",
          "tilde", "yaml_sep", "yaml_sep_end", "yaml_tab_indent", "nul_byte", "ff_bytes", "brace_open", "bracket_open", "colon", "dash",
          "quote_open", "anchor_loop", "merge_key_scalar"}
BlobBases == [kind : {"blob"}, comps : Blobs]
Bases == {FullBase} \cup [kind : SparseKinds, comps : Layouts] \cup BlobBases
CONSTANTS SparseNodes,   \* node indices used on a sparse base
          SparseOps      \* operators applied (singly) to a sparse base

VARIABLES muts, entry, allow, yaml, base
vars == <<muts, entry, allow, yaml, base>>

Init == muts = <<>> /\ entry \in Entries /\ allow \in BOOLEAN /\ yaml \in BOOLEAN /\ base \in Bases

Mutate(op, n) ==
   /\ Len(muts) < MaxMut
   /\ (Len(muts) >= 1 => (n % PairStride = Seed % PairStride          \* pairs on a seeded slice of the nodes,
                           /\ entry = "data" /\ allow /\ ~yaml))      \* JSON through LoadFromData only
   /\ (base # FullBase => (muts = <<>> /\ n <= SparseNodes /\ op \in SparseOps))
   /\ base \notin BlobBases                                          \* a blob has no nodes to mutate
   /\ (op \in LexOps => n % LexStride = Seed % LexStride)
   /\ (Len(muts) >= 1 => (op \notin LexOps /\ muts[1].op \notin LexOps))   \* lexical operators singly (the pair level is tree x tree)
   /\ muts' = Append(muts, [op |-> op, node |-> n])
   /\ UNCHANGED <<entry, allow, yaml, base>>

(* (the bound is tested before the operators are enumerated: a finished sequence costs TLC one comparison, not |Ops| x NNodes) *)
Next == Len(muts) < MaxMut /\ base \notin BlobBases /\ \E op \in Ops, n \in 1..NNodes : Mutate(op, n)
Spec == Init /\ [][Next]_vars

(* every case is run through LoadFromData as JSON with external refs allowed; the other entry  *)
(* points, the YAML rendering and the switch set to off are added for the reference operators,  *)
(* null, delete and truncate (where location handling and the YAML reader matter)               *)
Emitted == /\ (base = FullBase => muts # <<>>)
           /\ ((base # FullBase /\ base \notin BlobBases) => (allow /\ ~yaml /\ entry \in {"file", "datapath"}))      \* the unmutated sparse document is a case
           /\ (base \in BlobBases => ~yaml)                               \* a blob is bytes: every entry point, both switch settings
           /\ ((yaml \/ (~allow /\ base \notin BlobBases)) => entry = "data")
           /\ ((base = FullBase /\ (yaml \/ ~allow \/ entry # "data")) => \E i \in DOMAIN muts : muts[i].op \in RefOps \cup {"to_null", "delete", "truncate_here"} \cup LexOps)
           \* a lexical operator: LoadFromData with the switch on, in the rendering(s) the operator is about
           /\ \A i \in DOMAIN muts : muts[i].op \in LexOps =>
                  (entry = "data" /\ allow /\ (YamlOnly(muts[i].op) => yaml) /\ (JsonOnly(muts[i].op) => ~yaml))

-----------------------------------------------------------------------------
(* L1: outcome alphabet and sequencing of one run                                          *)
Stages == <<"load", "validate", "marshal_json", "marshal_yaml", "internalize", "validate_after">>
(* reference-graph cases (RefGraph.tla) are pushed through every further entry point that takes a loaded document:          *)
(* T.Validate with every option switched on / off, the validator and the serialiser of every part of the document on its      *)
(* own (components, each component, paths, each path item and operation, the media types and encodings of bodies and          *)
(* headers), Loader.ResolveRefsIn on the loaded document, and -- a history of two -- serialising and internalising the        *)
(* internalised document again.                                                                                               *)
GraphStages == <<"validate_enabled", "validate_disabled", "validate_parts", "marshal_parts", "resolve_again", "marshal_after", "internalize_again">>
Normal == {"ok", "error"}
Abnormal == {"panic", "hang", "crash"}

(* obs: function from stage name to outcome, "skipped" for stages not run *)
Failed(obs) ==
   (IF \E s \in DOMAIN obs : obs[s] \in Abnormal THEN {"returns_normally"} ELSE {})
   \cup (IF obs["load"] = "error" /\ \E s \in DOMAIN obs : s # "load" /\ obs[s] # "skipped" THEN {"harness_sequencing"} ELSE {})
   \cup (IF obs["load"] \notin Normal \cup Abnormal THEN {"harness_alphabet"} ELSE {})
=============================================================================
