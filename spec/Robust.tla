------------------------------- MODULE Robust -------------------------------
(***************************************************************************)
(* Robustness (C20, C10): the structure of the hostile-input space and the *)
(* outcome alphabet.  The oracle is trivial -- every operation returns     *)
(* normally, with a result or an error -- so the specification's job is    *)
(* to span the space: a mutation machine over the nodes of a document.     *)
(*                                                                         *)
(* A document is addressed by node index 1..NNodes (depth-first order of   *)
(* its JSON tree, object keys sorted).  A case is a sequence of at most    *)
(* MaxMut mutations [op, node] applied in order, a load entry point, the   *)
(* external-reference switch and the rendering (JSON / YAML).              *)
(***************************************************************************)
EXTENDS Naturals, Sequences, FiniteSets, TLC

CONSTANTS NNodes,     \* number of nodes of the base document
          MaxMut,     \* length of mutation sequences explored exhaustively
          PairStride, \* second mutations only at nodes n with n % PairStride = Seed % PairStride
          Seed

TypeOps == {"to_null", "to_bool", "to_num", "to_str", "to_arr", "to_obj", "to_empty_obj", "to_empty_str",
            "to_str_braces"}       \* a string with balanced but wrongly ordered template braces ("v1}/{version"): URLs, paths, expressions
StructOps == {"delete", "dup_key_other_type", "nest_deep", "huge_number", "truncate_here", "byte_noise"}
RefOps == {"ref_dangling", "ref_self", "ref_parent", "ref_wrong_kind", "ref_scalar", "ref_array_elem", "ref_escaped_ptr",
           "ref_hash_only", "ref_empty", "ref_ext_scalar", "ref_ext_array", "ref_ext_empty", "ref_ext_nonjson", "ref_ext_missing",
           "ref_ext_tab", "ref_ext_bom", "ref_ext_null", "ref_ext_yamlsep",     \* the external file is a blob (see Blobs)
           "ref_cycle_two", "ref_array_len", "ref_array_beyond", "ref_array_neg", "ref_array_nonnum", "ref_deep_array_len",
           "ref_absent_subfield",          \* a pointer to a keyword the target schema does not have (not / items / additionalProperties)
           "ref_through_unresolved_ref",   \* a pointer that passes through a component which is itself a not-yet-resolved pure $ref
           "ref_callback_self"}            \* a callback whose operation refers to the callback again
(* keyword injections: parseable but hostile keyword combinations written into a SCHEMA object (the node   *)
(* index selects among the schema objects of the document)                                                *)
SchemaOps == {"schema_bad_pattern_example", "schema_type_empty_list", "schema_type_list", "schema_multipleof_zero_default",
              "schema_minmax_inverted_example", "schema_enum_empty", "schema_default_wrong_type", "schema_example_wrong_type",
              "schema_discriminator_empty", "schema_format_unknown_example", "schema_properties_null_entry", "schema_items_list",
              "schema_additional_props_string", "schema_required_unknown_and_dup", "schema_allof_empty", "schema_oneof_null_member",
              \* a component schema that is a composition of itself, with a default / example to be checked against it
              "schema_self_allof_default", "schema_self_anyof_example", "schema_self_not_default"}
Ops == TypeOps \cup StructOps \cup RefOps \cup SchemaOps

Entries == {"data", "datapath", "file"}

(* Base documents.  "full": harness/c20_doc.json, every object kind in use.  Sparse bases are   *)
(* WELL-FORMED two-file documents: the root's single operation refers to component X of one     *)
(* kind in ext.json (whose child sites refer on to further components of ext.json), and the     *)
(* root's own components section is absent / empty / holds only a component of another kind /   *)
(* only one of the same kind -- InternalizeRefs then has to create every map it writes to.      *)
SparseKinds == {"schemas", "parameters", "headers", "requestBodies", "responses", "examples", "links", "callbacks"}
Layouts == {"none", "empty", "other_only", "same_only"}
FullBase == [kind |-> "-", comps |-> "full"]
(* "blob" bases: whole documents that are not (or hardly) a document at all -- nothing, white space of every kind (a tab  *)
(* is not white space to the YAML reader), a byte-order mark, the JSON / YAML spellings of a non-object, bare bytes.    *)
(* The bytes behind each name are a table of the realiser (harness/c20.go c20Blobs).                                    *)
Blobs == {"empty", "space", "tab", "nl_tab_nl", "sp_tab_sp", "crlf", "crlf_tab", "bom", "bom_tab", "null", "arr", "obj", "str", "num", "true",
          "tilde", "yaml_sep", "yaml_sep_end", "yaml_tab_indent", "nul_byte", "ff_bytes", "brace_open", "bracket_open", "colon", "dash",
          "quote_open", "anchor_loop", "merge_key_scalar"}
BlobBases == [kind : {"blob"}, comps : Blobs]
Bases == {FullBase} \cup [kind : SparseKinds, comps : Layouts] \cup BlobBases
CONSTANTS SparseNodes,   \* node indices used on a sparse base
          SparseOps      \* operators applied (singly) to a sparse base

VARIABLES muts, entry, allow, yaml, base
vars == <<muts, entry, allow, yaml, base>>

Init == muts = <<>> /\ entry \in Entries /\ allow \in BOOLEAN /\ yaml \in BOOLEAN /\ base \in Bases

Mutate(op, n) ==
   /\ Len(muts) < MaxMut
   /\ (Len(muts) >= 1 => (n % PairStride = Seed % PairStride          \* pairs on a seeded slice of the nodes,
                           /\ entry = "data" /\ allow /\ ~yaml))      \* JSON through LoadFromData only
   /\ (base # FullBase => (muts = <<>> /\ n <= SparseNodes /\ op \in SparseOps))
   /\ base \notin BlobBases                                          \* a blob has no nodes to mutate
   /\ muts' = Append(muts, [op |-> op, node |-> n])
   /\ UNCHANGED <<entry, allow, yaml, base>>

Next == \E op \in Ops, n \in 1..NNodes : Mutate(op, n)
Spec == Init /\ [][Next]_vars

(* every case is run through LoadFromData as JSON with external refs allowed; the other entry  *)
(* points, the YAML rendering and the switch set to off are added for the reference operators,  *)
(* null, delete and truncate (where location handling and the YAML reader matter)               *)
Emitted == /\ (base = FullBase => muts # <<>>)
           /\ ((base # FullBase /\ base \notin BlobBases) => (allow /\ ~yaml /\ entry \in {"file", "datapath"}))      \* the unmutated sparse document is a case
           /\ (base \in BlobBases => ~yaml)                               \* a blob is bytes: every entry point, both switch settings
           /\ ((yaml \/ (~allow /\ base \notin BlobBases)) => entry = "data")
           /\ ((base = FullBase /\ (yaml \/ ~allow \/ entry # "data")) => \E i \in DOMAIN muts : muts[i].op \in RefOps \cup {"to_null", "delete", "truncate_here"})

-----------------------------------------------------------------------------
(* L1: outcome alphabet and sequencing of one run                                          *)
Stages == <<"load", "validate", "marshal_json", "marshal_yaml", "internalize", "validate_after">>
(* reference-graph cases (RefGraph.tla) are pushed through every further entry point that takes a loaded document:          *)
(* T.Validate with every option switched on / off, the validator and the serialiser of every part of the document on its      *)
(* own (components, each component, paths, each path item and operation, the media types and encodings of bodies and          *)
(* headers), Loader.ResolveRefsIn on the loaded document, and -- a history of two -- serialising and internalising the        *)
(* internalised document again.                                                                                               *)
GraphStages == <<"validate_enabled", "validate_disabled", "validate_parts", "marshal_parts", "resolve_again", "marshal_after", "internalize_again">>
Normal == {"ok", "error"}
Abnormal == {"panic", "hang", "crash"}

(* obs: function from stage name to outcome, "skipped" for stages not run *)
Failed(obs) ==
   (IF \E s \in DOMAIN obs : obs[s] \in Abnormal THEN {"returns_normally"} ELSE {})
   \cup (IF obs["load"] = "error" /\ \E s \in DOMAIN obs : s # "load" /\ obs[s] # "skipped" THEN {"harness_sequencing"} ELSE {})
   \cup (IF obs["load"] \notin Normal \cup Abnormal THEN {"harness_alphabet"} ELSE {})
=============================================================================
