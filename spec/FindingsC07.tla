----------------------------- MODULE FindingsC07 -----------------------------
EXTENDS Sequences
(* F-C07-3: validateSecurityRequirement looks for Options.AuthenticationFunc before it looks at the      *)
(* requirement: with no callback configured an EMPTY requirement ({} = anonymous access, "needs no       *)
(* authentication") fails with ErrAuthenticationServiceMissing, although an empty LIST passes.           *)
(* Trigger: no callback (opts "nocallback" / "nil") and the security list in effect holds an empty       *)
(* requirement; wrong observation: the security part is reported as failing.                             *)
Class(line, bad) ==
   LET c == line.c
       es == IF "absent" \in DOMAIN c.opSec THEN c.docSec ELSE c.opSec.list IN
   IF /\ "opts" \in DOMAIN c /\ c.opts \in {"nocallback", "nil"}
      /\ \E i \in DOMAIN es : es[i] = <<>>
      /\ line.verdict = "error" /\ \E i \in DOMAIN line.parts : line.parts[i] = "security"
      /\ bad \subseteq {"passes_when_all_parts_pass", "multi_errors_are_exactly_failing_parts", "error_names_a_failing_part",
                        "same_answer_after_a_validation_with_other_options"}
   THEN "no_callback_empty_requirement"
   ELSE "none"
=============================================================================
