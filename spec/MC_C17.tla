------------------------------- MODULE MC_C17 -------------------------------
(* D for C17: the implementation-shaped model of both converters (spec/Conv23.tla)    *)
(* against the contract (spec/Api23.tla), on every document of the generator's        *)
(* universe.  Dev = {}: the repaired design satisfies L1 everywhere (so L1 is          *)
(* satisfiable and Api2 / Api3 agree on a faithful conversion).  Dev = Pinned: the     *)
(* code as it is - TLC must produce a counterexample (MC_C17_pinned.cfg).              *)
EXTENDS Gen_C17, Conv23

L1Model(d) ==
   /\ ReadV2(d) = "ok"
   /\ LET r == ToV3Doc(d) IN
      /\ r.out = "ok"
      /\ Has(r.d3, "paths")               \* the one shape rule of Validate the model knows
      /\ ApiDiff3(Api2(d), Api3(r.d3)) = {}
      /\ SerDiffs(Api2(d), Api3(r.d3)) = {}
      /\ ServersFwdOK(d, r.d3)
      /\ LET b == FromV3Doc(r.d3, {Host2(d)}, {StrOf(Opt(d, "basePath"), "")})
             ws == Schemes2(d) # {}
         IN /\ FromV3Outcomes(b) = {"ok"}
            /\ ApiDiff(Api2(d), Api2(b)) = {}
            /\ SerDiffs(Api2(d), Api2(b)) = {}
            /\ Diff(Srv2(d, ws), Srv2(b, ws), <<>>) = {}
            /\ \A ref \in AllRefs(b) : V2RefOK(ref, CompNames2(d) \cup CompNames2(b) \cup CompNames3(r.d3))

DesignOK == L1Model(Build(atoms))
=============================================================================
