------------------------------ MODULE Gen_C19R ------------------------------
(* C19, request/response part: the product location x failing keyword x multi-error x  *)
(* way of hiding details, each realised as a document + request/response carrying a    *)
(* unique marker string where the schema violation is.                                 *)
EXTENDS Naturals, Sequences, TLC, Json, CSV

Locs == {"query", "header", "cookie", "path", "body", "bodyitem", "respbody", "respheader"}
Kws  == {"maxLength", "pattern", "enum", "type", "minLength", "format",
         \* failures of a composition / a structural keyword: the marker sits in a value that is rejected as a whole
         "oneOf", "anyOf", "not", "uniqueItems", "required", "additionalProperties", "maxItems"}
JsonOnly == {"type", "oneOf", "anyOf", "not", "uniqueItems", "required", "additionalProperties", "maxItems"}
Hides == {"custom", "nodetails",
          "nodetails_late"}    \* history: the error is rendered once with details enabled, then the switch is set, then it is rendered again
(* whose Options carry the reason-only function: "both" = one Options object on the request and the response input; *)
(* "resp" = the response input has Options of its own (with the function), the request input it embeds has OTHER,    *)
(* non-nil Options without it.  ValidateResponse is governed by the response input's Options.                       *)
OptsAt == {"both", "resp"}
RespLocs == {"respbody", "respheader"}

(* "type" needs a JSON carrier (a string where an integer is declared); in a parameter or   *)
(* header the same text is a parse error, not a schema error, and is outside the statement. *)
Legal(c) == /\ c.kw \in JsonOnly => c.loc \in {"body", "bodyitem", "respbody"}
            /\ c.optsat = "resp" => c.loc \in RespLocs

VARIABLE c
Init == c \in {x \in [loc : Locs, kw : Kws, multi : BOOLEAN, hide : Hides, optsat : OptsAt] : Legal(x)}
Next == UNCHANGED c
Spec == Init /\ [][Next]_c
Emit == CSVWrite("%1$s", <<ToJson([kind |-> "req", c |-> c])>>, "cases_req.ndjson")
=============================================================================
