------------------------------ MODULE Trace_C08H ------------------------------
(* Trace validation for the clause "the response body stays readable afterwards" of C08.  A log line is one history  *)
(* of spec/BodyKeep.tla as realised: the responses (ordinary C08 cases), the calls, what each call of the real code  *)
(* reported ([v |-> verdict] for validate, [b |-> bytes read] for read), the bytes supplied for every response        *)
(* (sent[r], one-character strings), and rest[r] = what was still readable from input r's Body after the last call.   *)
(* TLC folds L1 over the calls: every validation reports the one-shot verdict (ResponseCheck!Accepts of that          *)
(* response), every read returns the next bytes of the body supplied for that response, and the rest is the rest.     *)
EXTENDS BodyKeep, ResponseCheck, Json, CSV

OneKind == {"read_ok"}
Trace == ndJsonDeserialize("trace.ndjson")
VARIABLE l
TInit == l = 0 /\ Init
TNext == l < Len(Trace) /\ l' = l + 1 /\ UNCHANGED vars
TSpec == TInit /\ [][TNext]_<<l, vars>>

StepOK(s, n) == \/ (s.op = "validate" /\ DOMAIN s = {"op", "r"} /\ s.r \in 1..n)
                \/ (s.op = "read" /\ DOMAIN s = {"op", "r", "n"} /\ s.r \in 1..n /\ s.n \in Nat)
Verdicts(c) == [r \in DOMAIN c.resps |-> IF Accepts(c.resps[r]) THEN "ok" ELSE "response_error"]
Wrapped(c, sent) ==
   LET e == Expected(Verdicts(c), sent, c.steps) IN
   [i \in DOMAIN c.steps |-> IF c.steps[i].op = "validate" THEN [v |-> e[i]] ELSE [b |-> e[i]]]
(* bytes of r the caller has consumed when the history is over *)
RECURSIVE FinalPos(_, _, _, _)
FinalPos(sent, cs, i, pos) ==
   IF i > Len(cs) THEN pos
   ELSE FinalPos(sent, cs, i + 1, L1Step([r \in DOMAIN sent |-> "-"], sent, pos, cs[i]).pos)
RestOK(line) ==
   LET pos == FinalPos(line.sent, line.c.steps, 1, [r \in DOMAIN line.sent |-> 0]) IN
   /\ Len(line.rest) = Len(line.sent)
   /\ \A r \in DOMAIN line.sent : line.rest[r] = [b |-> SubSeq(line.sent[r], pos[r] + 1, Len(line.sent[r]))]

(* a concurrent case: conc[r] = the distinct (verdict, bytes read back) outcomes of response r over all rounds *)
ConcOK(line) ==
   /\ Len(line.conc) = Len(line.c.resps)
   /\ \A r \in DOMAIN line.conc : line.conc[r] = <<[v |-> Verdicts(line.c)[r], b |-> line.sent[r]]>>

IsAbn(o) == \/ ("x" \in DOMAIN o /\ o.x \in {"panic", "crash", "hang"})
            \/ ("v" \in DOMAIN o /\ o.v \in {"panic", "crash", "hang"})
Failed(line) ==
   IF line.doc # "ok" THEN {"document_rejected"}
   ELSE IF "conc" \in DOMAIN line.c
   THEN (IF "conc" \in DOMAIN line /\ Len(line.sent) = Len(line.c.resps) /\ ConcOK(line) THEN {}
         ELSE {"concurrent_validations_each_keep_their_own_body_and_verdict"})
   ELSE LET st == line.c.steps  n == Len(line.c.resps)  realised == Len(line.sent) = n /\ \A i \in DOMAIN st : StepOK(st[i], n) IN
   (IF (\E i \in DOMAIN line.obs : IsAbn(line.obs[i])) \/ (\E i \in DOMAIN line.rest : IsAbn(line.rest[i])) THEN {"no_panic"} ELSE {})
   \cup (IF realised THEN {} ELSE {"case_realised"})
   \cup (IF Len(line.obs) # Len(st) THEN {"every_call_observed"}
         ELSE IF realised /\ line.obs # Wrapped(line.c, line.sent) THEN {"body_readable_afterwards_over_histories"} ELSE {})
   \cup (IF realised /\ Len(line.obs) = Len(st) /\ ~(\E i \in DOMAIN line.obs : IsAbn(line.obs[i])) /\ ~RestOK(line)
         THEN {"rest_of_every_body_readable_at_the_end"} ELSE {})

LineOK(line) ==
   LET bad == Failed(line) IN
   bad = {} \/ CSVWrite("%1$s", <<ToJson([case |-> line.case, c |-> line.c, failed |-> bad,
                                           obs |-> IF "obs" \in DOMAIN line THEN line.obs ELSE <<>>,
                                           rest |-> IF "rest" \in DOMAIN line THEN line.rest ELSE <<>>,
                                           conc |-> IF "conc" \in DOMAIN line THEN line.conc ELSE <<>>, class |-> "none"])>>,
                        "violations.ndjson")
Judge == l > 0 => LineOK(Trace[l])
AllConsumed == TLCGet("stats").diameter = Len(Trace) + 1
=============================================================================
