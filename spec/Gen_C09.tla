------------------------------- MODULE Gen_C09 -------------------------------
(* Generator of C09 cases.  A state is a document under construction: a family of        *)
(* template shapes with a method set each (tm) and, once chosen, a server shape (sk).    *)
(* BFS under (MaxLen, MaxT, ServerSet) enumerates every such document; -simulate samples *)
(* the same state machine under larger bounds.  Every complete document that is in the   *)
(* exhaustive core, or in the seeded slice of the rest, is written once to cases.ndjson  *)
(* together with the requests derived from it (RouterUniverse!Requests).                 *)
EXTENDS RouterUniverse, FiniteSetsExt, Json, CSV

CONSTANTS Kinds,       \* family universes: "plain" (shapes over {a, b, V} up to MaxLen), "mixed" (MixedShapes), "enc" (EncShapes)
          MaxLen,      \* longest template (segments)
          MaxT,        \* templates per document
          ServerSet,   \* server shapes to cross with
          MixedServerSet, MixedCoreServers,   \* the same two sets for the "mixed" universe
          MixedMethKeys,                      \* method sets a template of the "mixed" universe may have
          PlainMethKeys,                      \* ... and of the "plain" universe (keys of RouterUniverse!MethSets)
          CoreLen, CoreT, CoreServers,   \* documents within these bounds are always emitted ...
          Slice, Seed, \* ... of the others every Slice-th one, chosen by Seed (Slice = 0: none)
          DesignAll    \* TRUE: the design check (MC_C09!DesignOK) runs on every document; FALSE: on the emitted ones only

VARIABLES tm, sk, kind
vars == <<tm, sk, kind>>

NoFam == [x \in {} |-> "G"]

Init == tm = NoFam /\ sk = "" /\ kind \in Kinds

ShapeSet == IF kind = "mixed" THEN MixedShapes ELSE IF kind = "enc" THEN EncShapes ELSE IF kind = "root" THEN RootShapes ELSE ShapesUpTo(MaxLen)
Small == kind \in {"mixed", "enc", "root"}     \* the two small universes share the Mixed* bounds

(* GET/POST are interchangeable: the lowest-ranked template never has POST only *)
MethOK(f) == LET lo == CHOOSE s \in DOMAIN f : \A s2 \in DOMAIN f : ShapeRank(s) <= ShapeRank(s2)
             IN f[lo] # "P"

AddTemplate == /\ sk = "" /\ Cardinality(DOMAIN tm) < MaxT
               /\ \E sh \in ShapeSet \ DOMAIN tm, mk \in (IF Small THEN MixedMethKeys ELSE PlainMethKeys) :
                     tm' = [s \in DOMAIN tm \cup {sh} |-> IF s = sh THEN mk ELSE tm[s]]
               /\ UNCHANGED <<sk, kind>>

ChooseServer == /\ sk = "" /\ DOMAIN tm # {} /\ MethOK(tm)
                /\ \E k \in (IF Small THEN MixedServerSet ELSE ServerSet) : (k \in LastOverrideKeys => Cardinality(DOMAIN tm) > 1) /\ sk' = k
                /\ UNCHANGED <<tm, kind>>

Next == AddTemplate \/ ChooseServer
Spec == Init /\ [][Next]_vars

Complete == sk # ""
TheDoc == Doc(tm, sk)

InCore == /\ Cardinality(DOMAIN tm) <= CoreT
          /\ IF kind = "root" THEN sk \in MixedServerSet        \* the root template matters under a base path
             ELSE IF Small THEN sk \in MixedCoreServers
             ELSE sk \in CoreServers /\ \A s \in DOMAIN tm : Len(s) <= CoreLen
MethCode(mk) == CASE mk = "G" -> 1 [] mk = "P" -> 2 [] mk = "GP" -> 3 [] mk = "GR" -> 4
Mix(n) == (n * 7919) % 1013
Hash == MapThenSumSet(LAMBDA s : Mix(ShapeRank(s) + 1000 * MethCode(tm[s])), DOMAIN tm) + Mix(SrvRank(sk))
InSlice == Slice > 0 /\ (Hash + Seed) % Slice = 0

Emitted == Complete /\ (InCore \/ InSlice)
DesignScope == IF DesignAll THEN Complete ELSE Emitted

(* CSVWrite is atomic per line only for short lines (lines over 8 KiB written by several  *)
(* workers interleave): a document's requests are written in chunks of ChunkLen, each    *)
(* chunk a self-contained case (document + some of its requests).                        *)
ChunkLen == 16
Emit == Emitted =>
          LET d == TheDoc
              rs == ReqSeq(d)
              n == Len(rs)
          IN \A j \in 1..((n + ChunkLen - 1) \div ChunkLen) :
                CSVWrite("%1$s", <<ToJson([doc |-> d,
                                            reqs |-> SubSeq(rs, ChunkLen * (j - 1) + 1,
                                                            IF ChunkLen * j < n THEN ChunkLen * j ELSE n)])>>,
                         "cases.ndjson")
=============================================================================
