------------------------------- MODULE Gen_C07 -------------------------------
EXTENDS RequestCheck, Json, CSV
CONSTANT Tier

Absent == [absent |-> TRUE]
L(x) == [list |-> x]
OpSecs == {Absent, L(<<>>), L(<< <<>> >>), L(<< <<"A">> >>), L(<< <<"A", "B">> >>), L(<< <<"A">>, <<"B">> >>),
           L(<< <<"A", "B">>, <<"C">> >>), L(<< <<"A">>, <<>> >>), L(<< <<"B">>, <<"A", "C">> >>),
           L(<< <<"A", "B">>, <<"A">> >>), L(<< <<"A", "B">>, <<"B">> >>), L(<< <<"A", "B">>, <<"B", "C">>, <<"A">> >>),
           \* "U" is a scheme name components.securitySchemes does not declare (document validation accepts that): an
           \* alternative naming it can never be satisfied, the others are unaffected
           L(<< <<"U">> >>), L(<< <<"U">>, <<"A">> >>), L(<< <<"A">>, <<"U">> >>), L(<< <<"A", "U">>, <<"B">> >>)}
DocSecs == {<<>>, << <<"A">> >>, << <<"B">> >>, << <<"U">>, <<"B">> >>}

P(in, name, kind) == [in |-> in, name |-> name, kind |-> kind]
V(in, name, text) == [in |-> in, name |-> name, text |-> text]
Kinds == {"none", "int", "strx"}
Keys == << <<"query", "a">>, <<"header", "a">>, <<"query", "b">> >>

(* per key: path-level kind, operation-level kind, request text *)
KeyCfgs == {k \in [p : Kinds, o : Kinds, t : {"1", "x"}] : ~(k.p = "none" /\ k.o = "none" /\ k.t = "x")}
Inactive == [p |-> "none", o |-> "none", t |-> "1"]

RECURSIVE ParamsOf(_, _, _)
ParamsOf(cfg, level, i) ==
   IF i > 3 THEN <<>>
   ELSE (IF cfg[i][level] = "none" THEN <<>> ELSE <<P(Keys[i][1], Keys[i][2], cfg[i][level])>>) \o ParamsOf(cfg, level, i + 1)
RECURSIVE ValuesOf(_, _)
ValuesOf(cfg, i) ==
   IF i > 3 THEN <<>>
   ELSE (IF (cfg[i].p = "none" /\ cfg[i].o = "none") \/ cfg[i].t = "-" THEN <<>> ELSE <<V(Keys[i][1], Keys[i][2], cfg[i].t)>>) \o ValuesOf(cfg, i + 1)

(* nilsec: the operation's (empty) security list is built in code as a pointer to a nil slice (var own                *)
(* openapi3.SecurityRequirements; op.Security = &own) instead of being read from a document: still "declares none"    *)
MkU(os, ds, acc, cfg, body, mu, xb, xq, rb, un) ==
   [nilsec |-> FALSE, unsized |-> un, opSec |-> os, docSec |-> ds, accepts |-> acc, pparams |-> ParamsOf(cfg, "p", 1), oparams |-> ParamsOf(cfg, "o", 1),
    values |-> ValuesOf(cfg, 1), body |-> body, multi |-> mu, exclBody |-> xb, exclQuery |-> xq, authReadsBody |-> rb]

Mk(os, ds, acc, cfg, body, mu, xb, xq, rb) == MkU(os, ds, acc, cfg, body, mu, xb, xq, rb, FALSE)

NoParams == <<Inactive, Inactive, Inactive>>
OneFailingQuery == <<[p |-> "none", o |-> "int", t |-> "x"], Inactive, Inactive>>
PathLevelFailingQuery == <<[p |-> "int", o |-> "none", t |-> "x"], Inactive, Inactive>>

VARIABLE case
Init ==
   \* security focus
   \/ \E os \in OpSecs, ds \in DocSecs, acc \in SUBSET {"A", "B", "C"}, body \in {"none", "pass", "fail"},
         cfg \in {NoParams, OneFailingQuery}, mu \in BOOLEAN, rb \in BOOLEAN :
        /\ (rb => body # "none")
        /\ case = Mk(os, ds, acc, cfg, body, mu, FALSE, FALSE, rb)
   \* an empty operation-level list built in code (nil slice behind a non-nil pointer) over every document-level list
   \/ \E ds \in DocSecs, acc \in SUBSET {"A", "B"}, mu \in BOOLEAN :
        case = [Mk(L(<<>>), ds, acc, NoParams, "none", mu, FALSE, FALSE, FALSE) EXCEPT !.nilsec = TRUE]
   \* parameter focus: at most two active keys, every override pattern
   \/ \E cfg \in [1..3 -> KeyCfgs], sec \in {"nosec", "pass", "fail"}, body \in {"none", "pass", "fail"},
         mu \in BOOLEAN, xb \in BOOLEAN, xq \in BOOLEAN :
        /\ \E i \in 1..3 : cfg[i] = Inactive
        /\ (Tier = "quick" => (sec # "pass" /\ (xb => body = "fail")))
        /\ case = Mk(IF sec = "nosec" THEN Absent ELSE L(<< <<"A">> >>), <<>>, IF sec = "pass" THEN {"A"} ELSE {},
                     cfg, body, mu, xb, xq, FALSE)
   \* requiredness focus: a (required) parameter, with or without a default, present / ill-typed / absent ("-")
   \/ \E k1 \in [p : Kinds \cup {"reqint", "reqintd"}, o : Kinds \cup {"reqint", "reqintd"}, t : {"1", "x", "-"}],
         k2 \in {Inactive, [p |-> "none", o |-> "int", t |-> "1"]}, mu \in BOOLEAN, xq \in BOOLEAN :
        /\ ~(k1.p = "none" /\ k1.o = "none")
        /\ case = Mk(Absent, <<>>, {}, <<k1, k2, Inactive>>, "none", mu, FALSE, xq, FALSE)
   \* a body of unknown length (ContentLength 0 with a non-empty reader), with and without a security requirement
   \/ \E body \in {"pass", "fail"}, sec \in {"nosec", "pass", "fail"}, mu \in BOOLEAN, xb \in BOOLEAN, rb \in BOOLEAN,
         cfg \in {NoParams, OneFailingQuery} :
        /\ (rb => sec # "nosec")
        /\ case = MkU(IF sec = "nosec" THEN Absent ELSE L(<< <<"A">> >>), <<>>, IF sec = "pass" THEN {"A"} ELSE {},
                      cfg, body, mu, xb, FALSE, rb, TRUE)
Next == UNCHANGED case
Spec == Init /\ [][Next]_case
Emit == CSVWrite("%1$s", <<ToJson(case)>>, "cases.ndjson")
=============================================================================
