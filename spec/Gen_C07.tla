------------------------------- MODULE Gen_C07 -------------------------------
EXTENDS RequestCheck, Json, CSV
CONSTANT Tier

Absent == [absent |-> TRUE]
L(x) == [list |-> x]
OpSecs == {Absent, L(<<>>), L(<< <<>> >>), L(<< <<"A">> >>), L(<< <<"A", "B">> >>), L(<< <<"A">>, <<"B">> >>),
           L(<< <<"A", "B">>, <<"C">> >>), L(<< <<"A">>, <<>> >>), L(<< <<"B">>, <<"A", "C">> >>),
           L(<< <<"A", "B">>, <<"A">> >>), L(<< <<"A", "B">>, <<"B">> >>), L(<< <<"A", "B">>, <<"B", "C">>, <<"A">> >>),
           \* "U" is a scheme name components.securitySchemes does not declare (document validation accepts that): an
           \* alternative naming it can never be satisfied, the others are unaffected
           L(<< <<"U">> >>), L(<< <<"U">>, <<"A">> >>), L(<< <<"A">>, <<"U">> >>), L(<< <<"A", "U">>, <<"B">> >>)}
           \* (thorough) a requirement of three schemes: abandoned at its first, second or third scheme
           \cup (IF Tier = "thorough" THEN {L(<< <<"A", "B", "C">> >>), L(<< <<"A", "B", "C">>, <<"C">> >>)} ELSE {})
DocSecs == {<<>>, << <<"A">> >>, << <<"B">> >>, << <<"U">>, <<"B">> >>}

P(in, name, kind) == [in |-> in, name |-> name, kind |-> kind]
V(in, name, text) == [in |-> in, name |-> name, text |-> text]
Kinds == {"none", "int", "strx"}
Keys == << <<"query", "a">>, <<"header", "a">>, <<"query", "b">> >>

(* per key: path-level kind, operation-level kind, request text *)
KeyCfgs == {k \in [p : Kinds, o : Kinds, t : {"1", "x"}] : ~(k.p = "none" /\ k.o = "none" /\ k.t = "x")}
Inactive == [p |-> "none", o |-> "none", t |-> "1"]

RECURSIVE ParamsOf(_, _, _)
ParamsOf(cfg, level, i) ==
   IF i > 3 THEN <<>>
   ELSE (IF cfg[i][level] = "none" THEN <<>> ELSE <<P(Keys[i][1], Keys[i][2], cfg[i][level])>>) \o ParamsOf(cfg, level, i + 1)
RECURSIVE ValuesOf(_, _)
ValuesOf(cfg, i) ==
   IF i > 3 THEN <<>>
   ELSE (IF (cfg[i].p = "none" /\ cfg[i].o = "none") \/ cfg[i].t = "-" THEN <<>> ELSE <<V(Keys[i][1], Keys[i][2], cfg[i].t)>>) \o ValuesOf(cfg, i + 1)

(* nilsec: the operation's (empty) security list is built in code as a pointer to a nil slice (var own                *)
(* openapi3.SecurityRequirements; op.Security = &own) instead of being read from a document: still "declares none"    *)
(* MkU: the operation declares a (required) body exactly when the request carries one (rounds 1-5); MkB: the           *)
(* declaration and what the request carries vary independently                                                         *)
MkB(os, ds, acc, cfg, bd, body, mu, xb, xq, rb, un) ==
   [nilsec |-> FALSE, unsized |-> un, opSec |-> os, docSec |-> ds, accepts |-> acc, pparams |-> ParamsOf(cfg, "p", 1), oparams |-> ParamsOf(cfg, "o", 1),
    values |-> ValuesOf(cfg, 1), bdecl |-> bd, body |-> body, multi |-> mu, exclBody |-> xb, exclQuery |-> xq, authReadsBody |-> rb, hist |-> <<>>,
    opts |-> "plain", prefs |-> "none", method |-> "post"]
MkU(os, ds, acc, cfg, body, mu, xb, xq, rb, un) ==
   MkB(os, ds, acc, cfg, IF body = "none" THEN "none" ELSE "required", body, mu, xb, xq, rb, un)

Mk(os, ds, acc, cfg, body, mu, xb, xq, rb) == MkU(os, ds, acc, cfg, body, mu, xb, xq, rb, FALSE)

NoParams == <<Inactive, Inactive, Inactive>>
OneFailingQuery == <<[p |-> "none", o |-> "int", t |-> "x"], Inactive, Inactive>>
PathLevelFailingQuery == <<[p |-> "int", o |-> "none", t |-> "x"], Inactive, Inactive>>

Bodies == {"none", "empty", "pass", "fail", "otherct", "badjson"}
BDecls == {"none", "optional", "required"}

(* ---- histories: further validations in the same process (RequestCheck!View) ---- *)
HKinds == {"none", "int", "reqint"}
(* key 1 = query a with every level/kind/text; key 2 = header a, path-level only, never sent (so a required one fails) *)
HCfg(p, o, p2) == <<[p |-> p, o |-> o], [p |-> p2, o |-> "none"], [p |-> "none", o |-> "none"]>>
HValues(t) == IF t = "-" THEN <<>> ELSE <<V("query", "a", t)>>
HBase(os, ds, acc, cfg, t, bd, body, mu) ==
   [nilsec |-> FALSE, unsized |-> FALSE, opSec |-> os, docSec |-> ds, accepts |-> acc, pparams |-> ParamsOf(cfg, "p", 1), oparams |-> ParamsOf(cfg, "o", 1),
    values |-> HValues(t), bdecl |-> bd, body |-> body, multi |-> mu, exclBody |-> FALSE, exclQuery |-> FALSE, authReadsBody |-> FALSE, hist |-> <<>>, opts |-> "plain", prefs |-> "none", method |-> "post"]
(* the method of the operation a step validates: the first operation's, except for a sibling (another method of the     *)
(* same path item)                                                                                                     *)
StepM(via, m, os, ds, cfg, bd) == [via |-> via, method |-> m, pparams |-> ParamsOf(cfg, "p", 1), oparams |-> ParamsOf(cfg, "o", 1), opSec |-> os, docSec |-> ds, bdecl |-> bd]
Step(via, os, ds, cfg, bd) == StepM(via, IF via = "sibling" THEN "put" ELSE "post", os, ds, cfg, bd)
(* every method a path item can hold an operation under, except CONNECT (its request target is an authority, not a path) *)
Methods == {"get", "put", "post", "delete", "options", "head", "patch", "trace"}
(* every history ends by going back to the first route (A-B-A): both "the first one seen wins" and "the last one seen  *)
(* wins" show                                                                                                          *)
WithHist(b, s) == [b EXCEPT !.hist = <<s, StepOf(b, "back")>>]
HSecs == {Absent, L(<<>>), L(<< <<"A">> >>)}

(* ---- the four parameter locations: the same name in path, cookie and header ---- *)
LKeys == << <<"path", "a">>, <<"cookie", "a">>, <<"header", "a">> >>
RECURSIVE ParamsOfK(_, _, _, _)
ParamsOfK(keys, cfg, level, i) ==
   IF i > Len(keys) THEN <<>>
   ELSE (IF cfg[i][level] = "none" THEN <<>> ELSE <<P(keys[i][1], keys[i][2], cfg[i][level])>>) \o ParamsOfK(keys, cfg, level, i + 1)
RECURSIVE ValuesOfK(_, _, _)
ValuesOfK(keys, cfg, i) ==
   IF i > Len(keys) THEN <<>>
   ELSE (IF (cfg[i].p = "none" /\ cfg[i].o = "none") \/ cfg[i].t = "-" THEN <<>> ELSE <<V(keys[i][1], keys[i][2], cfg[i].t)>>) \o ValuesOfK(keys, cfg, i + 1)
MkL(cfg, mu, xq) ==
   [Mk(Absent, <<>>, {}, NoParams, "none", mu, FALSE, xq, FALSE) EXCEPT !.pparams = ParamsOfK(LKeys, cfg, "p", 1), !.oparams = ParamsOfK(LKeys, cfg, "o", 1),
                                                                         !.values = ValuesOfK(LKeys, cfg, 1)]
(* ---- scopes ---- *)
ScopeSecs == {Absent, L(<< <<"A+r">> >>), L(<< <<"A+r">>, <<"A+w">> >>), L(<< <<"A+w", "B">>, <<"A">> >>), L(<< <<"A">>, <<"A+r">> >>)}

VARIABLE case
Init ==
   \* method focus: the operation lives under each method of the path item; what it declares as body and what the request
   \* carries, the body exclusion and a failing parameter next to it -- the verdict does not depend on the method
   \/ \E m \in Methods, bd \in BDecls, body \in Bodies, sec \in {"nosec", "pass", "fail"}, mu \in BOOLEAN, xb \in BOOLEAN,
         cfg \in {NoParams, OneFailingQuery, PathLevelFailingQuery} :
        /\ (Tier = "quick" => sec = "nosec" /\ cfg # PathLevelFailingQuery /\ (cfg = OneFailingQuery => mu))
        /\ case = [MkB(IF sec = "nosec" THEN Absent ELSE L(<< <<"A">> >>), <<>>, IF sec = "pass" THEN {"A"} ELSE {},
                       cfg, bd, body, mu, xb, FALSE, FALSE, FALSE) EXCEPT !.method = m]
   \* method focus, siblings: two operations of one path item under two methods, each with its own body declaration
   \/ \E mm \in {<<"post", "delete">>, <<"get", "post">>, <<"delete", "get">>, <<"put", "head">>, <<"head", "patch">>, <<"options", "trace">>},
         bd \in BDecls, bd2 \in BDecls, body \in {"none", "pass", "fail"}, mu \in BOOLEAN :
        /\ (Tier = "quick" => bd # "optional" /\ bd2 # "optional")
        /\ LET b == [HBase(Absent, <<>>, {}, HCfg("none", "none", "none"), "-", bd, body, mu) EXCEPT !.method = mm[1]] IN
           case = WithHist(b, StepM("sibling", mm[2], Absent, <<>>, HCfg("none", "none", "none"), bd2))
   \* location focus: path, cookie and header parameters of one name, every override pattern over at most two of them (a
   \* path parameter is always required and always present: the route would not match otherwise)
   \/ \E cfg \in [1..3 -> KeyCfgs], mu \in BOOLEAN :
        /\ \E i \in 1..3 : cfg[i] = Inactive
        /\ case = MkL(cfg, mu, FALSE)
   \* reference focus: the parameters of a level are $refs to components.parameters (what overrides what is decided by
   \* the name and location of the parameter referred to)
   \/ \E cfg \in [1..3 -> KeyCfgs], pr \in {"path", "op", "both"}, mu \in BOOLEAN, xq \in BOOLEAN :
        /\ \E i \in 1..3 : cfg[i] = Inactive
        /\ (Tier = "quick" => ~xq /\ \E i, j \in 1..3 : i # j /\ cfg[i] = Inactive /\ cfg[j] = Inactive)
        /\ case = [Mk(Absent, <<>>, {}, cfg, "none", mu, FALSE, xq, FALSE) EXCEPT !.prefs = pr]
   \* scope focus: requirements that list scopes; the callback decides per (scheme, scopes)
   \/ \E os \in ScopeSecs, ds \in {<<>>, << <<"A+w">> >>, << <<"A">> >>}, acc \in SUBSET {"A", "A+r", "A+w", "B"}, mu \in BOOLEAN :
        case = Mk(os, ds, acc, NoParams, "none", mu, FALSE, FALSE, FALSE)
   \* no authentication callback (Options.AuthenticationFunc nil, or no Options value at all): no scheme can be accepted,
   \* so the security part passes exactly when the list in effect is empty or has an empty requirement
   \/ \E os \in {Absent, L(<<>>), L(<< <<>> >>), L(<< <<"A">> >>), L(<< <<"A">>, <<>> >>), L(<< <<>>, <<"A">> >>), L(<< <<"A">>, <<"B">> >>)},
         ds \in {<<>>, << <<"A">> >>, << <<>> >>, << <<"B">>, <<>> >>}, o \in {"nil", "nocallback"}, mu \in BOOLEAN,
         cfg \in {NoParams, OneFailingQuery} :
        /\ (o = "nil" => ~mu)
        /\ case = [Mk(os, ds, {}, cfg, "none", mu, FALSE, FALSE, FALSE) EXCEPT !.opts = o]
   \* options the statement does not mention (SkipSettingDefaults, ExcludeReadOnlyValidations) and no Options value at all
   \/ \E o \in {"skipdefaults", "exclreadonly", "nil"}, k1 \in [p : {"none"}, o : {"int", "reqint", "reqintd"}, t : {"1", "x", "-"}],
         k2 \in {Inactive, [p |-> "strx", o |-> "none", t |-> "1"]}, bd \in BDecls, body \in {"none", "pass", "fail"},
         os \in {Absent, L(<<>>), L(<< <<"A">> >>)}, mu \in BOOLEAN, xb \in BOOLEAN :
        /\ (o = "nil" => ~mu /\ ~xb)
        /\ (Tier = "quick" => ~xb /\ bd # "optional")
        /\ case = [MkB(os, <<>>, {}, <<k1, k2, Inactive>>, bd, body, mu, xb, FALSE, FALSE, FALSE) EXCEPT !.opts = o]
   \* body focus: what the operation declares x what the request carries x exclusion x security outcome x multi-error
   \/ \E bd \in BDecls, body \in Bodies, sec \in {"nosec", "pass", "fail"}, mu \in BOOLEAN, xb \in BOOLEAN, rb \in BOOLEAN, un \in BOOLEAN,
         cfg \in {NoParams, OneFailingQuery} :
        /\ (rb => sec # "nosec") /\ (un => body # "none")
        /\ (Tier = "quick" => (cfg = OneFailingQuery => ~rb /\ ~un))
        /\ case = MkB(IF sec = "nosec" THEN Absent ELSE L(<< <<"A">> >>), <<>>, IF sec = "pass" THEN {"A"} ELSE {},
                      cfg, bd, body, mu, xb, FALSE, rb, un)
   \* history focus, parameters: a second validation that sees other path-level parameters (through an alias path item
   \* holding the same Operation value, or after an edit), other operation-level parameters (a sibling operation of the
   \* same path item, or after an edit), then the first route again
   \/ \E p \in HKinds, o \in HKinds, p2 \in {"none", "reqint"}, t \in {"1", "x", "-"},
         q \in HKinds, r \in HKinds, q2 \in {"none", "reqint"}, via \in {"share", "sibling", "edit"}, mu \in BOOLEAN :
        /\ <<p, o, p2>> # <<q, r, q2>>
        /\ (via = "share" => r = o) /\ (via = "sibling" => q = p /\ q2 = p2)
        /\ (Tier = "quick" /\ via = "edit" => (q = p /\ q2 = p2) \/ r = o)
        /\ case = WithHist(HBase(Absent, <<>>, {}, HCfg(p, o, p2), t, "none", "none", mu),
                            Step(via, Absent, <<>>, HCfg(q, r, q2), "none"))
   \* history focus, chains (thorough): two further validations of different kinds before going back -- an edit seen
   \* through the alias / by the sibling, an alias or sibling seen first and the edit after, alias and sibling in a row
   \/ \E p \in HKinds, o \in HKinds, t \in {"x", "-"}, q \in HKinds, r \in HKinds, q1 \in HKinds, r1 \in HKinds,
         chain \in {"edit-share", "edit-sibling", "share-edit", "sibling-edit", "share-sibling", "sibling-share"} :
        /\ Tier = "thorough"
        /\ LET b == HBase(Absent, <<>>, {}, HCfg(p, o, "none"), t, "none", "none", TRUE)
               S(via, x, y) == Step(via, Absent, <<>>, HCfg(x, y, "none"), "none") IN
           \/ chain = "edit-share"    /\ <<q, r>> # <<p, o>> /\ r1 = r /\ q1 # q /\ case = [b EXCEPT !.hist = <<S("edit", q, r), S("share", q1, r1), StepOf(b, "back")>>]
           \/ chain = "edit-sibling"  /\ <<q, r>> # <<p, o>> /\ q1 = q /\ r1 # r /\ case = [b EXCEPT !.hist = <<S("edit", q, r), S("sibling", q1, r1), StepOf(b, "back")>>]
           \/ chain = "share-edit"    /\ r = o /\ q # p /\ <<q1, r1>> # <<p, o>> /\ case = [b EXCEPT !.hist = <<S("share", q, r), S("edit", q1, r1), StepOf(b, "back")>>]
           \/ chain = "sibling-edit"  /\ q = p /\ r # o /\ <<q1, r1>> # <<p, o>> /\ case = [b EXCEPT !.hist = <<S("sibling", q, r), S("edit", q1, r1), StepOf(b, "back")>>]
           \/ chain = "share-sibling" /\ r = o /\ q # p /\ q1 = p /\ r1 # o /\ case = [b EXCEPT !.hist = <<S("share", q, r), S("sibling", q1, r1), StepOf(b, "back")>>]
           \/ chain = "sibling-share" /\ q = p /\ r # o /\ r1 = o /\ q1 # p /\ case = [b EXCEPT !.hist = <<S("sibling", q, r), S("share", q1, r1), StepOf(b, "back")>>]
   \* all three keys active (thorough): the override patterns of the parameter focus and of the location focus without the
   \* "at most two" bound, multi-error mode so that every part shows
   \/ \E cfg \in [1..3 -> KeyCfgs \ {Inactive}], xq \in BOOLEAN, loc \in BOOLEAN :
        /\ Tier = "thorough" /\ (loc => ~xq)
        /\ case = IF loc THEN MkL(cfg, TRUE, FALSE) ELSE Mk(Absent, <<>>, {}, cfg, "none", TRUE, FALSE, xq, FALSE)
   \* history focus, security and body declaration: the sibling operation / the edited document has another security
   \* list (operation or document level) or another requestBody declaration
   \/ \E os \in HSecs, ds \in {<<>>, << <<"B">> >>}, os2 \in HSecs, ds2 \in {<<>>, << <<"B">> >>}, acc \in {{}, {"A"}, {"B"}},
         bd \in BDecls, bd2 \in BDecls, body \in {"none", "pass", "fail"}, via \in {"sibling", "edit"}, mu \in BOOLEAN :
        /\ <<os, ds, bd>> # <<os2, ds2, bd2>>
        /\ (via = "sibling" => ds2 = ds)
        /\ (Tier = "quick" => (bd2 # bd => os2 = os /\ ds2 = ds /\ acc = {}) /\ (bd2 = bd => bd = "none" /\ body = "none"))
        /\ case = WithHist(HBase(os, ds, acc, HCfg("none", "none", "none"), "-", bd, body, mu),
                            Step(via, os2, ds2, HCfg("none", "none", "none"), bd2))
   \* security focus
   \/ \E os \in OpSecs, ds \in DocSecs, acc \in SUBSET {"A", "B", "C"}, body \in {"none", "pass", "fail"},
         cfg \in {NoParams, OneFailingQuery}, mu \in BOOLEAN, rb \in BOOLEAN :
        /\ (rb => body # "none")
        /\ case = Mk(os, ds, acc, cfg, body, mu, FALSE, FALSE, rb)
   \* an empty operation-level list built in code (nil slice behind a non-nil pointer) over every document-level list
   \/ \E ds \in DocSecs, acc \in SUBSET {"A", "B"}, mu \in BOOLEAN :
        case = [Mk(L(<<>>), ds, acc, NoParams, "none", mu, FALSE, FALSE, FALSE) EXCEPT !.nilsec = TRUE]
   \* parameter focus: at most two active keys, every override pattern
   \/ \E cfg \in [1..3 -> KeyCfgs], sec \in {"nosec", "pass", "fail"}, body \in {"none", "pass", "fail"},
         mu \in BOOLEAN, xb \in BOOLEAN, xq \in BOOLEAN :
        /\ \E i \in 1..3 : cfg[i] = Inactive
        \* quick slice: a failing security part only in multi-error mode (fail-first returns it before any parameter is looked at)
        /\ (Tier = "quick" => (sec # "pass" /\ (xb => body = "fail") /\ (sec = "fail" => mu)))
        /\ case = Mk(IF sec = "nosec" THEN Absent ELSE L(<< <<"A">> >>), <<>>, IF sec = "pass" THEN {"A"} ELSE {},
                     cfg, body, mu, xb, xq, FALSE)
   \* requiredness focus: a (required) parameter, with or without a default, present / ill-typed / absent ("-")
   \/ \E k1 \in [p : Kinds \cup {"reqint", "reqintd", "cint"}, o : Kinds \cup {"reqint", "reqintd", "cint"}, t : {"1", "x", "-"}],
         k2 \in {Inactive, [p |-> "none", o |-> "int", t |-> "1"]}, mu \in BOOLEAN, xq \in BOOLEAN :
        /\ ~(k1.p = "none" /\ k1.o = "none")
        /\ case = Mk(Absent, <<>>, {}, <<k1, k2, Inactive>>, "none", mu, FALSE, xq, FALSE)
   \* a body of unknown length (ContentLength 0 with a non-empty reader), with and without a security requirement
   \/ \E body \in {"pass", "fail"}, sec \in {"nosec", "pass", "fail"}, mu \in BOOLEAN, xb \in BOOLEAN, rb \in BOOLEAN,
         cfg \in {NoParams, OneFailingQuery} :
        /\ (rb => sec # "nosec")
        /\ case = MkU(IF sec = "nosec" THEN Absent ELSE L(<< <<"A">> >>), <<>>, IF sec = "pass" THEN {"A"} ELSE {},
                      cfg, body, mu, xb, FALSE, rb, TRUE)
Next == UNCHANGED case
Spec == Init /\ [][Next]_case
Emit == CSVWrite("%1$s", <<ToJson(case)>>, "cases.ndjson")
=============================================================================
