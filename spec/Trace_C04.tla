------------------------------ MODULE Trace_C04 ------------------------------
(***************************************************************************)
(* Trace validation for C04.  One log line = one document (as the driver   *)
(* realised it) with the verdict of openapi3.T.Validate under each of   *)
(* the option sequences (2^7 subsets + 40 with the reset options).  TLC   *)
(* evaluates the judge DocRules!Viol on the                                *)
(* recorded document and, per option set in scope, demands                 *)
(*        Validate = nil   <=>   Accept(violations, options).              *)
(* It also re-builds the document from the abstract case (path, leaf) and  *)
(* demands that the driver realised exactly that one (Realised = Case).    *)
(***************************************************************************)
EXTENDS DocBuild, DocImpl, Json, CSV

Trace == ndJsonDeserialize("trace.ndjson")

VARIABLE l
Init == l = 0
Next == l < Len(Trace) /\ l' = l + 1
Spec == Init /\ [][Next]_l

OptSetTab == [i \in 1..NOptSets |-> OptSet(i)]

StepOf(r) == Step(r.from, CHOOSE e \in Edges(r.from) : e.f = r.f, r.pos)
PathOf(line) == [i \in DOMAIN line.path |-> StepOf(line.path[i])]
LeafOf(line) == [rule |-> line.rule, var |-> line.var]
ViaOf(path) == ViaOfPath(path)
NoOptTab == [i \in 1..NOptSets |-> NoOptionGiven(OptSeq(i))]

(* the violations of the document the code was given; an "unresolved" case adds the reference the *)
(* driver un-resolved after loading                                                               *)
ViolOf(line, path) ==
   Viol(line.doc) \cup
   (IF line.rule = "unresolved" THEN {V("unresolved_ref", line.kind, PtrOf(path), ViaOf(path))} ELSE {})

Got(line, i) == line.obs[i]
Wrong(line, Vs, i) == LET want == Accept(Vs, OptSetTab[i]) IN
                      IF want THEN Got(line, i) # "A" ELSE Got(line, i) \notin {"R", "L"}

Report(line, c, is, Vs) ==
   LET i == CHOOSE j \in is : \A k \in is : j <= k IN
   [case |-> line.case, path |-> line.path, kind |-> line.kind, rule |-> line.rule, var |-> line.var,
    at |-> PtrOf(PathOf(line)), doc |-> line.doc, class |-> c, optsets |-> is, opts |-> OptSetTab[i], optseq |-> OptSeq(i),
    got |-> Got(line, i), want |-> IF Accept(Vs, OptSetTab[i]) THEN "A" ELSE "R",
    violations |-> {[rule |-> v.rule, kind |-> v.kind, at |-> v.at] : v \in Vs}, msg |-> line.msg]

Bad(line, why) ==
   CSVWrite("%1$s", <<ToJson([case |-> line.case, path |-> line.path, kind |-> line.kind, rule |-> line.rule,
                              var |-> line.var, at |-> PtrOf(PathOf(line)), doc |-> line.doc, class |-> "none",
                              failed |-> why,
                              msg |-> line.msg])>>, "violations.ndjson")

LineOK(line) ==
   IF "abnormal" \in DOMAIN line THEN Bad(line, line.abnormal)
   ELSE LET path == PathOf(line) IN
        IF line.doc # Doc(path, LeafOf(line)) THEN Bad(line, "realised_document_differs_from_case")
        ELSE IF line.rule = "unresolved" /\ ~(line.unres /\ ExistsPtr(line.doc, PtrOf(path))
                                              /\ IsRef(AtPtr(line.doc, PtrOf(path))))
        THEN Bad(line, "reference_not_unresolved_by_driver")
        ELSE IF Len(line.obs) # NOptSets THEN Bad(line, "verdict_vector_incomplete")
        ELSE LET Vs == ViolOf(line, path)
                 sites == Sites(line.doc)
                 refusers == Refusers(line.doc, sites)
                 msites == ModeSites(line.doc, sites)
                 M  == {i \in 1..NOptSets : InScope(Vs, OptSetTab[i]) /\ Wrong(line, Vs, i)}
                 Cs == {Class(line, Vs, sites, OptSetTab[i], NoOptTab[i], Got(line, i)) : i \in M}
                 Fid == {i \in 1..NOptSets : InScope(Vs, OptSetTab[i])
                                              /\ (Got(line, i) = "A") # ImplAcceptR(line.doc, Vs, refusers, sites, msites, OptSetTab[i], NoOptTab[i])}
             IN /\ (Fid = {}) \/ CSVWrite("%1$s", <<ToJson([case |-> line.case, path |-> line.path, rule |-> line.rule,
                                                              var |-> line.var, optsets |-> Fid])>>, "fidelity.ndjson")
                /\ \A c \in Cs :
                   CSVWrite("%1$s", <<ToJson(Report(line, c, {i \in M : Class(line, Vs, sites, OptSetTab[i], NoOptTab[i], Got(line, i)) = c}, Vs))>>,
                            "violations.ndjson")

Judge == l > 0 => LineOK(Trace[l])

AllConsumed == TLCGet("stats").diameter = Len(Trace) + 1
=============================================================================
