----------------------------- MODULE FindingsC15 -----------------------------
(* Classes of known deviations from C15 (known_findings.json).  F-C15-1 is FIXED (6e03b47):  *)
(* the class stays (a fixed entry suppresses nothing; a recurrence is a VIOLATION of this class). *)
(*                                                                                            *)
(* unique_checker_lazy_reinit (F-C15-1): when the process starts validating with the          *)
(* uniqueness checker reset (RegisterArrayUniqueItemsChecker(nil), the documented way back to *)
(* the default, used by the library's own tests), every array validation finds the package    *)
(* variable nil and writes the default into it, unsynchronised: concurrent array validations  *)
(* race in visitJSONArray.  Model: MC_C15 variant "unique_lazy" (refuted design).            *)
(* Trigger: configuration unique_nil; observation: a race whose two stacks are both topped by *)
(* visitJSONArray.                                                                            *)
EXTENDS Naturals, Sequences
Class(line, bad) ==
   IF /\ bad = {"no_data_race"}
      /\ line.c.init = "unique_nil"
      /\ "racefns" \in DOMAIN line /\ Len(line.racefns) = 2
      /\ \A i \in 1..2 : line.racefns[i] = "openapi3.(*Schema).visitJSONArray"
   THEN "unique_checker_lazy_reinit"
   ELSE "none"
=============================================================================
