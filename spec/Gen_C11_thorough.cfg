SPECIFICATION Spec
CONSTANTS Tier = "thorough"
          Styles = {"plain", "dot", "updown", "abspath", "fileurl", "http", "https", "schemeless"}
          Allows = {TRUE, FALSE}
INVARIANT Emit
CHECK_DEADLOCK FALSE
