SPECIFICATION Spec
CONSTANTS W = 2
          WS = 1
          Deep = {}
          OptSet = {"default", "useall", "export", "exporttop", "tng", "tng_export", "tng_exporttop", "throw", "custom"}
          Reps = 1
          RepW = 0
          Which = "all"
          MutualFull = FALSE
          Repaired = {8, 9, 11}
INVARIANTS L2SoundModulo
CHECK_DEADLOCK FALSE
