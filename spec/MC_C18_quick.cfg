SPECIFICATION Spec
CONSTANTS W = 2
          WS = 1
          Deep = {"int8"}
          OptSet = {"default", "useall"}
INVARIANTS L2SoundModulo
CHECK_DEADLOCK FALSE
