----------------------------- MODULE FindingsC14 -----------------------------
EXTENDS Sequences, FiniteSets
(* F-C14-2 (fixed by 14f1d91; the class stays as a name for a regression): both response wrappers of Validator.Middleware took the FIRST WriteHeader call for the        *)
(* response's status, also when it carries an informational status (1xx other than 101, e.g. 103 Early Hints),   *)
(* which net/http sends at once and which leaves the header open for the real status.  The status the handler   *)
(* writes afterwards is dropped: the warn wrapper re-sends the 1xx, the strict wrapper flushes WriteHeader(1xx)  *)
(* and the body, so the client gets an implicit 200 instead of the handler's status; and the response is         *)
(* validated under the 1xx status (undeclared => accepted), so in strict mode an invalid body reaches the client.*)
(* Trigger: gate = Validator.Middleware and the first call of the handler that touches the status line           *)
(* (WriteHeader, Write, non-empty Copy) is WriteHeader(1xx).  Wrong observation: one of the three response       *)
(* clauses fails (and nothing else).                                                                             *)
InfoStatuses == {103}

TouchesStatus(c) == c.c \in {"WH", "W"} \/ (c.c = "Copy" /\ c.tok # "E")

RECURSIVE InfoFirst(_)
InfoFirst(scr) ==
   IF scr = <<>> THEN FALSE
   ELSE LET c == Head(scr) IN
        IF c.c = "WH" THEN c.s \in InfoStatuses
        ELSE IF TouchesStatus(c) THEN FALSE ELSE InfoFirst(Tail(scr))

Class(cfg, scr, bad) ==
   IF /\ cfg.gate = "validator" /\ InfoFirst(scr)
      /\ bad # {} /\ bad \subseteq {"nonstrict_passthrough", "strict_valid_exact", "strict_invalid_replaced"}
   THEN "informational_status_taken_as_final"
   ELSE "none"
=============================================================================
