SPECIFICATION FSpec
CONSTANTS P = 59
 K = 1
 NModes = 1
 Seed = 1
INVARIANT Emit
CHECK_DEADLOCK FALSE
