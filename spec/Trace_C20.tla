------------------------------ MODULE Trace_C20 ------------------------------
(* Trace validation for C20: every stage of every run ends in the normal alphabet.  *)
EXTENDS Robust, FindingsC20, Json, CSV
Trace == ndJsonDeserialize("trace.ndjson")
VARIABLE l
TInit == l = 0
TNext == l < Len(Trace) /\ l' = l + 1 /\ UNCHANGED vars
TSpec == TInit /\ muts = <<>> /\ entry = "data" /\ allow = FALSE /\ yaml = FALSE /\ base = FullBase /\ [][TNext]_<<l, vars>>

LineOK(line) ==
   LET bad == Failed(line.obs) IN
   bad = {} \/ CSVWrite("%1$s", <<ToJson([case |-> line.case, c |-> line.c, failed |-> bad, obs |-> line.obs,
                                           msg |-> (IF "msg" \in DOMAIN line THEN line.msg ELSE ""),
                                           applied |-> (IF "applied" \in DOMAIN line THEN line.applied ELSE <<>>),
                                           class |-> Class(line, bad)])>>, "violations.ndjson")
Judge == l > 0 => LineOK(Trace[l])
AllConsumed == TLCGet("stats").diameter = Len(Trace) + 1
=============================================================================
