------------------------------ MODULE Trace_C01H ------------------------------
(* Trace validation for the history clause of C01: a log line is one history of PatternCache    *)
(* (the steps as realised) with what each call of the real code reported; every step must       *)
(* report what L1 says for THAT call alone.                                                       *)
EXTENDS PatternCache, Json, CSV

Trace == ndJsonDeserialize("trace.ndjson")
VARIABLE l
TInit == l = 0 /\ Init
TNext == l < Len(Trace) /\ l' = l + 1 /\ UNCHANGED vars
TSpec == TInit /\ [][TNext]_<<l, vars>>

Failed(line) ==
   LET st == line.c.steps IN
   (IF \E i \in DOMAIN line.obs : line.obs[i] \in {"panic", "crash", "hang"} THEN {"no_panic"} ELSE {})
   \cup (IF Len(line.obs) # Len(st) THEN {"every_step_observed"} ELSE {})
   \cup (IF \E i \in DOMAIN st : i \in DOMAIN line.obs /\ line.obs[i] # L1(st[i]) THEN {"verdict_is_a_function_of_this_call_only"} ELSE {})

LineOK(line) ==
   LET bad == Failed(line) IN
   bad = {} \/ CSVWrite("%1$s", <<ToJson([case |-> line.case, c |-> line.c, obs |-> line.obs, failed |-> bad,
                                           expected |-> [i \in DOMAIN line.c.steps |-> L1(line.c.steps[i])], class |-> "none"])>>,
                        "violations.ndjson")
Judge == l > 0 => LineOK(Trace[l])
AllConsumed == TLCGet("stats").diameter = Len(Trace) + 1
=============================================================================
