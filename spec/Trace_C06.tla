------------------------------ MODULE Trace_C06 ------------------------------
(* Trace validation for C06: verdict = BodyCheck!Accepts(case); for the decode part the   *)
(* value produced by the registered decoder equals the value the body encodes (when the   *)
(* body is an encoding of the declared shape).                                            *)
EXTENDS BodyCheck, FindingsC06, Json, CSV

Trace == ndJsonDeserialize("trace.ndjson")
VARIABLE l
Init == l = 0
Next == l < Len(Trace) /\ l' = l + 1
Spec == Init /\ [][Next]_l

(* a body whose every field text is of the declared type *)
WellTyped(c) == \/ c.family \in {"text", "octet", "zip", "csv"}
                \/ c.family \in {"json", "yaml"}      \* a JSON / YAML text always decodes to the value it spells
                \/ c.family = "multipart" /\ "partCT" \in DOMAIN c /\ c.partCT = "json"     \* ... and so does every part that is a JSON text
                \/ "wrap" \in DOMAIN c /\ Valid([BaseSchemaOf(c) EXCEPT !.required = <<>>], c.v, "plain")   \* (form / multipart: the value is not wrapped)
                \/ c.schema \in {"S1", "S2", "S3"} /\ Valid([S2 EXCEPT !.required = <<>>], c.v, "plain")
                \/ c.schema \in {"S4", "S4a", "S5", "S6", "SN", "S9"} /\ Valid(SchemaOf(c), c.v, "plain")
                \/ c.schema = "S10" /\ Valid([S10 EXCEPT !.ps[4] = [type |-> "array", items |-> TStr]], c.v, "plain")   \* (every item text is of its type)

Failed(line) ==
   LET c == line.c IN
   IF line.doc # "ok" THEN {"document_rejected"}
   ELSE (IF line.verdict \in {"panic", "crash", "hang"} THEN {"no_panic"} ELSE {})
        \cup (IF Accepts(c) /\ line.verdict # "ok" THEN {"conforming_body_accepted"} ELSE {})
        \cup (IF ~Accepts(c) /\ line.verdict = "ok" THEN {"violating_body_rejected"} ELSE {})
        \cup (IF c.part = "select" /\ c.empty /\ c.required /\ line.verdict # "required" THEN {"missing_required_body"} ELSE {})
        \cup (IF c.part = "decode" /\ WellTyped(c) /\ "dec" \in DOMAIN line
                 /\ ~(line.dec.err = "ok" /\ "val" \in DOMAIN line.dec /\ Eq(line.dec.val, c.v))
              THEN {"decoded_value"} ELSE {})

LineOK(line) ==
   LET bad == Failed(line) IN
   bad = {} \/ CSVWrite("%1$s", <<ToJson([case |-> line.case, c |-> line.c, failed |-> bad, verdict |-> line.verdict,
                                           dec |-> (IF "dec" \in DOMAIN line THEN line.dec ELSE <<>>),
                                           class |-> Class(line, bad)])>>, "violations.ndjson")
Judge == l > 0 => LineOK(Trace[l])
AllConsumed == TLCGet("stats").diameter = Len(Trace) + 1
=============================================================================
