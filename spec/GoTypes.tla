------------------------------- MODULE GoTypes -------------------------------
(***************************************************************************)
(* C18, L1 (first half): the Go side.                                      *)
(*   - a grammar of Go types assembled from the supported kinds,           *)
(*   - the declared (named, possibly recursive) struct types of the        *)
(*     harness (harness/c18_types.go) as the table Defs,                   *)
(*   - a covering list of abstract Go values per type (GoVals),            *)
(*   - Enc: the JSON value encoding/json produces for a value (tagged      *)
(*     JSON, JsonValue.tla) -- field visibility, embedding/dominance,      *)
(*     omitempty, nil pointers, base64, RFC 3339.                          *)
(*                                                                         *)
(* Types:  [k |-> kind] for kind in BaseKinds                              *)
(*         [k |-> "ptr"|"slice"|"map", e |-> T]      (map keys: string)    *)
(*         [k |-> "struct", f |-> <<field, ...>>]                          *)
(*         [k |-> "named", n |-> name]                a declared type: a   *)
(*              struct, or a defined type over a basic kind, a pointer, a  *)
(*              slice, a map (type Items []Item) or over time.Time's       *)
(*              struct (type Stamp time.Time); U(T) is the underlying type *)
(*         [k |-> "opaque"]      the type of an unexported field (never    *)
(*              looked at by encoding/json or the generator)               *)
(* Field:  [n |-> GoName, t |-> T] plus optional j (json tag name; "" =    *)
(*         tag without a name), oe (omitempty), qs (the "string" option),  *)
(*         emb (embedded), x (unexported: declared types only).            *)
(*                                                                         *)
(* Numbers.  TLC integers are 32 bit, the boundaries of the Go integer     *)
(* kinds are not.  Numbers are therefore *codes*: Points lists the         *)
(* boundary values in increasing order as decimal texts; the code of the   *)
(* i-th point is 4*(i-ZeroIdx) (so codes of integers are multiples of 4,   *)
(* as SchemaSem expects of quarters), a number strictly between two        *)
(* neighbouring points has the code of the lower one + 2.  The coding is   *)
(* an order embedding; nothing here or in the generated schemas does       *)
(* arithmetic.  The harness reads the table from points.ndjson (written    *)
(* by the generator run) -- it holds no numeric constants of its own.      *)
(***************************************************************************)
EXTENDS SchemaSem, TLC

Points == <<
   "-1000000000000000000000000000000",
   "-9223372036854775809", "-9223372036854775808",
   "-2147483649", "-2147483648",
   "-32769", "-32768",
   "-129", "-128",
   "-1", "0", "1",
   "127", "128", "255", "256",
   "32767", "32768", "65535", "65536",
   "2147483647", "2147483648", "4294967295", "4294967296",
   "9223372036854775807", "9223372036854775808",
   "18446744073709551615", "18446744073709551616",
   "1000000000000000000000000000000" >>
ZeroIdx == 11
(* the same texts as sequences of characters (TLC cannot look inside a string) *)
PointCs == <<
   <<"-", "1", "0", "0", "0", "0", "0", "0", "0", "0", "0", "0", "0", "0", "0", "0", "0", "0", "0", "0", "0", "0", "0", "0", "0", "0", "0", "0", "0", "0", "0", "0">>,
   <<"-", "9", "2", "2", "3", "3", "7", "2", "0", "3", "6", "8", "5", "4", "7", "7", "5", "8", "0", "9">>,
   <<"-", "9", "2", "2", "3", "3", "7", "2", "0", "3", "6", "8", "5", "4", "7", "7", "5", "8", "0", "8">>,
   <<"-", "2", "1", "4", "7", "4", "8", "3", "6", "4", "9">>,
   <<"-", "2", "1", "4", "7", "4", "8", "3", "6", "4", "8">>,
   <<"-", "3", "2", "7", "6", "9">>,
   <<"-", "3", "2", "7", "6", "8">>,
   <<"-", "1", "2", "9">>,
   <<"-", "1", "2", "8">>,
   <<"-", "1">>,
   <<"0">>,
   <<"1">>,
   <<"1", "2", "7">>,
   <<"1", "2", "8">>,
   <<"2", "5", "5">>,
   <<"2", "5", "6">>,
   <<"3", "2", "7", "6", "7">>,
   <<"3", "2", "7", "6", "8">>,
   <<"6", "5", "5", "3", "5">>,
   <<"6", "5", "5", "3", "6">>,
   <<"2", "1", "4", "7", "4", "8", "3", "6", "4", "7">>,
   <<"2", "1", "4", "7", "4", "8", "3", "6", "4", "8">>,
   <<"4", "2", "9", "4", "9", "6", "7", "2", "9", "5">>,
   <<"4", "2", "9", "4", "9", "6", "7", "2", "9", "6">>,
   <<"9", "2", "2", "3", "3", "7", "2", "0", "3", "6", "8", "5", "4", "7", "7", "5", "8", "0", "7">>,
   <<"9", "2", "2", "3", "3", "7", "2", "0", "3", "6", "8", "5", "4", "7", "7", "5", "8", "0", "8">>,
   <<"1", "8", "4", "4", "6", "7", "4", "4", "0", "7", "3", "7", "0", "9", "5", "5", "1", "6", "1", "5">>,
   <<"1", "8", "4", "4", "6", "7", "4", "4", "0", "7", "3", "7", "0", "9", "5", "5", "1", "6", "1", "6">>,
   <<"1", "0", "0", "0", "0", "0", "0", "0", "0", "0", "0", "0", "0", "0", "0", "0", "0", "0", "0", "0", "0", "0", "0", "0", "0", "0", "0", "0", "0", "0", "0">> >>
RECURSIVE JoinCs(_)
JoinCs(cs) == IF cs = <<>> THEN "" ELSE Head(cs) \o JoinCs(Tail(cs))
ASSUME PointCsOK == Len(PointCs) = Len(Points) /\ \A i \in DOMAIN Points : JoinCs(PointCs[i]) = Points[i]
P(d) == 4 * ((CHOOSE i \in DOMAIN Points : Points[i] = d) - ZeroIdx)
(* the two non-point numbers values may take (decimal text for the realiser) *)
Halves == <<[q |-> 2, d |-> "0.5"], [q |-> -2, d |-> "-0.5"]>>

IntKinds   == {"int", "int8", "int16", "int32", "int64"}
UintKinds  == {"uint", "uint8", "uint16", "uint32", "uint64"}
FloatKinds == {"float32", "float64"}
NumKinds   == IntKinds \cup UintKinds \cup FloatKinds
BaseKinds  == NumKinds \cup {"bool", "string", "bytes", "time"}

B(k)      == [k |-> k]
Ptr(e)    == [k |-> "ptr", e |-> e]
Slice(e)  == [k |-> "slice", e |-> e]
Map(e)    == [k |-> "map", e |-> e]
Struct(f) == [k |-> "struct", f |-> f]
Named(n)  == [k |-> "named", n |-> n]
Fld(n, j, t)      == [n |-> n, j |-> j, t |-> t]
FldOE(n, j, t)    == [n |-> n, j |-> j, oe |-> TRUE, t |-> t]
FldU(n, t)        == [n |-> n, t |-> t]
FldS(n, j, t)     == [n |-> n, j |-> j, qs |-> TRUE, t |-> t]            \* `json:"j,string"`
FldSOE(n, j, t)   == [n |-> n, j |-> j, oe |-> TRUE, qs |-> TRUE, t |-> t]
Opaque            == [k |-> "opaque"]
FldX(n)           == [n |-> n, x |-> TRUE, t |-> Opaque]                    \* unexported, untagged
FldXJ(n, j)       == [n |-> n, j |-> j, x |-> TRUE, t |-> Opaque]           \* unexported with a json tag
EmbX(n, t)        == [n |-> n, emb |-> TRUE, x |-> TRUE, t |-> t]           \* embedded struct of an unexported type
Emb(n, t)         == [n |-> n, emb |-> TRUE, t |-> t]
EmbTag(n, j, t)   == [n |-> n, j |-> j, emb |-> TRUE, t |-> t]

(* The declared struct types of harness/c18_types.go.  The trace specification checks the *)
(* harness's reflection of each declared type against this table.                        *)
(* Defined types over a non-struct kind (no methods): scalars, byte slice, pointer, slice, map. *)
ScalarNames == {"NI8", "NU8", "NStr", "NF32"}
NonStructNames == ScalarNames \cup {"NBytes", "NPI8", "NSl", "NMap"}
(* Structs whose fields are partly or wholly invisible to encoding/json: Stamp is `type Stamp   *)
(* time.Time` (time.Time's three unexported fields, none of its methods: it encodes as {}),    *)
(* Empty has no fields, NX an unexported field with a json tag next to an exported one, XE      *)
(* embeds a struct of an unexported type (whose exported fields are promoted), HS holds them.   *)
HiddenNames == {"Stamp", "Empty", "NX", "inner", "XE", "HS", "EM"}
(* Recursion that closes on a *named container*: the element struct has a field of the named    *)
(* slice / map type it is an element of (Items <-> Item, Index <-> Entry, PItems <-> PItem      *)
(* through a pointer element); Tree is its own element type (witness of a listed finding).      *)
ContRecNames == {"Items", "Item", "Index", "Entry", "PItems", "PItem"}
SelfContNames == {"Tree"}
PlainNames == {"N1", "N2"} \cup NonStructNames \cup HiddenNames
(* Mutually recursive families whose members share a property name with different JSON types *)
(* (id / label: string, integer, boolean), closing through pointers, struct values, slices    *)
(* and maps: cycles of length 2 (FA-FB, ND-MT, GA-GB) and 3 (TA-TB-TC, UA-UB-UC).  Their      *)
(* pointers are omitempty, so a value that ends the recursion encodes no null.                *)
DeepNames  == {"FA", "FB", "ND", "MT", "GA", "GB", "TA", "TB", "TC", "UA", "UB", "UC"}
RecNames   == {"RPtr", "RPtrOE", "RSlice", "RPSlice", "RMap", "RMapV", "MA", "MB", "EA", "EB", "RSS", "ES"} \cup DeepNames
                 \cup ContRecNames \cup SelfContNames
DefNames   == PlainNames \cup RecNames
Defs(n) ==
   CASE n = "N1"      -> Struct(<<Fld("A", "a", B("int8"))>>)
     [] n = "N2"      -> Struct(<<Fld("S", "s", B("string")), FldOE("P", "p", Ptr(B("uint8")))>>)
     [] n = "NI8"     -> B("int8")
     [] n = "NU8"     -> B("uint8")
     [] n = "NStr"    -> B("string")
     [] n = "NF32"    -> B("float32")
     [] n = "NBytes"  -> B("bytes")
     [] n = "NPI8"    -> Ptr(B("int8"))
     [] n = "NSl"     -> Slice(B("int8"))
     [] n = "NMap"    -> Map(B("int8"))
     [] n = "Stamp"   -> Struct(<<FldX("wall"), FldX("ext"), FldX("loc")>>)
     [] n = "Empty"   -> Struct(<<>>)
     [] n = "NX"      -> Struct(<<FldXJ("a", "a"), Fld("B", "b", B("int8"))>>)
     [] n = "inner"   -> Struct(<<Fld("A", "a", B("int8"))>>)
     [] n = "XE"      -> Struct(<<EmbX("inner", Named("inner")), Fld("B", "b", B("string"))>>)
     [] n = "HS"      -> Struct(<<Fld("S", "s", Named("Stamp")), Fld("E", "e", Named("Empty")),
                                  FldOE("P", "p", Ptr(Named("Stamp")))>>)
     [] n = "EM"      -> Struct(<<Emb("NMap", Named("NMap")), Fld("B", "b", B("int8"))>>)      \* embeds a defined map type
     [] n = "Items"   -> Slice(Named("Item"))
     [] n = "Item"    -> Struct(<<Fld("Sub", "sub", Named("Items")), Fld("V", "v", B("int8"))>>)
     [] n = "Index"   -> Map(Named("Entry"))
     [] n = "Entry"   -> Struct(<<Fld("Sub", "sub", Named("Index")), Fld("V", "v", B("int8"))>>)
     [] n = "PItems"  -> Slice(Ptr(Named("PItem")))
     [] n = "PItem"   -> Struct(<<FldOE("Sub", "sub", Named("PItems")), Fld("V", "v", B("int8"))>>)
     [] n = "Tree"    -> Slice(Named("Tree"))
     [] n = "RPtr"    -> Struct(<<Fld("Next", "next", Ptr(Named("RPtr"))), Fld("V", "v", B("int8"))>>)
     [] n = "RPtrOE"  -> Struct(<<FldOE("Next", "next", Ptr(Named("RPtrOE"))), Fld("V", "v", B("int8"))>>)
     [] n = "RSlice"  -> Struct(<<Fld("Kids", "kids", Slice(Named("RSlice"))), Fld("V", "v", B("int8"))>>)
     [] n = "RPSlice" -> Struct(<<Fld("Kids", "kids", Slice(Ptr(Named("RPSlice")))), Fld("V", "v", B("int8"))>>)
     [] n = "RMap"    -> Struct(<<Fld("M", "m", Map(Ptr(Named("RMap")))), Fld("V", "v", B("int8"))>>)
     [] n = "RMapV"   -> Struct(<<Fld("M", "m", Map(Named("RMapV"))), Fld("V", "v", B("int8"))>>)
     [] n = "MA"      -> Struct(<<Fld("B", "b", Ptr(Named("MB"))), Fld("X", "x", B("string"))>>)
     [] n = "MB"      -> Struct(<<Fld("A", "a", Ptr(Named("MA"))), Fld("X", "x", B("int8"))>>)
     [] n = "EA"      -> Struct(<<Emb("EB", Ptr(Named("EB"))), Fld("V", "v", B("int8"))>>)
     [] n = "EB"      -> Struct(<<FldOE("A", "a", Ptr(Named("EA"))), Fld("W", "w", B("string"))>>)
     [] n = "RSS"     -> Struct(<<Fld("G", "g", Slice(Slice(Named("RSS")))), Fld("V", "v", B("int8"))>>)
     [] n = "ES"      -> Struct(<<Emb("ES", Ptr(Named("ES"))), Fld("V", "v", B("int8"))>>)
     [] n = "FA"      -> Struct(<<Fld("ID", "id", B("string")), FldOE("Owner", "owner", Ptr(Named("FB")))>>)
     [] n = "FB"      -> Struct(<<Fld("ID", "id", B("int64")), FldOE("Home", "home", Ptr(Named("FA")))>>)
     [] n = "ND"      -> Struct(<<Fld("Label", "label", B("string")), Fld("Meta", "meta", Named("MT"))>>)
     [] n = "MT"      -> Struct(<<Fld("Label", "label", B("bool")), Fld("Parents", "parents", Slice(Named("ND"))),
                                  FldOE("Origin", "origin", Ptr(Named("ND")))>>)
     [] n = "GA"      -> Struct(<<Fld("ID", "id", B("string")), Fld("M", "m", Map(Named("GB")))>>)
     [] n = "GB"      -> Struct(<<Fld("ID", "id", B("int8")), Fld("N", "n", Map(Named("GA")))>>)
     [] n = "TA"      -> Struct(<<Fld("ID", "id", B("string")), FldOE("B", "b", Ptr(Named("TB")))>>)
     [] n = "TB"      -> Struct(<<Fld("ID", "id", B("int8")), FldOE("C", "c", Ptr(Named("TC")))>>)
     [] n = "TC"      -> Struct(<<Fld("ID", "id", B("bool")), FldOE("A", "a", Ptr(Named("TA")))>>)
     [] n = "UA"      -> Struct(<<Fld("ID", "id", B("string")), Fld("Bs", "bs", Slice(Named("UB")))>>)
     [] n = "UB"      -> Struct(<<Fld("ID", "id", B("int8")), Fld("Cm", "cm", Map(Named("UC")))>>)
     [] n = "UC"      -> Struct(<<Fld("ID", "id", B("bool")), FldOE("A", "a", Ptr(Named("UA")))>>)

(* the underlying type *)
U(T) == IF T.k = "named" THEN Defs(T.n) ELSE T
StructOf(T) == U(T)
IsStructLike(T) == U(T).k = "struct"
(* an embedded field whose fields are promoted (encoding/json and openapi3gen agree on this) *)
Flattens(fd) == /\ Has(fd, "emb") /\ ~Has(fd, "j")
                /\ (IsStructLike(fd.t) \/ (fd.t.k = "ptr" /\ IsStructLike(fd.t.e)))
JsonName(fd) == IF Has(fd, "j") /\ fd.j # "" THEN fd.j ELSE fd.n
(* a field encoding/json and the generator never look at: unexported and not a flattened struct *)
Hidden(fd) == Has(fd, "x") /\ ~Flattens(fd)
(* the "string" option is honoured for strings, integers, floats and booleans, and for an        *)
(* (unnamed) pointer to one of them; everywhere else encoding/json ignores it                    *)
QuotableKinds == NumKinds \cup {"bool", "string"}
Quotable(T) == LET t1 == IF T.k = "ptr" THEN T.e ELSE T IN U(t1).k \in QuotableKinds
Quoted(fd) == Has(fd, "qs") /\ Quotable(fd.t)

(* every JSON object key of the universe in byte order (TLC cannot compare strings) *)
NameOrder == <<"A", "B", "C", "E", "F", "Index", "Items", "NBytes", "NF32", "NI8", "NMap", "NSl", "NStr", "NU8", "PItems", "Tree",
               "a", "b", "bs", "c", "cm", "e", "g", "home", "id", "k", "kids", "l", "label",
               "m", "meta", "n", "next", "origin", "owner", "p", "parents", "q", "s", "sub", "v", "w", "x">>
SortNames(S) == SelectSeq(NameOrder, LAMBDA n : n \in S)
NameIdx(n) == CHOOSE i \in DOMAIN NameOrder : NameOrder[i] = n

-----------------------------------------------------------------------------
(* Abstract Go values:                                                                    *)
(*  [g |-> "bool", b] [g |-> "num", q (code)] [g |-> "str", cs] [g |-> "bytes", id]        *)
(*  [g |-> "time", id] [g |-> "nil"] [g |-> "ptr", e] [g |-> "slice", a]                  *)
(*  [g |-> "map", k, v] [g |-> "struct", f (one value per declared field, in order)]      *)
(*  [g |-> "zero"]  the (only) value of an unexported field: reflection cannot set it      *)
GB(b) == [g |-> "bool", b |-> b]
GN(q) == [g |-> "num", q |-> q]
GS(cs) == [g |-> "str", cs |-> cs]
GBy(id) == [g |-> "bytes", id |-> id]
GT(id) == [g |-> "time", id |-> id]
GNil == [g |-> "nil"]
GZero == [g |-> "zero"]

(* boundary values per kind; the first is the zero value (omitempty drops it) *)
BaseVals(k) ==
   CASE k = "bool"    -> <<GB(FALSE), GB(TRUE)>>
     [] k = "int"     -> <<GN(0), GN(P("-9223372036854775808")), GN(P("9223372036854775807"))>>
     [] k = "int8"    -> <<GN(0), GN(P("-128")), GN(P("127"))>>
     [] k = "int16"   -> <<GN(0), GN(P("-32768")), GN(P("32767"))>>
     [] k = "int32"   -> <<GN(0), GN(P("-2147483648")), GN(P("2147483647"))>>
     [] k = "int64"   -> <<GN(0), GN(P("-9223372036854775808")), GN(P("9223372036854775807"))>>
     [] k = "uint"    -> <<GN(0), GN(P("18446744073709551615")), GN(P("1"))>>
     [] k = "uint8"   -> <<GN(0), GN(P("255")), GN(P("1"))>>
     [] k = "uint16"  -> <<GN(0), GN(P("65535")), GN(P("1"))>>
     [] k = "uint32"  -> <<GN(0), GN(P("4294967295")), GN(P("1"))>>
     [] k = "uint64"  -> <<GN(0), GN(P("18446744073709551615")), GN(P("1"))>>
     [] k = "float32" -> <<GN(0), GN(-2), GN(P("1000000000000000000000000000000"))>>
     [] k = "float64" -> <<GN(0), GN(2), GN(P("-1000000000000000000000000000000"))>>
     [] k = "string"  -> <<GS(<<>>), GS(<<"a">>), GS(<<"a", "U", "<">>)>>
     [] k = "bytes"   -> <<GBy("empty"), GBy("fbff"), GBy("a")>>
     [] k = "time"    -> <<GT("zero"), GT("t1")>>

(* what encoding/json writes for the byte slices / times of the universe *)
B64Of(id) == CASE id = "empty" -> <<>>
               [] id = "fbff"  -> <<"+", "/", "8", "=">>
               [] id = "a"     -> <<"Y", "Q", "=", "=">>
TimeOf(id) ==
   CASE id = "zero" -> <<"0","0","0","1","-","0","1","-","0","1","T","0","0",":","0","0",":","0","0","Z">>
     [] id = "t1"   -> <<"2","0","2","4","-","0","2","-","2","9","T","2","3",":","5","9",":","5","9",".",
                         "1","2","3","4","5","6","7","8","9","+","0","5",":","3","0">>

FUEL == 2      \* how often a value may enter a declared (non-scalar) type before pointers/slices/maps are cut
ContFUEL == 4  \* the families that recurse through a named container: container, element, container, element
MaxV == 6      \* at most this many values per type
(* the mutually recursive families are unfolded far enough for a value to pass a cycle of *)
(* length 3 twice (7 declared types on the path), with the variants to get there          *)
DeepFUEL == 7
DeepMaxV == 8

Max2(a, b) == IF a > b THEN a ELSE b
RECURSIVE MaxOver(_, _)
MaxOver(f, i) == IF i > Len(f) THEN 1 ELSE Max2(f[i], MaxOver(f, i + 1))

(* number of distinct variants of T *)
RECURSIVE NV(_, _)
(* entering a declared type costs fuel unless it is a defined scalar *)
Charge(T, fuel) == IF Defs(T.n).k \in BaseKinds THEN fuel ELSE IF fuel > 0 THEN fuel - 1 ELSE 0
NV(T, fuel) ==
   CASE T.k \in BaseKinds -> Len(BaseVals(T.k))
     [] T.k = "opaque" -> 1
     [] T.k \in {"ptr", "slice", "map"} -> IF fuel = 0 THEN 1 ELSE NV(T.e, fuel) + 1
     [] T.k = "struct" -> MaxOver([x \in DOMAIN T.f |-> NV(T.f[x].t, fuel)], 1)
     [] T.k = "named"  -> NV(Defs(T.n), Charge(T, fuel))

(* the i-th variant: every leaf runs through its boundary values, containers through   *)
(* nil/empty first and then two neighbouring variants of the element (one element      *)
(* while a deeply unfolded value is still above the ordinary unfolding depth)          *)
RECURSIVE Val(_, _, _)
Val(T, i, fuel) ==
   LET n == NV(T, fuel)
       j == ((i - 1) % n) + 1 IN
   CASE T.k \in BaseKinds -> BaseVals(T.k)[j]
     [] T.k = "opaque" -> GZero
     [] T.k = "ptr"   -> IF fuel = 0 \/ j = 1 THEN GNil ELSE [g |-> "ptr", e |-> Val(T.e, j - 1, fuel)]
     [] T.k = "slice" -> IF fuel = 0 \/ j = 1 THEN [g |-> "slice", a |-> <<>>]
                         ELSE IF fuel > FUEL THEN [g |-> "slice", a |-> <<Val(T.e, j, fuel)>>]
                         ELSE [g |-> "slice", a |-> <<Val(T.e, j - 1, fuel), Val(T.e, j, fuel)>>]
     [] T.k = "map"   -> IF fuel = 0 \/ j = 1 THEN [g |-> "map", k |-> <<>>, v |-> <<>>]
                         ELSE IF fuel > FUEL THEN [g |-> "map", k |-> <<"k">>, v |-> <<Val(T.e, j, fuel)>>]
                         ELSE [g |-> "map", k |-> <<"k", "l">>, v |-> <<Val(T.e, j - 1, fuel), Val(T.e, j, fuel)>>]
     [] T.k = "struct" -> [g |-> "struct", f |-> [x \in DOMAIN T.f |-> Val(T.f[x].t, j, fuel)]]
     [] T.k = "named"  -> Val(Defs(T.n), j, Charge(T, fuel))

-----------------------------------------------------------------------------
(* encoding/json *)
IsEmptyVal(gv) ==
   \/ gv.g = "nil"
   \/ (gv.g = "bool" /\ ~gv.b)
   \/ (gv.g = "num" /\ gv.q = 0)
   \/ (gv.g = "str" /\ gv.cs = <<>>)
   \/ (gv.g = "bytes" /\ gv.id = "empty")
   \/ (gv.g = "slice" /\ gv.a = <<>>)
   \/ (gv.g = "map" /\ gv.k = <<>>)

(* the candidate fields of a struct value: embedded structs are flattened, a nil embedded *)
(* pointer makes the fields below it absent                                               *)
(* (a declared type already being flattened is not entered again: encoding/json's visited set) *)
RECURSIVE FlatFrom(_, _, _, _, _, _)
FlatFrom(ST, gv, depth, absent, x, seen) ==
   IF x > Len(ST.f) THEN <<>>
   ELSE LET fd == ST.f[x]
            fv == IF absent THEN GNil ELSE gv.f[x]
            here == IF Flattens(fd)
                    THEN LET isp == fd.t.k = "ptr"
                             it == IF isp THEN fd.t.e ELSE fd.t
                             isnil == absent \/ (isp /\ fv.g = "nil")
                             iv == IF isnil THEN GNil ELSE IF isp THEN fv.e ELSE fv
                         IN IF it.k = "named" /\ it.n \in seen THEN <<>>
                            ELSE FlatFrom(StructOf(it), iv, depth + 1, isnil, 1,
                                          IF it.k = "named" THEN seen \cup {it.n} ELSE seen)
                    ELSE IF Hidden(fd) THEN <<>>
                    ELSE <<[name |-> JsonName(fd), depth |-> depth, tagged |-> Has(fd, "j"), t |-> fd.t,
                            v |-> fv, oe |-> Has(fd, "oe"), qs |-> Quoted(fd), absent |-> absent]>>
        IN here \o FlatFrom(ST, gv, depth, absent, x + 1, seen)

(* Go's dominance rule: the shallowest occurrence of a name wins; among several at that   *)
(* depth a single tagged one wins; otherwise the name is dropped.  0 = dropped.           *)
Dominant(es, name) ==
   LET C == {x \in DOMAIN es : es[x].name = name}
       d == CHOOSE d \in {es[x].depth : x \in C} : \A y \in C : es[y].depth >= d
       Cd == {x \in C : es[x].depth = d}
       Ct == {x \in Cd : es[x].tagged}
   IN IF Cardinality(Cd) = 1 THEN CHOOSE x \in Cd : TRUE
      ELSE IF Cardinality(Ct) = 1 THEN CHOOSE x \in Ct : TRUE ELSE 0

RECURSIVE EncQuoted(_, _)
(* The "string" option: the value's JSON text inside a JSON string.  Numbers are written as   *)
(* encoding/json writes them (integers in decimal; floats in the shortest form, with an        *)
(* exponent from 1e21 on); a string is written as its JSON text, quotes and escapes included    *)
(* (encoding/json escapes < > & as \u00xx), and that text is the content of the outer string.   *)
NumText(q, float) ==
   IF q = 2 THEN <<"0", ".", "5">>
   ELSE IF q = -2 THEN <<"-", "0", ".", "5">>
   ELSE IF float /\ q = P("1000000000000000000000000000000") THEN <<"1", "e", "+", "3", "0">>
   ELSE IF float /\ q = P("-1000000000000000000000000000000") THEN <<"-", "1", "e", "+", "3", "0">>
   ELSE PointCs[(q \div 4) + ZeroIdx]
EscapeChar(c) == IF c = "<" THEN <<"\\", "u", "0", "0", "3", "c">> ELSE <<c>>      \* the universe's strings: a U <
RECURSIVE EscapeCs(_)
EscapeCs(cs) == IF cs = <<>> THEN <<>> ELSE EscapeChar(Head(cs)) \o EscapeCs(Tail(cs))
EncQuoted(T, gv) ==
   CASE gv.g = "nil"  -> Null
     [] gv.g = "ptr"  -> EncQuoted(T.e, gv.e)
     [] gv.g = "bool" -> Str(IF gv.b THEN <<"t", "r", "u", "e">> ELSE <<"f", "a", "l", "s", "e">>)
     [] gv.g = "num"  -> Str(NumText(gv.q, U(T).k \in FloatKinds))
     [] gv.g = "str"  -> Str(<<"\"">> \o EscapeCs(gv.cs) \o <<"\"">>)

RECURSIVE Enc(_, _)
EncStruct(T, gv) ==
   LET es == FlatFrom(StructOf(T), gv, 0, FALSE, 1, IF T.k = "named" THEN {T.n} ELSE {})
       names == {es[x].name : x \in DOMAIN es}
       shown == {n \in names : LET d == Dominant(es, n) IN
                                  d # 0 /\ ~es[d].absent /\ ~(es[d].oe /\ IsEmptyVal(es[d].v))}
       ks == SortNames(shown)
   IN Obj(ks, [i \in DOMAIN ks |-> LET d == Dominant(es, ks[i]) IN
                                   IF es[d].qs THEN EncQuoted(es[d].t, es[d].v) ELSE Enc(es[d].t, es[d].v)])

Enc(T, gv) ==
   CASE gv.g = "nil"    -> Null
     [] gv.g = "ptr"    -> Enc(U(T).e, gv.e)
     [] gv.g = "bool"   -> Bool(gv.b)
     [] gv.g = "num"    -> Num(gv.q)
     [] gv.g = "str"    -> Str(gv.cs)
     [] gv.g = "bytes"  -> Str(B64Of(gv.id))
     [] gv.g = "time"   -> Str(TimeOf(gv.id))
     [] gv.g = "slice"  -> Arr([x \in DOMAIN gv.a |-> Enc(U(T).e, gv.a[x])])
     [] gv.g = "map"    -> Obj(gv.k, [x \in DOMAIN gv.v |-> Enc(U(T).e, gv.v[x])])
     [] gv.g = "struct" -> EncStruct(T, gv)

(* declared types mentioned in / reachable from a type *)
RECURSIVE NamesIn(_)
NamesIn(T) == CASE T.k \in BaseKinds \cup {"opaque"} -> {}
                [] T.k \in {"ptr", "slice", "map"} -> NamesIn(T.e)
                [] T.k = "struct" -> UNION {NamesIn(T.f[x].t) : x \in DOMAIN T.f}
                [] T.k = "named" -> {T.n}
(* declared types reachable from T *)
RECURSIVE Reach(_, _)
Reach(ns, hops) == IF hops = 0 THEN ns
                   ELSE Reach(ns \cup UNION {NamesIn(Defs(n)) : n \in ns}, hops - 1)
ReachNames(T) == Reach(NamesIn(T), 3)

(* A type is recursive when a declared type reachable from it reaches itself -- through the     *)
(* fields the generator is documented to consider: those with a json tag (all exported ones     *)
(* with UseAllExportedFields, all), and the fields of untagged embedded structs.                *)
Considered(fd, all) ==
   \/ Flattens(fd)
   \/ (~Has(fd, "x") /\ ~(Has(fd, "emb") /\ ~Has(fd, "j")) /\ (Has(fd, "j") \/ all))
RECURSIVE NamesInC(_, _)
NamesInC(T, all) == CASE T.k \in BaseKinds \cup {"opaque"} -> {}
                      [] T.k \in {"ptr", "slice", "map"} -> NamesInC(T.e, all)
                      [] T.k = "struct" -> UNION {NamesInC(T.f[x].t, all) : x \in {y \in DOMAIN T.f : Considered(T.f[y], all)}}
                      [] T.k = "named" -> {T.n}
RECURSIVE ReachC(_, _, _)
ReachC(ns, hops, all) == IF hops = 0 THEN ns
                         ELSE ReachC(ns \cup UNION {NamesInC(Defs(n), all) : n \in ns}, hops - 1, all)
Recursive(T, all) == \E n \in ReachC(NamesInC(T, all), 3, all) : n \in ReachC(NamesInC(Defs(n), all), 3, all)

(* the values a type is judged on: its variants, without those that encode as null *)
GoVals(T) ==
   LET deep == ReachNames(T) \cap DeepNames # {}
       fuel == IF deep THEN DeepFUEL ELSE IF ReachNames(T) \cap ContRecNames # {} THEN ContFUEL ELSE FUEL
       maxv == IF deep THEN DeepMaxV ELSE MaxV
       n == IF NV(T, fuel) > maxv THEN maxv ELSE NV(T, fuel)
       all == [i \in 1..n |-> Val(T, i, fuel)]
   IN SelectSeq(all, LAMBDA gv : Enc(T, gv).t # "null")

-----------------------------------------------------------------------------
(* syntactic helpers *)
(* does T contain an anonymous (reflect-built) struct that the generator treats as a schema *)
(* of its own below the root (embedded-and-flattened ones are not)?  root: only pointers    *)
(* between T and the type the caller passed                                                 *)
RECURSIVE AnonStructs(_, _), FieldAnon(_, _)
AnonStructs(T, root) ==
   CASE T.k \in BaseKinds \cup {"opaque"} -> 0
     [] T.k = "ptr" -> AnonStructs(T.e, root)
     [] T.k \in {"slice", "map"} -> AnonStructs(T.e, FALSE)
     [] T.k = "named" -> 0
     [] T.k = "struct" -> (IF root THEN 0 ELSE 1) + FieldAnon(T.f, 1)
FieldAnon(f, x) ==
   IF x > Len(f) THEN 0
   ELSE (IF Flattens(f[x])
         THEN LET it == IF f[x].t.k = "ptr" THEN f[x].t.e ELSE f[x].t IN
              IF it.k = "named" THEN 0 ELSE FieldAnon(it.f, 1)
         ELSE AnonStructs(f[x].t, FALSE)) + FieldAnon(f, x + 1)
=============================================================================
