SPECIFICATION Spec
CONSTANT MaxOps = 2
INVARIANT Emit
CHECK_DEADLOCK FALSE
