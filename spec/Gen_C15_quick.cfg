SPECIFICATION Spec
CONSTANTS MaxFlat = 2
 Pairs = "cover"
 Seed = 1
INVARIANT Emit
CHECK_DEADLOCK FALSE
