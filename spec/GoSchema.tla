------------------------------- MODULE GoSchema -------------------------------
(***************************************************************************)
(* C18, L1 (second half): when does a generated schema (with the component *)
(* map the caller supplied) accept a JSON value?                           *)
(*                                                                         *)
(* A generated schema arrives as an abstract schema of SchemaSem with two  *)
(* more keywords: ref (the name N of "#/components/schemas/N"; refraw for  *)
(* any other reference text) and format.  comps = [k |-> names, v |->      *)
(* schemas].  The judgement is the reference semantics of C01:             *)
(*   Accepts == SchemaSem!Valid(Unfold(S, comps, Depth(v)), v, "plain")    *)
(*              /\ no format failure                                        *)
(* Unfold replaces references by their targets as deep as the value goes.  *)
(* Fails is a second, position-reporting formulation over the fragment the *)
(* generator uses (type nullable format minimum maximum items properties   *)
(* additionalProperties required $ref); it carries the format semantics,   *)
(* gives the finding classes their positions, and the trace specification  *)
(* checks that both formulations agree on every judged value.              *)
(***************************************************************************)
EXTENDS GoTypes

HasComp(comps, n) == \E i \in DOMAIN comps.k : comps.k[i] = n
Comp(comps, n) == comps.v[CHOOSE i \in DOMAIN comps.k : comps.k[i] = n]

Fragment == {"type", "nullable", "format", "minimum", "maximum", "items", "pk", "ps", "apSchema", "apFalse",
             "ref", "required"}
KnownFormats == {"int32", "int64", "float", "double", "byte", "date-time", "date"}
KnownTypes == {"boolean", "integer", "number", "string", "array", "object"}

RECURSIVE SubS(_)
SubS(s) == {s} \cup (IF Has(s, "items") THEN SubS(s.items) ELSE {})
               \cup (IF Has(s, "apSchema") THEN SubS(s.apSchema) ELSE {})
               \cup (IF Has(s, "ps") THEN UNION {SubS(s.ps[i]) : i \in DOMAIN s.ps} ELSE {})
AllS(S, comps) == SubS(S) \cup UNION {SubS(comps.v[i]) : i \in DOMAIN comps.v}

InFragment(S, comps) ==
   \A s \in AllS(S, comps) :
      /\ DOMAIN s \subseteq Fragment
      /\ Has(s, "format") => s.format \in KnownFormats
      /\ Has(s, "type") => s.type \in KnownTypes

(* follow references; the result still has ref when a name is missing or the chain loops *)
RECURSIVE Resolve(_, _, _)
Resolve(s, comps, hops) ==
   IF Has(s, "ref") /\ hops > 0 /\ HasComp(comps, s.ref) THEN Resolve(Comp(comps, s.ref), comps, hops - 1) ELSE s
Res(s, comps) == Resolve(s, comps, Len(comps.k) + 1)

(* "references resolve within the component map supplied by the caller" *)
RefsResolve(S, comps) ==
   \A s \in AllS(S, comps) : ~Has(s, "refraw") /\ (Has(s, "ref") => ~Has(Res(s, comps), "ref"))
(* the names that do not resolve *)
MissingNames(S, comps) ==
   {Res(s, comps).ref : s \in {x \in AllS(S, comps) : Has(x, "ref") /\ Has(Res(x, comps), "ref")}}
(* the name a caller-supplied type-name generator of the tng option sets gives a declared type *)
UsesTypeNameGen(opt) == opt \in {"tng", "tng_export", "tng_exporttop"}
TypeNameOf(opt, n) == IF UsesTypeNameGen(opt) THEN "T_" \o n ELSE n
(* every component and every reference goes by a name the caller's generator chose *)
RefNamesOf(S, comps) == {s.ref : s \in {x \in AllS(S, comps) : Has(x, "ref")}}
NamesChosen(T, opt, S, comps) ==
   LET chosen == {TypeNameOf(opt, n) : n \in ReachNames(T)} IN
   RefNamesOf(S, comps) \subseteq chosen /\ Range(comps.k) \subseteq chosen
(* component names are distinct *)
CompsWellFormed(comps) ==
   /\ Len(comps.k) = Len(comps.v)
   /\ \A i, j \in DOMAIN comps.k : i # j => comps.k[i] # comps.k[j]

RECURSIVE Depth(_)
Depth(v) == CASE v.t = "arr" -> 1 + MaxOver([i \in DOMAIN v.a |-> Depth(v.a[i]) + 1], 1) - 1
              [] v.t = "obj" -> 1 + MaxOver([i \in DOMAIN v.v |-> Depth(v.v[i]) + 1], 1) - 1
              [] OTHER -> 0

Never == [not |-> <<>>]      \* rejects every value (SchemaSem: not {} )
RECURSIVE Unfold(_, _, _)
Unfold(s, comps, fuel) ==
   LET r == Res(s, comps) IN
   IF Has(r, "ref") \/ Has(r, "refraw") THEN Never
   ELSE LET keep == IF fuel > 0 THEN DOMAIN r ELSE DOMAIN r \ {"items", "pk", "ps", "apSchema"} IN
        [f \in keep |->
           CASE f = "items"    -> Unfold(r.items, comps, fuel - 1)
             [] f = "apSchema" -> Unfold(r.apSchema, comps, fuel - 1)
             [] f = "ps"       -> [i \in DOMAIN r.ps |-> Unfold(r.ps[i], comps, fuel - 1)]
             [] OTHER          -> r[f]]

-----------------------------------------------------------------------------
(* formats (OpenAPI 3.0 data types); a format constrains only values of its own JSON type *)
Digits == {"0", "1", "2", "3", "4", "5", "6", "7", "8", "9"}
DigitVal(c) == CASE c = "0" -> 0 [] c = "1" -> 1 [] c = "2" -> 2 [] c = "3" -> 3 [] c = "4" -> 4
                 [] c = "5" -> 5 [] c = "6" -> 6 [] c = "7" -> 7 [] c = "8" -> 8 [] c = "9" -> 9
TwoDigits(cs, i, lo, hi) ==
   /\ cs[i] \in Digits /\ cs[i + 1] \in Digits
   /\ LET n == 10 * DigitVal(cs[i]) + DigitVal(cs[i + 1]) IN n >= lo /\ n <= hi
IsDate(cs, off) ==    \* full-date at cs[off+1 .. off+10]
   /\ Len(cs) >= off + 10
   /\ \A i \in 1..4 : cs[off + i] \in Digits
   /\ cs[off + 5] = "-" /\ TwoDigits(cs, off + 6, 1, 12)
   /\ cs[off + 8] = "-" /\ TwoDigits(cs, off + 9, 1, 31)
(* RFC 3339 date-time *)
IsZone(cs, i) ==      \* time-offset at cs[i .. Len(cs)]
   \/ (Len(cs) = i /\ cs[i] \in {"Z", "z"})
   \/ (Len(cs) = i + 5 /\ cs[i] \in {"+", "-"} /\ TwoDigits(cs, i + 1, 0, 23) /\ cs[i + 3] = ":"
       /\ TwoDigits(cs, i + 4, 0, 59))
IsDateTime(cs) ==
   /\ Len(cs) >= 20 /\ IsDate(cs, 0) /\ cs[11] \in {"T", "t"}
   /\ TwoDigits(cs, 12, 0, 23) /\ cs[14] = ":" /\ TwoDigits(cs, 15, 0, 59) /\ cs[17] = ":"
   /\ TwoDigits(cs, 18, 0, 60)
   /\ IF cs[20] = "."
      THEN \E z \in 22..Len(cs) : (\A i \in 21..(z - 1) : cs[i] \in Digits) /\ IsZone(cs, z)
      ELSE IsZone(cs, 20)
B64Chars == {"A","B","C","D","E","F","G","H","I","J","K","L","M","N","O","P","Q","R","S","T","U","V","W","X","Y","Z",
             "a","b","c","d","e","f","g","h","i","j","k","l","m","n","o","p","q","r","s","t","u","v","w","x","y","z",
             "0","1","2","3","4","5","6","7","8","9","+","/"}
IsB64(cs) ==
   /\ Len(cs) % 4 = 0
   /\ \E pad \in 0..2 : /\ pad <= Len(cs)
                        /\ \A i \in 1..(Len(cs) - pad) : cs[i] \in B64Chars
                        /\ \A i \in (Len(cs) - pad + 1)..Len(cs) : cs[i] = "="

FormatOK(fmt, v) ==
   CASE fmt = "int32"     -> v.t = "num" => (v.q >= P("-2147483648") /\ v.q <= P("2147483647"))
     [] fmt = "int64"     -> v.t = "num" => (v.q >= P("-9223372036854775808") /\ v.q <= P("9223372036854775807"))
     [] fmt = "byte"      -> v.t = "str" => IsB64(v.cs)
     [] fmt = "date-time" -> v.t = "str" => IsDateTime(v.cs)
     [] fmt = "date"      -> v.t = "str" => (Len(v.cs) = 10 /\ IsDate(v.cs, 0))
     [] OTHER             -> TRUE

-----------------------------------------------------------------------------
(* position-reporting formulation: the set of local failures [p |-> path, kind |-> ...] *)
F(p, kind) == [p |-> p, kind |-> kind]
RECURSIVE Fails(_, _, _, _)
Fails(s, comps, v, p) ==
   LET r == Res(s, comps)
       viaRef == Has(s, "ref") IN
   IF Has(r, "ref") \/ Has(r, "refraw") THEN {F(p, "unresolved")}
   ELSE IF v.t = "null"
        THEN IF Has(r, "nullable") THEN {} ELSE {F(p, IF viaRef THEN "null_at_ref" ELSE "null")}
   ELSE (IF Has(r, "type") /\ ~(r.type \in KnownTypes /\ TypeIs(r.type, v)) THEN {F(p, "type")} ELSE {})
        \cup (IF v.t = "num" /\ ~NumOK(r, v.q) THEN {F(p, "bound")} ELSE {})
        \cup (IF Has(r, "format") /\ ~FormatOK(r.format, v) THEN {F(p, "format")} ELSE {})
        \cup (IF v.t = "arr" /\ Has(r, "items")
              THEN UNION {Fails(r.items, comps, v.a[i], Append(p, "*")) : i \in DOMAIN v.a} ELSE {})
        \cup (IF v.t = "obj"
              THEN (UNION {LET pi == PropIdx(r, v.k[i])
                               q == Append(p, v.k[i]) IN
                           IF pi # 0 THEN Fails(r.ps[pi], comps, v.v[i], q)
                           ELSE IF Has(r, "apFalse") THEN {F(q, "additional")}
                           ELSE IF Has(r, "apSchema") THEN Fails(r.apSchema, comps, v.v[i], q)
                           ELSE {} : i \in DOMAIN v.k})
                   \cup (IF Has(r, "required")
                         THEN {F(Append(p, r.required[j]), "required") :
                                  j \in {j \in DOMAIN r.required : ~HasKey(v, r.required[j])}}
                         ELSE {})
              ELSE {})

RefAccepts(S, comps, v) == Valid(Unfold(S, comps, Depth(v)), v, "plain")
Accepts(S, comps, v) == RefAccepts(S, comps, v) /\ Fails(S, comps, v, <<>>) = {}
(* the two formulations agree (formats are outside SchemaSem) *)
Consistent(S, comps, v) ==
   RefAccepts(S, comps, v) = ({f \in Fails(S, comps, v, <<>>) : f.kind # "format"} = {})
=============================================================================
