SPECIFICATION Spec
CONSTANTS W = 0
          WS = 0
          Deep = {}
          OptSet = {"default"}
          Reps = 1
          RepW = 0
          Which = "all"
          MutualFull = FALSE
INVARIANTS EmitPoints
CHECK_DEADLOCK FALSE
