SPECIFICATION Spec
CONSTANTS W = 0
          WS = 0
          Deep = {}
          OptSet = {"default"}
INVARIANTS EmitPoints
CHECK_DEADLOCK FALSE
