-------------------------- MODULE PatternCacheInd --------------------------
(***************************************************************************)
(* Unbounded version of the history clause of C01 (spec/PatternCache.tla)  *)
(* for Apalache: the history is abstracted to its LAST step (every step is *)
(* the last one at some point, so "the last step reports what L1 says" as  *)
(* an invariant is HistoryIndependent for histories of any length).        *)
(*   apalache-mc check --init=IndInit --inv=IndInv --length=1 ...          *)
(* discharges  IndInv /\ Next => IndInv'  and  --init=Init --length=0      *)
(* discharges  Init => IndInv ; IndInv => StepOK is checked the same way.  *)
(***************************************************************************)
EXTENDS Naturals

CONSTANT
  \* @type: Str;
  Policy

Patterns == {"^a", "^A", "(?!x)a"}
Engines  == {"re2", "ci", "any"}
Values   == {"a", "A", "b"}
Matchers == Engines \cup {"none", "nilmatcher"}

Compiles(e, p) == e = "any" \/ p # "(?!x)a"
Match(e, p, v) == IF e = "any" THEN TRUE
                  ELSE IF e = "re2" THEN (p = "^a" /\ v = "a") \/ (p = "^A" /\ v = "A")
                  ELSE p \in {"^a", "^A"} /\ v \in {"a", "A"}

\* @type: ({kind: Str, p: Str, v: Str, e: Str, obs: Str}) => Str;
L1(st) == IF ~Compiles(st.e, st.p) THEN "error"
          ELSE IF st.kind = "docvalidate" THEN "ok"
          ELSE IF Match(st.e, st.p, st.v) THEN "accept" ELSE "reject"

VARIABLES
  \* @type: Str -> Str;
  cache,
  \* @type: {kind: Str, p: Str, v: Str, e: Str, obs: Str};
  last

Stored(p, e) == IF Policy = "never" THEN "none"
                ELSE IF Policy = "on_success" THEN (IF Compiles(e, p) THEN e ELSE "none")
                ELSE (IF Compiles(e, p) THEN e ELSE "nilmatcher")

Idle == [kind |-> "docvalidate", p |-> "^a", v |-> "a", e |-> "re2", obs |-> "ok"]
Init == cache = [p \in Patterns |-> "none"] /\ last = Idle

Visit(p, v, e) ==
   LET m == IF cache[p] # "none" THEN cache[p] ELSE IF Compiles(e, p) THEN e ELSE "fail"
       obs == IF m = "nilmatcher" THEN "panic" ELSE IF m = "fail" THEN "error"
              ELSE IF Match(m, p, v) THEN "accept" ELSE "reject" IN
   /\ cache' = IF cache[p] = "none" THEN [cache EXCEPT ![p] = Stored(p, e)] ELSE cache
   /\ last' = [kind |-> "visit", p |-> p, v |-> v, e |-> e, obs |-> obs]

DocValidate(p, e) ==
   /\ cache' = [cache EXCEPT ![p] = IF Stored(p, e) = "none" THEN @ ELSE IF Policy = "on_success" /\ @ # "none" THEN @ ELSE Stored(p, e)]
   /\ last' = [kind |-> "docvalidate", p |-> p, v |-> "a", e |-> e, obs |-> IF Compiles(e, p) THEN "ok" ELSE "error"]

Next == \E p \in Patterns, e \in Engines : (\E v \in Values : Visit(p, v, e)) \/ DocValidate(p, e)

StepOK == last.obs = L1(last)

TypeOK == /\ cache \in [Patterns -> Matchers]
          /\ last \in [kind : {"visit", "docvalidate"}, p : Patterns, v : Values, e : Engines,
                       obs : {"ok", "error", "accept", "reject", "panic"}]
(* the inductive invariant: under the pinned policy nothing is ever cached *)
IndInv == TypeOK /\ StepOK /\ \A p \in Patterns : cache[p] = "none"
IndInit == IndInv
CInitNever == Policy = "never"
CInitStore == Policy = "on_success"
=============================================================================
