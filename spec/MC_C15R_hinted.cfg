SPECIFICATION Spec
CONSTANTS Hinted = TRUE
 MaxCalls = 4
INVARIANT AnswerIsPrescribed
CHECK_DEADLOCK FALSE
