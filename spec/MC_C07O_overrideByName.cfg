SPECIFICATION Spec
CONSTANT Variant = "overrideByName"
INVARIANT ResultIsContract
CHECK_DEADLOCK FALSE
