SPECIFICATION Spec
CONSTANTS Policy = "unregister_noop"
 MaxSteps = 3
INVARIANTS L2ImpliesL1
CHECK_DEADLOCK FALSE
