SPECIFICATION Spec
CONSTANTS K = 2
          KO = 1
          SK = 2
          W = 1
          Ext = FALSE
          ValSet = "plain"
INVARIANTS L2vsL1 LawsNoOuter Monotone
CHECK_DEADLOCK FALSE
