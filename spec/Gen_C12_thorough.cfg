SPECIFICATION Spec
CONSTANTS K = 2
          KO = 0
          SK = 1
          W = 1
          Ext = TRUE
          ValSet = "ext"
INVARIANTS Emit EmitVals
CHECK_DEADLOCK FALSE
