SPECIFICATION Spec
INVARIANT DeepNamesInjectiveBase
CHECK_DEADLOCK FALSE
