------------------------------- MODULE MC_C03 -------------------------------
(* Design-level check (role D) over the whole generated universe, and case emission.    *)
(*  - Norm is idempotent and only removes (Norm(d) is "between" itself and d);           *)
(*  - the generator's notion of a normal-form variant agrees with Norm;                  *)
(*  - L2 => L1: the implementation-shaped model of the marshallers (omit-when-zero by    *)
(*    Go type class, $ref wrappers emit $ref only) satisfies the first-trip contract,    *)
(*    except on the listed design-level deviations (which MC_C03_pinned.cfg must still   *)
(*    reproduce -- model drift guard); the model's second trip is stable;                *)
(*  - receivers (DocModel!RecvL1): under the code's policy "replace" the receiver holds  *)
(*    exactly the document under test after every history; under "inplace" it does not   *)
(*    (MC_C03_pinned_recv.cfg must find the counterexample);                             *)
(*  - every kind is reachable: hosting a marker at the kind's site yields a document     *)
(*    that contains it; every catalogue field has a distinct name within its kind.       *)
EXTENDS Gen_C03

ver == VerOf(gcase)
NormIdem  == Norm(ver, Norm(ver, gdoc)) = Norm(ver, gdoc)
NormBelow == Between(Norm(ver, gdoc), Norm(ver, gdoc), gdoc)
AllNormal(cc) == cc.mode = "special" \/ \A p \in cc.fv : NormalVariant(FieldOf(cc.kind, p[1]), p[2])
(* a $ref on the object itself makes every other populated field a sibling *)
SelfRefSiblings(cc) == cc.mode # "special" /\ "$ref" \in Names(cc.fv)
                         /\ (Cardinality(cc.fv) > 1 \/ cc.ext # "none" \/ Len(Min(cc.kind).k) > 0)
NormalAgrees == IsNormal(ver, gdoc) <=> (AllNormal(gcase) /\ ~SelfRefSiblings(gcase))

(* design-level deviations of L2 from L1 (each one is a listed finding or a documented convention) *)
NullAny(cc) == cc.mode # "special" /\ \E p \in cc.fv : FieldOf(cc.kind, p[1]).c = "any" /\ p[2] = "null"
V2EmptyScopes(cc) == cc.mode # "special" /\ cc.kind = "SecurityScheme2" /\ <<"scopes", "z">> \in cc.fv
BigRounded(cc) == cc.mode # "special" /\ \E p \in cc.fv : p[2] = "big" /\ ~(Ver(cc.kind) = 2 /\ FieldOf(cc.kind, p[1]).c = "umax")
DateExample(cc) == cc.mode = "special" /\ cc.i = NSpecial
KnownDeviation(cc) == NullAny(cc) \/ V2EmptyScopes(cc) \/ BigRounded(cc) \/ DateExample(cc)
L2Strict == Between(Norm(ver, gdoc), L2RT(ver, gdoc), gdoc)
L2ImpliesL1 == L2Strict \/ KnownDeviation(gcase)
L2Idem == L2RT(ver, L2RT(ver, gdoc)) = L2RT(ver, gdoc)

RecvReplaceL1 == ghist = NoHist \/ IsKindHist(ghist) \/ RecvL1("replace", ver, ghist.prior, gdoc)
RecvInplaceL1 == ghist = NoHist \/ IsKindHist(ghist) \/ RecvL1("inplace", ver, ghist.prior, gdoc)
ASSUME \A v \in {2, 3} : \A n \in PriorNames(v) : PriorParses(n) => IsNormal(v, PriorDoc(v, n))

Mark == Sv("MARK")
RECURSIVE Occurs(_, _)
Occurs(m, v) == \/ v = m
                \/ v.t = "arr" /\ \E i \in DOMAIN v.a : Occurs(m, v.a[i])
                \/ v.t = "obj" /\ \E i \in DOMAIN v.v : Occurs(m, v.v[i])
ASSUME \A k \in Kinds : Occurs(Mark, Host(k, Mark))
ASSUME \A k \in Kinds : Cardinality(FieldNames(k)) = Len(Fields(k))
ASSUME \A k \in Kinds : \A i \in DOMAIN Fields(k) : Fields(k)[i].k # "" => Fields(k)[i].k \in Kinds
ASSUME \A k \in Kinds : Ver(k) = 2 => \A i \in DOMAIN Fields(k) : Fields(k)[i].k \in Kinds3 => Fields(k)[i].k \in {"Tag", "ExternalDocs", "XML", "Contact", "License"}
=============================================================================
