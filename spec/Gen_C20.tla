------------------------------- MODULE Gen_C20 -------------------------------
EXTENDS Robust, Json, CSV
Emit == Emitted =>
           CSVWrite("%1$s", <<ToJson([muts |-> muts, entry |-> entry, allow |-> allow, yaml |-> yaml, base |-> base])>>, "cases.ndjson")
=============================================================================
