------------------------------- MODULE Gen_C05 -------------------------------
(* Generator for C05: the complete product cell x shape x value x presence (x decoy     *)
(* parameter whose name extends the parameter's name), each with the wire fragment      *)
(* computed by ParamCodec!Wire.  The state is the case; there are no transitions.       *)
EXTENDS ParamCodec, Json, CSV

TInt == [type |-> "integer"]
TStr == [type |-> "string"]
ObjXY == [type |-> "object", pk |-> <<"x", "y">>, ps |-> <<TInt, TStr>>]
ObjK == [type |-> "object", pk |-> <<"k,1", "x">>, ps |-> <<TStr, TInt>>]
Deep == [type |-> "object", pk |-> <<"o", "x">>,
         ps |-> <<[type |-> "object", pk |-> <<"y">>, ps |-> <<TStr>>], TInt>>]

S(cs) == Str(cs)
(* twelve different one- and two-letter strings; the first ten are one letter or two letters, all of length <= 2 *)
StrPool == <<S(<<"a">>), S(<<"b">>), S(<<"c">>), S(<<"a", "b">>), S(<<"b", "a">>), S(<<"a", "c">>), S(<<"c", "a">>),
             S(<<"b", "c">>), S(<<"c", "b">>), S(<<"a", "a">>), S(<<"b", "b">>), S(<<"c", "c">>)>>
Strs(n) == SubSeq(StrPool, 1, n)
DeepArr(item, kw) == [type |-> "object", pk |-> <<"a", "x">>, ps |-> <<[type |-> "array", items |-> item] @@ kw, TInt>>]
Shapes == {
   [id |-> "int", schemas |-> {TInt, [type |-> "integer", minimum |-> 0]},
    vals |-> {Num(-12), Num(0), Num(28), Num(48)}, garbage |-> {"nonnumeric"}],
   [id |-> "int32", schemas |-> {[type |-> "integer", format |-> "int32"]}, vals |-> {Num(28), Num(-12)},
    garbage |-> {"nonnumeric", "overflow32"}],
   [id |-> "num", schemas |-> {[type |-> "number"], [type |-> "number", maximum |-> 4]},
    vals |-> {Num(-6), Num(1), Num(8)}, garbage |-> {"nonnumeric"}],
   [id |-> "bool", schemas |-> {[type |-> "boolean"]}, vals |-> {Bool(TRUE), Bool(FALSE)}, garbage |-> {"nonnumeric"}],
   [id |-> "str", schemas |-> {TStr, [type |-> "string", maxLength |-> 1]},
    vals |-> {S(<<"a">>), S(<<"a", "b">>), S(<<"1", "2">>), S(<<"a", "-", "b">>),
              \* characters that are structural in *some* cell or in the URL syntax, never in this one (Defined)
              S(<<"a", " ", "b">>), S(<<"a", "\t", "b">>), S(<<"a", "+", "b">>), S(<<"5", "%", "2", "0">>), S(<<"a", "&", "b", "=">>),
              S(<<"a", ",", "b">>), S(<<"a", "|", "b">>),
              \* values that BEGIN with the characters of a path style's prefix ("." for label, ";p=" for matrix)
              S(<<".", "a">>), S(<<"p", "a">>), S(<<";", "p", "=", "a">>),
              \* a slash: content of a path segment only when escaped
              S(<<"a", "/", "b">>),
              \* characters of different escape classes in ONE text: must-escape next to may-stay-literal ("+" is a space in a
              \* query and itself in a path; "%" is always escaped)
              S(<<"a", " ", "+", "b">>), S(<<"+", "%", "-">>)}, garbage |-> {}],
   [id |-> "arrint", schemas |-> {[type |-> "array", items |-> TInt], [type |-> "array", items |-> TInt, maxItems |-> 2]},
    vals |-> {Arr(<<Num(28)>>), Arr(<<Num(4), Num(8)>>), Arr(<<Num(12), Num(0), Num(48)>>)}, garbage |-> {"nonnumeric"}],
   [id |-> "arrstr", schemas |-> {[type |-> "array", items |-> TStr]},
    vals |-> {Arr(<<S(<<"a">>)>>), Arr(<<S(<<"a">>), S(<<"b">>)>>),
              Arr(<<S(<<"a", "\t", "b">>), S(<<"c">>)>>), Arr(<<S(<<"a", " ", "b">>), S(<<"c">>)>>),
              Arr(<<S(<<"a", "|", "b">>), S(<<"c", "+">>)>>), Arr(<<S(<<"a", ",", "b">>), S(<<"c">>)>>),
              \* items holding the delimiter of some path style (written escaped there: ParamCodec!Escapable)
              Arr(<<S(<<"a", ".", "b">>), S(<<"c">>)>>), Arr(<<S(<<"a", ";", "p", "=", "b">>), S(<<"c", ",">>)>>),
              Arr(<<S(<<"a", " ", "+">>), S(<<"+", "c">>)>>)},
              \* (an empty string among the items is the open region "empty parameter values": not in the universe)
    garbage |-> {}],
   \* additionalProperties absent / false / a schema; w is a property the schemas do not declare
   [id |-> "obj", schemas |-> {ObjXY, ObjXY @@ [required |-> <<"y">>], ObjXY @@ [apFalse |-> TRUE], ObjXY @@ [apSchema |-> TInt],
                                ObjXY @@ [apSchema |-> TInt, maxProperties |-> 1]},
    vals |-> {Obj(<<"x">>, <<Num(4)>>), Obj(<<"x", "y">>, <<Num(4), S(<<"a">>)>>), Obj(<<"y">>, <<S(<<"a", "b">>)>>),
              Obj(<<"w", "x">>, <<Num(8), Num(4)>>),
              \* property values holding the delimiters of the object styles
              Obj(<<"x", "y">>, <<Num(4), S(<<"a", ",", "b", "=", "c">>)>>), Obj(<<"y">>, <<S(<<"a", ".", "b", ";", "c">>)>>),
              Obj(<<"y">>, <<S(<<"a", " ", "+", "b">>)>>)},
    garbage |-> {"oddpairs"}],
   \* a property NAME holding a delimiter
   [id |-> "objk", schemas |-> {ObjK}, vals |-> {Obj(<<"k,1", "x">>, <<S(<<"a">>), Num(4)>>), Obj(<<"k,1">>, <<S(<<"a", "=">>)>>)},
    garbage |-> {}],
   [id |-> "deep", schemas |-> {Deep},
    vals |-> {Obj(<<"o", "x">>, <<Obj(<<"y">>, <<S(<<"a">>)>>), Num(4)>>), Obj(<<"o">>, <<Obj(<<"y">>, <<S(<<"b">>)>>)>>)},
    garbage |-> {}],
   \* arrays below a deepObject (p[a][0]=..&p[a][1]=..): of primitives and of objects, short and of more than ten items
   \* (two-digit indexes), with the array keywords deciding the verdict beyond the tenth item
   [id |-> "deeparr", schemas |-> {DeepArr(TStr, <<>>), DeepArr(TStr, [maxItems |-> 10]), DeepArr(TStr, [minItems |-> 11]),
                                    DeepArr(TStr, [uniqueItems |-> TRUE]), DeepArr([type |-> "string", maxLength |-> 2], <<>>)},
    vals |-> {Obj(<<"a">>, <<Arr(<<S(<<"a">>)>>)>>), Obj(<<"a", "x">>, <<Arr(<<S(<<"a">>), S(<<"b">>)>>), Num(4)>>),
              Obj(<<"a">>, <<Arr(Strs(10))>>), Obj(<<"a">>, <<Arr(Strs(11))>>), Obj(<<"a", "x">>, <<Arr(Strs(12)), Num(4)>>),
              \* the eleventh item repeats the first / is too long
              Obj(<<"a">>, <<Arr(Strs(10) \o <<S(<<"a">>)>>)>>), Obj(<<"a">>, <<Arr(Strs(10) \o <<S(<<"a", "b", "c">>)>>)>>)},
    garbage |-> {}],
   [id |-> "deeparrobj", schemas |-> {DeepArr([type |-> "object", pk |-> <<"y">>, ps |-> <<TStr>>], <<>>),
                                       DeepArr([type |-> "object", pk |-> <<"y">>, ps |-> <<TStr>>], [maxItems |-> 10])},
    vals |-> {Obj(<<"a">>, <<Arr([i \in 1..2 |-> Obj(<<"y">>, <<Strs(2)[i]>>)])>>),
              Obj(<<"a">>, <<Arr([i \in 1..11 |-> Obj(<<"y">>, <<Strs(11)[i]>>)])>>)},
    garbage |-> {}],
   [id |-> "oneof", schemas |-> {[oneOf |-> <<TInt, [type |-> "boolean"]>>]}, vals |-> {Num(28), Bool(TRUE)}, garbage |-> {}],
   [id |-> "anyof", schemas |-> {[anyOf |-> <<TInt, [type |-> "boolean"]>>]}, vals |-> {Num(28), Bool(FALSE)}, garbage |-> {}],
   \* "type" as a list: a text is read as the first listed type it is a literal of (values whose text is a
   \* literal of an earlier listed type than their own are ambiguous on the wire and left out)
   [id |-> "multitype", schemas |-> {[types |-> <<"integer", "string">>], [types |-> <<"boolean", "integer">>],
                                      [types |-> <<"integer", "string">>, maximum |-> 40]},
    vals |-> {Num(28), Num(48)}, garbage |-> {}],
   [id |-> "multitype_str", schemas |-> {[types |-> <<"integer", "string">>], [types |-> <<"boolean", "string">>]},
    vals |-> {S(<<"a", "b">>)}, garbage |-> {}],
   [id |-> "allof", schemas |-> {[allOf |-> <<TInt>>]}, vals |-> {Num(28)}, garbage |-> {}]
}

P == <<"p">>
PQ == <<"p", "q">>
AnyDefined(c, sh) == \E v \in sh.vals : Defined(c, v)
SomeVal(c, sh) == CHOOSE v \in sh.vals : Defined(c, v)

(* a schema default (a value of the shape that the schema accepts), for the shapes whose schemas are plain *)
HasDefault(sh, s) == sh.id \in {"int", "num", "bool", "str", "arrint", "arrstr", "obj"} /\ \E v \in sh.vals : Valid(s, v, "plain") /\ Typed(s, v)
WithDefault(sh, s, df) == IF df THEN s @@ [default |-> CHOOSE v \in sh.vals : Valid(s, v, "plain") /\ Typed(s, v)] ELSE s

(* where a kind of garbage makes sense *)
GarbageOK(c, sh, g) ==
   CASE g \in {"nonnumeric", "overflow32"} -> ~(c.style \in {"deepObject"}) /\ AnyDefined(c, sh)
     [] g = "oddpairs"   -> ~c.explode /\ c.style # "deepObject" /\ AnyDefined(c, sh)
     [] g = "noprefix"   -> c.in = "path" /\ c.style \in {"label", "matrix"}

DecoyOK(c, v) == ~(v.t = "obj" /\ c.style # "deepObject")

(* the encoding modes that give this value a wire text of its own *)
ModeOK(c, v, m) ==
   \/ m = "min"
   \/ m = "all" /\ c.in \in {"path", "query"} /\ WireM(c, P, v, "all") # WireM(c, P, v, "min")
   \/ m = "rawbr" /\ c.style = "deepObject"
   \/ m = "alt" /\ c.in \in {"path", "query"} /\ WireM(c, P, v, "alt") \notin {WireM(c, P, v, "min"), WireM(c, P, v, "all")}

(* An exploded form object in the query is spread over query keys of its own: which keys of the request belong to  *)
(* it is not determined by the wire (OAS leaves it open).  The universe keeps to what is determined: undeclared    *)
(* keys are the object's only when the schema gives them a type (additionalProperties schema), and then the        *)
(* request carries no foreign key (it would be the object's as well).                                             *)
ExplodedFormObj(c, sh) == c.in = "query" /\ c.style = "form" /\ c.explode /\ sh.id \in {"obj", "objk"}
Attributable(c, sh, s, v, ot) ==
   ExplodedFormObj(c, sh) => /\ (UndeclaredKeys(s, v) # {} => Has(s, "apSchema"))
                              /\ (ot # "-" => ~Has(s, "apSchema"))

VARIABLE case
Init ==
   \* ot: what else the request carries -- nothing, an unrelated query parameter z, or an entry named "P" (query names and
   \* cookie names are case-sensitive: it is not the parameter "p")
   \/ \E c \in Cells, sh \in Shapes : \E s \in sh.schemas, v \in sh.vals :
        /\ Defined(c, v) /\ (sh.id \in {"deep", "deeparr", "deeparrobj"} => c.style = "deepObject")
        /\ \E r \in BOOLEAN, d \in BOOLEAN, df \in BOOLEAN, ot \in {"-", "z", "upper"}, m \in Modes :
           /\ (c.in = "path" => r) /\ (d => DecoyOK(c, v))
           /\ (df => ~d /\ HasDefault(sh, s)) /\ (ot \in {"z", "upper"} => ~d /\ ~df)
           /\ (ot = "z" => c.in = "query") /\ (ot = "upper" => c.in \in {"query", "cookie"})
           /\ (m # "min" => ~d /\ ~df /\ ot = "-" /\ r) /\ ModeOK(c, v, m)
           /\ Attributable(c, sh, s, v, ot)
           /\ case = [cell |-> c, shape |-> sh.id, schema |-> WithDefault(sh, s, df), required |-> r, presence |-> "present", v |-> v,
                      mode |-> m, wire |-> WireM(c, P, v, m), decoy |-> d, defaults |-> df, other |-> (ot = "z"), upper |-> (ot = "upper")]
   \* absent: alone, next to a decoy, next to an unrelated query parameter ("other"), and with a schema default that
   \* validation is asked to install (defaults): a default never stands in for a required parameter
   \/ \E c \in Cells, sh \in Shapes, r \in BOOLEAN, d \in BOOLEAN, df \in BOOLEAN, ot \in {"-", "z", "upper"} :
        \E s \in sh.schemas :
           /\ AnyDefined(c, sh) /\ (c.in = "path" => r) /\ (d => DecoyOK(c, SomeVal(c, sh)))
           /\ (sh.id \in {"deep", "deeparr", "deeparrobj"} => c.style = "deepObject")
           /\ (df => HasDefault(sh, s) /\ ~d) /\ (ot \in {"z", "upper"} => ~d)
           /\ (ot = "z" => c.in = "query") /\ (ot = "upper" => c.in \in {"query", "cookie"})
           /\ Attributable(c, sh, s, SomeVal(c, sh), ot)
           /\ case = [cell |-> c, shape |-> sh.id, schema |-> WithDefault(sh, s, df), required |-> r, presence |-> "absent",
                      v |-> SomeVal(c, sh), decoy |-> d, defaults |-> df, other |-> (ot = "z"), upper |-> (ot = "upper")]
   \/ \E c \in Cells, sh \in Shapes, r \in BOOLEAN :
        \E s \in sh.schemas, g \in sh.garbage \cup (IF sh.id = "int" THEN {"noprefix"} ELSE {}) :
           /\ GarbageOK(c, sh, g) /\ (c.in = "path" => r)
           /\ case = [cell |-> c, shape |-> sh.id, schema |-> s, required |-> r, presence |-> "garbage",
                      g |-> g, wire |-> Garbage(c, P, g), decoy |-> FALSE, defaults |-> FALSE, other |-> FALSE, upper |-> FALSE]
   \* emptiness: the parameter is there, its value is the empty text ("p=", "X-P:", "p=" in the cookie)
   \/ \E c \in Cells, sh \in Shapes, r \in BOOLEAN, ae \in BOOLEAN :
        \E s \in sh.schemas :
           /\ c.in \in {"query", "header", "cookie"} /\ c.style \in {"form", "simple"}
           /\ sh.id \in {"int", "num", "bool", "str", "arrint"} /\ AnyDefined(c, sh)
           /\ (ae => c.in = "query")                   \* allowEmptyValue exists for query parameters only
           /\ case = [cell |-> c, shape |-> sh.id, schema |-> s, required |-> r, presence |-> "empty", allowEmpty |-> ae,
                      decoy |-> FALSE, defaults |-> FALSE, other |-> FALSE, upper |-> FALSE,
                      wire |-> (CASE c.in = "query" -> [kind |-> "query", pairs |-> <<Pair("p", "")>>]
                                  [] c.in = "header" -> [kind |-> "header", val |-> ""]
                                  [] c.in = "cookie" -> [kind |-> "cookie", val |-> ""])]
Next == UNCHANGED case
Spec == Init /\ [][Next]_case

(* the decoy parameter "pq" (same cell, same schema) always carries this value *)
DecoyWire == [c \in Cells |-> [sh \in {x.id : x \in Shapes} |->
                LET shp == CHOOSE x \in Shapes : x.id = sh IN
                IF AnyDefined(c, shp) THEN Wire(c, PQ, SomeVal(c, shp)) ELSE [kind |-> "none"]]]

Emit == CSVWrite("%1$s", <<ToJson(IF case.decoy THEN case @@ [decoywire |-> DecoyWire[case.cell][case.shape]] ELSE case)>>,
                 "cases.ndjson")

(* D: Wire is injective per cell, schema shape and encoding mode -- decoding as its inverse is well defined *)
Injective ==
   \A c \in Cells, sh \in Shapes, m \in Modes :
      \A v1, v2 \in sh.vals : (Defined(c, v1) /\ Defined(c, v2) /\ WireM(c, P, v1, m) = WireM(c, P, v2, m)) => v1 = v2
ASSUME Injective
=============================================================================
