SPECIFICATION Spec
INVARIANT DeepNamesInjectiveAsBuilt
CHECK_DEADLOCK FALSE
