SPECIFICATION Spec
CONSTANTS Policy = "explicit"
 MaxSteps = 3
INVARIANTS Emit L2ImpliesL1
PROPERTIES OnlyRegisterWrites
CHECK_DEADLOCK FALSE
