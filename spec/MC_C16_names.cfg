SPECIFICATION Spec
INVARIANT NamesInjective
CHECK_DEADLOCK FALSE
