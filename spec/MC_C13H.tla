------------------------------- MODULE MC_C13H -------------------------------
(* D for BodyStreamH: two requests in one process; every validation runs phase by phase (security / parameters /    *)
(* body), the phases of the two requests interleave in every way (two goroutines, or a serial history when they do   *)
(* not); between validations the next handler reads and rewinds.  L1 is checked whenever a request is at rest.        *)
EXTENDS BodyStreamH

CONSTANTS Small,        \* TRUE: the quick slice of the request descriptions (one parameter shape, one neighbour)
          MTs,          \* media types request 1 is sent in (all of them can be decoded)
          MaxV1, MaxV2, MaxR1, MaxR2   \* per request: validations / reads by the next handler
MaxV == <<MaxV1, MaxV2>>
MaxR == <<MaxR1, MaxR2>>
(* request 1: everything; request 2: a valid JSON request that gets body defaults (the neighbour) *)
Cfg1 == [mt : MTs, valid : BOOLEAN, hasDef : BOOLEAN, reenc : BOOLEAN, skip : BOOLEAN, preset : BOOLEAN, auth : {"none", "read_pass", "read_fail"},
         pq : IF Small THEN {"absent"} ELSE {"none", "absent", "present"}, ph : {"absent"}]
Cfg2 == [mt : {"application/json"}, valid : {TRUE}, hasDef : {TRUE}, reenc : {FALSE}, skip : {FALSE}, preset : IF Small THEN {FALSE} ELSE BOOLEAN,
         auth : IF Small THEN {"none"} ELSE {"none", "read_pass"},
         pq : {"none"}, ph : {"none"}]
VARIABLES cs, g, pc, nv, nr
vars == <<cs, g, pc, nv, nr>>

Init == /\ cs \in {<<c1, c2>> : c1 \in Cfg1, c2 \in Cfg2}
        /\ g = InitG(cs)
        /\ pc = [r \in 1..2 |-> "rest"] /\ nv = [r \in 1..2 |-> 0] /\ nr = [r \in 1..2 |-> 0]

Start(r) == /\ pc[r] = "rest" /\ nv[r] < MaxV[r]
            /\ pc' = [pc EXCEPT ![r] = "sec"] /\ g' = [g EXCEPT !.x[r].verdict = "none"] /\ UNCHANGED <<cs, nv, nr>>
Sec(r) == /\ pc[r] = "sec"
          /\ g' = SecPhase(g, r, cs[r])
          /\ IF SecRejects(cs[r]) THEN pc' = [pc EXCEPT ![r] = "rest"] /\ nv' = [nv EXCEPT ![r] = @ + 1]
             ELSE pc' = [pc EXCEPT ![r] = "params"] /\ UNCHANGED nv
          /\ UNCHANGED <<cs, nr>>
Params(r) == /\ pc[r] = "params" /\ g' = ParamsPhase(g, r, cs[r]) /\ pc' = [pc EXCEPT ![r] = "body"] /\ UNCHANGED <<cs, nv, nr>>
Body(r) == /\ pc[r] = "body" /\ g' = BodyPhase(g, r, cs[r]) /\ pc' = [pc EXCEPT ![r] = "rest"] /\ nv' = [nv EXCEPT ![r] = @ + 1]
           /\ UNCHANGED <<cs, nr>>
Read(r) == /\ pc[r] = "rest" /\ nr[r] < MaxR[r] /\ g' = HandlerRead(g, r) /\ nr' = [nr EXCEPT ![r] = @ + 1] /\ UNCHANGED <<cs, pc, nv>>

Next == \E r \in 1..2 : Start(r) \/ Sec(r) \/ Params(r) \/ Body(r) \/ Read(r)
Spec == Init /\ [][Next]_vars

(* whenever a request is at rest it is what L1 says the next handler gets -- whatever happened to the other request *)
RequestsAtRestOK == \A r \in 1..2 : pc[r] = "rest" => L1OK(g, r, cs[r], nv[r])

=============================================================================
