------------------------------- MODULE Gen_C13 -------------------------------
(* Cases for C13: JSON bodies validated against schemas with defaults at several depths   *)
(* (through allOf / oneOf / anyOf / array items / object defaults / readOnly), crossed     *)
(* with how the body stream is handled (preset GetBody, security callbacks that read the   *)
(* body and pass or reject, multi-error), default-setting on/off; and parameters with      *)
(* defaults in query / header / cookie.                                                    *)
EXTENDS Defaults, Json, CSV

I(d) == [type |-> "integer", default |-> Num(d)]
TInt == [type |-> "integer"]
St(cs) == Str(cs)
SD(cs) == [type |-> "string", default |-> St(cs)]
E(cs) == [enum |-> <<St(cs)>>]
O(pk, ps) == [type |-> "object", pk |-> pk, ps |-> ps]
EmptyObj == Obj(<<>>, <<>>)

DBranches == <<O(<<"a", "k">>, <<I(20), E(<<"p">>)>>) @@ [required |-> <<"k">>],
               O(<<"c", "k">>, <<SD(<<"x">>), E(<<"q">>)>>) @@ [required |-> <<"k">>],
               O(<<"b", "k">>, <<SD(<<"y">>), E(<<"r">>)>>) @@ [required |-> <<"k">>]>>

Schemas == [
  B1 |-> O(<<"a", "b">>, <<I(20), [type |-> "string"]>>),
  B2 |-> O(<<"o">>, <<O(<<"z">>, <<I(12)>>)>>),
  B3 |-> O(<<"o">>, <<O(<<"z">>, <<I(12)>>) @@ [default |-> EmptyObj]>>),
  B4 |-> [allOf |-> <<O(<<"a">>, <<I(20)>>), O(<<"c">>, <<SD(<<"x">>)>>)>>],
  B5 |-> [oneOf |-> <<O(<<"a", "k">>, <<I(20), E(<<"p">>)>>) @@ [required |-> <<"k">>],
                      O(<<"c", "k">>, <<SD(<<"x">>), E(<<"q">>)>>) @@ [required |-> <<"k">>]>>],
  B6 |-> [anyOf |-> <<O(<<"cfg", "t">>, <<O(<<"r">>, <<I(12)>>), E(<<"s">>)>>) @@ [required |-> <<"t">>],
                      O(<<"cfg", "t">>, <<O(<<"q">>, <<I(120)>>), E(<<"u">>)>>) @@ [required |-> <<"t">>]>>],
  B7 |-> O(<<"l">>, <<[type |-> "array", items |-> O(<<"a">>, <<I(20)>>)]>>),
  B8 |-> O(<<"a", "ro">>, <<I(20), [type |-> "string", readOnly |-> TRUE, default |-> St(<<"d">>)]>>),
  B9 |-> O(<<"a">>, <<[type |-> "integer", default |-> Num(20), maximum |-> 40]>>) @@ [required |-> <<"b">>],
  \* a default behind allOf next to a oneOf / anyOf at the same level
  B10 |-> [allOf |-> <<O(<<"a">>, <<I(20)>>)>>,
           oneOf |-> <<O(<<"c", "k">>, <<SD(<<"x">>), E(<<"p">>)>>) @@ [required |-> <<"k">>], O(<<"k">>, <<E(<<"q">>)>>) @@ [required |-> <<"k">>]>>],
  B11 |-> [allOf |-> <<O(<<"a">>, <<I(20)>>)>>,
           anyOf |-> <<O(<<"c", "k">>, <<SD(<<"x">>), E(<<"p">>)>>) @@ [required |-> <<"k">>], O(<<"k">>, <<E(<<"q">>)>>) @@ [required |-> <<"k">>]>>],
  \* strings only (what every form encoding can carry without a typing question)
  B12 |-> O(<<"b", "c">>, <<[type |-> "string"], SD(<<"x">>)>>),
  \* oneOf with a discriminator and an explicit mapping (dmap: the branches are components, keys[i] maps to branch i): the mapping
  \* designates the branch; each branch has its own default.  The branches tell the values apart by themselves (enum on the
  \* discriminating property), so that "exactly one branch matches" and "the mapped branch matches" are the same judgement.
  B13 |-> [oneOf |-> DBranches, dmap |-> [pn |-> "k", keys |-> <<"p", "q", "r">>]]
]
(* further schemas, crossed with fewer dimensions (XCases) *)
XSchemas == [
  \* a discriminator without a mapping / the discriminated oneOf under array items and under a property
  B15 |-> [oneOf |-> DBranches, dmap |-> [pn |-> "k", keys |-> <<>>]],
  B16 |-> O(<<"l">>, <<[type |-> "array", items |-> [oneOf |-> DBranches, dmap |-> [pn |-> "k", keys |-> <<"p", "q", "r">>]]]>>),
  B17 |-> O(<<"o">>, <<[oneOf |-> DBranches, dmap |-> [pn |-> "k", keys |-> <<"p", "q", "r">>]]>>),
  \* a form with an array field next to a field with a default
  B18 |-> O(<<"c", "l">>, <<SD(<<"x">>), [type |-> "array", items |-> TInt]>>)
]
K(x) == Obj(<<"k">>, <<St(<<x>>)>>)
XBodies == [
  B15 |-> {K("p"), K("q"), K("r"), Obj(<<"a", "k">>, <<Num(4), St(<<"r">>)>>)},
  B16 |-> {Obj(<<"l">>, <<Arr(<<K("q"), K("p"), K("r")>>)>>), Obj(<<"l">>, <<Arr(<<K("r")>>)>>), Obj(<<"l">>, <<Arr(<<>>)>>)},
  B17 |-> {Obj(<<"o">>, <<K("q")>>), Obj(<<"o">>, <<K("r")>>), EmptyObj},
  B18 |-> {Obj(<<"l">>, <<Arr(<<Num(4), Num(8)>>)>>), Obj(<<"c", "l">>, <<St(<<"y">>), Arr(<<Num(4), Num(8)>>)>>)}
]

Bodies == [
  B1 |-> {EmptyObj, Obj(<<"a">>, <<Num(4)>>), Obj(<<"b">>, <<St(<<"s">>)>>), Obj(<<"a">>, <<St(<<"s">>)>>)},
  B2 |-> {EmptyObj, Obj(<<"o">>, <<EmptyObj>>), Obj(<<"o">>, <<Obj(<<"z">>, <<Num(4)>>)>>)},
  B3 |-> {EmptyObj, Obj(<<"o">>, <<EmptyObj>>), Obj(<<"o">>, <<Obj(<<"z">>, <<Num(4)>>)>>)},
  B4 |-> {EmptyObj, Obj(<<"a">>, <<Num(4)>>), Obj(<<"c">>, <<St(<<"y">>)>>)},
  B5 |-> {Obj(<<"k">>, <<St(<<"p">>)>>), Obj(<<"k">>, <<St(<<"q">>)>>), Obj(<<"k">>, <<St(<<"z">>)>>),
          Obj(<<"a", "k">>, <<Num(4), St(<<"q">>)>>)},
  B6 |-> {Obj(<<"cfg", "t">>, <<EmptyObj, St(<<"u">>)>>), Obj(<<"cfg", "t">>, <<EmptyObj, St(<<"s">>)>>),
          Obj(<<"t">>, <<St(<<"u">>)>>), Obj(<<"cfg", "t">>, <<Obj(<<"q">>, <<Num(4)>>), St(<<"u">>)>>)},
  B7 |-> {EmptyObj, Obj(<<"l">>, <<Arr(<<EmptyObj, Obj(<<"a">>, <<Num(4)>>)>>)>>), Obj(<<"l">>, <<Arr(<<>>)>>)},
  B8 |-> {EmptyObj, Obj(<<"a">>, <<Num(4)>>)},
  B9 |-> {EmptyObj, Obj(<<"b">>, <<Num(4)>>), Obj(<<"a", "b">>, <<Num(400), Num(4)>>)},
  B10 |-> {Obj(<<"k">>, <<St(<<"p">>)>>), Obj(<<"k">>, <<St(<<"q">>)>>), Obj(<<"a", "k">>, <<Num(4), St(<<"p">>)>>), Obj(<<"k">>, <<St(<<"z">>)>>)},
  B11 |-> {Obj(<<"k">>, <<St(<<"p">>)>>), Obj(<<"k">>, <<St(<<"q">>)>>), Obj(<<"a", "k">>, <<Num(4), St(<<"p">>)>>), Obj(<<"k">>, <<St(<<"z">>)>>)},
  B12 |-> {EmptyObj, Obj(<<"b">>, <<St(<<"s">>)>>), Obj(<<"c">>, <<St(<<"y">>)>>), Obj(<<"b", "c">>, <<St(<<"s">>), St(<<"y">>)>>)},
  B13 |-> {Obj(<<"k">>, <<St(<<"p">>)>>), Obj(<<"k">>, <<St(<<"q">>)>>), Obj(<<"k">>, <<St(<<"r">>)>>), Obj(<<"k">>, <<St(<<"z">>)>>),
           Obj(<<"a", "k">>, <<Num(4), St(<<"q">>)>>), EmptyObj}
]

Secs == {"none", "pass_ignore", "pass_read", "fail_read", "fail_read_then_pass", "fail_read_multi"}

JsonFamily == {"application/problem+json", "application/vnd.api+json"}
Forms == {"application/x-www-form-urlencoded", "multipart/form-data"}
OtherMts == JsonFamily \cup {"application/yaml"} \cup Forms
(* which (schema, body) pairs a media type is crossed with.  Forms carry flat objects; an empty form is no body at all  *)
(* (excluded); whether the form field text "s" is an ill-typed integer, and whether a multipart text part "4" is the    *)
(* integer 4, are questions of property C06 (open findings there), so forms get well-typed fields only and multipart    *)
(* string fields only.                                                                                                   *)
Pairs(ids) == UNION {{<<id, v, <<>> >> : v \in Bodies[id]} : id \in ids}
(* <<schema id, body, enc>>; enc: the array properties the media type's `encoding` declares explode: false for (one pair,   *)
(* comma-separated) -- the default is one pair per item.  Forms may carry fields the schema does not declare (a token next *)
(* to the declared ones: additionalProperties is open): "nothing else changes" is about them too.                           *)
MtCases(mt) ==
   CASE mt = "application/problem+json" -> Pairs(DOMAIN Schemas)
     [] mt = "application/vnd.api+json" -> Pairs({"B1", "B5"})
     [] mt = "application/yaml" -> Pairs({"B1", "B2", "B4", "B7"})
     [] mt = "application/x-www-form-urlencoded" ->
           {<<"B1", Obj(<<"b">>, <<St(<<"s">>)>>), <<>> >>, <<"B1", Obj(<<"a">>, <<Num(4)>>), <<>> >>,
            <<"B1", Obj(<<"a", "b">>, <<Num(4), St(<<"s">>)>>), <<>> >>,
            <<"B8", Obj(<<"a">>, <<Num(4)>>), <<>> >>}      \* (B9 REQUIRES a field it does not declare: C06's)
           \cup {<<"B12", v, <<>> >> : v \in Bodies["B12"] \ {EmptyObj}}
           \cup {<<"B12", Obj(<<"b", "t">>, <<St(<<"s">>), St(<<"u">>)>>), <<>> >>,                       \* undeclared field t, c gets its default
                 <<"B12", Obj(<<"b", "c", "t">>, <<St(<<"s">>), St(<<"y">>), St(<<"u">>)>>), <<>> >>}     \* undeclared field t, nothing to add
           \cup {<<"B18", v, enc>> : v \in XBodies["B18"], enc \in {<<>>, <<"l">>}}
     [] mt = "multipart/form-data" -> {<<"B12", v, <<>> >> : v \in Bodies["B12"] \ {EmptyObj}}
AllSchemas == Schemas @@ XSchemas
XCases == UNION {{<<id, v>> : v \in XBodies[id]} : id \in {"B15", "B16", "B17"}}

VARIABLE case
Init ==
   \* unsized: the body comes from a reader net/http cannot size (ContentLength 0 = unknown; a pipe, a MultiReader)
   \/ \E id \in DOMAIN Schemas, sec \in Secs, preset \in BOOLEAN, skip \in BOOLEAN, ct \in {"application/json", "application/json; charset=utf-8"},
         un \in BOOLEAN, pad \in {"none", "newline", "spaces"} :
        \E v \in Bodies[id] :
           /\ (ct # "application/json" => sec \in {"none", "pass_read"})
           /\ (un => ~preset /\ ct = "application/json")
           \* pad: white space around the JSON text (a trailing newline, as curl --data-binary @file sends; indentation): part of the bytes received
           /\ (pad # "none" => ~un /\ ct = "application/json" /\ sec \in {"none", "pass_read", "fail_read"})
           /\ case = [kind |-> "body", id |-> id, schema |-> Schemas[id], v |-> v, sec |-> sec, preset |-> preset, skip |-> skip, ct |-> ct,
                      mt |-> "application/json", unsized |-> un, pad |-> pad, enc |-> <<>>]
   \* mt: the media type the body is declared with and sent in -- every media type the library has a decoder for that can carry an
   \* object (the JSON family, YAML, urlencoded and multipart forms; forms carry flat objects only: MtIds).  The property speaks of
   \* "the request body", not of JSON.
   \/ \E mt \in OtherMts, sec \in {"none", "pass_read"}, preset \in BOOLEAN, skip \in BOOLEAN :
        \E iv \in MtCases(mt) : LET id == iv[1]  v == iv[2] IN
           case = [kind |-> "body", id |-> id, schema |-> AllSchemas[id], v |-> v, sec |-> sec, preset |-> preset, skip |-> skip, ct |-> mt,
                   mt |-> mt, unsized |-> FALSE, pad |-> "none", enc |-> iv[3]]
   \/ \E iv \in XCases, sec \in {"none", "pass_read"}, preset \in BOOLEAN, skip \in BOOLEAN :
           case = [kind |-> "body", id |-> iv[1], schema |-> AllSchemas[iv[1]], v |-> iv[2], sec |-> sec, preset |-> preset, skip |-> skip,
                   ct |-> "application/json", mt |-> "application/json", unsized |-> FALSE, pad |-> "none", enc |-> <<>>]
   \/ \E loc \in {"query", "header", "cookie"}, shape \in {"int", "str", "arr"}, explode \in {"unset", "true", "false"},
         present \in BOOLEAN, skip \in BOOLEAN, other \in BOOLEAN :
        /\ (shape = "arr" => loc = "query")
        /\ (shape # "arr" => explode = "unset")
        /\ case = [kind |-> "param", loc |-> loc, shape |-> shape, explode |-> explode, present |-> present, skip |-> skip,
                   other |-> other,     \* another query parameter is also present in the request
                   dflt |-> (CASE shape = "int" -> Num(20) [] shape = "str" -> St(<<"d">>) [] shape = "arr" -> Arr(<<Num(4), Num(8)>>))]
Next == UNCHANGED case
Spec == Init /\ [][Next]_case
Emit == CSVWrite("%1$s", <<ToJson(case)>>, "cases.ndjson")

(* D: WithDefaults is a fixed point ("a second validation changes nothing further") and keeps   *)
(* valid bodies valid                                                                           *)
FixedPoint == /\ \A id \in DOMAIN Schemas : \A v \in Bodies[id] :
                   LET w == WithDefaults(Schemas[id], v) IN WithDefaults(Schemas[id], w) = w
              /\ \A id \in DOMAIN XSchemas : \A v \in XBodies[id] :
                   LET w == WithDefaults(XSchemas[id], v) IN WithDefaults(XSchemas[id], w) = w
ASSUME FixedPoint
=============================================================================
