SPECIFICATION Spec
CONSTANT Variant = "bodyByMethod"
INVARIANT ResultIsContract
CHECK_DEADLOCK FALSE
