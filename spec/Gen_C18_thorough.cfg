SPECIFICATION Spec
CONSTANTS W = 3
          WS = 2
          Deep = {"int8", "string", "N1", "RPtrOE"}
          OptSet = {"default", "useall", "export", "exporttop", "useall_export", "tng", "tng_export", "tng_exporttop", "throw", "custom"}
          Reps = 100
          RepW = 0
          Which = "all"
          MutualFull = TRUE
INVARIANTS Emit EmitPoints
CHECK_DEADLOCK FALSE
