SPECIFICATION Spec
CONSTANTS Kinds = {"plain"}
          MixedServerSet = {}
          MixedCoreServers = {}
          MixedMethKeys = {"G", "GP"}
          PlainMethKeys = {"G", "P", "GR"}
          MaxLen = 2
          MaxT = 2
          ServerSet = {"schemes", "ports", "dup", "absbv", "relbv", "absbvx", "relbvx", "abshx", "abspx", "psschemes", "absschv", "schvdup", "psrel", "psvar", "abspe", "abspe2", "abshe"}
          CoreLen = 2
          CoreT = 1
          CoreServers = {"schemes", "ports", "dup", "absbv", "relbv", "absbvx", "relbvx", "abshx", "abspx", "psschemes", "absschv", "schvdup", "psrel", "psvar", "abspe", "abspe2", "abshe"}
          Slice = 6
          Seed = 1
          DesignAll = TRUE
INVARIANTS DesignOK Emit
CHECK_DEADLOCK FALSE
