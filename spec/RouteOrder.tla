----------------------------- MODULE RouteOrder -----------------------------
(***************************************************************************)
(* C15, routers over documents in which ONE request is matched by MORE     *)
(* THAN ONE (path template, server) pair: a concrete path next to a        *)
(* templated sibling (/pets/mine, /pets/{petId}), /a/{x}/c next to         *)
(* /a/{x}/{y}, two servers whose URL spaces overlap.                       *)
(*                                                                         *)
(* L1 (contract).  The route of a request is a function of the document    *)
(* and the request alone: among the pairs that match, the path template    *)
(* with the fewest variables (Paths.InMatchingOrder: concrete before       *)
(* templated), and for that path the server declared first.  Whatever      *)
(* other calls the router has served or is serving -- that is what "every  *)
(* call returns the verdict it returns when run alone" says of FindRoute.  *)
(*                                                                         *)
(* L2 (design).  A router is a list of candidates in priority order and,   *)
(* in the design Hinted, a remembered index of the candidate that matched  *)
(* last, tried first (an atomic: no data race).  Requests arrive in any    *)
(* order from any number of callers; each lookup is one atomic step, which *)
(* is the most favourable assumption for the hinted design.                *)
(*   Stateless: Answer = Prescribed always.   Hinted: counterexample.      *)
(***************************************************************************)
EXTENDS Naturals, Sequences, FiniteSets, TLC
CONSTANTS Hinted, MaxCalls

(* the catalogue's overlap document: path templates as segment sequences ("{}" = a variable), two servers *)
Paths == << <<"pets", "mine">>, <<"pets", "{}">>, <<"a", "{}", "c">>, <<"a", "{}", "{}">> >>
PathName == <<"/pets/mine", "/pets/{petId}", "/a/{x}/c", "/a/{x}/{y}">>
Servers == <<"api", "{}">>                      \* https://api.example.com/v1, https://{tenant}.example.com/v1
ServerName == <<"https://api.example.com/v1", "https://{tenant}.example.com/v1">>
NVars(t) == Cardinality({i \in DOMAIN t : t[i] = "{}"})

(* a request: host label and path segments *)
Requests == [host : {"api", "acme"}, segs : {<<"pets", "mine">>, <<"pets", "7">>, <<"a", "1", "c">>, <<"a", "1", "d">>}]
MatchPath(t, s) == Len(t) = Len(s) /\ \A i \in DOMAIN t : t[i] = "{}" \/ t[i] = s[i]
MatchServer(sv, h) == sv = "{}" \/ sv = h
Matches(c, r) == MatchPath(Paths[c[1]], r.segs) /\ MatchServer(Servers[c[2]], r.host)

(* candidates in the order the router tries them: paths by number of variables (then declaration), servers by declaration *)
Cands == {<<p, s>> : p \in DOMAIN Paths, s \in DOMAIN Servers}
Before(c, d) == \/ NVars(Paths[c[1]]) < NVars(Paths[d[1]])
                \/ (NVars(Paths[c[1]]) = NVars(Paths[d[1]]) /\ c[1] < d[1])
                \/ (c[1] = d[1] /\ c[2] < d[2])
First(r) == CHOOSE c \in Cands : Matches(c, r) /\ \A d \in Cands : Matches(d, r) /\ d # c => Before(c, d)
Routable(r) == \E c \in Cands : Matches(c, r)

(* L1 *)
Prescribed(r) == First(r)
PrescribedName(r) == PathName[First(r)[1]] \o "@" \o ServerName[First(r)[2]]

(* L2 *)
VARIABLES hint,    \* the candidate that matched last (<<0, 0>>: none yet)
          calls,   \* number of lookups served
          last     \* the last lookup: [req, answer]
vars == <<hint, calls, last>>
None == <<0, 0>>
Answer(r) == IF Hinted /\ hint # None /\ Matches(hint, r) THEN hint ELSE First(r)
Init == hint = None /\ calls = 0 /\ last = [req |-> CHOOSE r \in Requests : Routable(r), answer |-> None]
Lookup(r) == /\ calls < MaxCalls /\ Routable(r)
             /\ last' = [req |-> r, answer |-> Answer(r)]
             /\ hint' = IF Hinted THEN Answer(r) ELSE hint
             /\ calls' = calls + 1
Next == \E r \in Requests : Lookup(r)
Spec == Init /\ [][Next]_vars

AnswerIsPrescribed == calls > 0 => last.answer = Prescribed(last.req)

(* the three shapes of the catalogue (SharedState!RouteShapes) and the requests of their variants *)
ShapeRequests(f) ==
   CASE f = "overlap_sibling" -> <<[host |-> "api", segs |-> <<"pets", "mine">>], [host |-> "api", segs |-> <<"pets", "7">>], [host |-> "api", segs |-> <<"pets", "mine">>]>>
     [] f = "overlap_deep" -> <<[host |-> "api", segs |-> <<"a", "1", "c">>], [host |-> "api", segs |-> <<"a", "1", "d">>], [host |-> "api", segs |-> <<"a", "1", "c">>]>>
     [] f = "overlap_servers" -> <<[host |-> "api", segs |-> <<"pets", "7">>], [host |-> "acme", segs |-> <<"pets", "7">>], [host |-> "api", segs |-> <<"pets", "7">>]>>
Routes(f) == [v \in 1..3 |-> PrescribedName(ShapeRequests(f)[v])]
RoutePaths(f) == [v \in 1..3 |-> PathName[First(ShapeRequests(f)[v])[1]]]
=============================================================================
