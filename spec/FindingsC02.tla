----------------------------- MODULE FindingsC02 -----------------------------
(* Finding classes for C02 (known_findings.json).  Each is the conjunction of a syntactic   *)
(* trigger and the specific wrong observation.                                              *)
EXTENDS Layout

(* F-C02-1 (repaired): positions the loader's walk never visited: entries of components.links, the       *)
(* `examples` of parameters and headers, the `headers` of media-type encodings.  The ref is  *)
(* left unresolved (Value = nil), also when it is dangling.                                  *)
UnvisitedSite(s) ==
   /\ s.got = "nil"
   /\ \/ (Len(s.segs) >= 2 /\ s.segs[1] = "Components" /\ s.segs[2] = "Links")
      \/ (s.kind = "examples" /\ Len(s.segs) >= 1 /\ s.segs[1] = "Examples")
      \/ (\E i \in DOMAIN s.segs : s.segs[i] = "Encoding")

(* F-C02-2: the in-progress set of the loader is keyed by the raw ref string, so the same     *)
(* string occurring in two files while one of them is being resolved is conflated.            *)
RefSites(u) == {[file |-> Root, ref |-> u.use.ref]}
               \cup UNION {IF IsConcrete(u.slots[i].c)
                           THEN {[file |-> u.slots[i].file, ref |-> u.slots[i].c.ch[j].ref] : j \in DOMAIN u.slots[i].c.ch}
                           ELSE {[file |-> u.slots[i].file, ref |-> u.slots[i].c.ref]} : i \in DOMAIN u.slots}
SameTextInTwoFiles(u, s) ==
   \E a, b \in RefSites(u) : a.file # b.file /\ RefText(a.ref) = s.ref /\ RefText(b.ref) = s.ref
Conflated(u, s) == s.got \notin {"nil", "noid"} /\ SameTextInTwoFiles(u, s)

(* F-C02-3: a cycle made only of references (no concrete object on it) is left unresolved     *)
(* instead of being reported.                                                                 *)
PureCycle(u, s) ==
   /\ s.got = "nil"
   /\ \E r \in {x.ref : x \in RefSites(u)} : RefText(r) = s.ref /\ r.frag # <<>>
         /\ LET d == Designated(u, FileOfId(u, s.owner), r, s.kind) IN "fail" \in DOMAIN d /\ d.fail = "cycle"

(* F-C02-5 (repaired, f4a43a7): a JSON pointer that goes BELOW a header component ("#/components/headers/H/schema", ".../examples/e"): the typed    *)
(* walk of the fragment (drillIntoField) matches the fields of a struct by their own tags and never looks into an embedded struct; *)
(* Header is `struct{ Parameter }`, so no field of a header is ever found and a valid document fails to load.                      *)
PointerBelowHeader(u) == \E x \in RefSites(u) : x.ref.frag # <<>> /\ x.ref.frag[1] = "#compinl" /\ x.ref.frag[2] = "headers"

Class(line, bad, badsites) ==
   LET u == line.c.u IN
   IF line.load = "error" /\ bad = {"valid_document_loads"} /\ PointerBelowHeader(u) THEN "pointer_below_header_component"
   ELSE IF line.load # "ok" \/ badsites = <<>> THEN "none"
   \* F-C02-1 is repaired (9986135, d78e043, 326f29b): UnvisitedSite no longer names a class
   ELSE IF \A i \in DOMAIN badsites : Conflated(u, badsites[i]) THEN "raw_ref_string_conflation"
   ELSE IF \A i \in DOMAIN badsites : PureCycle(u, badsites[i]) THEN "pure_ref_cycle_left_unresolved"
   \* (the two classes of a used Loader come last: a pure reference cycle or a conflation seen through such an entry keeps its own class)
   (* F-C02-6 (repaired, fcc1715): what a FAILED load left behind in the Loader.  The document under way stays in the visited-documents cache      *)
   (* (loadFromDataWithPathInternal enters it before resolving and never removes it), so loading the same location again hands    *)
   (* out that half-resolved document as a success; and the in-progress reference set keeps the references that were open when    *)
   (* the error struck, so ResolveRefsIn (which resets nothing on a used Loader) leaves those references unresolved.              *)
   ELSE IF line.c.entry \in {"file_abs_retry", "resolvein_retry"} /\ \A i \in DOMAIN badsites : badsites[i].got = "nil" THEN "failed_load_leaves_state"
   (* F-C02-7: the visited-documents cache is never reset, so it survives from one load to the next: a document first met in an    *)
   (* EARLIER load of the same Loader (entry file_abs_prior: every external file was loaded as a root of its own before) is handed   *)
   (* out as that load left it -- (before fcc1715 also: resolved by halves when that load failed, whole_localdangling) with a        *)
   (* reference left nil                                                                                                             *)
   (* because it was "in progress" in that load's context (crossdoc_local: the root met as an external document of a.json).          *)
   ELSE IF line.c.entry = "file_abs_prior" /\ \A i \in DOMAIN badsites : badsites[i].got = "nil" THEN "cache_serves_earlier_load"
   ELSE "none"
=============================================================================
